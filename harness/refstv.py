"""
Independent textbook STV count on the uncondensed ballots (shares no code with votekit or with the
Lean model). Used as the C02/C01/C07 monitor oracle.

ballots: list of (ranking as list of candidate ids, Fraction weight); candidates: list of ids.
`tie_log`: the results of the random tie-break draws, in call order (list of lists of ids).
Returns dict(status, threshold, rounds) where status in
  'OK' | 'TOP-TIE' (one-by-one, tie at the top, no tiebreak) | 'NEED-DRAW' (log exhausted)
  | 'OVERFILL' (more winners than seats) | 'ZERO-QUOTA' | 'SAMPLE-TOO-LARGE' | 'NONINT'
"""
import math
from fractions import Fraction as F


def groups(score, cands):
    vals = sorted(set(score[c] for c in cands), reverse=True)
    return [sorted(c for c in cands if score[c] == v) for v in vals]


def ref_stv(ballots, cands, m, quota="droop", simultaneous=True, mode="frac", tiebreak=None,
            tie_log=None, samples=None, borda=None):
    """mode: 'frac' | 'full' | 'random' (random needs `samples`: winner -> {continuing ranking tuple: kept})"""
    tie_log = list(tie_log or [])
    N = sum((w for _, w in ballots), F(0))
    q = math.floor(N / (m + 1) + 1) if quota == "droop" else math.floor(N / m)
    W = [F(w) for _, w in ballots]
    R = [list(r) for r, _ in ballots]
    hopeful = list(cands)
    elected = []

    def top(i):
        for c in R[i]:
            if c in hopeful:
                return c
        return None

    def tally():
        t = {c: F(0) for c in hopeful}
        for i in range(len(R)):
            c = top(i)
            if c is not None:
                t[c] += W[i]
        return t

    def draw(group):
        if not tie_log:
            return None
        o = tie_log.pop(0)
        if sorted(o) != sorted(group):
            return None
        return o

    init = tally()
    t = tally()
    rounds = [dict(elected=[], eliminated=[], remaining=groups(t, hopeful), scores=dict(t), tiebreak=None)]
    out = dict(threshold=q, rounds=rounds)
    while len(elected) != m:
        if len(elected) > m:
            out["status"] = "OVERFILL"
            return out
        if not hopeful and not any(t[c] >= q for c in hopeful):
            out["status"] = "OVERFILL" if len(elected) > m else "STUCK"
            return out
        above = [c for c in hopeful if t[c] >= q]
        tb_rec = None
        if above:
            if simultaneous:
                el_groups = [g for g in groups(t, hopeful) if t[g[0]] >= q]
            else:
                g0 = groups(t, hopeful)[0]
                if len(g0) > 1:
                    if tiebreak is None:
                        out["status"] = "TOP-TIE"
                        out["round"] = len(rounds)
                        return out
                    order = order_group(g0, tiebreak, R, W, hopeful, draw)
                    if order is None:
                        out["status"] = "NEED-DRAW"
                        return out
                    tb_rec = (g0, order)
                    el_groups = [[order[0]]]
                else:
                    el_groups = [g0]
            el = [c for g in el_groups for c in g]
            for c in el:
                if mode == "frac":
                    if t[c] == 0:
                        out["status"] = "ZERO-QUOTA"
                        return out
                    for i in range(len(R)):
                        if top(i) == c:
                            W[i] = W[i] * (t[c] - q) / t[c]
                elif mode == "random":
                    led = [i for i in range(len(R)) if top(i) == c]
                    if any(W[i].denominator != 1 for i in led):
                        out["status"] = "NONINT"
                        return out
                    cont = {i: tuple(x for x in R[i] if x in hopeful and x != c) for i in led}
                    transferable = sum(W[i] for i in led if cont[i])
                    k = int(t[c]) - q
                    if k > transferable or k < 0:
                        out["status"] = "SAMPLE-TOO-LARGE"
                        return out
                    keep = dict((samples or {}).get(c, {}))
                    if sum(keep.values()) != k:
                        out["status"] = "NEED-DRAW"
                        return out
                    for i in led:
                        if not cont[i]:
                            W[i] = F(0)
                            continue
                        g = min(int(W[i]), keep.get(cont[i], 0))
                        keep[cont[i]] = keep.get(cont[i], 0) - g
                        W[i] = F(g)
                    if any(v != 0 for v in keep.values()):
                        out["status"] = "NEED-DRAW"
                        return out
            hopeful = [c for c in hopeful if c not in el]
            elected += el
            elim = []
        elif len(hopeful) == m - len(elected):
            el_groups = groups(t, hopeful)
            elected += [c for g in el_groups for c in g]
            hopeful = []
            elim = []
            W = [F(0)] * len(W)
        else:
            if not hopeful:
                out["status"] = "STUCK"
                return out
            low = groups(t, hopeful)[-1]
            if len(low) > 1:
                # lowest *initial* first-place tally goes first, then at random
                gs = groups(init, low)
                order = []
                for g in gs:
                    if len(g) > 1:
                        o = draw(g)
                        if o is None:
                            out["status"] = "NEED-DRAW"
                            return out
                        order += o
                    else:
                        order += g
                tb_rec = (low, order)
                x = order[-1]
            else:
                x = low[0]
            hopeful = [c for c in hopeful if c != x]
            el_groups = []
            elim = [[x]]
        t = tally()
        rounds.append(dict(elected=el_groups, eliminated=elim, remaining=groups(t, hopeful) if hopeful else [],
                           scores=dict(t), tiebreak=tb_rec,
                           weights=list(W)))
    out["status"] = "OK"
    out["elected"] = elected
    return out


def positional(R, W, hopeful, vec):
    """scores of the *current* profile (ballots restricted to hopeful) under a positional vector,
    unlisted candidates sharing the remaining points"""
    n = len(hopeful)
    v = [F(x) for x in vec] + [F(0)] * n
    sc = {c: F(0) for c in hopeful}
    for r, w in zip(R, W):
        cur = [c for c in r if c in hopeful]
        if not cur or w <= 0:
            continue
        for i, c in enumerate(cur):
            sc[c] += v[i] * w
        miss = [c for c in hopeful if c not in cur]
        if miss:
            share = sum(v[len(cur):len(cur) + len(miss)], F(0)) / len(miss)
            for c in miss:
                sc[c] += share * w
    return sc


def order_group(g, tiebreak, R, W, hopeful, draw):
    if tiebreak == "random":
        return draw(g)
    n = len(hopeful)
    vec = list(range(n, 0, -1)) if tiebreak == "borda" else [1]
    sc = positional(R, W, hopeful, vec)
    order = []
    for sub in groups(sc, g):
        if len(sub) > 1:
            o = draw(sub)
            if o is None:
                return None
            order += o
        else:
            order += sub
    return order
