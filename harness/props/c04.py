"""C04 — positional scores follow the definition exactly; Plurality/SNTV/Borda elect the top m."""
from fractions import Fraction
from .. import gen, elect
from ..common import Names, rat, run_impl

PROP = "C04"
LEAN_MODULE = "VK.Check.C04"
THEOREMS = [
    "VK.C04_alloc_total",
    "VK.C04_ballot_total",
    "VK.C04_score_spec",
    "VK.scoreToRanking_descending",
    "VK.C04_elect_top",
    "VK.C04_topM_winners_have_top_scores",
    "VK.kernel_validVector_one",
    "VK.kernel_validVector_step",
]
RULE = ("cases = (utility in {score_profile_from_rankings, first_place_votes, mentions, borda_scores} | "
        "rule in {Plurality, SNTV, Borda}) x random profile (1-6 candidates, 0-10 ballots, tied positions of "
        "size 2-4, partial ballots, zero-vote candidates, int/rational weights) x score vector (shorter/equal/"
        "longer than n; int, Fraction or float entries) x m x tiebreak; non-trivial = at least one ballot; "
        "distinct = distinct (input, configuration)")
TRUSTED = ["modelled, not verified: pydantic field validation; float score-vector entries are taken at their "
           "exact binary value (Fraction(float))"]
ASSUMPTIONS = ["weights positive; declared candidates include every cast candidate"]
EXPLANATION = ("Theorems: each ballot's allocated points sum to the vector total (exact division), candidate scores "
               "are the weight-summed declarative points, elect_cands returns exactly m candidates none of whom is "
               "below a non-elected one. Correspondence: the four utilities and three rules run on the same inputs "
               "as the Lean definitions. Monitors: per-profile point total and independent reference scoring.")

N_QUICK, N_THOROUGH = 1600, 57600


def gen_vector(rng, n):
    kind = rng.choice(["int", "frac", "float", "int", "borda"])
    ln = rng.choice([max(1, n - 2), max(1, n - 1), n, n, n + 1, n + 3])
    if kind == "borda":
        vals = list(range(ln, 0, -1))
    else:
        cur = rng.randint(1, 12)
        vals = []
        for _ in range(ln):
            vals.append(cur)
            if rng.random() < 0.7:
                cur = max(0, cur - rng.randint(0, 3))
    if kind == "frac":
        d = rng.choice([2, 3, 7])
        py = [Fraction(v, d) for v in vals]
    elif kind == "float":
        py = [v * 0.1 for v in vals]      # 0.1 multiples: inexact binary values
    else:
        py = list(vals)
    return {"kind": kind, "py": py, "model": [rat(v) for v in py]}


def cases(rng, tier, shard, nshards, phase):
    if phase == "corpus":
        if shard == 0:
            # F-C04 witness: one ballot tying three candidates in first place
            yield {"op": "fpv", "spec": {"names": ["A", "B", "C"], "b": [{"r": [[0, 1, 2]], "w": "1", "s": []}], "c": [0, 1, 2]}}
            yield {"op": "borda", "spec": {"names": ["A", "B", "C", "D"], "b": [{"r": [[3], [0, 1, 2]], "w": "2", "s": []}], "c": [0, 1, 2, 3]}}
        return
    total = N_THOROUGH if tier == "thorough" else N_QUICK
    if phase.startswith("search"):
        total = total * 2
    for i in range(total // nshards):
        k = rng.random()
        spec = gen.gen_ranked_spec(rng, nmin=1, nmax=6, ties=True, partial=True, bmin=0 if rng.random() < 0.1 else 1)
        n = len(spec["c"])
        if k < 0.35:
            v = gen_vector(rng, n)
            yield {"op": "score", "spec": spec, "vector": v["model"], "vkind": v["kind"],
                   "vector_py": [str(x) if isinstance(x, Fraction) else x for x in v["py"]]}
        elif k < 0.45:
            yield {"op": "fpv", "spec": spec}
        elif k < 0.52:
            yield {"op": "mentions", "spec": spec}
        elif k < 0.60:
            yield {"op": "borda", "spec": spec}
        else:
            rule = rng.choice(["Plurality", "SNTV", "Borda"])
            cfg = {"m": rng.randint(1, n), "tiebreak": rng.choice([None, None, "random", "borda", "first_place"])}
            if rule == "Borda" and rng.random() < 0.5:
                v = gen_vector(rng, n)
                cfg["vector"] = v["model"]
                cfg["vector_py"] = [str(x) if isinstance(x, Fraction) else x for x in v["py"]]
                cfg["vkind"] = v["kind"]
            yield {"op": "rule", "rule": rule, "cfg": cfg, "spec": spec, "rs": rng.randint(0, 10 ** 9)}


def py_vector(case_vec, kind):
    if kind == "frac":
        return [Fraction(x) for x in case_vec]
    return list(case_vec)


def ref_scores(spec, vec):
    """independent reference: weight-summed points, exact"""
    n = len(spec["c"])
    v = [Fraction(x) for x in vec] + [Fraction(0)] * max(0, n - len(vec))
    sc = {c: Fraction(0) for c in spec["c"]}
    for b in spec["b"]:
        listed = [c for s in b["r"] for c in s]
        pos = [list(s) for s in b["r"]]
        miss = [c for c in spec["c"] if c not in listed]
        if miss:
            pos.append(miss)
        i = 0
        for s in pos:
            pts = sum(v[i:i + len(s)], Fraction(0)) / len(s)
            for c in s:
                sc[c] += pts * Fraction(b["w"])
            i += len(s)
    return sc


def run_case(vk, case):
    from votekit import utils as U
    spec = case["spec"]
    names = Names(spec["names"])
    profile = gen.build_profile(vk, spec)
    n = len(spec["c"])
    tags = [f"op:{case['op']}", f"n:{n}", f"ballots:{min(len(spec['b']), 10)}"]
    if any(len(s) > 1 for b in spec["b"] for s in b["r"]):
        tags.append("has-tied-position")
    if any(sum(len(s) for s in b["r"]) < n for b in spec["b"]):
        tags.append("has-partial-ballot")
    monitors = []
    op = case["op"]
    if op in ("score", "fpv", "mentions", "borda"):
        if op == "score":
            vec_py = [Fraction(x) if isinstance(x, str) else x for x in case["vector_py"]]
            out = run_impl(lambda: U.score_profile_from_rankings(profile, vec_py))
            req = {"op": "score_rankings", "profile": gen.model_profile(spec), "vector": case["vector"]}
            vec_exact = [Fraction(x) for x in case["vector"]]
            tags.append(f"vector:{case['vkind']}:{'short' if len(vec_exact) < n else 'long' if len(vec_exact) > n else 'equal'}")
        elif op == "fpv":
            out = run_impl(lambda: U.first_place_votes(profile))
            req = {"op": "fpv", "profile": gen.model_profile(spec)}
            vec_exact = [Fraction(1)] + [Fraction(0)] * n
        elif op == "borda":
            out = run_impl(lambda: U.borda_scores(profile))
            req = {"op": "borda", "profile": gen.model_profile(spec)}
            vec_exact = [Fraction(k) for k in range(n, 0, -1)]
        else:
            out = run_impl(lambda: U.mentions(profile))
            req = {"op": "mentions", "profile": gen.model_profile(spec)}
            vec_exact = None
        if out[0] == "ok":
            expect = {"ok": names.scores(out[1])}
            if vec_exact is not None:
                tot = sum(Fraction(v) for v in out[1].values())
                want = sum(Fraction(b["w"]) for b in spec["b"]) * sum(vec_exact[:n], Fraction(0))
                if tot != want:
                    monitors.append({"name": "ballot-point-total", "detail": f"points handed out {tot} != weight*vector total {want}",
                                     "failure": {"rule": "score_profile_from_rankings", "kind": "inexact-total"}})
                ref = ref_scores(spec, vec_exact)
                got = {names.idx[str(c)]: Fraction(v) for c, v in out[1].items()}
                if got != ref:
                    monitors.append({"name": "score-definition", "detail": f"scores {got} != reference {ref}",
                                     "failure": {"rule": "score_profile_from_rankings", "kind": "inexact-total" if tot != want else "wrong-score"}})
                if any(not isinstance(v, Fraction) for v in out[1].values()):
                    monitors.append({"name": "exact-type", "detail": "non-Fraction score", "failure": {"rule": "score", "kind": "type"}})
            # the to_float=True variant is the rounding of the exact result, candidate by candidate
            fl = run_impl({"score": lambda: U.score_profile_from_rankings(profile, vec_py, to_float=True) if op == "score" else None,
                           "fpv": lambda: U.first_place_votes(profile, to_float=True),
                           "borda": lambda: U.borda_scores(profile, to_float=True),
                           "mentions": lambda: U.mentions(profile, to_float=True)}[op])
            if fl[0] != "ok":
                monitors.append({"name": "float-variant-raises", "detail": str(fl[1])[:200], "failure": {"rule": op, "kind": "float-variant"}})
            else:
                bad = [str(c) for c, v in out[1].items() if repr(fl[1].get(c)) != repr(float(Fraction(v)))]
                if bad:
                    c = bad[0]
                    monitors.append({"name": "float-variant-is-not-the-rounded-exact-score",
                                     "detail": f"{c}: to_float gives {fl[1].get(c)!r}, exact {out[1][c]} rounds to {float(Fraction(out[1][c]))!r}",
                                     "failure": {"rule": op, "kind": "float-variant"}})
        else:
            expect = {"exn": out[1]}
        return {"req": req, "expect": expect, "monitors": monitors, "tags": tags, "nontrivial": len(spec["b"]) > 0}
    # elections
    rule, cfg = case["rule"], dict(case["cfg"])
    if cfg.get("vector_py") is not None:
        cfg["vector_py"] = [Fraction(x) if isinstance(x, str) else x for x in cfg["vector_py"]]
    res = elect.construct(vk, rule, profile, cfg, case["rs"])
    req = elect.model_request(rule, spec, cfg, res, names)
    expect = elect.expect_states(res, names)
    tags.append(f"rule:{rule}:{res['status']}" + (f":{res.get('exn')}" if res["status"] == "exn" else ""))
    if res["status"] == "ok":
        e = res["e"]
        s0 = {c: Fraction(v) for c, v in e.election_states[0].scores.items()}
        if rule == "Borda" and cfg.get("vector") is not None:
            ref = ref_scores(spec, [Fraction(x) for x in cfg["vector"]])
        elif rule == "Borda":
            ref = ref_scores(spec, list(range(n, 0, -1)))
        else:
            ref = ref_scores(spec, [1])
        got = {names.idx[str(c)]: v for c, v in s0.items()}
        if got != ref:
            monitors.append({"name": "round0-scores", "detail": f"{got} != {ref}", "failure": {"rule": rule, "kind": "inexact-total"}})
        el_groups = [sorted(g) for g in e.get_elected() if len(g)]
        el = [c for g in el_groups for c in g]
        rest = [c for c in profile.candidates if c not in el]
        if len(el) != cfg["m"]:
            monitors.append({"name": "winner-count", "detail": f"{len(el)} != m={cfg['m']}", "failure": {"rule": rule, "kind": "count"}})
        if any(s0[r] > s0[w] for w in el for r in rest):
            monitors.append({"name": "top-m", "detail": f"elected {el} scores {s0}", "failure": {"rule": rule, "kind": "not-top"}})
        seq = [s0[g[0]] for g in el_groups]
        if any(seq[i] < seq[i + 1] for i in range(len(seq) - 1)) or any(len({s0[c] for c in g}) > 1 for g in el_groups):
            monitors.append({"name": "descending-groups", "detail": f"{el_groups} {s0}", "failure": {"rule": rule, "kind": "order"}})
        for f in elect.score_class_failures(e, "first"):
            monitors.append(dict(f, failure={"rule": rule, "kind": "tie-reporting"}))
        if e.election_states[1].tiebreaks:
            tags.append("tiebreak-recorded")
    return {"req": req, "expect": expect, "monitors": monitors, "tags": tags, "nontrivial": len(spec["b"]) > 0}


def compare(model, expect):
    if "ok" in expect and isinstance(expect["ok"], dict) and "states" in expect["ok"]:
        return elect.compare_states(model, expect)
    return None if model == expect else "model != implementation"
