"""C05 — score-ballot elections enforce their limits and elect the top m totals."""
from fractions import Fraction
from .. import gen, elect
from ..common import Names, rat
from . import c01

PROP = "C05"
LEAN_MODULE = "VK.Check.C05"
THEOREMS = [
    "VK.C05_ballot_ok_iff",
    "VK.C05_accept",
    "VK.C05_reject_is_typeError",
    "VK.C05_totals",
    "VK.C05_subclass_params",
    "VK.C04_elect_top",
    "VK.kernel_rating_validator",
]
RULE = ("cases = class in {GeneralRating, Rating, Limited, Cumulative, Approval, BlocPlurality} x score profile (1-6 "
        "candidates, candidates scored by nobody, rational scores and weights) x m x L x k x tiebreak; 45% of the "
        "profiles violate exactly one limit (score above L, negative score, budget above k, ballot without scores, "
        "ranking-only ballot) by 1/10^6 or grossly with the offending ballot first, in the middle or last; "
        "non-trivial = at least one ballot; distinct = distinct (class, parameters, profile)")
TRUSTED = ["modelled, not verified: pydantic conversion of scores (zero scores dropped, Fraction.limit_denominator)"]
ASSUMPTIONS = ["positive weights; declared candidates include every scored candidate"]
EXPLANATION = ("Theorems: the validator accepts a ballot iff it has scores, all within [0, L], and within the budget; a "
               "profile is accepted iff every ballot is; rejection is TypeError and produces no state list; totals are "
               "sum over ballots of weight x score; subclass parameterisation.")

N_QUICK, N_THOROUGH = 2400, 86400
CLASSES = ["GeneralRating", "Rating", "Limited", "Cumulative", "Approval", "BlocPlurality"]


def params(rng, rule, n):
    m = rng.randint(1, n)
    cfg = {"m": m, "tiebreak": rng.choice([None, None, "random"])}
    L, k = None, None
    if rule == "GeneralRating":
        L = Fraction(rng.choice([1, 2, 3, Fraction(5, 2)]))
        cfg["L"] = rat(L)
        if rng.random() < 0.6:
            k = L + Fraction(rng.randint(0, 4), rng.choice([1, 2]))
            cfg["k"] = rat(k)
    elif rule == "Rating":
        L = Fraction(rng.choice([1, 2, 5, Fraction(5, 2)]))
        cfg["L"] = rat(L)
    elif rule == "Limited":
        k = Fraction(rng.randint(1, m))
        cfg["k"] = rat(k)
        L = k
    elif rule == "Cumulative":
        L = k = Fraction(m)
    elif rule == "Approval":
        L = Fraction(1)
    else:
        L = Fraction(1)
        if rng.random() < 0.5:
            k = Fraction(rng.randint(1, n))
            cfg["k"] = rat(k)
        else:
            k = Fraction(m)
    return cfg, L, k


def cases(rng, tier, shard, nshards, phase):
    if phase == "corpus":
        return
    total = N_THOROUGH if tier == "thorough" else N_QUICK
    if phase.startswith("search"):
        total *= 2
    for _ in range(total // nshards):
        if rng.random() < 0.04:
            # totals that differ by one vote far above 2**53 - unequal, but equal as floats - with the LOWER total
            # listed first: the top m are still the highest exact totals, and no tie exists
            n = rng.randint(2, 5)
            rule = rng.choice(["Approval", "Rating", "BlocPlurality"])
            cfg = {"m": rng.randint(1, n - 1), "tiebreak": None}
            if rule == "Rating":
                cfg["L"] = "1"
            if rule == "BlocPlurality":
                cfg["k"] = rat(n)
            bs = [{"r": [], "w": str(10 ** 16), "s": [[c, "1"] for c in range(n)]}]
            for c in range(n):
                bs.append({"r": [], "w": str(c + 1), "s": [[c, "1"]]})      # candidate c totals 10**16 + c + 1
            rng.shuffle(bs)
            yield {"rule": rule, "cfg": cfg, "spec": {"names": gen.gen_names(rng, n), "b": bs, "c": list(range(n))},
                   "viol": None, "rs": rng.randint(0, 10 ** 9), "near_equal_huge": True, "L": "1",
                   "k": rat(n) if rule == "BlocPlurality" else None}
            continue
        rule = rng.choice(CLASSES)
        n = rng.randint(1, 6)
        cfg, L, k = params(rng, rule, n)
        spec = gen.gen_score_spec(rng, n=n, L=L, budget=k, bmin=1, bmax=7)
        viol = None
        if rng.random() < 0.45 and spec["b"]:
            pos = rng.choice(["first", "middle", "last"])
            idx = 0 if pos == "first" else len(spec["b"]) - 1 if pos == "last" else len(spec["b"]) // 2
            b = spec["b"][idx]
            eps = Fraction(1, 10 ** 6) if rng.random() < 0.6 else Fraction(rng.randint(1, 5))
            kind = rng.choice(["over-L", "negative", "over-k", "no-scores", "ranking-only", "at-L", "at-k"])
            if kind == "over-L":
                b["s"] = [[b["s"][0][0], rat(L + eps)]] + ([] if k is not None else b["s"][1:])
                if k is not None and L + eps > k:
                    kind = "over-L-and-k"
            elif kind == "negative":
                b["s"] = b["s"] + [] if len(b["s"]) > 1 else b["s"]
                b["s"][0] = [b["s"][0][0], rat(-eps)]
            elif kind == "over-k":
                if k is None or n < 2:
                    kind = None
                else:
                    # scores each <= L but summing to k + eps
                    cs = list(range(n))
                    rng.shuffle(cs)
                    target = k + min(eps, Fraction(1, 2))
                    sc, left = [], target
                    for c in cs:
                        v = min(L, left)
                        if v > 0:
                            sc.append([c, rat(v)])
                            left -= v
                    if left > 0:
                        kind = None
                    else:
                        b["s"] = sorted(sc)
            elif kind == "no-scores":
                b["s"] = []
            elif kind == "ranking-only":
                b["s"] = []
                b["r"] = [[rng.randrange(n)]]
            elif kind == "at-L":
                b["s"] = [[b["s"][0][0], rat(L)]]
            elif kind == "at-k":
                if k is None:
                    kind = None
                else:
                    cs = list(range(n))
                    rng.shuffle(cs)
                    sc, left = [], k
                    for c in cs:
                        v = min(L, left)
                        if v > 0:
                            sc.append([c, rat(v)])
                            left -= v
                    if left > 0:
                        kind = None
                    else:
                        b["s"] = sorted(sc)
            viol = f"{kind}:{pos}" if kind else None
        yield {"rule": rule, "cfg": cfg, "spec": spec, "viol": viol, "rs": rng.randint(0, 10 ** 9),
               "L": rat(L), "k": rat(k) if k is not None else None}


def accept_ref(spec, L, k):
    for b in spec["b"]:
        if not b["s"]:
            return False
        vals = [Fraction(v) for _, v in b["s"]]
        if any(v > L for v in vals) or any(v < 0 for v in vals):
            return False
        if k is not None and sum(vals) > k:
            return False
    return True


def run_case(vk, case):
    rule, cfg, spec = case["rule"], dict(case["cfg"]), case["spec"]
    names = Names(spec["names"])
    L = Fraction(case["L"])
    k = Fraction(case["k"]) if case["k"] is not None else None
    tags = [f"class:{rule}", f"violation:{case['viol']}"]
    try:
        profile = gen.build_profile(vk, spec)
    except Exception as ex:  # pydantic rejects? not expected
        return {"req": None, "expect": None, "monitors": [{"name": "profile-construction", "detail": repr(ex)[:200],
                "failure": {"rule": rule, "kind": "construction", "cause": "unexplained"}}], "tags": tags}
    res = elect.construct(vk, rule, profile, cfg, case["rs"])
    monitors = []
    ok_ref = accept_ref(spec, L, k)
    tags.append(f"status:{res['status']}" + (f":{res.get('exn')}" if res["status"] == "exn" else ""))
    totals = {c: Fraction(0) for c in spec["c"]}
    for b in spec["b"]:
        for c, v in b["s"]:
            totals[c] += Fraction(v) * Fraction(b["w"])
    if not ok_ref:
        if not (res["status"] == "exn" and res["exn"] == "TypeError"):
            monitors.append({"name": "invalid-profile-accepted", "detail": f"{res['status']} {res.get('exn')} for violation {case['viol']}",
                             "failure": {"rule": rule, "kind": "accepts-invalid", "cause": "unexplained"}})
    else:
        if res["status"] == "exn" and res["exn"] == "TypeError":
            monitors.append({"name": "valid-profile-rejected", "detail": res.get("msg", ""),
                             "failure": {"rule": rule, "kind": "rejects-valid", "cause": "unexplained"}})
        elif res["status"] == "exn" and res["exn"] == "ValueError":
            if cfg.get("tiebreak") is not None or not c01.boundary_tie(totals, cfg["m"]):
                monitors.append({"name": "illegitimate-ValueError", "detail": res.get("msg", ""),
                                 "failure": {"rule": rule, "kind": "exception:ValueError", "cause": "unexplained"}})
            else:
                tags.append("legit-boundary-tie")
        elif res["status"] != "ok":
            monitors.append({"name": "escaped-exception", "detail": res.get("msg", ""),
                             "failure": {"rule": rule, "kind": f"exception:{res.get('exn')}", "cause": "unexplained"}})
        else:
            e = res["e"]
            got = {names.idx[str(c)]: Fraction(v) for c, v in e.election_states[0].scores.items()}
            if got != totals:
                monitors.append({"name": "totals", "detail": f"{got} != {totals}", "failure": {"rule": rule, "kind": "totals", "cause": "unexplained"}})
            el = [names.idx[str(c)] for g in e.get_elected() for c in g]
            rest = [c for c in spec["c"] if c not in el]
            if len(el) != cfg["m"] or any(totals[r] > totals[w] for w in el for r in rest):
                monitors.append({"name": "top-m", "detail": f"elected {el} totals {totals}", "failure": {"rule": rule, "kind": "not-top", "cause": "unexplained"}})
            if cfg.get("tiebreak") is None and c01.boundary_tie(totals, cfg["m"]):
                monitors.append({"name": "tie-not-reported", "detail": f"{totals} m={cfg['m']}", "failure": {"rule": rule, "kind": "tie-silently-broken", "cause": "unexplained"}})
    req = elect.model_request(rule, spec, cfg, res, names)
    return {"req": req, "expect": elect.expect_states(res, names), "monitors": monitors, "tags": tags,
            "nontrivial": len(spec["b"]) > 0}


compare = elect.compare_states
