"""C19 — Lp profile distance is a true metric; the ballot graph is complete and exact."""
import math, itertools
from fractions import Fraction
from .. import gen
from ..common import Names, rat, run_impl

PROP = "C19"
LEAN_MODULE = "VK.Check.C19"
THEOREMS = [
    "VK.C19_symm",
    "VK.C19_zero_iff",
    "VK.C19_triangle",
    "VK.C19_inf_triangle",
    "VK.C19_share_scale_invariant",
    "VK.C19_share_perm_invariant",
    "VK.C19_seqs_spec",
    "VK.C19_nodes",
    "VK.C19_edges",
    "VK.C19_adj_symm",
    "VK.C19_fix_short",
    "VK.C19_nodes_nodup",
    "VK.C19_node_weights_total",
    "VK.C19_node_weight",
    "VK.C19_lpPow_eq_sum",
    "VK.C19_lpD_symm",
    "VK.C19_lpD_zero_iff",
    "VK.C19_lpD_triangle",
    "VK.relabel_isNode",
    "VK.isNode_relabel",
    "VK.adj_iff",
    "VK.C19_rec_nodes",
    "VK.relabel_adj",
    "VK.build_edges_sound",
    "VK.build_edges_complete_half",
    "VK.C19_rec_edges",
    "VK.C19_rec_no_loops",
]
RULE = ("cases = (a) triples of profiles over a common candidate set (2-5 candidates, untied rankings, partial ballots, "
        "rational weights; the second is a permuted / condensed / rescaled / perturbed copy of the first or independent) "
        "x p in {1,2,3,4,'inf'}: lp_dist against the exact power sum of the model (relative 1e-9, exact zero must be exact "
        "zero), symmetry, invariance and the triangle inequality on the implementation's own numbers; (b) BallotGraph(n) "
        "for n = 2..6 compared exhaustively (all nodes, all edges) with the specification; (c) node weights of random "
        "profiles loaded onto the graph; non-trivial = all; distinct = distinct inputs")
TRUSTED = ["modelled, not verified: numpy float arithmetic in lp_dist (compared numerically); networkx containers and "
           "nx.relabel_nodes (node / edge sets: repetitions and orientation of added edges do not matter). The recursive "
           "build_graph/_relabel construction is mirrored by Model/BallotGraphRec and PROVED equal to the specification "
           "for every n (C19_rec_nodes, C19_rec_edges); for n = 2..6 the implementation's graph is compared exhaustively "
           "with both the specification and the recursion model on every run"]
ASSUMPTIONS = ["profiles share the candidate set; ballots untied; positive total weight"]
EXPLANATION = ("Theorems: the p-norm of the difference of two finitely supported distributions is symmetric, zero iff "
               "the distributions agree, and satisfies the triangle inequality (Minkowski, Mathlib) for every p >= 1 and "
               "for the maximum; shares are invariant under rescaling all weights; the node enumeration of the "
               "specification is exactly the duplicate-free sequences over 1..n of the allowed lengths and the edge "
               "list exactly the adjacent pairs, for every n; the graph the code builds recursively (n relabelled copies "
               "of the graph on n-1, bullet votes, swaps of the first two entries) has exactly those nodes and joins "
               "exactly those pairs, for every n (induction on n through the relabelling bijection).")

N_QUICK, N_THOROUGH = 1200, 43200


def cases(rng, tier, shard, nshards, phase):
    if phase == "corpus":
        for n in range(2, 7):
            if (n - 2) % nshards == shard:
                yield {"op": "graph", "n": n}
            if (n + 3) % nshards == shard:
                yield {"op": "graph", "n": n, "rec": True}    # against the recursion model (Model/BallotGraphRec)
        return
    total = N_THOROUGH if tier == "thorough" else N_QUICK
    if phase.startswith("search"):
        total *= 2
    for _ in range(total // nshards):
        if rng.random() < 0.7:
            n = rng.randint(2, 5)
            names = gen.gen_names(rng, n)
            scored = rng.random() < 0.3
            def prof():
                bs = [{"r": gen.gen_ranking(rng, n), "w": rat(gen.gen_weight(rng)), "s": []} for _ in range(rng.randint(1, 6))]
                if scored:
                    # ballots that share a ranking but carry different score dictionaries: the distance is between the
                    # RANKING distributions, so their weights add up under the one ranking
                    for b in list(bs):
                        if rng.random() < 0.6:
                            bs.append({"r": b["r"], "w": rat(gen.gen_weight(rng)),
                                       "s": [[rng.randrange(n), rat(rng.randint(1, 3))]]})
                    rng.shuffle(bs)
                return bs
            P = prof()
            kind = rng.choice(["independent", "permuted", "condensed", "rescaled", "perturbed", "independent"])
            if kind == "independent":
                Q = prof()
            elif kind == "permuted":
                Q = list(P); rng.shuffle(Q)
            elif kind == "condensed":
                Q = P + [dict(b) for b in P]          # doubled: same distribution
            elif kind == "rescaled":
                f = Fraction(rng.randint(1, 9), rng.randint(1, 9))
                Q = [dict(b, w=rat(Fraction(b["w"]) * f)) for b in P]
            else:
                Q = [dict(b) for b in P]
                Q[0]["w"] = rat(Fraction(Q[0]["w"]) + Fraction(1, 10 ** 4))
            R = prof()
            yield {"op": "lp", "names": names, "P": P, "Q": Q, "R": R, "kind": kind}
        else:
            n = rng.randint(2, 6)
            bs = []
            for _ in range(rng.randint(1, 8)):
                bs.append([rng.sample(range(1, n + 1), rng.randint(1, n)), rat(gen.gen_weight(rng))])
            yield {"op": "weights", "n": n, "ballots": bs, "fix_short": rng.random() < 0.7}


def shares(bs):
    tot = sum(Fraction(b["w"]) for b in bs)
    d = {}
    for b in bs:
        d[str(b["r"])] = d.get(str(b["r"]), Fraction(0)) + Fraction(b["w"]) / tot
    return d


def run_case(vk, case):
    from votekit.graphs import BallotGraph
    from votekit.metrics import distances as D
    monitors = []
    tags = [f"op:{case['op']}"]

    def fail(name, detail):
        monitors.append({"name": name, "detail": detail[:500], "failure": {"rule": case["op"], "kind": name, "cause": "unexplained"}})

    if case["op"] == "graph":
        n = case["n"]
        tags.append(f"n:{n}")
        bg = BallotGraph(n)
        nodes = sorted(list(x) if isinstance(x, tuple) else [x] for x in bg.graph.nodes)
        edges = sorted(sorted([list(u), list(v)]) for u, v in bg.graph.edges)
        # independent specification check
        want_nodes = sorted(list(s) for k in range(1, n + 1) if k != n - 1 for s in itertools.permutations(range(1, n + 1), k))
        if nodes != want_nodes:
            fail("graph-nodes", f"n={n}: {len(nodes)} nodes, specification has {len(want_nodes)}")
        def adjacent(u, v):
            if len(u) == len(v):
                d = [i for i in range(len(u)) if u[i] != v[i]]
                return len(d) == 2 and d[1] == d[0] + 1 and u[d[0]] == v[d[1]] and u[d[1]] == v[d[0]]
            a, b = (u, v) if len(u) < len(v) else (v, u)
            return b[:len(a)] == a and (len(b) == len(a) + 1 or (len(a) == n - 2 and len(b) == n))
        want_edges = sorted(sorted([u, v]) for u, v in itertools.combinations(want_nodes, 2) if adjacent(u, v))
        if edges != want_edges:
            miss = [e for e in want_edges if e not in edges][:3]
            extra = [e for e in edges if e not in want_edges][:3]
            fail("graph-edges", f"n={n}: {len(edges)} edges vs {len(want_edges)}; missing {miss} extra {extra}")
        return {"req": {"op": "ballot_graph_rec" if case.get("rec") else "ballot_graph", "n": n},
                "expect": {"ok": {"nodes": nodes, "edges": edges}},
                "monitors": monitors, "tags": tags}
    if case["op"] == "weights":
        n = case["n"]
        names = [f"c{i}" for i in range(1, n + 1)]
        ballots = tuple(vk.Ballot(ranking=tuple(frozenset({names[c - 1]}) for c in r), weight=Fraction(w)) for r, w in case["ballots"])
        prof = vk.PreferenceProfile(ballots=ballots, candidates=tuple(names))
        out = run_impl(lambda: BallotGraph(prof, fix_short=case["fix_short"]))
        if out[0] != "ok":
            fail("graph-from-profile", out[2])
            return {"req": None, "expect": None, "monitors": monitors, "tags": tags}
        nw = {tuple(k): Fraction(v) for k, v in out[1].node_weights.items() if v != 0}
        total = sum(nw.values(), Fraction(0))
        want_total = sum(Fraction(w) for r, w in case["ballots"] if not (len(r) == n - 1 and not case["fix_short"]))
        if total != want_total:
            fail("node-weights-total", f"node weights sum to {total}, ballots that are nodes weigh {want_total}")
        want = {}
        for r, w in case["ballots"]:
            k = list(r)
            if len(k) == n - 1:
                if not case["fix_short"]:
                    continue
                k = k + [c for c in range(1, n + 1) if c not in k]
            want[tuple(k)] = want.get(tuple(k), Fraction(0)) + Fraction(w)
        if nw != want:
            fail("node-weights", f"{nw} vs {want}")
        # the same weights as seen through the graph's node attributes
        attr = {tuple(k): Fraction(d.get("weight", 0)) for k, d in out[1].graph.nodes(data=True) if d.get("weight", 0) != 0}
        if attr != want:
            fail("node-attribute-weights", f"graph node attributes {attr} vs ballots {want}")
        cast = {tuple(k) for k, d in out[1].graph.nodes(data=True) if d.get("cast")}
        if cast != set(want):
            fail("cast-flags", f"cast {sorted(cast)} vs ballots {sorted(want)}")
        return {"req": {"op": "node_weights", "n": n, "fix_short": case["fix_short"], "ballots": case["ballots"]},
                "expect": {"ok": sorted([list(k), rat(v)] for k, v in nw.items())}, "monitors": monitors, "tags": tags}
    # lp distances
    nm = case["names"]
    tags.append(f"kind:{case['kind']}")
    def mk(bs):
        return vk.PreferenceProfile(ballots=tuple(gen.build_ballot(vk, nm, b) for b in bs), candidates=tuple(nm))
    P, Q, R = mk(case["P"]), mk(case["Q"]), mk(case["R"])
    ps = [1, 2, 3, 4]
    vals = {}
    for p in ps + ["inf"]:
        out = run_impl(lambda: (float(D.lp_dist(P, Q, p)), float(D.lp_dist(Q, P, p)), float(D.lp_dist(P, R, p)),
                                float(D.lp_dist(R, Q, p)), float(D.lp_dist(P, P, p))))
        if out[0] != "ok":
            fail("lp-raises", out[2])
            return {"req": None, "expect": None, "monitors": monitors, "tags": tags}
        dPQ, dQP, dPR, dRQ, dPP = out[1]
        vals[p] = dPQ
        if abs(dPQ - dQP) > 1e-12 * max(dPQ, dQP):      # summation order may differ by an ulp
            fail("lp-asymmetric", f"p={p}: {dPQ} vs {dQP}")
        if dPP != 0:
            fail("lp-self-distance", f"p={p}: d(P,P)={dPP}")
        if dPQ > dPR + dRQ + 1e-12:
            fail("lp-triangle", f"p={p}: d(P,Q)={dPQ} > d(P,R)+d(R,Q)={dPR + dRQ}")
        same = shares(case["P"]) == shares(case["Q"])
        if case["kind"] in ("permuted", "condensed", "rescaled") and not same:
            raise AssertionError("harness: transformation changed the distribution")
        if same and dPQ > 1e-15:
            fail("lp-not-invariant", f"p={p} kind={case['kind']}: {dPQ}")
        if not same and dPQ == 0:
            fail("lp-zero-for-different-distributions", f"p={p}")
    # short-lived profiles: the distance is a function of the two distributions, whatever happened to other profile
    # objects before (same number of ballots and the same total weight, the weights dealt differently)
    import gc
    ws = [b["w"] for b in case["P"]]
    for j in range(1, min(4, len(ws)) + 1):
        rot = ws[j % len(ws):] + ws[:j % len(ws)]
        Pj = [dict(b, w=w) for b, w in zip(case["P"], rot)]
        sp, sq = shares(Pj), shares(case["Q"])
        exact = sum(abs(sp.get(k, 0) - sq.get(k, 0)) for k in set(sp) | set(sq))
        out = run_impl(lambda: float(D.lp_dist(mk(Pj), Q, 1)))
        gc.collect()
        if out[0] != "ok":
            fail("lp-raises", out[2])
        elif abs(out[1] - float(exact)) > 1e-9 * max(float(exact), 1e-300) + 1e-15:
            fail("lp-depends-on-earlier-profiles", f"temporary #{j}: {out[1]} vs exact {float(exact)}")
    req = {"op": "lp", "P": case["P"], "Q": case["Q"], "ps": ps}
    expect = {"vals": {str(p): vals[p] for p in ps}, "inf": vals["inf"]}
    return {"req": req, "expect": expect, "monitors": monitors, "tags": tags}


def compare(model, expect):
    if "vals" in expect:
        mo = model["ok"]
        for i, p in enumerate([1, 2, 3, 4]):
            exact = Fraction(mo["pow"][i])
            got = expect["vals"][str(p)]
            if exact == 0:
                if got != 0:
                    return f"p={p}: exact distance 0, implementation {got}"
                continue
            want = float(exact) ** (1.0 / p) if p > 1 else float(exact)
            if got == 0 or abs(got - want) > 1e-9 * max(abs(want), 1e-300) + 1e-15:
                return f"p={p}: implementation {got} vs exact {want}"
        exact = float(Fraction(mo["inf"]))
        if abs(expect["inf"] - exact) > 1e-9 * max(exact, 1e-300) + 1e-15 or (exact == 0) != (expect["inf"] == 0):
            return f"inf: implementation {expect['inf']} vs exact {exact}"
        return None
    if "ok" in model and "ok" in expect:
        mo = model["ok"]
        if isinstance(mo, dict) and "nodes" in mo:
            mo = {"nodes": sorted(mo["nodes"]), "edges": sorted(sorted(e) for e in mo["edges"])}
        elif isinstance(mo, list):
            mo = sorted(mo)
        return None if mo == expect["ok"] else f"model {str(mo)[:200]} vs impl {str(expect['ok'])[:200]}"
    return f"model {str(model)[:100]} vs {str(expect)[:100]}"
