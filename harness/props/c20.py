"""C20 — invalid requests are rejected up front with the documented error."""
from fractions import Fraction
from .. import gen, elect
from ..common import Names, rat, run_impl, exn_name

PROP = "C20"
LEAN_MODULE = "VK.Check.C20"
THEOREMS = [
    "VK.C20_ranking_rule_needs_rankings",
    "VK.C20_stv_rejects",
    "VK.C20_alaska_stage_sizes",
    "VK.C20_vector_valid_iff",
    "VK.C20_vector_rejected",
    "VK.C20_rating_args_iff",
    "VK.C20_dictator_seats",
    "VK.C20_gen_init_iff",
    "VK.C20_combine_iff",
    "VK.kernel_validVector_one",
    "VK.kernel_validVector_step",
    "VK.kernel_rating_validator",
]
RULE = ("one stream per documented precondition, each violating exactly that precondition by the smallest margin and "
        "grossly with the offending ballot first / in the middle / last, plus the accepting boundary value: ballot "
        "without ranking (12 ranking rules), tied position (STV family), non-integer weight - one ballot perturbed, or two "
        "ballots with the same ranking whose fractional weights add up to a whole number - (PluralityVeto, "
        "random_transfer), missing scores (6 score rules), m in {0,-1,n+1,n+5} and m=n (13 rules), Alaska stage "
        "sizes, negative / increasing score vectors (3 entry points), L<=0, k<=0, L>k, Limited k>m, unknown quota, "
        "generator bloc proportions / cohesion sums off by 1e-7 (rejected) and 1e-10 (accepted), mismatched bloc "
        "names, overlapping preference intervals, missing candidates, duplicate profile candidates; non-trivial = "
        "every case; distinct = distinct (stream, rule, input)")
TRUSTED = ["modelled, not verified: Python's round(x, 8) on floats (evaluated by the harness and handed to the model "
           "as an exact rational); exception classes mapped to an enum"]
ASSUMPTIONS = ["exactly one precondition is violated per case"]
EXPLANATION = ("Theorems: each validator of the model rejects iff the documented predicate holds for some ballot / "
               "entry, with exact boundaries, and a rejected request yields no state list.")

N_QUICK, N_THOROUGH = 2000, 72000

RANK_RULES = ["STV", "IRV", "SequentialRCV", "Plurality", "SNTV", "Borda", "TopTwo", "Alaska", "DominatingSets",
              "CondoBorda", "RandomDictator", "BoostedRandomDictator", "PluralityVeto"]
SCORE = list(elect.SCORE_RULES)
M_RULES = ["STV", "SequentialRCV", "Plurality", "SNTV", "Borda", "CondoBorda", "RandomDictator",
           "BoostedRandomDictator", "PluralityVeto", "Rating", "Approval", "Cumulative"]


def base_cfg(rng, rule, n):
    cfg = {"tiebreak": "random"}
    if rule in ("STV", "SequentialRCV", "IRV", "Alaska"):
        cfg.update(quota="droop", simultaneous=rng.random() < 0.5)
    if rule == "Alaska":
        m1 = rng.randint(1, n)
        cfg.update(m1=m1, m2=rng.randint(1, m1))
    elif rule not in ("IRV", "TopTwo", "DominatingSets"):
        cfg["m"] = rng.randint(1, n)
    if rule == "Rating":
        cfg["L"] = "5"
    if rule == "GeneralRating":
        cfg["L"] = "5"
    if rule in ("RandomDictator", "BoostedRandomDictator", "DominatingSets", "CondoBorda"):
        cfg.pop("tiebreak")
    return cfg


def cases(rng, tier, shard, nshards, phase):
    if phase == "corpus":
        # the discrete corners are enumerated completely on every run (a random stream meets "m = 0 for RandomDictator"
        # only a couple of times per run): every rule with a seat count x every kind of seat count; Alaska's stage sizes
        from ..common import seed_rng
        crng = seed_rng("c20-corpus")
        k = 0
        for rule in M_RULES:
            for kind in ["zero", "negative", "n+1", "n+5", "n", "one"]:
                k += 1
                if k % nshards != shard:
                    continue
                if rule in ("Rating", "Approval", "Cumulative"):
                    spec = gen.gen_score_spec(crng, nmin=2, nmax=5, L=1, budget=1, bmin=1, bmax=6)
                else:
                    spec = gen.gen_ranked_spec(crng, nmin=2, nmax=5, ties=False, partial=True, bmin=2, bmax=7,
                                               weights="int" if rule == "PluralityVeto" else "mixed")
                n = len(spec["c"])
                cfg = base_cfg(crng, rule, n)
                cfg["m"] = {"zero": 0, "negative": -2, "n+1": n + 1, "n+5": n + 5, "n": n, "one": 1}[kind]
                yield {"stream": "m-range", "rule": rule, "spec": spec, "pos": "first", "rs": 1, "cfg": cfg, "kind": kind,
                       "expect": "accept" if kind in ("n", "one") else "ValueError"}
        return
    total = N_THOROUGH if tier == "thorough" else N_QUICK
    if phase.startswith("search"):
        total *= 2
    streams = ["no-ranking", "tied-stv", "nonint", "no-scores", "m-range", "alaska-sizes", "vector", "rating-args",
               "quota", "gen-init", "combine", "dup-cands"]
    for _ in range(total // nshards):
        st = rng.choice(streams)
        pos = rng.choice(["first", "middle", "last"])
        if st in ("no-ranking", "tied-stv", "nonint", "m-range", "alaska-sizes", "quota"):
            rule = {"no-ranking": RANK_RULES, "tied-stv": ["STV", "IRV", "SequentialRCV"],
                    "nonint": ["PluralityVeto", "STV-random", "random_transfer"], "m-range": M_RULES,
                    "alaska-sizes": ["Alaska"], "quota": ["STV", "IRV", "SequentialRCV", "Alaska"]}[st]
            rule = rng.choice(rule)
            if rule in SCORE or rule in ("Rating", "Approval", "Cumulative"):
                spec = gen.gen_score_spec(rng, nmin=2, nmax=5, L=1, budget=1, bmin=1, bmax=6)
            else:
                spec = gen.gen_ranked_spec(rng, nmin=2, nmax=5, ties=False, partial=True, bmin=2, bmax=7,
                                           weights="int" if rule in ("PluralityVeto", "STV-random", "random_transfer") else "mixed")
            n = len(spec["c"])
            idx = 0 if pos == "first" else len(spec["b"]) - 1 if pos == "last" else len(spec["b"]) // 2
            case = {"stream": st, "rule": rule, "spec": spec, "pos": pos, "rs": rng.randint(0, 10 ** 9)}
            cfg = base_cfg(rng, rule if rule not in ("STV-random", "random_transfer") else "STV", n)
            if st == "no-ranking":
                spec["b"][idx]["r"] = []
                spec["b"][idx]["s"] = [[0, "1"]] if rng.random() < 0.5 else []
                case["expect"] = "TypeError"
            elif st == "tied-stv":
                b = spec["b"][idx]
                others = [c for c in range(n) if [c] not in b["r"]]
                if others:
                    j = rng.randrange(len(b["r"]))
                    b["r"][j] = sorted(b["r"][j] + [rng.choice(others)])
                else:
                    b["r"] = [sorted(b["r"][0] + b["r"][1])] + b["r"][2:]
                case["expect"] = "TypeError"
            elif st == "nonint":
                eps = Fraction(1, 10 ** 6) if rng.random() < 0.5 else Fraction(1, 2)
                if rule == "PluralityVeto" and rng.random() < 0.4:
                    # two ballots with the SAME ranking whose fractional weights add up to a whole number: each of
                    # them is an invalid ballot, whatever they sum to
                    b0 = spec["b"][idx]
                    w = Fraction(b0["w"])
                    part = Fraction(1, rng.choice([2, 3, 4])) + rng.choice([0, 0, 1])
                    if w.denominator != 1:
                        w = Fraction(int(w) + 1)
                    while part >= w:
                        w += 1
                    spec["b"][idx] = dict(b0, w=rat(part))
                    spec["b"].insert(rng.randint(0, len(spec["b"])), dict(b0, w=rat(w - part)))
                    case["kind"] = "fractions-adding-up"
                elif rule == "PluralityVeto":
                    spec["b"][idx]["w"] = rat(Fraction(spec["b"][idx]["w"]) + eps)
                else:
                    # make candidate 0 win a majority with a non-integer ballot
                    spec["b"] = [{"r": [[0], [1]], "w": rat(Fraction(50) + eps), "s": []}] + spec["b"]
                    cfg.update(m=1, transfer="random", simultaneous=True)
                case["expect"] = "TypeError"
                cfg["tiebreak"] = "random"
            elif st == "m-range":
                kind = rng.choice(["zero", "negative", "n+1", "n+5", "n", "one"])
                cfg["m"] = {"zero": 0, "negative": -rng.randint(1, 3), "n+1": n + 1, "n+5": n + 5, "n": n, "one": 1}[kind]
                case["expect"] = "accept" if kind in ("n", "one") else "ValueError"
                case["kind"] = kind
                if rule == "Cumulative" and kind in ("n", "one"):
                    pass
            elif st == "alaska-sizes":
                kind = rng.choice(["m1=0", "m2=0", "m1<m2", "neg", "equal"])
                m1, m2 = {"m1=0": (0, 1), "m2=0": (2, 0), "m1<m2": (1, 2), "neg": (-1, -1), "equal": (2, 2)}[kind]
                cfg.update(m1=m1, m2=m2)
                case["expect"] = "accept" if kind == "equal" else "ValueError"
                case["kind"] = kind
            elif st == "quota":
                cfg["quota"] = rng.choice(["Droop", "imperiali", "", "hare "])
                case["expect"] = "ValueError"
            case["cfg"] = cfg
            yield case
        elif st == "no-scores":
            rule = rng.choice(SCORE)
            spec = gen.gen_score_spec(rng, nmin=2, nmax=5, L=1, budget=1, bmin=2, bmax=6)
            idx = 0 if pos == "first" else len(spec["b"]) - 1 if pos == "last" else len(spec["b"]) // 2
            spec["b"][idx]["s"] = []
            if rng.random() < 0.5:
                spec["b"][idx]["r"] = [[0]]
            cfg = {"m": 1, "tiebreak": "random"}
            if rule in ("GeneralRating", "Rating"):
                cfg["L"] = "1"
            yield {"stream": st, "rule": rule, "spec": spec, "cfg": cfg, "pos": pos, "expect": "TypeError", "rs": 1}
        elif st == "vector":
            spec = gen.gen_ranked_spec(rng, nmin=2, nmax=5, ties=True, partial=True, bmin=1, bmax=5)
            n = len(spec["c"])
            ln = rng.randint(1, n + 1)        # a vector of a single entry is legal too (it is padded with zeros)
            vals = sorted([Fraction(rng.randint(0, 9)) for _ in range(ln)], reverse=True)
            kind = rng.choice(["negative", "increasing", "flat", "zero", "valid"])
            if ln == 1 and kind == "increasing":
                kind = "negative"
            eps = Fraction(1, 10 ** 6) if rng.random() < 0.5 else Fraction(rng.randint(1, 4))
            j = rng.randrange(ln)
            if kind == "negative":
                vals = [v + 1 for v in vals]
                vals[-1] = -eps
                if rng.random() < 0.3:
                    vals = [-eps - i for i in range(ln)]       # negative from the first entry on (non-increasing)
            elif kind == "increasing":
                j = rng.randrange(1, ln)
                vals[j] = vals[j - 1] + eps
                vals = vals[: j + 1] + [min(v, vals[j]) for v in vals[j + 1:]]
            elif kind == "flat":
                vals = [vals[0]] * ln
            elif kind == "zero":
                vals = [Fraction(0)] * ln
            yield {"stream": st, "entry": rng.choice(["validate", "score", "Borda"]), "spec": spec,
                   "vector": [rat(v) for v in vals], "kind": kind,
                   "expect": "ValueError" if kind in ("negative", "increasing") else "accept", "rs": 1}
        elif st == "rating-args":
            rule = rng.choice(["GeneralRating", "GeneralRating", "Rating", "Limited", "BlocPlurality"])
            spec = gen.gen_score_spec(rng, nmin=2, nmax=5, L=1, budget=1, bmin=1, bmax=5)
            n = len(spec["c"])
            cfg = {"m": rng.randint(1, n), "tiebreak": "random"}
            eps = Fraction(1, 10 ** 6) if rng.random() < 0.5 else Fraction(2)
            if rule == "GeneralRating":
                kind = rng.choice(["L=0", "L<0", "k=0", "k<0", "L>k", "L=k"])
                L, k = {"L=0": (0, None), "L<0": (-eps, None), "k=0": (1, 0), "k<0": (1, -eps),
                        "L>k": (1 + eps, 1), "L=k": (1, 1)}[kind]
                cfg["L"] = rat(L)
                if k is not None:
                    cfg["k"] = rat(k)
                exp = "accept" if kind == "L=k" else "ValueError"
            elif rule == "Rating":
                kind = rng.choice(["L=0", "L<0", "L>0"])
                cfg["L"] = rat({"L=0": 0, "L<0": -eps, "L>0": 1}[kind])
                exp = "accept" if kind == "L>0" else "ValueError"
            elif rule == "Limited":
                kind = rng.choice(["k>m", "k=m", "k<0"])
                cfg["k"] = rat({"k>m": cfg["m"] + eps, "k=m": cfg["m"], "k<0": -eps}[kind])
                exp = "accept" if kind == "k=m" else "ValueError"
            else:
                kind = rng.choice(["k=0", "k<0", "k=2"])
                cfg["k"] = rat({"k=0": 0, "k<0": -1, "k=2": 2}[kind])
                exp = "accept" if kind == "k=2" else "ValueError"
            yield {"stream": st, "rule": rule, "spec": spec, "cfg": cfg, "kind": kind, "expect": exp, "rs": 1}
        elif st == "gen-init":
            nb = rng.randint(1, 3)
            blocs = ["W", "C", "X"][:nb]
            kind = rng.choice(["props-1e-7", "props-1e-10", "props-gross", "cohesion-1e-7", "cohesion-1e-10",
                               "names-props-intervals", "names-props-cohesion", "missing-cands", "partial-params", "valid",
                               "extra-bloc-in-intervals-and-cohesion", "extra-bloc-in-props"])
            sign = rng.choice([1, -1])
            yield {"stream": st, "blocs": blocs, "kind": kind, "sign": sign, "which": rng.randrange(nb),
                   "expect": "accept" if kind in ("props-1e-10", "cohesion-1e-10", "valid") else "ValueError"}
        elif st == "combine":
            kind = rng.choice(["overlap", "overlap-zero-one", "overlap-zero-both", "disjoint", "disjoint-with-zeros",
                               "props-1e-7", "props-1e-10"])
            yield {"stream": st, "kind": kind, "sign": rng.choice([1, -1]),
                   "expect": "accept" if kind in ("disjoint", "disjoint-with-zeros", "props-1e-10") else "ValueError"}
        else:
            spec = gen.gen_ranked_spec(rng, nmin=2, nmax=5, ties=False, partial=True, bmin=0, bmax=4)
            kind = rng.choice(["dup", "nodup"])
            yield {"stream": st, "spec": spec, "kind": kind, "dup_at": rng.randrange(len(spec["c"])),
                   "expect": "ValueError" if kind == "dup" else "accept"}


def props_with_sum(nb, delta):
    base = [0.5, 0.3, 0.2][:nb]
    base = [x / sum(base) for x in base]
    base[0] = base[0] + delta
    return base


def run_case(vk, case):
    from votekit import utils as U
    from votekit import ballot_generator as BG
    from votekit.pref_interval import PreferenceInterval, combine_preference_intervals
    from votekit.elections import transfers as T
    st = case["stream"]
    tags = [f"stream:{st}", f"expect:{case['expect']}"]
    if case.get("kind"):
        tags.append(f"{st}:{case['kind']}")
    monitors = []
    req = None
    status = None   # ('exn', name) | ('ok',)

    def verdict(out_status, exn=None, msg=""):
        if case["expect"] == "accept":
            if out_status == "exn" and exn in ("ValueError", "TypeError") and "tie" not in msg.lower():
                monitors.append({"name": "valid-request-rejected", "detail": f"{exn}: {msg}",
                                 "failure": {"rule": case.get("rule", st), "kind": "rejects-valid", "cause": "unexplained"}})
        else:
            if not (out_status == "exn" and exn == case["expect"]):
                monitors.append({"name": "invalid-request-accepted", "detail": f"expected {case['expect']}, got {out_status} {exn} {msg}",
                                 "failure": {"rule": case.get("rule", st), "kind": "accepts-invalid", "cause": "unexplained"}})

    if st in ("no-ranking", "tied-stv", "nonint", "m-range", "alaska-sizes", "quota", "no-scores", "rating-args"):
        spec, cfg = case["spec"], dict(case["cfg"])
        names = Names(spec["names"])
        rule = case["rule"]
        tags.append(f"rule:{rule}")
        profile = gen.build_profile(vk, spec)
        if rule == "random_transfer":
            ballots = [b for b in profile.ballots if b.ranking[0] == frozenset({spec["names"][0]})]
            fpv = sum(b.weight for b in ballots)
            out = run_impl(lambda: T.random_transfer(spec["names"][0], fpv, ballots, 1))
            verdict(out[0], out[1] if out[0] == "exn" else None, out[2] if out[0] == "exn" else "")
            mb = [b for b in spec["b"] if b["r"][0] == [0]]
            req = {"op": "random_transfer", "winner": 0, "fpv": rat(fpv), "threshold": 1, "ballots": mb, "keep": []}
            expect = {"exn": out[1]} if out[0] == "exn" else {"ok": "accepted"}
            return {"req": req, "expect": expect, "monitors": monitors, "tags": tags}
        real = "STV" if rule == "STV-random" else rule
        res = elect.construct(vk, real, profile, cfg, case["rs"])
        verdict(res["status"], res.get("exn"), res.get("msg", ""))
        if real == "PluralityVeto":
            req = {"op": "pv_validate", "profile": gen.model_profile(spec), "m": cfg["m"], "tiebreak": cfg.get("tiebreak")}
            expect = {"exn": res["exn"]} if res["status"] == "exn" else {"ok": "accepted"}
        elif res["status"] == "exn" and res["exn"] in ("TypeError", "ValueError") or case["expect"] == "accept":
            if res["status"] != "timeout" and not (res["status"] == "exn" and real in elect.STV_FAMILY and
                                                   any(c[0] == "sample" for c in res["log"].calls)):
                req = elect.model_request(real, spec, cfg, res, names)
                expect = elect.expect_states(res, names)
            else:
                expect = None
        else:
            expect = None
        return {"req": req, "expect": expect, "monitors": monitors, "tags": tags}
    if st == "vector":
        spec = case["spec"]
        names = Names(spec["names"])
        profile = gen.build_profile(vk, spec)
        vec = [Fraction(v) for v in case["vector"]]
        entry = case["entry"]
        tags.append(f"entry:{entry}")
        if entry == "validate":
            out = run_impl(lambda: U.validate_score_vector(vec))
            req = {"op": "validate_vector", "vector": case["vector"]}
            expect = {"ok": out[0] == "ok"}
        elif entry == "score":
            out = run_impl(lambda: U.score_profile_from_rankings(profile, vec))
            req = {"op": "score_rankings", "profile": gen.model_profile(spec), "vector": case["vector"]}
            expect = {"ok": names.scores(out[1])} if out[0] == "ok" else {"exn": out[1]}
        else:
            cfg = {"m": 1, "tiebreak": "random", "vector": case["vector"], "vector_py": vec}
            res = elect.construct(vk, "Borda", profile, cfg, case["rs"])
            out = ("ok", None) if res["status"] == "ok" else ("exn", res.get("exn"), res.get("msg", ""))
            req = elect.model_request("Borda", spec, cfg, res, names)
            expect = elect.expect_states(res, names)
        verdict(out[0], out[1] if out[0] == "exn" else None, out[2] if out[0] == "exn" else "")
        return {"req": req, "expect": expect, "monitors": monitors, "tags": tags}
    if st == "gen-init":
        blocs = case["blocs"]
        nb = len(blocs)
        kind = case["kind"]
        slate = {b: [f"{b}{i}" for i in range(2)] for b in blocs}
        cands = [c for b in blocs for c in slate[b]]
        delta = {"props-1e-7": 1e-7, "props-1e-10": 1e-10, "props-gross": 0.2}.get(kind, 0.0) * case["sign"]
        props = dict(zip(blocs, props_with_sum(nb, delta)))
        coh = {b: dict(zip(blocs, props_with_sum(nb, 0.0))) for b in blocs}
        if kind.startswith("cohesion"):
            d = (1e-7 if kind == "cohesion-1e-7" else 1e-10) * case["sign"]
            coh[blocs[case["which"]]] = dict(zip(blocs, props_with_sum(nb, d)))
        intervals = {b: {b2: PreferenceInterval({c: 1.0 + i for i, c in enumerate(slate[b2])}) for b2 in blocs} for b in blocs}
        pb, ib, cb = list(range(nb)), list(range(nb)), list(range(nb))
        if kind == "names-props-intervals":
            intervals = {("Z" if i == case["which"] else b): v for i, (b, v) in enumerate(intervals.items())}
            ib = sorted([9 if i == case["which"] else i for i in range(nb)])
        if kind == "names-props-cohesion":
            coh = {("Z" if i == case["which"] else b): v for i, (b, v) in enumerate(coh.items())}
            cb = sorted([9 if i == case["which"] else i for i in range(nb)])
        if kind == "extra-bloc-in-intervals-and-cohesion":
            # a bloc "Z" that the intervals and the cohesion parameters agree on but that has no voters: the three
            # dictionaries do not name the same blocs (the voter blocs' cohesion towards Z is 0, so that nothing
            # downstream stumbles over it first)
            b2s = blocs + ["Z"]
            slate["Z"] = ["Z0", "Z1"]
            cands = [c for b in b2s for c in slate[b]]
            intervals = {b: {b2: PreferenceInterval({c: 1.0 + i for i, c in enumerate(slate[b2])}) for b2 in b2s} for b in b2s}
            coh = {b: dict(zip(b2s, props_with_sum(nb, 0.0) + [0.0])) for b in blocs}
            coh["Z"] = dict(zip(b2s, [0.0] * nb + [1.0]))
            ib, cb = list(range(nb)) + [9], list(range(nb)) + [9]
        if kind == "extra-bloc-in-props":
            props = dict(zip(blocs + ["Z"], [0.5] + [0.5 / nb] * nb))
            pb = list(range(nb)) + [9]
        kw = dict(candidates=cands, pref_intervals_by_bloc=intervals, bloc_voter_prop=props, cohesion_parameters=coh)
        has = dict(has_candidates=True, has_slates=False, has_intervals=True, has_cohesion=True, has_props=True)
        if kind == "missing-cands":
            kw.pop("candidates")
            has["has_candidates"] = False
        if kind == "partial-params":
            kw.pop("bloc_voter_prop")
            has["has_props"] = False
        cls = BG.name_PlackettLuce if kind != "partial-params" else BG.BallotGenerator
        if kind == "partial-params":
            out = run_impl(lambda: BG.BallotGenerator(**kw))
        elif kind == "missing-cands":
            out = run_impl(lambda: BG.BallotGenerator(**kw))
        else:
            out = run_impl(lambda: BG.name_PlackettLuce(**kw))
        verdict(out[0], out[1] if out[0] == "exn" else None, out[2] if out[0] == "exn" else "")
        req = dict(op="gen_init", **has, prop_sum8=rat(Fraction(round(sum(props.values()), 8))) if has["has_props"] else "1",
                   prop_blocs=pb, interval_blocs=ib, cohesion_blocs=cb,
                   cohesion_sums8=[rat(Fraction(round(sum(d.values()), 8))) for d in coh.values()])
        # round(...) returns a float; its exact value equals 1 iff the float is 1.0
        expect = {"exn": out[1]} if out[0] == "exn" else {"ok": None}
        return {"req": req, "expect": expect, "monitors": monitors, "tags": tags}
    if st == "combine":
        kind = case["kind"]
        ia = {"A": 0.6, "B": 0.4}
        ib = {"C": 0.5, ("A" if kind == "overlap" else "D"): 0.5}
        sets = [[0, 1], [2, 0 if kind == "overlap" else 3]]
        if kind == "overlap-zero-one":       # shared candidate E has zero support in one interval only
            ia["E"] = 0.0
            ib["E"] = 0.3
            sets = [[0, 1, 4], [2, 3, 4]]
        elif kind == "overlap-zero-both":
            ia["E"] = 0.0
            ib["E"] = 0.0
            sets = [[0, 1, 4], [2, 3, 4]]
        elif kind == "disjoint-with-zeros":
            ia["E"] = 0.0
            ib["F"] = 0.0
            sets = [[0, 1, 4], [2, 3, 5]]
        a = PreferenceInterval(ia)
        b = PreferenceInterval(ib)
        d = {"props-1e-7": 1e-7, "props-1e-10": 1e-10}.get(kind, 0.0) * case["sign"]
        props = [0.7 + d, 0.3]
        out = run_impl(lambda: combine_preference_intervals([a, b], props))
        verdict(out[0], out[1] if out[0] == "exn" else None, out[2] if out[0] == "exn" else "")
        req = {"op": "combine_check", "cand_sets": sets,
               "prop_sum8": rat(Fraction(round(sum(props), 8)))}
        expect = {"exn": out[1]} if out[0] == "exn" else {"ok": None}
        return {"req": req, "expect": expect, "monitors": monitors, "tags": tags}
    # dup-cands
    spec = case["spec"]
    nm = list(spec["names"])
    cl = list(nm)
    idx = list(range(len(nm)))
    if case["kind"] == "dup":
        cl.append(nm[case["dup_at"]])
        idx.append(case["dup_at"])
    ballots = tuple(gen.build_ballot(vk, nm, b) for b in spec["b"])
    out = run_impl(lambda: vk.PreferenceProfile(ballots=ballots, candidates=tuple(cl)))
    verdict(out[0], out[1] if out[0] == "exn" else None, out[2] if out[0] == "exn" else "")
    req = {"op": "mk_profile", "ballots": spec["b"], "cands": idx}
    expect = {"exn": out[1]} if out[0] == "exn" else {"ok": "accepted"}
    return {"req": req, "expect": expect, "monitors": monitors, "tags": tags}


def compare(model, expect):
    if expect is None:
        return None
    if "exn" in expect:
        return None if model.get("exn") == expect["exn"] else f"model {model} vs impl {expect}"
    if expect.get("ok") in ("accepted", None) or isinstance(expect.get("ok"), bool):
        if isinstance(expect.get("ok"), bool):
            return None if model == expect else f"model {model} vs impl {expect}"
        return None if "ok" in model else f"model {model} vs impl accepted"
    if isinstance(expect["ok"], dict) and "states" in expect["ok"]:
        return elect.compare_states(model, expect)
    return None if model == expect else f"model {str(model)[:200]} vs impl {str(expect)[:200]}"
