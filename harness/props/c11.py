"""C11 — ballot and profile values are exact, immutable and condense/compare by content."""
import itertools
from fractions import Fraction
from .. import gen
from ..common import Names, rat, run_impl, canon_ballots, condensed_map

PROP = "C11"
LEAN_MODULE = "VK.Check.C11"
THEOREMS = [
    "VK.C11_condense_distinct",
    "VK.C11_condense_wt",
    "VK.C11_condense_total",
    "VK.C11_condense_perm_invariant",
    "VK.C11_condense_idem",
    "VK.C11_eq_iff",
    "VK.C11_add",
    "VK.C11_dup_candidates_rejected",
]
RULE = ("cases = multiset of 1-6 ballots mixing ranking-only / scores-only / both / neither, with and without ids and "
        "voter sets, int / float / Fraction weights, repeated contents; operations: condense (in the given and in a "
        "permuted order, and twice), == in both operand orders against a permuted / split / perturbed copy and against a "
        "copy in which two equal-weight ballots exchanged their score dictionaries (same weight per ranking and per "
        "dictionary, other contents), +, derived "
        "fields, duplicate candidate lists, attribute assignment, float->Fraction conversion; non-trivial = at least two "
        "ballots with a repeated content; distinct = distinct (ballots, operation)")
TRUSTED = ["modelled, not verified: pydantic frozen=True and Fraction.limit_denominator (both observed by Python-side "
           "monitors labelled as tests, not theorems); the pandas `df` view is ignored"]
ASSUMPTIONS = ["ballot weights positive in == comparisons (a zero-weight ballot and an absent one are the same weight map)"]
EXPLANATION = ("Theorems: condensing yields pairwise distinct contents, keeps the weight of every content, is invariant "
               "under permutation of the ballots as a weight map and idempotent; profile equality holds iff the weight "
               "maps agree; addition adds weight maps; duplicate candidate lists are rejected.")

N_QUICK, N_THOROUGH = 2400, 86400


def gen_ballot(rng, n, pool):
    if pool and rng.random() < 0.45:
        b = dict(rng.choice(pool))
        b = {"r": [list(s) for s in b["r"]], "s": [list(x) for x in b["s"]]}
    else:
        kind = rng.choice(["rank", "rank", "score", "both", "neither"])
        r = gen.gen_ranking(rng, n, ties=rng.random() < 0.3) if kind in ("rank", "both") else []
        s = []
        if kind in ("score", "both"):
            for c in sorted(rng.sample(range(n), rng.randint(1, n))):
                s.append([c, rat(gen.gen_score(rng))])
        b = {"r": r, "s": s}
    wk = rng.choice(["int", "frac", "float"]) if rng.random() >= 0.08 else "zero"
    if wk == "zero":
        # a ballot of weight zero is a legal value (e.g. left behind by remove_cand with leave_zero_weight_ballots)
        b["w"], b["wpy"] = None, rng.choice([0, 0.0, "F0"])
    elif wk == "int":
        b["w"], b["wpy"] = None, rng.randint(1, 9)
    elif wk == "frac":
        f = Fraction(rng.randint(1, 20), rng.choice([2, 3, 7, 999983]))
        b["w"], b["wpy"] = None, f"F{f}"
    else:
        b["w"], b["wpy"] = None, rng.choice([0.1, 0.25, 1.5, 2.7, 1 / 3, 3.000001])
    b["sperm"] = rng.randint(0, 10 ** 6)     # insertion order of the scores dict
    b["id"] = rng.choice([None, None, "x1", "x2"])
    b["vs"] = rng.choice([None, None, ["v1"], ["v1", "v2"]])
    if pool and b["r"] and rng.random() < 0.12:
        # the ranking of an earlier ballot with other scores and another voter set: a different content
        o = rng.choice([x for x in pool if x["r"]] or [b])
        b["r"] = [list(s0) for s0 in o["r"]]
        b["s"] = [[rng.randrange(n), rat(gen.gen_score(rng))]]
        b["vs"] = [["v3"], ["v1"], None][rng.randrange(3)] if o.get("vs") != ["v3"] else ["v4"]
    return b


def py_weight(x):
    if isinstance(x, str) and x.startswith("F"):
        return Fraction(x[1:])
    return x


def exact_weight(x):
    """what the documentation promises: ints and Fractions with denominator <= 10^6 unchanged, floats as the closest such fraction"""
    x = py_weight(x)
    return Fraction(x).limit_denominator(10 ** 6) if not isinstance(x, Fraction) else x


def cases(rng, tier, shard, nshards, phase):
    if phase == "corpus":
        if shard == 0:
            # F-C11 witness: unscored ballot first, then the same ranking with scores
            b1 = {"r": [[0]], "s": [], "w": None, "wpy": 1, "id": None, "vs": None}
            b2 = {"r": [[0]], "s": [[0, "1"]], "w": None, "wpy": 2, "id": None, "vs": None}
            yield {"op": "condense", "names": ["A", "B"], "b": [b1, b2], "perm": [1, 0]}
            yield {"op": "eq", "names": ["A", "B"], "b": [b1, b2], "other": "perm", "perm": [1, 0]}
        return
    total = N_THOROUGH if tier == "thorough" else N_QUICK
    if phase.startswith("search"):
        total *= 2
    for _ in range(total // nshards):
        n = rng.randint(1, 4)
        names = gen.gen_names(rng, n)
        pool = []
        bs = []
        for _ in range(rng.randint(1, 6)):
            b = gen_ballot(rng, n, pool)
            pool.append(b)
            bs.append(b)
        perm = list(range(len(bs)))
        rng.shuffle(perm)
        op = rng.choice(["condense", "condense", "eq", "eq", "add", "derived", "dupcands", "convert"])
        case = {"op": op, "names": names, "b": bs, "perm": perm}
        if op == "eq":
            case["other"] = rng.choice(["perm", "split", "perturb-weight", "drop-scores", "drop-ballot", "swap-scores"])
            case["k"] = rng.randrange(len(bs))
        if op == "add":
            case["cut"] = rng.randint(0, len(bs))
        yield case


def mk(vk, names, b, weight=None):
    kw = {}
    if b["r"]:
        kw["ranking"] = tuple(frozenset(names[c] for c in s) for s in b["r"])
    if b["s"]:
        items = list(b["s"])
        import random as _r
        _r.Random(b.get("sperm", 0)).shuffle(items)     # same content, different dict insertion order
        kw["scores"] = {names[c]: Fraction(v) for c, v in items}
    kw["weight"] = py_weight(b["wpy"]) if weight is None else weight
    if b.get("id"):
        kw["id"] = b["id"]
    if b.get("vs"):
        kw["voter_set"] = set(b["vs"])
    return vk.Ballot(**kw)


def mball(b, weight=None):
    return {"r": b["r"], "s": b["s"], "w": rat(exact_weight(b["wpy"]) if weight is None else weight)}


def wmap(names_obj, ballots):
    return condensed_map(names_obj.ballots(ballots))


def run_case(vk, case):
    names = Names(case["names"])
    nm = case["names"]
    bs = case["b"]
    op = case["op"]
    tags = [f"op:{op}", f"ballots:{len(bs)}"]
    monitors = []
    contents = [str((b["r"], b["s"])) for b in bs]
    nontrivial = len(set(contents)) < len(contents)
    if nontrivial:
        tags.append("repeated-content")

    def fail(name, detail, kind):
        monitors.append({"name": name, "detail": detail, "failure": {"rule": op, "kind": kind, "cause": "unexplained"}})

    ballots = [mk(vk, nm, b) for b in bs]
    mballs = [mball(b) for b in bs]
    want = condensed_map(mballs)
    # ballot values compare by ALL their fields (ranking, weight, id, voter set, scores), in both operand orders, and
    # never equal something that is not a ballot
    for i in range(min(3, len(bs))):
        for j in range(i, min(4, len(bs))):
            x, y = bs[i], bs[j]
            same = (x["r"] == y["r"] and sorted(map(tuple, x["s"])) == sorted(map(tuple, y["s"]))
                    and exact_weight(x["wpy"]) == exact_weight(y["wpy"]) and x.get("id") == y.get("id")
                    and sorted(x.get("vs") or []) == sorted(y.get("vs") or []) and (x.get("vs") is None) == (y.get("vs") is None))
            got = run_impl(lambda: (ballots[i] == ballots[j], ballots[j] == ballots[i]))
            if got[0] != "ok" or got[1] != (same, same):
                fail("ballot-equality", f"ballots {i},{j}: == gives {got[1] if got[0] == 'ok' else got[2]}, fields equal: {same}", "ballot-eq")
    if ballots:
        got = run_impl(lambda: (ballots[0] == "ballot", ballots[0] == None, ballots[0] != 0))     # noqa: E711
        if got[0] != "ok" or got[1] != (False, False, True):
            fail("ballot-equality", f"comparison with a non-ballot: {got}", "ballot-eq")
    if op == "condense":
        p = vk.PreferenceProfile(ballots=tuple(ballots))
        out = run_impl(lambda: p.condense_ballots())
        if out[0] != "ok":
            fail("condense-raises", out[2], "exception")
            return {"req": None, "expect": None, "monitors": monitors, "tags": tags, "nontrivial": nontrivial}
        cb = names.ballots(out[1].ballots)
        keys = [str((b["r"], b["s"])) for b in cb]
        if len(set(keys)) != len(keys):
            fail("condense-not-distinct", str(keys), "not-distinct")
        if condensed_map(cb) != want:
            fail("condense-weight", f"got {condensed_map(cb)} want {want}", "content-weight")
        p2 = vk.PreferenceProfile(ballots=tuple(ballots[i] for i in case["perm"]))
        cb2 = names.ballots(p2.condense_ballots().ballots)
        if condensed_map(cb2) != condensed_map(cb) or len(cb2) != len(cb):
            fail("condense-order-dependent", f"{condensed_map(cb)} vs permuted {condensed_map(cb2)}", "content-weight")
        cb3 = names.ballots(out[1].condense_ballots().ballots)
        if canon_ballots(cb3) != canon_ballots(cb):
            fail("condense-not-idempotent", "", "idempotent")
        return {"req": {"op": "condense", "ballots": mballs}, "expect": {"ok": canon_ballots(cb)},
                "monitors": monitors, "tags": tags, "nontrivial": nontrivial}
    if op == "eq":
        k = case.get("k", 0) % len(bs)
        other = [ballots[i] for i in case["perm"]]
        mother = [mballs[i] for i in case["perm"]]
        kind = case["other"]
        if kind == "split":
            w = exact_weight(bs[k]["wpy"])
            other = [b for i, b in enumerate(ballots) if i != k] + [mk(vk, nm, bs[k], w / 3), mk(vk, nm, bs[k], w * 2 / 3)]
            mother = [b for i, b in enumerate(mballs) if i != k] + [mball(bs[k], w / 3), mball(bs[k], w * 2 / 3)]
        elif kind == "perturb-weight":
            w = exact_weight(bs[k]["wpy"]) + Fraction(1, 10 ** 6)
            other = [b for i, b in enumerate(ballots) if i != k] + [mk(vk, nm, bs[k], w)]
            mother = [b for i, b in enumerate(mballs) if i != k] + [mball(bs[k], w)]
        elif kind == "drop-scores":
            b2 = dict(bs[k]); b2["s"] = []
            other = [b for i, b in enumerate(ballots) if i != k] + [mk(vk, nm, b2)]
            mother = [b for i, b in enumerate(mballs) if i != k] + [mball(b2)]
        elif kind == "drop-ballot":
            other = [b for i, b in enumerate(ballots) if i != k]
            mother = [b for i, b in enumerate(mballs) if i != k]
        elif kind == "swap-scores" and len(nm) >= 2:
            # two ballots of equal weight with different rankings and different score dictionaries, and the same two
            # with the dictionaries exchanged: every ranking and every score dictionary keeps its total weight, but
            # the contents (ranking, scores) differ, so the profiles are NOT equal
            j = (k + 1) % len(bs) if len(bs) > 1 else None
            bi = dict(bs[k], r=[[0], [1]], s=[[0, "2"], [1, "1"]])
            bj = dict(bs[j] if j is not None and j != k else bs[k], r=[[1], [0]], s=[[0, "1"], [1, "3"]], wpy=bs[k]["wpy"])
            keep = [i for i in range(len(bs)) if i != k and i != j]
            ballots = [ballots[i] for i in keep] + [mk(vk, nm, bi), mk(vk, nm, bj)]
            mballs = [mballs[i] for i in keep] + [mball(bi), mball(bj)]
            bi2, bj2 = dict(bi, s=bj["s"]), dict(bj, s=bi["s"])
            other = ballots[:-2] + [mk(vk, nm, bi2), mk(vk, nm, bj2)]
            mother = mballs[:-2] + [mball(bi2), mball(bj2)]
        p = vk.PreferenceProfile(ballots=tuple(ballots))
        q = vk.PreferenceProfile(ballots=tuple(other))
        e1 = run_impl(lambda: p == q)
        e2 = run_impl(lambda: q == p)
        same = condensed_map(mballs) == condensed_map(mother)
        tags.append(f"eq:{kind}:{same}")
        if e1[0] != "ok" or e2[0] != "ok":
            fail("eq-raises", str(e1) + str(e2), "exception")
        else:
            if e1[1] != e2[1]:
                fail("eq-asymmetric", f"p==q {e1[1]} but q==p {e2[1]}", "eq-by-content")
            if bool(e1[1]) != same or bool(e2[1]) != same:
                fail("eq-not-by-content", f"p==q {e1[1]}, q==p {e2[1]}, weight maps equal: {same}", "eq-by-content")
        return {"req": {"op": "prof_eq", "p": {"b": mballs, "c": []}, "q": {"b": mother, "c": []}},
                "expect": {"ok": bool(e1[1]) if e1[0] == "ok" else None}, "monitors": monitors, "tags": tags,
                "nontrivial": nontrivial}
    if op == "add":
        cut = case["cut"]
        p = vk.PreferenceProfile(ballots=tuple(ballots[:cut]))
        q = vk.PreferenceProfile(ballots=tuple(ballots[cut:]))
        out = run_impl(lambda: p + q)
        if out[0] != "ok":
            fail("add-raises", out[2], "exception")
            return {"req": None, "expect": None, "monitors": monitors, "tags": tags, "nontrivial": nontrivial}
        got = wmap(names, out[1].ballots)
        if got != want:
            fail("add-weights", f"{got} != {want}", "content-weight")
        exp = {"b": canon_ballots(names.ballots(out[1].ballots)), "c": sorted(names.idx[c] for c in out[1].candidates)}
        return {"req": {"op": "prof_add", "p": {"b": mballs[:cut], "c": []}, "q": {"b": mballs[cut:], "c": []}},
                "expect": {"ok": exp}, "monitors": monitors, "tags": tags, "nontrivial": nontrivial}
    if op == "derived":
        import dataclasses as _dc, random as _r
        how = _r.Random(len(bs) * 7919 + len(nm)).choice(["plain", "stale-args", "replace"])
        tags.append(f"derived:{how}")
        if how == "stale-args":
            # the derived fields are constructor fields too: whatever is passed for them, they must come out as the
            # ballots imply
            built = run_impl(lambda: vk.PreferenceProfile(ballots=tuple(ballots), candidates_cast=("Zed", nm[0]),
                                                          num_ballots=len(bs) + 3, total_ballot_wt=Fraction(999)))
        elif how == "replace":
            # dataclasses.replace forwards the old derived fields of another profile to the constructor
            other = vk.PreferenceProfile(ballots=(vk.Ballot(ranking=tuple(frozenset({c}) for c in nm), weight=Fraction(5)),))
            built = run_impl(lambda: _dc.replace(other, ballots=tuple(ballots), candidates=()))
        else:
            built = run_impl(lambda: vk.PreferenceProfile(ballots=tuple(ballots)))
        if built[0] != "ok":
            fail("derived-fields", f"construction ({how}) raised {built[2]}", "derived")
            return {"req": None, "expect": None, "monitors": monitors, "tags": tags, "nontrivial": nontrivial}
        p = built[1]
        tot = sum((exact_weight(b["wpy"]) for b in bs), Fraction(0))
        # cast candidates are those on ballots that carry weight (the code's and the model's `weight > 0`)
        pos = [b for b in bs if exact_weight(b["wpy"]) > 0]
        cast = sorted({c for b in pos for s in b["r"] for c in s} | {c for b in pos for c, _ in b["s"]})
        if p.num_ballots != len(bs) or p.total_ballot_wt != tot or sorted(names.idx[c] for c in p.candidates_cast) != cast:
            fail("derived-fields", f"num {p.num_ballots} total {p.total_ballot_wt} cast {p.candidates_cast}", "derived")
        # the three dictionary views give every ballot content / ranking / score table its summed weight, or its share of
        # the total when standardised
        def rk(b):
            return tuple(tuple(sorted(s0)) for s0 in b["r"])
        def sk(b):
            return tuple(sorted((c, Fraction(v)) for c, v in b["s"]))
        for std in (False, True):
            if std and tot == 0:
                continue
            scale = tot if std else Fraction(1)
            want_b, want_r, want_s = {}, {}, {}
            for b in bs:
                w = exact_weight(b["wpy"]) / scale
                want_b[(rk(b), sk(b))] = want_b.get((rk(b), sk(b)), Fraction(0)) + w
                want_r[rk(b)] = want_r.get(rk(b), Fraction(0)) + w
                want_s[sk(b)] = want_s.get(sk(b), Fraction(0)) + w
            views = run_impl(lambda: (p.to_ballot_dict(standardize=std), p.to_ranking_dict(standardize=std),
                                      p.to_scores_dict(standardize=std)))
            if views[0] != "ok":
                fail("dict-views", f"standardize={std}: {views[2]}", "derived")
                continue
            bd, rd, sd = views[1]
            def nrk(r):
                return tuple(tuple(sorted(names.idx[c] for c in s0)) for s0 in (r or ()) if len(s0) > 0)
            def nsk(sc):
                return tuple(sorted((names.idx[c], Fraction(v)) for c, v in (sc.items() if hasattr(sc, "items") else sc or ())))
            got_b = {}
            for k0, v in bd.items():
                got_b[(nrk(k0.ranking), nsk(k0.scores or {}))] = got_b.get((nrk(k0.ranking), nsk(k0.scores or {})), Fraction(0)) + Fraction(v)
            got_r = {}
            for k0, v in rd.items():
                got_r[nrk(k0)] = got_r.get(nrk(k0), Fraction(0)) + Fraction(v)
            got_s = {}
            for k0, v in sd.items():
                got_s[nsk(k0)] = got_s.get(nsk(k0), Fraction(0)) + Fraction(v)
            for nm0, g, w0 in (("to_ballot_dict", got_b, want_b), ("to_ranking_dict", got_r, want_r), ("to_scores_dict", got_s, want_s)):
                if {k0: v for k0, v in g.items() if v != 0} != {k0: v for k0, v in w0.items() if v != 0}:
                    fail("dict-views", f"{nm0}(standardize={std}): {str(g)[:200]} vs {str(w0)[:200]}", "derived")
        exp = {"cands": sorted(names.idx[c] for c in p.candidates), "cast": sorted(names.idx[c] for c in p.candidates_cast),
               "num": p.num_ballots, "total": rat(p.total_ballot_wt)}
        return {"req": {"op": "mk_profile", "ballots": mballs, "cands": []}, "expect": {"ok": exp},
                "monitors": monitors, "tags": tags, "nontrivial": nontrivial}
    if op == "dupcands":
        dup = list(nm) + [nm[0]]
        out = run_impl(lambda: vk.PreferenceProfile(ballots=tuple(ballots), candidates=tuple(dup)))
        if not (out[0] == "exn" and out[1] == "ValueError"):
            fail("duplicate-candidates-accepted", str(out)[:200], "dup-candidates")
        idx = list(range(len(nm))) + [0]
        return {"req": {"op": "mk_profile", "ballots": mballs, "cands": idx},
                "expect": {"exn": out[1]} if out[0] == "exn" else {"ok": None}, "monitors": monitors, "tags": tags,
                "nontrivial": True}
    # convert: exactness and immutability (Python-side monitors, labelled as tests)
    for b, B in zip(bs, ballots):
        if B.weight != exact_weight(b["wpy"]) or not isinstance(B.weight, Fraction):
            fail("weight-conversion", f"{b['wpy']!r} -> {B.weight!r}", "conversion")
        if b["s"]:
            if B.scores is None or any(not isinstance(v, Fraction) for v in B.scores.values()):
                fail("score-conversion", str(B.scores), "conversion")
    zb = vk.Ballot(ranking=(frozenset({nm[0]}),), scores={nm[0]: 0, nm[-1]: 0.5}, weight=2.5)
    if zb.scores != {nm[-1]: Fraction(1, 2)} or zb.weight != Fraction(5, 2):
        fail("zero-score-kept", str(zb.scores), "conversion")
    B = ballots[0]
    for attr, val in (("weight", Fraction(7)), ("ranking", None), ("scores", None), ("id", "zz"), ("voter_set", None)):
        out = run_impl(lambda: setattr(B, attr, val))
        if out[0] == "ok":
            fail("ballot-mutable", attr, "mutable")
    p = vk.PreferenceProfile(ballots=tuple(ballots))
    for attr, val in (("ballots", ()), ("candidates", ()), ("total_ballot_wt", Fraction(0)), ("num_ballots", 0), ("candidates_cast", ())):
        out = run_impl(lambda: setattr(p, attr, val))
        if out[0] == "ok":
            fail("profile-mutable", attr, "mutable")
    return {"req": None, "expect": None, "monitors": monitors, "tags": tags, "nontrivial": True}


def compare(model, expect):
    if "ok" in model and "ok" in expect:
        mo, ex = model["ok"], expect["ok"]
        if isinstance(mo, list):
            mo = canon_ballots(mo)
        elif isinstance(mo, dict) and "b" in mo:
            mo = {"b": canon_ballots(mo["b"]), "c": sorted(mo["c"])}
        return None if mo == ex else f"model {str(mo)[:200]} vs impl {str(ex)[:200]}"
    return None if model == expect else f"model {model} vs impl {expect}"
