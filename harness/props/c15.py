"""C15 — closed-form model probabilities equal their definitions."""
import itertools, math
from fractions import Fraction
from .. import gen
from ..common import rat, run_impl

PROP = "C15"
LEAN_MODULE = "VK.Check.C15"
THEOREMS = [
    "VK.C15_normalize",
    "VK.C15_table_sums_to_one",
    "VK.C15_bt_sum_one",
    "VK.C15_slate_sum_one",
    "VK.C15_pairSumProd_perm",
    "VK.C15_bt_table",
    "VK.C15_combine",
    "VK.C15_scaled_total",
]
RULE = ("cases = preference intervals with 1-7 candidates, supports spanning six orders of magnitude, zero supports; "
        "1-3 intervals combined with cohesion shares (including 0 and 1); name-Bradley-Terry tables for 1-6 supported "
        "candidates; slate-Bradley-Terry ballot-type tables for slate sizes up to 4+4 and cohesion in (0,1) and near the "
        "ends; every table entry is compared with the exact rational table of the model (relative 1e-9) and with the "
        "defining formula evaluated independently; non-trivial = at least two candidates; distinct = distinct inputs")
TRUSTED = ["modelled, not verified: float arithmetic of the implementation (compared with tolerance 1e-9 against the "
           "exact value on the exact binary inputs); itertools.permutations"]
ASSUMPTIONS = ["supports non-negative with at least one positive"]
EXPLANATION = ("Theorems (for every number of candidates): a normalised interval sums to one; every table of the form "
               "w/Z sums to one; the symmetric pair-sum product is permutation invariant, hence the code's numerator "
               "prod x_i^(m-1-i) is the product over ordered pairs of x/(x+y) times a constant that does not depend on "
               "the ranking.")

N_QUICK, N_THOROUGH = 500, 18000


def gen_supports(rng, n):
    out = []
    for _ in range(n):
        k = rng.random()
        if k < 0.15:
            out.append(0.0)
        elif k < 0.6:
            out.append(float(rng.randint(1, 9)))
        elif k < 0.8:
            out.append(rng.uniform(0.001, 1.0))
        elif k < 0.85:
            out.append(rng.choice([2e-9, 1e-9, 3e-10, 4e-12]))     # tiny, but a support: not a zero-support candidate
        else:
            out.append(10.0 ** rng.randint(-4, 2) * rng.randint(1, 9))
    if all(x == 0 for x in out):
        out[0] = 1.0
    return out


def cases(rng, tier, shard, nshards, phase):
    if phase == "corpus":
        return
    total = N_THOROUGH if tier == "thorough" else N_QUICK
    if phase.startswith("search"):
        total *= 2
    for _ in range(total // nshards):
        k = rng.random()
        if k < 0.3:
            yield {"op": "interval", "supports": gen_supports(rng, rng.randint(1, 7))}
        elif k < 0.5:
            nb = rng.randint(1, 3)
            sups = [gen_supports(rng, rng.randint(1, 3)) for _ in range(nb)]
            cuts = sorted(rng.random() for _ in range(nb - 1))
            props = [b - a for a, b in zip([0.0] + cuts, cuts + [1.0])]
            if rng.random() < 0.2 and nb > 1:
                props = [1.0] + [0.0] * (nb - 1)
            yield {"op": "combine", "supports": sups, "props": props}
        elif k < 0.62:
            # several blocs: the table of every bloc must come from ITS interval combined with ITS cohesion row, each
            # share looked up by slate name - the nested dicts list rows and columns in their own orders
            nb = rng.randint(2, 3)
            sizes = [rng.randint(1, 2) for _ in range(nb)]
            while sum(sizes) > 5:
                sizes[sizes.index(max(sizes))] -= 1
            sup = [[[v if v > 0 or rng.random() < 0.5 else 1.0 for v in gen_supports(rng, sizes[s])] for s in range(nb)]
                   for _ in range(nb)]
            coh = []
            for b in range(nb):
                cuts = sorted(rng.random() for _ in range(nb - 1))
                row = [y - x for x, y in zip([0.0] + cuts, cuts + [1.0])]
                if rng.random() < 0.15:
                    row = [0.0] * nb
                    row[rng.randrange(nb)] = 1.0
                coh.append(row)
            near = rng.random() < 0.3 and max(sizes) >= 2
            if near:
                # two blocs whose combined intervals agree to four decimals and differ beyond: the same rows except
                # that a slate reached with a share of 6e-5 has its two supports the other way round
                j = sizes.index(max(sizes))
                sup[0][j] = [2.0, 1.0] + [1.0] * (sizes[j] - 2)
                sup[1] = [list(x) for x in sup[0]]
                sup[1][j] = [1.0, 2.0] + [1.0] * (sizes[j] - 2)
                others = [x for x in range(nb) if x != j]
                row = [0.0] * nb
                row[j] = 6e-5
                for x in others:
                    row[x] = (1.0 - 6e-5) / len(others)
                coh[0] = list(row)
                coh[1] = list(row)
            yield {"op": "bt_blocs", "sizes": sizes, "supports": sup, "cohesion": coh, "near_identical": near,
                   "row_order": rng.choice(["own-first", "shuffled", "bloc-order"]), "os": rng.randint(0, 10 ** 6)}
        elif k < 0.8:
            n = rng.randint(1, 6)
            sup = [s if s > 0 else 1.0 for s in gen_supports(rng, n)]
            if rng.random() < 0.3:
                sup.append(0.0)
            yield {"op": "bt", "supports": sup}
        else:
            a, b = rng.randint(1, 4), rng.randint(1, 4)
            c = rng.choice([0.5, 0.7, 0.3, 0.9, 0.05, 0.999, 0.001, 1.0, 0.0, rng.uniform(0.01, 0.99)])
            yield {"op": "slate", "a": a, "b": b, "cohesion": c, "zero_a": rng.random() < 0.3,
                   "bloc": rng.choice(["A", "B"])}


def close(x, exact):
    exact = float(exact)
    return abs(x - exact) <= 1e-9 * max(abs(exact), 1e-300) + 1e-300


def run_case(vk, case):
    from votekit.pref_interval import PreferenceInterval, combine_preference_intervals
    from votekit import ballot_generator as BG
    monitors = []
    tags = [f"op:{case['op']}"]

    def fail(name, detail):
        monitors.append({"name": name, "detail": detail[:500], "failure": {"rule": case["op"], "kind": name, "cause": "unexplained"}})

    if case["op"] == "interval":
        sup = case["supports"]
        names = [f"c{i}" for i in range(len(sup))]
        out = run_impl(lambda: PreferenceInterval(dict(zip(names, sup))))
        if out[0] != "ok":
            fail("interval-raises", out[2])
            return {"req": None, "expect": None, "monitors": monitors, "tags": tags}
        pi = out[1]
        S = sum(Fraction(s) for s in sup)
        want = {i: Fraction(s) / S for i, s in enumerate(sup) if s > 0}
        got = {int(c[1:]): v for c, v in pi.interval.items()}
        if set(got) != set(want) or any(not close(got[i], want[i]) for i in want):
            fail("interval-not-rescaled-supports", f"{got} vs {want}")
        if abs(sum(got.values()) - 1) > 1e-9:
            fail("interval-sum", str(sum(got.values())))
        if sorted(int(c[1:]) for c in pi.zero_cands) != [i for i, s in enumerate(sup) if s == 0]:
            fail("zero-cands", str(pi.zero_cands))
        return {"req": {"op": "mk_interval", "supports": [[i, rat(s)] for i, s in enumerate(sup)]},
                "expect": {"interval": got, "zeros": sorted(int(c[1:]) for c in pi.zero_cands)},
                "monitors": monitors, "tags": tags, "nontrivial": len(sup) > 1}
    if case["op"] == "combine":
        sups, props = case["supports"], case["props"]
        idx = 0
        named = []
        for s in sups:
            named.append([(idx + j, v) for j, v in enumerate(s)])
            idx += len(s)
        out = run_impl(lambda: combine_preference_intervals(
            [PreferenceInterval({f"c{i}": v for i, v in s}) for s in named], props))
        if out[0] != "ok":
            if not (out[1] == "ZeroDivisionError"):
                fail("combine-raises", out[2])
            return {"req": {"op": "combine_intervals", "supports": [[[i, rat(v)] for i, v in s] for s in named],
                            "props": [rat(p) for p in props]}, "expect": {"exn": out[1]}, "monitors": monitors, "tags": tags}
        pi = out[1]
        want = {}
        for s, p in zip(named, props):
            S = sum(Fraction(v) for _, v in s)
            for i, v in s:
                if v > 0 and p > 0:
                    want[i] = Fraction(v) / S * Fraction(p)
        T = sum(want.values())
        want = {i: v / T for i, v in want.items()}
        got = {int(c[1:]): v for c, v in pi.interval.items()}
        if set(got) != set(want) or any(not close(got[i], want[i]) for i in want):
            fail("combine-not-cohesion-share", f"{got} vs {want}")
        zeros = sorted(int(c[1:]) for c in pi.zero_cands)
        return {"req": {"op": "combine_intervals", "supports": [[[i, rat(v)] for i, v in s] for s in named],
                        "props": [rat(p) for p in props]},
                "expect": {"interval": got, "zeros": zeros}, "monitors": monitors, "tags": tags, "nontrivial": True}
    if case["op"] == "bt":
        sup = case["supports"]
        names = [f"c{i}" for i in range(len(sup))]
        pi = PreferenceInterval(dict(zip(names, sup)))
        out = run_impl(lambda: BG.name_BradleyTerry(candidates=names, pref_intervals_by_bloc={"W": {"W": pi}},
                                                    bloc_voter_prop={"W": 1.0}, cohesion_parameters={"W": {"W": 1.0}}))
        if out[0] != "ok":
            fail("bt-generator-raises", out[2])
            return {"req": None, "expect": None, "monitors": monitors, "tags": tags}
        pdf = {tuple(int(c[1:]) for c in k): v for k, v in out[1].pdfs_by_bloc["W"].items()}
        # the exact normalised interval as the implementation holds it (floats)
        xf = {int(c[1:]): Fraction(v) for c, v in pi.interval.items()}
        w = {}
        for r in itertools.permutations(sorted(xf)):
            pr = Fraction(1)
            for i in range(len(r)):
                for j in range(i + 1, len(r)):
                    pr *= xf[r[i]] / (xf[r[i]] + xf[r[j]])
            w[r] = pr
        Z = sum(w.values())
        if set(pdf) != set(w):
            fail("bt-table-keys", f"{len(pdf)} rankings, expected {len(w)}")
        else:
            for r in w:
                if not close(pdf[r], w[r] / Z):
                    fail("bt-table-not-pairwise-product", f"{r}: {pdf[r]} vs {float(w[r] / Z)}")
                    break
            if abs(sum(pdf.values()) - 1) > 1e-9:
                fail("bt-table-sum", str(sum(pdf.values())))
        tags.append(f"bt:n={len(xf)}")
        return {"req": {"op": "bt_pdf", "interval": [[i, rat(v)] for i, v in sorted(xf.items())]},
                "expect": {"table": {str(list(k)): v for k, v in pdf.items()}}, "monitors": monitors, "tags": tags,
                "nontrivial": len(xf) > 1}
    if case["op"] == "bt_blocs":
        import random as _r
        sizes, sup, coh = case["sizes"], case["supports"], case["cohesion"]
        nb = len(sizes)
        blocs = [f"B{b}" for b in range(nb)]
        slates, k = [], 0
        for s in range(nb):
            slates.append([f"c{k + j}" for j in range(sizes[s])])
            k += sizes[s]
        ro = _r.Random(case["os"])

        def order(b):
            ks = list(range(nb))
            if case["row_order"] == "own-first":
                ks = [b] + [x for x in ks if x != b]
            elif case["row_order"] == "shuffled":
                ro.shuffle(ks)
            return ks
        try:
            pib = {blocs[b]: {blocs[s]: PreferenceInterval(dict(zip(slates[s], sup[b][s]))) for s in order(b)} for b in range(nb)}
        except ZeroDivisionError:
            return None     # a slate without any support in some bloc: outside this stream
        kw = dict(slate_to_candidates={blocs[s]: slates[s] for s in range(nb)}, pref_intervals_by_bloc=pib,
                  bloc_voter_prop={blocs[b]: 1.0 / nb for b in range(nb)},
                  cohesion_parameters={blocs[b]: {blocs[s]: coh[b][s] for s in order(b)} for b in range(nb)})
        out = run_impl(lambda: BG.name_BradleyTerry(**kw))
        tags.append(f"rows:{case['row_order']}")
        if out[0] != "ok":
            # all-zero combined interval (cohesion 1 on a slate without support) is the documented ZeroDivisionError
            if out[1] != "ZeroDivisionError":
                fail("bt-generator-raises", out[2])
            return {"req": None, "expect": None, "monitors": monitors, "tags": tags}
        g = out[1]
        reqs = None
        for b in range(nb):
            want = {}
            for s in range(nb):
                S = sum(Fraction(v) for v in sup[b][s])
                for c, v in zip(slates[s], sup[b][s]):
                    x = Fraction(v) / S * Fraction(coh[b][s])
                    if x > 0:
                        want[c] = x
            T = sum(want.values())
            want = {c: v / T for c, v in want.items()}
            got = dict(g.pref_interval_by_bloc[blocs[b]].interval)
            if set(got) != set(want) or any(not close(got[c], want[c]) for c in want):
                fail("bloc-interval-not-own-row", f"bloc {blocs[b]} ({case['row_order']}): {got} vs {{c: float(v) for c, v in want.items()}}".replace("{{", "{").replace("}}", "}"))
                continue
            w = {}
            for r in itertools.permutations(sorted(want)):
                pr = Fraction(1)
                for i in range(len(r)):
                    for j in range(i + 1, len(r)):
                        pr *= want[r[i]] / (want[r[i]] + want[r[j]])
                w[r] = pr
            Z = sum(w.values())
            pdf = {tuple(k): v for k, v in g.pdfs_by_bloc[blocs[b]].items()}
            if set(pdf) != set(w) or any(abs(pdf[r] - float(w[r] / Z)) > 1e-7 * max(float(w[r] / Z), 1e-12) + 1e-15 for r in w):
                fail("bloc-table-not-own-interval", f"bloc {blocs[b]}")
            if reqs is None:
                xf = {int(c[1:]): Fraction(v) for c, v in got.items()}
                reqs = ({"op": "bt_pdf", "interval": [[i, rat(v)] for i, v in sorted(xf.items())]},
                        {"table": {str([int(c[1:]) for c in k]): v for k, v in pdf.items()}})
        if reqs is None:
            return {"req": None, "expect": None, "monitors": monitors, "tags": tags}
        return {"req": reqs[0], "expect": reqs[1], "monitors": monitors, "tags": tags, "nontrivial": True}
    # slate BT
    a, b, c = case["a"], case["b"], case["cohesion"]
    A = [f"a{i}" for i in range(a)]
    B = [f"b{i}" for i in range(b)]
    za = ["az"] if case["zero_a"] else []
    piA = PreferenceInterval({**{x: 1.0 + i for i, x in enumerate(A)}, **{z: 0.0 for z in za}})
    piB = PreferenceInterval({x: 1.0 + i for i, x in enumerate(B)})
    out = run_impl(lambda: BG.slate_BradleyTerry(
        slate_to_candidates={"A": A + za, "B": B}, pref_intervals_by_bloc={"A": {"A": piA, "B": piB}, "B": {"A": piA, "B": piB}},
        bloc_voter_prop={"A": 0.5, "B": 0.5}, cohesion_parameters={"A": {"A": c, "B": 1 - c}, "B": {"B": c, "A": 1 - c}}))
    if out[0] != "ok":
        fail("slate-bt-generator-raises", out[2])
        return {"req": None, "expect": None, "monitors": monitors, "tags": tags}
    bloc = case.get("bloc", "A")
    pdf = {tuple(x == bloc for x in k): v for k, v in out[1].ballot_type_pdf[bloc].items()}
    if bloc == "B":
        a, b = b, a      # own slate size first
    cf = Fraction(c)
    w = {}
    for t in set(itertools.permutations([True] * a + [False] * b)):
        succ = sum(1 for i in range(len(t)) for j in range(i + 1, len(t)) if t[i] and not t[j])
        w[t] = cf ** succ * (1 - cf) ** (a * b - succ)
    Z = sum(w.values())
    if set(pdf) != set(w):
        fail("slate-table-keys", f"{len(pdf)} types, expected {len(w)}")
    else:
        for t in w:
            if not close(pdf[t], w[t] / Z):
                fail("slate-table-not-definition", f"{t}: {pdf[t]} vs {float(w[t] / Z)}")
                break
        if abs(sum(pdf.values()) - 1) > 1e-9:
            fail("slate-table-sum", str(sum(pdf.values())))
    tags.append(f"slate:{a}x{b}")
    return {"req": {"op": "slate_bt_pdf", "a": a, "b": b, "cohesion": rat(c)},
            "expect": {"table": {str([bool(x) for x in k]): v for k, v in pdf.items()}}, "monitors": monitors, "tags": tags,
            "nontrivial": True}


def compare(model, expect):
    if "exn" in expect:
        return None if model.get("exn") == expect["exn"] else f"model {model} vs impl {expect}"
    if "ok" not in model:
        return f"model {model} vs impl ok"
    mo = model["ok"]
    if "table" in expect:
        mt = {str(k).replace("true", "True").replace("false", "False"): Fraction(v) for k, v in mo}
        et = expect["table"]
        if set(mt) != set(et):
            return f"table keys differ: model {len(mt)} impl {len(et)}"
        for k in mt:
            if not close(et[k], mt[k]):
                return f"{k}: impl {et[k]} vs exact {float(mt[k])}"
        return None
    mi = {c: Fraction(v) for c, v in mo["interval"]}
    ei = expect["interval"]
    if set(mi) != {int(k) for k in ei}:
        return f"interval support: model {sorted(mi)} impl {sorted(ei)}"
    for k in mi:
        if not close(ei[k] if k in ei else ei[str(k)], mi[k]):
            return f"interval[{k}]: impl {ei.get(k)} vs exact {float(mi[k])}"
    if sorted(mo["zeros"]) != sorted(expect["zeros"]):
        return f"zeros: model {mo['zeros']} impl {expect['zeros']}"
    return None
