"""C07 — STV meets Droop proportionality for solid coalitions (IRV majority criterion)."""
import itertools, math
from fractions import Fraction
from .. import gen, elect
from ..common import Names, rat
from . import c01

PROP = "C07"
LEAN_MODULE = "VK.Check.C07"
THEOREMS = [
    "VK.C07_droop_quota_bound",
    "VK.C07_threshold_pos",
    "VK.C07_solid_top_in_S",
    "VK.C07_fractional_keeps_quota",
    "VK.C07_pigeonhole",
    "VK.C07_no_overfill",
    "VK.C07_majority_selected",
    "VK.stvStep_linked",
    "VK.electChoice_ge",
    "VK.applyTransfers_coalition",
    "VK.psc_step",
    "VK.psc_loop",
    "VK.psc_final",
    "VK.randomAssign_spec",
    "VK.applyTransfer_random_facts",
    "VK.goodTransfers_fractional",
    "VK.goodTransfers_random",
    "VK.C07_droop_psc_general",
    "VK.C07_droop_psc_fractional",
    "VK.C07_irv_majority",
    "VK.fpv_link",
    "VK.C07_droop_psc",
    "VK.C07_DroopPSC_holds_for_untied_profiles",
    "VK.kernel_threshold_droop",
    "VK.kernel_transfer_value_used",
    "VK.kernel_quota_simul",
    "VK.kernel_quota_simul_used",
    "VK.kernel_quota_step",
]
RULE = ("cases = STV / IRV with the Droop quota, fractional or random transfer, simultaneous or one-by-one, any "
        "tiebreak, on profiles of untied ranked ballots (2-6 candidates); 50% have a planted solid coalition (a random "
        "subset S ranked first in random orders on ballots whose total weight is exactly k*threshold or 1/10^6 below "
        "it); for every finished run ALL non-empty candidate subsets S are enumerated, the weight of the ballots solid "
        "for S is computed and at least min(floor(W_S/threshold), |S|, m) members of S must be elected; IRV: a candidate "
        "with first-place weight >= threshold must win; non-trivial = some S with k >= 1; distinct = distinct (rule, "
        "configuration, profile, seed)")
TRUSTED = ["modelled, not verified: random.sample (oracle)"]
ASSUMPTIONS = ["only successful runs (an unbroken tie elects nobody); Droop quota"]
EXPLANATION = ("Theorems: the arithmetic and combinatorial lemmas of the Droop proportionality argument over the "
               "model's count state (the threshold exceeds N/(m+1), so (m+1) quotas exceed the total; ballots solid for S "
               "count for a member of S while one is hopeful; a fractional transfer leaves a coalition at least its "
               "weight minus one quota; pigeonhole: h <= d hopeful members sharing at least d quotas contain one at the "
               "quota; a simultaneous step cannot elect more candidates than seats remain). The monitor checks the full "
               "statement on the implementation for all S.")

N_QUICK, N_THOROUGH = 1500, 54000


def cases(rng, tier, shard, nshards, phase):
    if phase == "corpus":
        return
    total = N_THOROUGH if tier == "thorough" else N_QUICK
    if phase.startswith("search"):
        total *= 2
    eng_share = 0.5 if phase.startswith("search") else 0.1
    for _ in range(total // nshards):
        if rng.random() < eng_share:
            yield engineered_case(rng)
            continue
        rule = rng.choice(["STV", "STV", "STV", "IRV"])
        spec = gen.gen_ranked_spec(rng, nmin=2, nmax=6, ties=False, partial=True, bmin=1, bmax=9)
        n = len(spec["c"])
        m = 1 if rule == "IRV" else rng.randint(1, n)
        cfg = {"quota": "droop", "tiebreak": rng.choice(["random", "random", "borda", "first_place", None]), "m": m}
        if rule != "IRV":
            cfg["simultaneous"] = rng.random() < 0.5
        rnd_transfer = rule == "STV" and rng.random() < 0.3
        planted = None
        if rng.random() < 0.5:
            # plant a solid coalition: make the ballots integer, then add coalition ballots worth k*q (or just below)
            for b in spec["b"]:
                b["w"] = rat(max(1, int(Fraction(b["w"]))))
            S = rng.sample(range(n), rng.randint(1, n))
            k = rng.randint(1, min(m, len(S)) + (1 if rng.random() < 0.3 else 0))
            base = sum(int(Fraction(b["w"])) for b in spec["b"])
            # find coalition weight w with w >= k*q(w+base): q = floor((w+base)/(m+1))+1
            w = k
            while w < 10 ** 4 and w < k * (math.floor((w + base) / (m + 1)) + 1):
                w += 1
            if w < 10 ** 4:
                parts = max(1, min(w, rng.randint(1, 4)))
                cuts = sorted(rng.sample(range(1, w), parts - 1)) if parts > 1 and w > 1 else []
                ws = [b - a for a, b in zip([0] + cuts, cuts + [w])]
                eps = (not rnd_transfer) and rng.random() < 0.35
                for i, x in enumerate(ws):
                    order = list(S)
                    rng.shuffle(order)
                    rest = [c for c in range(n) if c not in S]
                    rng.shuffle(rest)
                    tail = rest[: rng.randint(0, len(rest))]
                    wt = Fraction(x) - (Fraction(1, 10 ** 6) if eps and i == 0 else 0)
                    spec["b"].append({"r": [[c] for c in order + tail], "w": rat(wt), "s": []})
                planted = "just-below" if eps else "exact"
        if rnd_transfer:
            cfg["transfer"] = "random"
            for b in spec["b"]:
                b["w"] = rat(max(1, int(Fraction(b["w"]))))
        rng.shuffle(spec["b"])
        yield {"rule": rule, "cfg": cfg, "spec": spec, "rs": rng.randint(0, 10 ** 9), "planted": planted}


def engineered_case(rng):
    """Two families aimed at the places where a coalition's quotas can leak:
    (a) several candidates reach the threshold in the same round with exactly equal tallies and a surplus that the
        coalition's next member needs (simultaneous elections);
    (b) random transfer from a winner whose pile mixes coalition ballots with ballots that continue elsewhere, the
        coalition holding exactly k quotas (every draw of the sample matters)."""
    if rng.random() < 0.5:
        pairs = rng.randint(2, 3)
        n = 2 * pairs + rng.randint(1, 2)
        names = gen.gen_names(rng, n)
        cs = list(range(n))
        rng.shuffle(cs)
        w = rng.randint(6, 14)
        bs = []
        for i in range(pairs):
            a, b = cs[2 * i], cs[2 * i + 1]
            bs.append({"r": [[a], [b]], "w": str(w), "s": []})
        for j, x in enumerate(cs[2 * pairs:]):
            bs.append({"r": [[x]], "w": str(rng.randint(1, 3)), "s": []})
        m = min(n, 2 * pairs)
        cfg = {"quota": "droop", "tiebreak": rng.choice(["random", "borda", "first_place"]), "m": m,
               "simultaneous": rng.random() < 0.8}
        if rng.random() < 0.3:
            cfg["transfer"] = "random"
        rng.shuffle(bs)
        return {"rule": "STV", "cfg": cfg, "spec": {"names": names, "b": bs, "c": list(range(n))},
                "rs": rng.randint(0, 10 ** 9), "planted": "tied-winners-with-surplus"}
    n = rng.randint(3, 4)
    names = gen.gen_names(rng, n)
    cs = list(range(n))
    rng.shuffle(cs)
    a, b, x = cs[0], cs[1], cs[2]
    m = 2
    # coalition {a, b} with exactly 2 quotas: a>b>x (u), a>x>b (v) are solid for {a}; only a>b>x ... is solid for {a,b}
    for _ in range(50):
        u, v, t = rng.randint(6, 14), rng.randint(1, 4), rng.randint(1, 3)
        N = u + v + t
        q = N // (m + 1) + 1
        if u >= 2 * q and u + v - q >= 1:
            break
    bs = [{"r": [[a], [b], [x]], "w": str(u), "s": []}, {"r": [[a], [x], [b]], "w": str(v), "s": []},
          {"r": [[x], [b], [a]], "w": str(t), "s": []}]
    rng.shuffle(bs)
    cfg = {"quota": "droop", "tiebreak": "random", "m": m, "simultaneous": rng.random() < 0.5, "transfer": "random"}
    return {"rule": "STV", "cfg": cfg, "spec": {"names": names, "b": bs, "c": list(range(n))},
            "rs": rng.randint(0, 10 ** 9), "planted": "mixed-pile-random-transfer"}


def run_case(vk, case):
    rule, cfg, spec = case["rule"], dict(case["cfg"]), case["spec"]
    names = Names(spec["names"])
    profile = gen.build_profile(vk, spec)
    res = elect.construct(vk, rule, profile, cfg, case["rs"])
    tags = [f"rule:{rule}", f"status:{res['status']}", f"planted:{case['planted']}",
            f"transfer:{cfg.get('transfer', 'fractional')}"]
    monitors = []
    failure = None
    nontrivial = False
    if res["status"] == "ok":
        e = res["e"]
        q = e.threshold
        m = 1 if rule == "IRV" else cfg["m"]
        elected = {names.idx[str(c)] for g in e.get_elected() for c in g}
        n = len(spec["c"])
        for size in range(1, n + 1):
            for S in itertools.combinations(spec["c"], size):
                Sset = set(S)
                W = Fraction(0)
                for b in spec["b"]:
                    r = [c for s in b["r"] for c in s]
                    if len(r) >= size and set(r[:size]) == Sset:
                        W += Fraction(b["w"])
                k = math.floor(W / q)
                need = min(k, size, m)
                if need >= 1:
                    nontrivial = True
                got = len(Sset & elected)
                if got < need:
                    monitors.append({"name": "droop-proportionality", "detail":
                                     f"S={sorted(S)} solid weight {W} = {k} x threshold {q} (+rest), m={m}: only {got} of S elected ({sorted(elected)})",
                                     "failure": {"rule": rule, "kind": "psc", "cause": "unexplained"}})
                    break
            if monitors:
                break
        if rule == "IRV":
            fp = {names.idx[str(c)]: Fraction(v) for c, v in e.election_states[0].scores.items()}
            for c, v in fp.items():
                if v >= q and c not in elected:
                    monitors.append({"name": "irv-majority", "detail": f"candidate {c} has {v} >= threshold {q} but {sorted(elected)} won",
                                     "failure": {"rule": rule, "kind": "majority", "cause": "unexplained"}})
    elif res["status"] == "exn" and (res["exn"] != "ValueError" or c01.valueerror_legit(rule, cfg, spec, res, names) is False):
        failure = c01.classify_failure(rule, cfg, spec, res, names)
    req, expect = None, None
    random_tb_calls = [c for c in res["log"].calls if c[0] == "sample" and c[1] and isinstance(c[1][0], str)]
    if res["status"] != "timeout" and not (res["status"] == "exn" and random_tb_calls):
        req = elect.model_request(rule, spec, cfg, res, names)
        expect = elect.expect_states(res, names)
    return {"req": req, "expect": expect, "monitors": monitors, "tags": tags, "failure": failure, "nontrivial": nontrivial}


compare = elect.compare_states
