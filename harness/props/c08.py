"""C08 — outcomes are neutral, anonymous and independent of representation and hash seed."""
import os, sys, json, subprocess, random as _random
from fractions import Fraction
from .. import gen, elect, common
from ..common import Names, rat, VERIF
from . import c01

PROP = "C08"
LEAN_MODULE = "VK.Check.C08"
THEOREMS = [
    "VK.C08_scores_perm_invariant",
    "VK.C08_scores_condense_invariant",
    "VK.C08_scores_split_invariant",
    "VK.C08_points_equivariant",
    "VK.C08_margin_perm_invariant",
    "VK.C08_margin_equivariant",
    "VK.stvStep_lineq",
    "VK.stvLoop_lineq",
    "VK.C08_stv_representation_invariant",
    "VK.C08_stv_ballot_order",
    "VK.C08_stv_ballot_split",
    "VK.scoreFromRankings_current",
    "VK.electChoice_lineq",
    "VK.stvLoop_lineq_inv",
    "VK.C08_stv_representation_invariant_fractional",
    "VK.randomAssign_need",
    "VK.randomAssign_lsum",
    "VK.applyTransfer_random_on",
    "VK.stvStep_random_on",
    "VK.C08_stv_representation_invariant_random",
    "VK.electFromRanking_ren",
    "VK.applyTransfer_ren",
    "VK.stvStep_ren",
    "VK.C08_stv_neutral",
    "VK.C08_stv_neutral_states",
    "VK.C08_irv_neutral",
    "VK.C08_seqrcv_neutral",
    "VK.C08_plurality_neutral",
    "VK.C08_borda_neutral",
    "VK.C08_scorerule_neutral",
    "VK.C08_toptwo_neutral",
    "VK.C08_alaska_neutral",
    "VK.C08_tiers_neutral",
    "VK.C08_condorcet_neutral",
    "VK.C08_domsets_neutral",
    "VK.C08_condoborda_neutral",
    "VK.C08_random_dictator_neutral",
    "VK.C08_boosted_neutral",
    "VK.scoreToRanking_re",
    "VK.electFromRanking_re",
    "VK.scoreFromRankings_re",
    "VK.applyTransfers_perm",
    "VK.stvStep_re",
    "VK.C08_plurality_cand_order",
    "VK.C08_borda_cand_order",
    "VK.C08_scorerule_cand_order",
    "VK.C08_stv_cand_order",
    "VK.C08_irv_cand_order",
    "VK.C08_seqrcv_cand_order",
    "VK.reRS_same_sets",
    "VK.C08_cand_order_random_transfer_differs",
    "VK.reach_re",
    "VK.C08_tiers_cand_order",
    "VK.C08_condorcet_cand_order",
    "VK.C08_domsets_cand_order",
    "VK.C08_condoborda_cand_order",
    "VK.scoreFromRankings_rep",
    "VK.scoreFromBallotScores_rep",
    "VK.RepEq.removeCand",
    "VK.topMRun_rep",
    "VK.C08_plurality_rep",
    "VK.C08_borda_rep",
    "VK.C08_scorerule_rep",
    "VK.C08_plurality_ballot_order",
    "VK.C08_plurality_ballot_split",
    "VK.C08_plurality_ballot_merge",
    "VK.C08_tiers_rep",
    "VK.C08_domsets_rep",
    "VK.C08_condoborda_rep",
    "VK.C08_toptwo_rep",
    "VK.topMRun_mentions",
    "VK.reRS_restrict",
    "VK.finalistStage_re",
    "VK.C08_toptwo_cand_order",
    "VK.stvStep_mentions",
    "VK.stvRun_mentions",
    "VK.C08_alaska_cand_order",
    "VK.C08_stv_rep",
    "VK.rankedWF_removeCand",
    "VK.C08_alaska_rep",
    "VK.C08_random_dictator_rep",
    "VK.C08_boosted_rep",
]
RULE = ("cases = deterministic configuration of every ranking / scoring / pairwise rule (as in C10) on a random profile; "
        "five transformations of the input: rename the candidates by a random bijection into a second name pool (sort "
        "order and hash order differ from the first), permute the ballots, split one ballot into identical ballots whose "
        "weights add up, merge identical ballots (condense), list the declared candidates in a different order; every "
        "round of the transformed election is compared with the original after un-renaming, whenever no tiebreak is "
        "recorded; on ranked profiles the scoring utilities (first_place_votes, borda_scores, mentions, a custom vector; "
        "exact and to_float=True) are evaluated on the original and on each transformed profile and must agree, floats bit "
        "for bit; plus a fixed script of elections replayed in separate interpreters with different PYTHONHASHSEED "
        "values (2 in the quick tier, 8 in the thorough tier) whose canonical outputs must be byte-identical; "
        "non-trivial = at least two ballots and two candidates; distinct = distinct (rule, configuration, profile)")
TRUSTED = ["CPython set/dict iteration and string hashing are not modelled: hash-seed independence cannot be exhibited by "
           "a model and is carried by the multi-interpreter replay"]
ASSUMPTIONS = ["runs that record a tiebreak are compared only up to that record (C10 covers them)"]
EXPLANATION = ("Theorems: positional scores are invariant under permuting, merging (condensing) and splitting ballots and "
               "equivariant under an injective renaming of candidate indices; head-to-head margins likewise. The model "
               "is name-free, so renaming with the declared order kept is the same model input: neutrality under "
               "renaming is then exactly the correspondence holding for arbitrary names. STV-family equivariance is "
               "carried by the metamorphic runs, not by a theorem.")

N_QUICK, N_THOROUGH = 700, 25200
POOL2 = ["zoe", "Yan", "x-ray", "Will", "v", "Uma", "tom", "S t", "R2", "q", "Pam", "O'N", "ned", "Mo", "l", "Kim"]


def cases(rng, tier, shard, nshards, phase):
    if phase == "corpus":
        return
    total = N_THOROUGH if tier == "thorough" else N_QUICK
    if phase.startswith("search"):
        total *= 2
    rules = ["STV", "STV", "IRV", "SequentialRCV", "Plurality", "SNTV", "Borda", "TopTwo", "Alaska", "DominatingSets",
             "CondoBorda", "Rating", "Approval", "Cumulative", "Limited", "BlocPlurality"]
    for _ in range(total // nshards):
        rule = rng.choice(rules)
        case = c01.gen_case(rng, rule)
        case["cfg"].pop("transfer", None)
        case["tseed"] = rng.randint(0, 10 ** 9)
        if rng.random() < 0.08 and len(case["spec"]["b"]) >= 2:
            # tallies that differ by one vote far above 2**53: unequal, but equal as floats - a deterministic rule must
            # still order them the same way under every representation (no tie exists, none may be recorded)
            for b in case["spec"]["b"]:
                b["w"] = str(10 ** 16)
            k = rng.randrange(len(case["spec"]["b"]))
            case["spec"]["b"][k]["w"] = str(10 ** 16 + 1)
            case["near_equal_huge"] = True
        yield case


def canon(res, names):
    if res["status"] == "ok":
        return ("ok", names.states(res["e"]), getattr(res["e"], "threshold", None))
    return (res["status"], res.get("exn"))


def run_variant(vk, rule, cfg, spec, names_list, ballots, cand_order, rs):
    """build the profile from index-level data with the given names / ballot list / declared order"""
    bl = tuple(gen.build_ballot(vk, names_list, b) for b in ballots)
    prof = vk.PreferenceProfile(ballots=bl, candidates=tuple(names_list[c] for c in cand_order))
    res = elect.construct(vk, rule, prof, cfg, rs)
    return canon(res, Names(names_list)), res


def util_outcomes(vk, names_list, ballots, cand_order):
    """the scoring utilities on the profile built from index-level data: exact results and the to_float=True ones (a
    float is the rounding of the exact total, so it must be bit-identical under every representation as well)"""
    from votekit import utils as U
    bl = tuple(gen.build_ballot(vk, names_list, b) for b in ballots)
    prof = vk.PreferenceProfile(ballots=bl, candidates=tuple(names_list[c] for c in cand_order))
    idx = {nm: i for i, nm in enumerate(names_list)}
    n = len(cand_order)
    out = {}
    calls = {"fpv": lambda f: U.first_place_votes(prof, to_float=f), "borda": lambda f: U.borda_scores(prof, to_float=f),
             "mentions": lambda f: U.mentions(prof, to_float=f),
             "vector": lambda f: U.score_profile_from_rankings(prof, [n + 1] + [1] * max(0, n - 2), to_float=f)}
    for key, fn in calls.items():
        for f in (False, True):
            try:
                d = fn(f)
                out[f"{key}:{'float' if f else 'exact'}"] = sorted((idx[str(c)], repr(v) if f else rat(Fraction(v))) for c, v in d.items())
            except Exception as ex:     # noqa: BLE001
                out[f"{key}:{'float' if f else 'exact'}"] = f"raises {type(ex).__name__}"
    return out


def run_case(vk, case):
    rule, cfg, spec = case["rule"], dict(case["cfg"]), case["spec"]
    names = Names(spec["names"])
    rng = _random.Random(case["tseed"])
    n = len(spec["c"])
    base, res = run_variant(vk, rule, cfg, spec, spec["names"], spec["b"], spec["c"], case["rs"])
    tags = [f"rule:{rule}", f"status:{base[0]}"]
    if case.get("near_equal_huge"):
        tags.append("weights:near-equal-above-2^53")
    monitors = []

    def fail(name, detail):
        monitors.append({"name": name, "detail": detail[:600], "failure": {"rule": rule, "kind": name, "cause": "unexplained"}})

    recorded = base[0] == "ok" and any(s["tiebreaks"] for s in base[1])
    failing = base[0] not in ("ok",) and not (base[0] == "exn" and base[1] == "ValueError")
    if recorded or failing or any(c[0] in ("sample", "choices") for c in res["log"].calls):
        tags.append("skipped:random-or-known-failure")
    else:
        variants = {}
        # 1. rename by a random bijection into a second name pool
        names2 = rng.sample(POOL2, n)
        variants["rename"] = (names2, spec["b"], spec["c"])
        # 2. permute the ballots
        pb = list(spec["b"]); rng.shuffle(pb)
        variants["permute-ballots"] = (spec["names"], pb, spec["c"])
        # 3. split one ballot into identical ballots whose weights add up
        if spec["b"]:
            k = rng.randrange(len(spec["b"]))
            w = Fraction(spec["b"][k]["w"])
            if rule in ("PluralityVeto",):
                parts = [w]
            else:
                a = w * Fraction(rng.randint(1, 4), 5)
                parts = [a, w - a]
                if cfg.get("transfer") == "random":
                    parts = [w]
            sb = spec["b"][:k] + [dict(spec["b"][k], w=rat(x)) for x in parts] + spec["b"][k + 1:]
            rng.shuffle(sb)
            variants["split"] = (spec["names"], sb, spec["c"])
        # 4. merge identical ballots
        merged = {}
        for b in spec["b"]:
            key = json.dumps([b["r"], b["s"]])
            merged[key] = merged.get(key, Fraction(0)) + Fraction(b["w"])
        mb = [{"r": json.loads(k)[0], "s": json.loads(k)[1], "w": rat(v)} for k, v in merged.items()]
        variants["merge"] = (spec["names"], mb, spec["c"])
        # 5. declared candidates in a different order
        co = list(spec["c"]); rng.shuffle(co)
        variants["candidate-order"] = (spec["names"], spec["b"], co)
        ranked_only = all(not b["s"] for b in spec["b"])
        ubase = util_outcomes(vk, spec["names"], spec["b"], spec["c"]) if ranked_only else None
        for vname, (nl, bl, co) in variants.items():
            out, _ = run_variant(vk, rule, cfg, spec, nl, bl, co, case["rs"])
            if out != base:
                detail = f"{vname}: original {str(base)[:250]} / transformed {str(out)[:250]}"
                fail(f"not-invariant-under-{vname}", detail)
            if ubase is not None:
                uout = util_outcomes(vk, nl, bl, co)
                diff = [k for k in ubase if ubase[k] != uout[k]]
                if diff:
                    k = diff[0]
                    fail(f"scoring-utility-not-invariant-under-{vname}",
                         f"{k}: original {str(ubase[k])[:220]} / transformed {str(uout[k])[:220]}")
        tags.append("compared:5-transformations")
        if ubase is not None:
            tags.append("compared:scoring-utilities")
    req, expect, failure = None, None, None
    random_tb_calls = [c for c in res["log"].calls if c[0] == "sample" and c[1] and isinstance(c[1][0], str)]
    if res["status"] != "timeout" and not (res["status"] == "exn" and random_tb_calls and rule in elect.STV_FAMILY):
        req = elect.model_request(rule, spec, cfg, res, names)
        expect = elect.expect_states(res, names)
    if res["status"] == "exn" and (res["exn"] != "ValueError" or c01.valueerror_legit(rule, cfg, spec, res, names) is False):
        failure = c01.classify_failure(rule, cfg, spec, res, names)
    return {"req": req, "expect": expect, "monitors": monitors, "tags": tags, "failure": failure,
            "nontrivial": len(spec["b"]) > 1 and n > 1}


compare = elect.compare_states


# ------------------------------------------------------------------ hash-seed replay (global check)

def hash_script(seed, count):
    """deterministic list of cases for the multi-interpreter replay"""
    rng = common.seed_rng("c08-hash", seed)
    rules = ["STV", "IRV", "SequentialRCV", "Plurality", "Borda", "TopTwo", "Alaska", "DominatingSets", "CondoBorda",
             "Rating", "Approval"]
    out = []
    for _ in range(count):
        case = c01.gen_case(rng, rng.choice(rules))
        case["cfg"].pop("transfer", None)
        out.append(case)
    return out


def hash_worker(seed, count):
    vk = common.import_votekit()
    from votekit import utils as U
    lines = []
    for case in hash_script(seed, count):
        spec = case["spec"]
        names = Names(spec["names"])
        prof = gen.build_profile(vk, spec)
        res = elect.construct(vk, case["rule"], prof, dict(case["cfg"]), case["rs"])
        c = canon(res, names)
        sc = {}
        if all(b["r"] for b in spec["b"]):
            sc = {"fpv": names.scores(U.first_place_votes(prof)), "borda": names.scores(U.borda_scores(prof)),
                  "mentions": names.scores(U.mentions(prof))}
        lines.append(json.dumps([case["rule"], c, sc], sort_keys=True, default=str))
    return lines


def global_checks(tier, seed):
    """replay the script under different PYTHONHASHSEED values in fresh interpreters"""
    k = 8 if tier == "thorough" else 2
    count = 2000 if tier == "thorough" else 250
    outs = []
    for hs in range(1, k + 1):
        env = dict(os.environ, PYTHONHASHSEED=str(hs * 7919), PYTHONPATH=VERIF)
        p = subprocess.run([sys.executable, "-m", "harness.props.c08", str(seed), str(count)], env=env, cwd=VERIF,
                           stdout=subprocess.PIPE, stderr=subprocess.PIPE, timeout=3000)
        if p.returncode != 0:
            raise RuntimeError(f"hash-seed worker failed: {p.stderr.decode()[-500:]}")
        outs.append(p.stdout.decode().splitlines())
    fails = []
    script = hash_script(seed, count)
    for i in range(count):
        vals = {o[i] for o in outs}
        if len(vals) > 1:
            a, b = sorted(vals)[:2]
            # outcomes that record a random tiebreak may legitimately differ
            if '"tiebreaks": [[' in a or '"tiebreaks": [[' in b or '"exn"' in a:
                continue
            fails.append({"case": script[i], "monitor": {"name": "hash-seed-dependent",
                          "detail": f"{a[:300]} / {b[:300]}",
                          "failure": {"rule": script[i]["rule"], "kind": "hash-seed-dependent", "cause": "unexplained"}},
                          "impl": None})
    return fails, {"hash_seeds": k, "elections_per_seed": count}


if __name__ == "__main__":
    for l in hash_worker(int(sys.argv[1]), int(sys.argv[2])):
        print(l)
