"""C09 — round-by-round queries on a finished election are consistent and pure."""
import copy, math
from fractions import Fraction
from .. import gen, elect
from ..common import Names, rat, run_impl, condensed_map
from . import c01

PROP = "C09"
LEAN_MODULE = "VK.Check.C09"
THEOREMS = [
    "VK.C09_normIndex",
    "VK.C09_negative_index",
    "VK.C09_out_of_range",
    "VK.C09_elected_cumulative",
    "VK.C09_eliminated_cumulative",
    "VK.C09_ranking_is_concat",
    "VK.fpv_current",
    "VK.stvStep_nonneg",
    "VK.stvLoop_rounds_ok",
    "VK.C09_stv_round_profiles",
    "VK.statusLoop_find",
    "VK.C09_status_elected",
    "VK.C09_status_eliminated",
    "VK.C09_status_remaining",
    "VK.C09_status_never_listed",
    "VK.C09_topM_round_profiles",
    "VK.C09_plurality_round_profiles",
]
RULE = ("cases = finished election of any of the 18 rules (as generated for C01; failing constructions are skipped) x a "
        "history of 6-30 queries drawn with repetition from get_profile / get_step / get_elected / get_eliminated / "
        "get_remaining / get_ranking / get_status_df with round indices from -len-2 to len+1; get_profile/get_step are "
        "only issued for elections whose construction called no random primitive; after every call the answer is "
        "compared with the Lean model, the recorded rounds are compared with a snapshot taken before the history, and "
        "repeated calls must repeat their answers; non-trivial = at least 3 recorded rounds; distinct = distinct "
        "(election, history)")
TRUSTED = ["modelled, not verified: object identity / aliasing in Python (purity is observed by snapshots, not proved); "
           "the pandas status table beyond its Status/Round columns and row order"]
ASSUMPTIONS = ["elections whose rounds involved a random choice are queried only through the non-replaying getters"]
EXPLANATION = ("Theorems: index normalisation (negative indices address the same rounds, out-of-range raises IndexError), "
               "cumulative elected/eliminated are the concatenations of the per-round records, the ranking is elected ++ "
               "remaining ++ eliminated, and queries are pure functions of the recorded rounds. Monitors: profile "
               "candidates = remaining candidates, re-scoring reproduces the recorded tallies.")

N_QUICK, N_THOROUGH = 800, 28800
QUERIES = ["get_profile", "get_step", "get_elected", "get_eliminated", "get_remaining", "get_ranking", "get_status_df"]


def cases(rng, tier, shard, nshards, phase):
    if phase == "corpus":
        if shard == 0:
            # F-C09-a witness: D x10, A x3, B x2, C x1, m = 3
            spec = {"names": ["A", "B", "C", "D"], "c": [0, 1, 2, 3],
                    "b": [{"r": [[3]], "w": "10", "s": []}, {"r": [[0]], "w": "3", "s": []},
                          {"r": [[1]], "w": "2", "s": []}, {"r": [[2]], "w": "1", "s": []}]}
            yield {"rule": "STV", "cfg": {"m": 3, "quota": "droop", "simultaneous": True, "tiebreak": None}, "spec": spec,
                   "rs": 1, "calls": [["get_profile", r] for r in range(-5, 5)]}
        return
    total = N_THOROUGH if tier == "thorough" else N_QUICK
    if phase.startswith("search"):
        total *= 2
    for _ in range(total // nshards):
        case = c01.gen_case(rng)
        nq = rng.randint(6, 30)
        calls = []
        for _ in range(nq):
            if calls and rng.random() < 0.15:
                calls.append(list(rng.choice(calls)))
            else:
                calls.append([rng.choice(QUERIES), rng.randint(-9, 8)])
        case["calls"] = calls
        yield case


def snap(names, e):
    return names.states(e)


def canon_profile(names, p):
    return {"w": condensed_map(names.ballots(p.ballots)), "c": sorted(names.idx[str(c)] for c in p.candidates)}


def canon_status(names, df, groups=None):
    rows = _status_rows(names, df)
    if groups is None:
        return rows
    # the order of candidates inside one tied group is a set iteration order: not observable
    out, i = [], 0
    for g in groups:
        out += sorted(rows[i:i + len(g)])
        i += len(g)
    return out + rows[i:]


def _status_rows(names, df):
    rows = []
    for c, row in df.iterrows():
        st, rd = row["Status"], row["Round"]
        if isinstance(rd, float) and math.isnan(rd):
            rows.append([names.idx.get(str(c), -1), "NaN", -1])
        else:
            rows.append([names.idx[str(c)], str(st), int(rd)])
    return rows


def answer(names, e, name, r):
    f = getattr(e, name)
    out = run_impl(lambda: f(r))
    if out[0] == "exn":
        return {"exn": out[1]}, None
    v = out[1]
    if name == "get_profile":
        return {"ok": canon_profile(names, v)}, v
    if name == "get_step":
        return {"ok": [canon_profile(names, v[0]), names.state(v[1])]}, v
    if name == "get_status_df":
        return {"ok": canon_status(names, v, names.ranking(e.get_ranking(r)))}, v
    return {"ok": names.ranking(v)}, v


def run_case(vk, case):
    rule, cfg, spec = case["rule"], dict(case["cfg"]), case["spec"]
    names = Names(spec["names"])
    profile = gen.build_profile(vk, spec)
    res = elect.construct(vk, rule, profile, cfg, case["rs"])
    tags = [f"rule:{rule}", f"status:{res['status']}"]
    if res["status"] != "ok":
        return {"req": None, "expect": None, "monitors": [], "tags": tags, "nontrivial": False}
    e = res["e"]
    monitors = []

    def fail(name, detail, cause="unexplained"):
        monitors.append({"name": name, "detail": detail[:500], "failure": {"rule": rule, "kind": name, "cause": cause}})

    random_used = len(res["log"].calls) > 0
    replay_ok = not random_used and rule != "PluralityVeto"
    tags.append("replay-queries" if replay_ok else "non-replay-queries-only")
    n_states = len(e.election_states)
    before = snap(names, e)
    calls = [c for c in case["calls"] if replay_ok or rule == "PluralityVeto" or c[0] not in ("get_profile", "get_step")]
    answers = []
    seen = {}
    for name, r in calls:
        a, raw = answer(names, e, name, r)
        answers.append(a)
        key = (name, r)
        if key in seen and seen[key] != a:
            fail("repeated-query-differs", f"{name}({r}): {seen[key]} then {a}")
        seen[key] = a
        if snap(names, e) != before:
            fail("recorded-rounds-changed", f"after {name}({r})")
            break
        in_range = -n_states <= r < n_states
        if not in_range:
            if a != {"exn": "IndexError"}:
                fail("out-of-range-index", f"{name}({r}) with {n_states} rounds gave {a}")
            continue
        if "exn" in a:
            cause = "pluralityveto-get_profile-replay" if rule == "PluralityVeto" and name in ("get_profile", "get_step") else "unexplained"
            fail("query-raises", f"{name}({r}): {a}", cause)
            continue
        rr = r % n_states
        if r < 0:
            b, _ = answer(names, e, name, rr)
            if a != b:
                fail("negative-index", f"{name}({r}) != {name}({rr})")
        st = before
        if name == "get_elected":
            want = [g for s in st[: rr + 1] for g in s["elected"]]
            if a["ok"] != want:
                fail("cumulative-elected", f"{a['ok']} vs records {want}")
        elif name == "get_eliminated":
            want = [g for s in reversed(st[: rr + 1]) for g in reversed(s["eliminated"])]
            if a["ok"] != want:
                fail("cumulative-eliminated", f"{a['ok']} vs records {want}")
        elif name == "get_remaining":
            if a["ok"] != st[rr]["remaining"]:
                fail("remaining", f"{a['ok']} vs {st[rr]['remaining']}")
        elif name == "get_ranking":
            want = [g for s in st[: rr + 1] for g in s["elected"]] + st[rr]["remaining"] + \
                   [g for s in reversed(st[: rr + 1]) for g in reversed(s["eliminated"])]
            if a["ok"] != want:
                fail("ranking", f"{a['ok']} vs {want}")
        elif name == "get_status_df":
            status = {}
            for c in spec["c"]:
                status[c] = ["Remaining", 0]
            for i, s in enumerate(st[1: rr + 1], 1):
                for g in s["elected"]:
                    for c in g:
                        status[c] = ["Elected", i]
                for g in s["eliminated"]:
                    for c in g:
                        status[c] = ["Eliminated", i]
                for g in s["remaining"]:
                    for c in g:
                        status[c][1] = i
            want_order = [c for s in st[: rr + 1] for g in s["elected"] for c in g] + \
                         [c for g in st[rr]["remaining"] for c in g] + \
                         [c for s in reversed(st[: rr + 1]) for g in reversed(s["eliminated"]) for c in g]
            want = [[c] + status[c] for c in want_order]
            if a["ok"] != want:
                fail("status-table", f"{a['ok']} vs {want}")
        elif name in ("get_profile", "get_step"):
            pr = raw if name == "get_profile" else raw[0]
            rem = sorted(c for g in st[rr]["remaining"] for c in g)
            pc = sorted(names.idx[str(c)] for c in pr.candidates)
            if pc != rem:
                fail("profile-candidates", f"{name}({r}): profile lists {pc}, remaining after round {rr}: {rem}")
            if e.score_function is not None and st[rr]["scores"] is not None:
                sc = run_impl(lambda: e.score_function(pr))
                if sc[0] != "ok" or names.scores(sc[1]) != st[rr]["scores"]:
                    fail("rescoring", f"{name}({r}): re-scored {names.scores(sc[1]) if sc[0] == 'ok' else sc} vs recorded {st[rr]['scores']}")
    run_req = elect.model_request(rule, spec, cfg, res, names) if rule != "PluralityVeto" else None
    if run_req is None:
        return {"req": None, "expect": None, "monitors": monitors, "tags": tags, "nontrivial": n_states > 2}
    req = {"op": "history", "run": run_req, "calls": calls}
    expect = {"ok": {"states": before, "answers": answers}}
    return {"req": req, "expect": expect, "monitors": monitors, "tags": tags, "nontrivial": n_states > 2}


def canon_model_answer(a):
    if "ok" not in a:
        return a
    v = a["ok"]
    if isinstance(v, dict) and "b" in v:
        return {"ok": {"w": condensed_map(v["b"]), "c": sorted(v["c"])}}
    if isinstance(v, list) and len(v) == 2 and isinstance(v[0], dict) and "b" in v[0]:
        return {"ok": [{"w": condensed_map(v[0]["b"]), "c": sorted(v[0]["c"])}, v[1]]}
    return a


def compare(model, expect):
    if "ok" not in model:
        return f"model {model} vs impl ok"
    if model["ok"]["states"] != expect["ok"]["states"]:
        return "states differ"
    ma = [canon_model_answer(a) for a in model["ok"]["answers"]]
    for i, (a, b) in enumerate(zip(ma, expect["ok"]["answers"])):
        if a != b:
            return f"answer {i} differs: model {str(a)[:300]} vs impl {str(b)[:300]}"
    return None
