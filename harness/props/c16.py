"""C16 — generated ballots follow the documented model distributions."""
import math, itertools, random
from fractions import Fraction
import numpy as np
from .. import bgen
from ..bgen import BLOC_KINDS, TWO_BLOC
from ..common import Names, rat
from . import c14

PROP = "C16"
LEAN_MODULE = "VK.Check.C16"
THEOREMS = [
    "VK.C16_whichBin_iff",
    "VK.C16_whichBin_width",
    "VK.C16_typeStep_renormalised",
    "VK.C16_pl_first",
    "VK.C16_pl_mass",
    "VK.C16_pl_ranking_prob",
    "VK.C16_cumulative_iid",
    "VK.C16_bt_swap_ratio",
    "VK.C16_bt_mcmc_reversible",
    "VK.C16_slate_swap_ratio",
    "VK.C16_slate_mcmc_reversible",
    "VK.C16_ic_uniform",
    "VK.C16_spatial_sorted",
    "VK.C16_pl_restriction",
    "VK.C16_PLRestrictionConsistent",
    "VK.kernel_slate_accept_down",
    "VK.kernel_slate_accept_up",
    "VK.kernel_slate_accept_used",
    "VK.kernel_bt_accept",
    "VK.kernel_bt_accept_used",
    "VK.C16_alternate_structure",
    "VK.C16_filter_order",
]
RULE = ("cases = the parameter sets of C14 biased towards N >= 2 (per-loop state matters), three blocs, unequal supports and "
        "cohesion below 1/2; for every run each recorded primitive call is compared by the Lean model with the call the "
        "documented law makes (population aligned with its probability vector, size, replace flag; which_bin of the recorded "
        "coin flips; Metropolis acceptance of the recorded uniform draws) and the assembled profile with the implementation's; "
        "independent monitors: every probability vector handed to numpy.random.choice is the voter bloc's interval for exactly "
        "the candidates drawn from, spatial ballots are sorted by the distances recomputed from the returned positions, "
        "AlternatingCrossover / CambridgeSampler bloc-first vs opposing-first counts equal the apportioned split; after a "
        "broken correspondence the search phases compare empirical ballot frequencies with the exact law (6 sigma) to find a "
        "failing parameter set; non-trivial = at least two supported candidates and N >= 2; distinct = distinct parameter sets")
TRUSTED = ["the laws of the library primitives are assumed, not tested: numpy.random.choice(p, replace=False) = successive "
           "sampling proportional to p; choice(p) / random.choices = i.i.d. categorical; numpy.random.uniform / random.random = "
           "uniform on [0,1) (so P(bin i) = width of bin i and P(u < a) = a); random.shuffle = uniform permutation; "
           "default_rng().dirichlet(1e20 * 1) = the uniform vector (checked within 1e-6 on every run)",
           "float arithmetic of intervals / bins is compared with the exact value at relative tolerance 1e-9; a coin flip within "
           "one ulp of a bin edge is not modelled",
           "the frequency comparison of the search phases is a search aid only; no verdict on the unchanged tree depends on it"]
ASSUMPTIONS = c14.ASSUMPTIONS + ["MCMC claims are about the transition kernel (reversibility w.r.t. the table), not about mixing time"]
EXPLANATION = ("Theorems: which_bin selects bin i exactly when the flip lies in (B_i, B_i+1], an interval whose width is the "
               "i-th weight, and after a slate is used up the weights of the remaining slates are renormalised; successive "
               "sampling picks c first with probability x_c / sum x, has total mass one and gives a ranking the product of "
               "the successive shares; cumulative draws are i.i.d.; the adjacent-swap Metropolis kernels of name-BT and "
               "slate-BT satisfy detailed balance with respect to the C15 tables (so the tables are stationary); the IC "
               "distribution gives every complete ranking 1/n!; the distance sort returns a permutation of the candidates "
               "in non-decreasing distance, stable; crossover ballots alternate opposing/own candidates in their drawn "
               "orders; restricting a drawn order to a slate keeps the relative order, and (marginalisation identity, all "
               "sizes) the restricted order is distributed as successive sampling from the slate's own supports.")

N_QUICK, N_THOROUGH = 2000, 72000


def cases(rng, tier, shard, nshards, phase):
    if phase == "corpus":
        if shard == 0:
            # cohesion below 1/2 in the slate-BT chain (F-C16-b) and a second AlternatingCrossover ballot (F-C16-a)
            base = {"blocs": ["W", "C"], "slates": {"W": ["a", "Bob"], "C": ["zed"]},
                    "supports": {b: {"W": [2.0, 1.0], "C": [1.0]} for b in ["W", "C"]},
                    "cohesion": {"W": {"W": 0.2, "C": 0.8}, "C": {"C": 0.3, "W": 0.7}}, "props": {"W": 0.5, "C": 0.5}}
            yield dict(base, kind="slate_bt_mcmc", seed=5, N=40)
            yield dict(base, kind="ac", seed=6, N=12)
        return
    total = N_THOROUGH if tier == "thorough" else N_QUICK
    search = phase.startswith("search")
    if search:
        total = total // 40
    kinds = [k for k in bgen.KINDS]
    for i in range(max(1, total // nshards)):
        p = bgen.gen_params(rng, kinds[(i + shard) % len(kinds)] if i % 2 == 0 else None)
        if p["kind"] != "clustered" and p["N"] == 1 and rng.random() < 0.7:
            p["N"] = rng.choice([2, 3, 5, 8, 13, 21])
        if search:
            p["stat"] = True
            if p["kind"] != "clustered":
                p["N"] = 3000
        yield p


# ----------------------------------------------------------------------------- exact laws (independent of the Lean model)

def pl_prob(x, r):
    """probability of drawing the sequence r by successive sampling from weights x (dict)"""
    pr, rest = Fraction(1), sum(x.values())
    for c in r:
        if rest == 0 or x.get(c, 0) == 0:
            return Fraction(0)
        pr *= x[c] / rest
        rest -= x[c]
    return pr


def slate_interval(p, bloc, s):
    xs = [Fraction(v) for v in p["supports"][bloc][s]]
    S = sum(xs)
    return {c: v / S for c, v in zip(p["slates"][s], xs) if v > 0}


def type_law(sizes, values):
    """exact law of sample_cohesion_ballot_types patterns: dict pattern(tuple of slate idx) -> prob"""
    out = {}

    def rec(prefix, pr, slates, vals):
        if not slates:
            out[tuple(prefix)] = out.get(tuple(prefix), 0) + pr
            return
        tot = sum(vals)
        if tot == 0:
            rest = [s for s in slates for _ in range(sizes[s] - prefix.count(s))]
            perms = set(itertools.permutations(rest))
            for q in perms:
                out[tuple(prefix) + q] = out.get(tuple(prefix) + q, 0) + pr / len(perms)
            return
        for i, s in enumerate(slates):
            if vals[i] == 0:
                continue
            npre = prefix + [s]
            if npre.count(s) == sizes[s]:
                rec(npre, pr * vals[i] / tot, slates[:i] + slates[i + 1:], vals[:i] + vals[i + 1:])
            else:
                rec(npre, pr * vals[i] / tot, slates, vals)
    slates = [s for s in range(len(sizes))]
    # a slate without supported candidates never completes in the code; the generator is not called that way
    rec([], Fraction(1), slates, [Fraction(v) for v in values])
    return out


def exact_law(p, bloc):
    """law of one ballot of `bloc` as dict (ranking tuple of tuples) -> Fraction, or None when not available"""
    kind, blocs, slates = p["kind"], p["blocs"], p["slates"]
    bi = blocs.index(bloc)
    if kind in ("pl", "bt", "bt_mcmc", "cumulative", "short_pl"):
        x, zeros = c14.interval_of(p["supports"][bloc], slates, blocs, p["cohesion"][bloc])
        cands = list(x)
        if len(cands) > 5:
            return None
        tail = (tuple(sorted(zeros)),) if zeros else ()
        if kind == "pl":
            return {tuple((c,) for c in r) + tail: pl_prob(x, r) for r in itertools.permutations(cands)}
        if kind in ("bt", "bt_mcmc"):
            w = {}
            for r in itertools.permutations(cands):
                pr = Fraction(1)
                for i in range(len(r)):
                    for j in range(i + 1, len(r)):
                        pr *= x[r[i]] / (x[r[i]] + x[r[j]])
                w[r] = pr
            Z = sum(w.values())
            return {tuple((c,) for c in r) + tail: v / Z for r, v in w.items()}
        if kind == "cumulative":
            k = p["votes"]
            law = {}
            for combo in itertools.product(cands, repeat=k):
                pr = Fraction(1)
                for c in combo:
                    pr *= x[c]
                key = ("scores", tuple(sorted((c, combo.count(c)) for c in set(combo))))
                law[key] = law.get(key, 0) + pr
            return law
        if kind == "short_pl":
            L = p["L"]
            if len(cands) < L:
                return None
            return {tuple((c,) for c in r): pl_prob(x, r) for r in itertools.permutations(cands, L)}
    if kind in ("slate_pl", "slate_bt", "slate_bt_mcmc"):
        ivs = [slate_interval(p, bloc, s) for s in blocs]
        zeros = sorted(c for s in blocs for c, v in zip(slates[s], p["supports"][bloc][s]) if v == 0)
        sizes = [len(iv) for iv in ivs]
        if sum(sizes) > 5:
            return None
        if kind == "slate_pl":
            tl = type_law(sizes, [p["cohesion"][bloc][s] for s in blocs])
        else:
            if len(blocs) == 1:
                tl = {tuple([0] * sizes[0]): Fraction(1)}
            else:
                c = Fraction(p["cohesion"][bloc][bloc])
                a, b = sizes[bi], sum(sizes) - sizes[bi]
                tl = {}
                for t in set(itertools.permutations([bi] * a + [1 - bi] * b)):
                    succ = sum(1 for i in range(len(t)) for j in range(i + 1, len(t)) if t[i] == bi and t[j] != bi)
                    tl[t] = c ** succ * (1 - c) ** (a * b - succ)
                Z = sum(tl.values())
                if Z == 0:
                    return None
                tl = {t: v / Z for t, v in tl.items()}
        tail = (tuple(zeros),) if zeros else ()
        law = {}
        orders = [list(itertools.permutations(list(iv))) for iv in ivs]
        for t, pt in tl.items():
            if pt == 0:
                continue
            for combo in itertools.product(*orders):
                pr = pt
                for iv, o in zip(ivs, combo):
                    pr *= pl_prob(iv, o)
                its = [list(o) for o in combo]
                r = tuple((its[s].pop(0),) for s in t) + tail
                law[r] = law.get(r, 0) + pr
        return law
    return None


def stat_check(vk, p, obs, fail, tags):
    """search aid: empirical by-bloc ballot frequencies against the exact law, 6 sigma + slack"""
    kind = p["kind"]
    if kind not in BLOC_KINDS or kind in TWO_BLOC:
        return
    slack = 0.04 if kind.endswith("mcmc") else 0.004
    for bloc in p["blocs"]:
        law = exact_law(p, bloc)
        prof = obs["by_bloc"][bloc]
        n = sum(Fraction(b.weight) for b in prof.ballots)
        if law is None or n < 500:
            continue
        emp = {}
        for b in prof.ballots:
            if kind == "cumulative":
                key = ("scores", tuple(sorted((str(c), int(v)) for c, v in b.scores.items())))
            else:
                key = tuple(tuple(sorted(map(str, s))) for s in b.ranking)
            emp[key] = emp.get(key, 0) + Fraction(b.weight)
        tags.append("stat-checked")
        for key in set(law) | set(emp):
            q = float(law.get(key, 0))
            f = float(emp.get(key, 0) / n)
            sigma = math.sqrt(max(q * (1 - q), 1e-12) / float(n))
            if kind.endswith("mcmc"):
                sigma *= 6      # correlated samples
            if abs(f - q) > 6 * sigma + slack:
                fail("ballot-frequency-not-the-documented-law",
                     f"bloc {bloc}: ballot {key} has frequency {f:.4f} in {int(n)} draws, the documented law gives {q:.4f}")
                return


# ----------------------------------------------------------------------------- monitors

def close(a, b):
    return abs(float(a) - float(b)) <= 1e-9 * max(abs(float(b)), 1e-300) + 1e-300


def run_case(vk, p):
    kind = p["kind"]
    monitors = []
    tags = [f"kind:{kind}", f"N:{'1' if p['N'] == 1 else '2-5' if p['N'] <= 5 else '6+'}"]

    def fail(name, detail, cause="unexplained"):
        monitors.append({"name": name, "detail": str(detail)[:500], "failure": {"rule": kind, "kind": name, "cause": cause}})

    p = dict(p)
    stat = p.pop("stat", False)
    obs = c14._observe(vk, p)
    cands = bgen.all_cands(p)
    names = Names(cands)
    if obs["status"] != "ok":
        cause = c14.classify_exn(p, obs)
        tags.append(f"status:{obs['status']}:{obs['exn']}")
        if cause == "unexplained":
            fail("generator-raises", f"{obs['status']}: {obs['msg']}", cause)
        return {"req": None, "expect": None, "monitors": monitors, "tags": tags, "nontrivial": False,
                "failure": {"rule": kind, "kind": "generator-raises", "cause": cause}}
    tags.append("status:ok")
    log = obs["log"]
    if kind in BLOC_KINDS:
        blocs, slates = p["blocs"], p["slates"]
        tags.append(f"blocs:{len(blocs)}")
        if any(p["cohesion"][b][b] < 0.5 for b in blocs):
            tags.append("cohesion-below-half")
        # (a) every probability vector handed to numpy.random.choice over candidates is an interval of this generator,
        #     aligned with the population it is used with
        tables = []
        for b in blocs:
            x, _ = c14.interval_of(p["supports"][b], slates, blocs, p["cohesion"][b])
            tables.append(x)
            for s in blocs:
                tables.append(slate_interval(p, b, s))
            if kind == "cambridge":
                c = p["cohesion"][b][b]
                vals = {}
                # the bloc's own slate carries the share c, the opposing slate 1 - c (by name, whatever the dict order)
                for s, w in zip([b] + [x for x in blocs if x != b], [c, 1 - c]):
                    for cand, v in slate_interval(p, b, s).items():
                        if v * Fraction(w) > 0:
                            vals[cand] = v * Fraction(w)
                T = sum(vals.values())
                tables.append({k: v / T for k, v in vals.items()})
        nchoice = 0
        for c in log:
            if c["f"] == "choice" and c["p"] is not None:
                nchoice += 1
                pop, pv = c["pop"], [Fraction(x) for x in c["p"]]
                ok = any(set(pop) == set(t) and all(close(q, t[cand]) for cand, q in zip(pop, pv)) for t in tables)
                if not ok:
                    fail("probability-vector-not-aligned-with-an-interval",
                         f"choice over {pop} with p={[float(x) for x in pv]}")
                    break
        if nchoice:
            tags.append("choice-calls-checked")
        # (c) crossover split
        if kind in TWO_BLOC:
            ap = [c for c in log if c["f"] == "apportion"]
            if len(ap) == 1 and len(ap[0]["res"]) == 4:
                for i, b in enumerate(blocs):
                    n_bloc, n_cross = ap[0]["res"][2 * i], ap[0]["res"][2 * i + 1]
                    opp = blocs[(i + 1) % 2]
                    own_sup = [c for c, v in zip(slates[b], p["supports"][b][b]) if v > 0]
                    opp_sup = [c for c, v in zip(slates[opp], p["supports"][b][opp]) if v > 0]
                    coh = p["cohesion"][b][b]
                    if kind == "cambridge" and p.get("hist") is None:
                        continue
                    if kind == "cambridge" and coh in (0, 1):
                        # full cohesion: every ballot is bloc-first (resp. opposing-first) and only that slate's
                        # candidates keep support in the combined interval
                        if (coh == 1 and not own_sup) or (coh == 0 and not opp_sup):
                            continue
                        if (coh == 1 and n_cross > 0) or (coh == 0 and n_bloc > 0):
                            # the apportionment library seated a voter type of proportion zero (finding F-C14-a, reported
                            # by C14): no ballot of that type can be formed
                            continue
                    elif not own_sup or not opp_sup:
                        continue
                    opp_first = sum(Fraction(x.weight) for x in obs["by_bloc"][b].ballots
                                    if x.ranking and str(next(iter(x.ranking[0]))) in slates[opp])
                    own_first = sum(Fraction(x.weight) for x in obs["by_bloc"][b].ballots
                                    if x.ranking and str(next(iter(x.ranking[0]))) in slates[b])
                    if kind == "ac":
                        if (opp_first, own_first) != (n_cross, n_bloc):
                            fail("crossover-split", f"bloc {b}: {opp_first} opposing-first / {own_first} bloc-first ballots, "
                                                    f"apportioned {n_cross} / {n_bloc}")
                    else:
                        # Cambridge: a bloc-first historical type starts with the bloc's own letter
                        if (opp_first, own_first) != (n_cross, n_bloc):
                            fail("crossover-split", f"bloc {b}: {opp_first} opposing-first / {own_first} bloc-first ballots, "
                                                    f"apportioned {n_cross} / {n_bloc}")
                tags.append("crossover-split-checked")
        if stat and obs["status"] == "ok":
            stat_check(vk, p, obs, fail, tags)
    else:
        # (b) spatial: every ballot is sorted by increasing distance (recomputed from the returned positions)
        if kind in ("spatial", "clustered"):
            g = obs["gen"]
            cp, vps = obs["cand_pos"], obs["voter_pos"]
            want = {}
            bad = None
            for vp in vps:
                d = {c: float(g.distance(vp, cp[c])) for c in cands}
                order = sorted(cands, key=lambda c: d[c])   # stable, candidate order on ties
                k = tuple(order)
                want[k] = want.get(k, 0) + 1
            got = {}
            for b in obs["profile"].ballots:
                k = tuple(str(next(iter(s))) for s in b.ranking)
                got[k] = got.get(k, 0) + int(b.weight)
            if got != want:
                # accept any order that is non-decreasing in distance (ties may be broken differently)
                ok = True
                pool = []
                for b in obs["profile"].ballots:
                    pool += [tuple(str(next(iter(s))) for s in b.ranking)] * int(b.weight)
                remaining = list(pool)
                for vp in vps:
                    d = {c: float(g.distance(vp, cp[c])) for c in cands}
                    hit = None
                    for r in remaining:
                        if sorted(r) == sorted(cands) and all(d[r[i]] <= d[r[i + 1]] for i in range(len(r) - 1)):
                            hit = r
                            break
                    if hit is None:
                        ok = False
                        bad = (list(map(float, np.ravel(vp))), d)
                        break
                    remaining.remove(hit)
                if not ok:
                    fail("spatial-ballot-not-sorted-by-distance", f"voter at {bad[0]} distances {bad[1]}: no ballot of the profile "
                                                                   f"ranks the candidates by increasing distance")
                else:
                    tags.append("spatial-ties-broken-differently")
            tags.append("spatial-sorted-checked")
    req = bgen.model_request(vk, p, obs)
    nz = len(cands)
    return {"req": req, "expect": bgen.expect_profiles(p, obs), "monitors": monitors, "tags": tags,
            "nontrivial": nz >= 2 and p["N"] >= 2}


def compare(model, expect):
    return bgen.compare_profiles(model, expect)
