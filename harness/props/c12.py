"""C12 — ballot-editing utilities preserve order and lose no votes except exhausted ones."""
import math
from fractions import Fraction
from .. import gen
from ..common import Names, rat, run_impl, canon_ballots, condensed_map
from .c04 import ref_scores

PROP = "C12"
LEAN_MODULE = "VK.Check.C12"
THEOREMS = [
    "VK.C12_removed_absent",
    "VK.C12_order",
    "VK.C12_weight",
    "VK.C12_lost_only_empty",
    "VK.C12_add_missing",
    "VK.C12_expand_count",
    "VK.C12_expand_total",
    "VK.mem_perms_iff",
    "VK.perms_nodup",
    "VK.mem_linearise_iff",
    "VK.linearise_nodup",
    "VK.group_points",
    "VK.expand_points_from",
    "VK.C12_expand_keeps_positional_scores",
    "VK.expand_pairwise",
    "VK.C12_expand_keeps_pairwise",
    "VK.kernel_expand_share",
]
RULE = ("cases = utility in {remove_cand on profile / ballot tuple / single ballot x condense x "
        "leave_zero_weight_ballots, add_missing_cands, expand_tied_ballot, resolve_profile_ties, "
        "cleaning.remove_noncands, cleaning.deduplicate_profiles, cleaning.remove_empty_ballots} x profile (1-6 "
        "candidates, partial ballots, tied positions for the utils functions, repeated candidates for the cleaning "
        "functions, rational weights, zero-vote candidates, score dictionaries) x removal set in {none, some, all, "
        "absent names}; non-trivial = a ballot changes; distinct = distinct (utility, flags, input)")
TRUSTED = ["modelled, not verified: itertools.groupby / itertools.permutations (the model has its own adjacent "
           "grouping and permutation enumeration)"]
ASSUMPTIONS = ["positive weights"]
EXPLANATION = ("Theorems: removed candidates are absent, every output ranking is the input ranking filtered in place, "
               "the weight of every non-empty resulting content is the summed weight of the inputs mapping to it, "
               "weight disappears only with ballots that end up empty, add_missing appends exactly the unlisted "
               "candidates as one last position, tie expansion yields prod(k_i!) ballots of equal weight adding up to "
               "the original.")

N_QUICK, N_THOROUGH = 2400, 86400


def cases(rng, tier, shard, nshards, phase):
    if phase == "corpus":
        if shard == 0:
            yield {"op": "remove_cand", "kind": "ballot", "condense": True, "leave_zero": False, "removed": [0],
                   "spec": {"names": ["A", "B"], "b": [{"r": [[0]], "w": "1", "s": []}], "c": [0, 1]}}
        return
    total = N_THOROUGH if tier == "thorough" else N_QUICK
    if phase.startswith("search"):
        total *= 2
    for _ in range(total // nshards):
        op = rng.choice(["remove_cand"] * 5 + ["add_missing", "expand", "resolve", "noncands", "dedup", "remove_empty"])
        if op in ("noncands", "dedup", "remove_empty"):
            spec = gen.gen_ranked_spec(rng, nmin=1, nmax=5, ties=False, partial=True, bmin=1, bmax=8)
            n = len(spec["c"])
            for b in spec["b"]:
                if rng.random() < 0.4:           # repeated candidates, as a CVR may contain
                    k = rng.randint(1, 3)
                    for _ in range(k):
                        b["r"].insert(rng.randint(0, len(b["r"])), [rng.randrange(n)])
                if op == "remove_empty" and rng.random() < 0.3:
                    b["r"] = []
                    b["s"] = [[0, "1"]] if rng.random() < 0.5 else []
            case = {"op": op, "spec": spec}
            if op == "noncands":
                k = rng.random()
                case["removed"] = [] if k < 0.1 else list(range(n)) if k < 0.25 else rng.sample(range(n), rng.randint(1, n))
            if op == "remove_empty":
                case["keep"] = rng.random() < 0.5
            yield case
            continue
        spec = gen.gen_ranked_spec(rng, nmin=1, nmax=6, ties=True, partial=True, bmin=1, bmax=8)
        n = len(spec["c"])
        if op in ("remove_cand", "add_missing") and rng.random() < 0.35:
            # uncleaned ballots: a candidate written more than once (as a CVR loader may produce)
            for b in spec["b"]:
                if b["r"] and rng.random() < 0.5:
                    for _ in range(rng.randint(1, 3)):
                        b["r"].insert(rng.randint(0, len(b["r"])), [rng.choice([c for s in b["r"] for c in s])])
        if op == "remove_cand":
            for b in spec["b"]:
                k = rng.random()
                if k < 0.25:
                    b["s"] = [[c, rat(gen.gen_score(rng))] for c in sorted(rng.sample(range(n), rng.randint(1, n)))]
                    if rng.random() < 0.5:
                        b["r"] = []
            kk = rng.random()
            removed = [] if kk < 0.08 else list(range(n)) if kk < 0.2 else rng.sample(range(n), rng.randint(1, n))
            absent = rng.random() < 0.15
            yield {"op": op, "kind": rng.choice(["profile", "profile", "tuple", "ballot"]), "condense": rng.random() < 0.6,
                   "leave_zero": rng.random() < 0.4, "removed": removed, "absent": absent, "spec": spec}
        else:
            if op in ("expand", "resolve"):
                # keep the number of linear orders small
                for b in spec["b"]:
                    b["r"] = [s[:3] for s in b["r"]]
            tied = [i for i, b in enumerate(spec["b"]) if any(len(s) > 1 for s in b["r"])]
            yield {"op": op, "spec": spec, "k": rng.choice(tied) if tied and rng.random() < 0.9 else rng.randrange(len(spec["b"]))}


def scrub(b, removed):
    r = [[c for c in s if c not in removed] for s in b["r"]]
    r = [s for s in r if s]
    s = [[c, v] for c, v in b["s"] if c not in removed]
    return r, s


def run_case(vk, case):
    from votekit import utils as U
    from votekit import cleaning as CL
    spec = case["spec"]
    names = Names(spec["names"] + ["__absent__"])
    nm = spec["names"]
    op = case["op"]
    tags = [f"op:{op}"]
    monitors = []

    def fail(name, detail, kind="unexplained", cause="unexplained"):
        monitors.append({"name": name, "detail": detail[:400], "failure": {"rule": op, "kind": kind, "cause": cause}})

    profile = gen.build_profile(vk, spec)
    mp = gen.model_profile(spec)
    if op == "remove_cand":
        removed = case["removed"]
        rem_names = [nm[c] for c in removed] + (["__absent__"] if case.get("absent") else [])
        kind, cond, lz = case["kind"], case["condense"], case["leave_zero"]
        tags += [f"kind:{kind}", f"condense:{cond}", f"leave_zero:{lz}",
                 "removal:" + ("none" if not removed else "all" if len(removed) == len(nm) else "some")]
        if kind == "profile":
            arg = profile
        elif kind == "tuple":
            arg = profile.ballots
        else:
            arg = profile.ballots[0]
        out = run_impl(lambda: U.remove_cand(rem_names if len(rem_names) != 1 or removed == [] else rem_names[0], arg, cond, lz))
        inputs = spec["b"] if kind != "ballot" else spec["b"][:1]
        req = {"op": "remove_cand", "removed": removed, "kind": kind, "condense": cond, "leave_zero": lz}
        if kind == "profile":
            req["profile"] = mp
        elif kind == "tuple":
            req["ballots"] = spec["b"]
        else:
            req["ballot"] = spec["b"][0]
        if out[0] == "exn":
            expect = {"exn": out[1]}
            r0, s0 = scrub(spec["b"][0], removed)
            if kind == "ballot" and out[1] == "IndexError" and not r0 and not s0 and not lz:
                fail("single-ballot-exhausted", out[2], kind="exception:IndexError", cause="remove_cand-single-ballot-exhausted")
            else:
                fail("remove_cand-raises", out[2], kind=f"exception:{out[1]}")
            return {"req": req, "expect": expect, "monitors": monitors, "tags": tags, "nontrivial": True,
                    "failure": monitors[0]["failure"]}
        if kind == "profile":
            ob = names.ballots(out[1].ballots)
            expect = {"ok": {"b": canon_ballots(ob), "c": sorted(names.idx[c] for c in out[1].candidates)}}
            if sorted(names.idx[c] for c in out[1].candidates) != [c for c in spec["c"] if c not in removed]:
                fail("candidates", str(out[1].candidates))
        elif kind == "tuple":
            ob = names.ballots(out[1])
            expect = {"ok": canon_ballots(ob)}
        else:
            ob = [names.ballot(out[1])]
            expect = {"ok": ob[0]}
        # monitors
        for b in ob:
            if any(c in removed for s in b["r"] for c in s) or any(c in removed for c, _ in b["s"]):
                fail("removed-candidate-present", str(b))
        want = {}
        lost = Fraction(0)
        for b in inputs:
            r, s = scrub(b, removed)
            if not r and not s:
                lost += Fraction(b["w"])
                continue
            k = str([r, [[c, rat(Fraction(v))] for c, v in s]])
            want[k] = want.get(k, Fraction(0)) + Fraction(b["w"])
        got = {}
        for b in ob:
            if not b["r"] and not b["s"]:
                continue
            k = str([b["r"], b["s"]])
            got[k] = got.get(k, Fraction(0)) + Fraction(b["w"])
        want = {k: v for k, v in want.items() if v != 0}
        got = {k: v for k, v in got.items() if v != 0}
        if kind == "ballot" and cond is False:
            pass
        if got != want and kind != "ballot":
            fail("weight-per-ranking", f"got {got} want {want}")
        if kind == "ballot" and got != want:
            fail("weight-per-ranking", f"got {got} want {want}")
        if kind != "ballot":
            tin = sum(Fraction(b["w"]) for b in inputs)
            tout = sum(Fraction(b["w"]) for b in ob)
            if tin - tout != lost:
                fail("weight-lost", f"in {tin} out {tout} exhausted {lost}")
            if cond and len({str([b['r'], b['s']]) for b in ob}) != len(ob):
                fail("not-condensed", str(ob))
        return {"req": req, "expect": expect, "monitors": monitors, "tags": tags,
                "nontrivial": bool(removed)}
    if op == "add_missing":
        out = run_impl(lambda: U.add_missing_cands(profile))
        if out[0] == "exn":
            fail("add_missing-raises", out[2])
            return {"req": {"op": "add_missing", "profile": mp}, "expect": {"exn": out[1]}, "monitors": monitors, "tags": tags}
        ob = names.ballots(out[1].ballots)
        want = {}
        for b in spec["b"]:
            listed = [c for s in b["r"] for c in s]
            miss = [c for c in spec["c"] if c not in listed]
            r = b["r"] + ([miss] if miss else [])
            want[str(r)] = want.get(str(r), Fraction(0)) + Fraction(b["w"])
        got = {}
        for b in ob:
            got[str(b["r"])] = got.get(str(b["r"]), Fraction(0)) + Fraction(b["w"])
        if got != want:
            fail("add-missing", f"got {got} want {want}")
        return {"req": {"op": "add_missing", "profile": mp},
                "expect": {"ok": {"b": canon_ballots(ob), "c": sorted(names.idx[c] for c in out[1].candidates)}},
                "monitors": monitors, "tags": tags, "nontrivial": True}
    if op in ("expand", "resolve"):
        if op == "expand":
            b = spec["b"][case["k"]]
            out = run_impl(lambda: U.expand_tied_ballot(profile.ballots[case["k"]]))
            req = {"op": "expand_tied", "ballot": b}
            inputs = [b]
        else:
            out = run_impl(lambda: U.resolve_profile_ties(profile))
            req = {"op": "resolve_ties", "profile": mp}
            inputs = spec["b"]
        if out[0] == "exn":
            fail("expand-raises", out[2])
            return {"req": req, "expect": {"exn": out[1]}, "monitors": monitors, "tags": tags}
        ob = names.ballots(out[1] if op == "expand" else out[1].ballots)
        if op == "expand":
            expect = {"ok": canon_ballots(ob)}
            k = math.prod(math.factorial(len(s)) for s in b["r"])
            if len(ob) != k or len({str(x["r"]) for x in ob}) != k:
                fail("expand-count", f"{len(ob)} ballots, {k} linear orders")
            if any(Fraction(x["w"]) != Fraction(b["w"]) / k for x in ob):
                fail("expand-weights", str([x["w"] for x in ob]))
            for x in ob:
                flat = [c for s in x["r"] for c in s]
                pos = {c: i for i, c in enumerate(flat)}
                if any(len(s) != 1 for s in x["r"]) or sorted(flat) != sorted(c for s in b["r"] for c in s):
                    fail("expand-not-linear", str(x))
                    break
                # consistent with the original weak order
                idx = 0
                for s in b["r"]:
                    if sorted(flat[idx: idx + len(s)]) != sorted(s):
                        fail("expand-inconsistent", str(x))
                        break
                    idx += len(s)
            if any(len(s) > 1 for s in b["r"]):
                tags.append("expand:tied")
        else:
            expect = {"ok": {"b": canon_ballots(ob), "c": sorted(names.idx[c] for c in out[1].candidates)}}
        # first-place, Borda and pairwise totals unchanged
        sub = {"names": nm, "b": inputs, "c": spec["c"]}
        exp = {"names": nm, "b": [{"r": x["r"], "w": x["w"], "s": []} for x in ob], "c": spec["c"]}
        n = len(spec["c"])
        for vec, label in (([1], "first-place"), (list(range(n, 0, -1)), "borda")):
            if ref_scores(sub, vec) != ref_scores(exp, vec):
                fail(f"expand-changes-{label}", f"{ref_scores(sub, vec)} -> {ref_scores(exp, vec)}")
        if abs(sum(Fraction(x["w"]) for x in ob) - sum(Fraction(x["w"]) for x in inputs)) != 0:
            fail("expand-total", "total weight changed")
        return {"req": req, "expect": expect, "monitors": monitors, "tags": tags, "nontrivial": True}
    # cleaning module
    if op == "remove_empty":
        out = run_impl(lambda: CL.remove_empty_ballots(profile, case["keep"]))
        req = {"op": "remove_empty", "profile": mp, "keep": case["keep"]}
        want = condensed_map([b for b in spec["b"] if b["r"]])
    elif op == "dedup":
        out = run_impl(lambda: CL.deduplicate_profiles(profile))
        req = {"op": "deduplicate", "profile": mp}
        want = {}
        for b in spec["b"]:
            seen, r = [], []
            for s in b["r"]:
                if s not in seen:
                    seen.append(s)
                    r.append(s)
            want_k = str([r, []])
            want[want_k] = want.get(want_k, Fraction(0)) + Fraction(b["w"])
        want = {k.replace("'", '"'): rat(v) for k, v in sorted(want.items())}
    else:
        removed = case["removed"]
        out = run_impl(lambda: CL.remove_noncands(profile, [nm[c] for c in removed]))
        req = {"op": "remove_noncands", "profile": mp, "noncands": removed}
        want = {}
        for b in spec["b"]:
            seen, r = [], []
            for s in b["r"]:
                if s not in seen and not (len(s) == 1 and s[0] in removed):
                    seen.append(s)
                    r.append(s)
            if r:
                want_k = str([r, []])
                want[want_k] = want.get(want_k, Fraction(0)) + Fraction(b["w"])
        want = {k: rat(v) for k, v in sorted(want.items())}
        tags.append("removal:" + ("none" if not removed else "all" if len(removed) == len(nm) else "some"))
    if out[0] == "exn":
        if not (op in ("dedup", "noncands") and out[1] == "TypeError" and any(not b["r"] for b in spec["b"])):
            fail("cleaning-raises", out[2])
        return {"req": req, "expect": {"exn": out[1]}, "monitors": monitors, "tags": tags}
    ob = names.ballots(out[1].ballots)
    got = condensed_map(ob)
    import json
    wantn = {json.dumps(eval(k)): v for k, v in want.items()} if op != "remove_empty" else want
    if got != wantn:
        fail("cleaning-weight-per-ranking", f"got {got} want {wantn}")
    return {"req": req, "expect": {"ok": {"b": canon_ballots(ob), "c": sorted(names.idx[c] for c in out[1].candidates)}},
            "monitors": monitors, "tags": tags, "nontrivial": True}


def compare(model, expect):
    if "ok" in model and "ok" in expect:
        mo, ex = model["ok"], expect["ok"]
        if isinstance(mo, list):
            mo = canon_ballots(mo)
        elif isinstance(mo, dict) and "b" in mo:
            mo = {"b": canon_ballots(mo["b"]), "c": sorted(mo["c"])}
        return None if mo == ex else f"model {str(mo)[:300]} vs impl {str(ex)[:300]}"
    return None if model == expect else f"model {model} vs impl {expect}"
