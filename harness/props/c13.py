"""C13 — composite and alias rules equal the composition they are documented to be."""
from fractions import Fraction
from .. import gen, elect
from ..common import Names, rat, run_impl
from . import c01

PROP = "C13"
LEAN_MODULE = "VK.Check.C13"
THEOREMS = [
    "VK.C13_irv",
    "VK.C13_sntv",
    "VK.C13_seqrcv",
    "VK.C13_toptwo",
    "VK.C13_alaska",
]
RULE = ("cases = composite in {IRV, SNTV, SequentialRCV, TopTwo, Alaska} x profile of untied ranked ballots (2-6 "
        "candidates, partial ballots, rational weights) x m_1 >= m_2 >= 1 x quota x simultaneous x transfer x tiebreak "
        "under a fixed random stream; the composite and its separately constructed components run on the "
        "implementation with the same seed and are compared round by round; the composite is also compared with the "
        "Lean model; non-trivial = at least one ballot; distinct = distinct (composite, configuration, profile, seed)")
TRUSTED = ["modelled, not verified: the random stream is fixed by seeding `random`; component elections that draw "
           "differently many random numbers are compared only when no random tiebreak is recorded"]
ASSUMPTIONS = ["runs ending in a C01 known finding are outside C13"]
EXPLANATION = ("Theorems: in the model IRV, SNTV and SequentialRCV are literally STV(m=1), Plurality and STV with the "
               "full-weight transfer; TopTwo is Plurality(2) -> remove the others -> Plurality(1); Alaska is "
               "Plurality(m_1) -> remove the losers -> STV(m_2) with rounds renumbered.")

N_QUICK, N_THOROUGH = 1600, 57600


def cases(rng, tier, shard, nshards, phase):
    if phase == "corpus":
        return
    total = N_THOROUGH if tier == "thorough" else N_QUICK
    if phase.startswith("search"):
        total *= 2
    for _ in range(total // nshards):
        comp = rng.choice(["IRV", "SNTV", "SequentialRCV", "TopTwo", "TopTwo", "Alaska", "Alaska"])
        ties = comp in ("SNTV", "TopTwo") and rng.random() < 0.3
        spec = gen.gen_ranked_spec(rng, nmin=2, nmax=6, ties=ties, partial=True, bmin=1, bmax=10)
        n = len(spec["c"])
        cfg = {"tiebreak": rng.choice([None, "random", "borda", "first_place"])}
        if comp in ("IRV", "SequentialRCV", "Alaska"):
            cfg["quota"] = rng.choice(["droop", "droop", "hare"])
        if comp in ("SequentialRCV", "Alaska"):
            cfg["simultaneous"] = rng.random() < 0.5
        if comp in ("SNTV", "SequentialRCV"):
            cfg["m"] = rng.randint(1, n)
        if comp == "Alaska":
            m1 = rng.randint(1, n)
            cfg.update(m1=m1, m2=rng.randint(1, m1))
            if rng.random() < 0.25:
                cfg["transfer"] = "random"
                for b in spec["b"]:
                    b["w"] = rat(max(1, int(Fraction(b["w"]))))
        yield {"comp": comp, "cfg": cfg, "spec": spec, "rs": rng.randint(0, 10 ** 9)}


def run_case(vk, case):
    import random
    from votekit import elections as E
    from votekit.utils import remove_cand
    comp, cfg, spec = case["comp"], dict(case["cfg"]), case["spec"]
    names = Names(spec["names"])
    profile = gen.build_profile(vk, spec)
    res = elect.construct(vk, comp, profile, cfg, case["rs"])
    tags = [f"composite:{comp}", f"status:{res['status']}" + (f":{res.get('exn')}" if res["status"] == "exn" else "")]
    monitors = []

    def fail(name, detail):
        monitors.append({"name": name, "detail": detail[:500], "failure": {"rule": comp, "kind": name, "cause": "unexplained"}})

    def same(a, b, what):
        """compare two construct() results of the implementation"""
        if a["status"] != b["status"] or (a["status"] == "exn" and a["exn"] != b["exn"]):
            fail(what, f"composite {a['status']} {a.get('exn')} / components {b['status']} {b.get('exn')}")
            return False
        if a["status"] == "ok":
            sa, sb = names.states(a["e"]), names.states(b["e"])
            if sa != sb:
                fail(what, f"composite {sa} / components {sb}")
                return False
        return True

    if comp == "IRV":
        other = elect.construct(vk, "STV", profile, dict(cfg, m=1), case["rs"])
        same(res, other, "irv-vs-stv1")
    elif comp == "SNTV":
        other = elect.construct(vk, "Plurality", profile, cfg, case["rs"])
        same(res, other, "sntv-vs-plurality")
    elif comp == "SequentialRCV":
        full = lambda winner, fpv, ballots, threshold: remove_cand(winner, tuple(ballots))  # noqa
        st = random.getstate()
        random.seed(case["rs"])
        out = run_impl(lambda: E.STV(profile, m=cfg["m"], transfer=full, quota=cfg["quota"],
                                     simultaneous=cfg["simultaneous"], tiebreak=cfg["tiebreak"]))
        random.setstate(st)
        other = {"status": "ok", "e": out[1]} if out[0] == "ok" else {"status": "exn", "exn": out[1]}
        same(res, other, "seqrcv-vs-stv-full")
    elif comp == "TopTwo" and res["status"] == "ok":
        e = res["e"]
        fp = c01.fpv_ref(spec)
        finalists = [names.idx[str(c)] for g in e.election_states[1].remaining for c in g]
        losers = [c for c in spec["c"] if c not in finalists]
        if len(finalists) != 2 or any(fp[l] > fp[f] for l in losers for f in finalists):
            fail("toptwo-finalists", f"finalists {finalists} fpv {fp}")
        else:
            a, b = finalists
            wa = wb = Fraction(0)
            for x in spec["b"]:
                f = c01.first_of(x["r"], (a, b))
                w = Fraction(x["w"])
                if f == a:
                    wa += w
                elif f == b:
                    wb += w
                elif f == "tie":
                    wa += w / 2
                    wb += w / 2
            winner = [names.idx[str(c)] for g in e.get_elected() for c in g]
            if len(winner) != 1 or (wa > wb and winner != [a]) or (wb > wa and winner != [b]):
                fail("toptwo-head-to-head", f"finalists {a}:{wa} {b}:{wb} winner {winner}")
            if wa == wb:
                tags.append("toptwo:final-tie")
            sc = {names.idx[str(c)]: Fraction(v) for c, v in e.election_states[1].scores.items()}
            if sc != {a: wa, b: wb}:
                fail("toptwo-runoff-tallies", f"{sc} vs {wa},{wb}")
    elif comp == "Alaska" and res["status"] == "ok" and cfg.get("transfer") != "random":
        e = res["e"]
        no_random = not any(c[0] == "sample" for c in res["log"].calls)
        if no_random:
            pl = elect.construct(vk, "Plurality", profile, {"m": cfg["m1"], "tiebreak": cfg["tiebreak"]}, case["rs"])
            if pl["status"] != "ok":
                fail("alaska-plurality-stage", f"{pl['status']} {pl.get('exn')}")
            else:
                losers = [c for g in pl["e"].get_remaining() for c in g]
                p1 = remove_cand(losers, profile)
                stv = elect.construct(vk, "STV", p1, {"m": cfg["m2"], "quota": cfg["quota"],
                                                      "simultaneous": cfg["simultaneous"], "tiebreak": cfg["tiebreak"]}, case["rs"])
                if stv["status"] != "ok":
                    fail("alaska-stv-stage", f"{stv['status']} {stv.get('exn')}")
                else:
                    want = names.states(stv["e"])[1:]
                    for s in want:
                        s["round"] += 1
                    got = names.states(e)[2:]
                    if got != want:
                        fail("alaska-vs-components", f"composite {got} / components {want}")
                    s1 = names.state(e.election_states[1])
                    if s1["remaining"] != names.ranking(pl["e"].get_elected()) or s1["eliminated"] != names.ranking(pl["e"].get_remaining()):
                        fail("alaska-stage-one", f"{s1}")
                    tags.append("alaska:components-compared")
    if comp == "Alaska" and res["status"] == "ok":
        # whatever was drawn: the STV stage runs on the profile that keeps the finalists RECORDED in round 1, so no
        # later round can list anybody else (holds with random tiebreaks too, where the component comparison above
        # cannot be made because the components would draw again)
        st = names.states(res["e"])
        if len(st) > 1:
            finalists = {c for g in st[1]["remaining"] for c in g}
            for s in st[2:]:
                listed = {c for k in ("remaining", "elected", "eliminated") for g in s[k] for c in g}
                if not listed <= finalists:
                    fail("alaska-later-round-lists-a-non-finalist",
                         f"round {s['round']}: {sorted(listed - finalists)} not among the finalists {sorted(finalists)} of round 1")
                    break
    req = None
    expect = None
    random_tb_calls = [c for c in res["log"].calls if c[0] == "sample" and c[1] and isinstance(c[1][0], str)]
    if res["status"] != "timeout" and not (res["status"] == "exn" and random_tb_calls and comp in elect.STV_FAMILY):
        req = elect.model_request(comp, spec, cfg, res, names)
        expect = elect.expect_states(res, names)
    failure = None
    if res["status"] == "exn" and res["exn"] != "ValueError":
        failure = c01.classify_failure(comp, cfg, spec, res, names)
    elif res["status"] == "exn" and c01.valueerror_legit(comp, cfg, spec, res, names) is False:
        failure = c01.classify_failure(comp, cfg, spec, res, names)
    return {"req": req, "expect": expect, "monitors": monitors, "tags": tags, "failure": failure,
            "nontrivial": len(spec["b"]) > 0}


compare = elect.compare_states
