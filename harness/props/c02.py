"""C02 — each STV/IRV/SequentialRCV round is a legal step of the documented count."""
import math
from fractions import Fraction
from .. import gen, elect, refstv
from ..common import Names, rat
from . import c01

PROP = "C02"
LEAN_MODULE = "VK.Check.C02"
THEOREMS = [
    "VK.C02_threshold_droop",
    "VK.C02_threshold_hare",
    "VK.C02_droop_bounds",
    "VK.C02_threshold_of_run",
    "VK.simultaneous_winners_exact",
    "VK.onebyone_winner_max",
    "VK.last_group_min",
    "VK.applyTransfers_fractional_pointwise",
    "VK.applyTransfers_full",
    "VK.stvStep_linked",
    "VK.C02_legal_step",
    "VK.kernel_threshold_droop",
    "VK.kernel_threshold_hare",
    "VK.kernel_transfer_value",
    "VK.kernel_transfer_value_used",
    "VK.kernel_quota_simul",
    "VK.kernel_quota_simul_used",
    "VK.kernel_quota_step",
]
RULE = ("cases = rule in {STV, IRV, SequentialRCV} x profile of untied ranked ballots (2-6 candidates, partial ballots, "
        "zero-vote candidates, unit/int/rational weights) x m x quota x simultaneous x tiebreak x transfer in "
        "{fractional, random} x RNG seed; engineered: a first-place tally exactly at the threshold and 1/10^6 below it, "
        "bottom ties that the initial tally does / does not resolve; every round (threshold, elected, eliminated, "
        "remaining order, tallies, tiebreak record) is compared with the Lean model and with an independent reference "
        "count; non-trivial = at least two rounds; distinct = distinct (rule, configuration, profile, seed)")
TRUSTED = ["modelled, not verified: physical deletion + condense_ballots inside the STV loop (the model keeps the "
           "pointwise state; equality of the observable tallies is what the correspondence checks every round); "
           "int() as floor; random.sample (oracle)"]
ASSUMPTIONS = ["positive weights; untied ballots; runs that end in one of the C01 known findings are outside C02"]
EXPLANATION = ("Theorems: threshold formulas and constancy; declarative description of the three kinds of step "
               "(quota election with the transfer factor (t-q)/t, default election, elimination of a lowest candidate) "
               "for the model's step function; recorded scores are the first-place tallies of the resulting state.")

N_QUICK, N_THOROUGH = 2000, 72000


def engineer_threshold(rng, spec, m, quota):
    """try to put a first-place tally exactly at the threshold (or 1/10^6 below)"""
    N = sum(Fraction(b["w"]) for b in spec["b"])
    if N == 0:
        return None
    q = math.floor(N / (m + 1) + 1) if quota == "droop" else math.floor(N / m)
    fp = {}
    for b in spec["b"]:
        fp[b["r"][0][0]] = fp.get(b["r"][0][0], Fraction(0)) + Fraction(b["w"])
    # move weight between two ballots with different first choices so that one tally becomes q
    cs = [c for c in fp if fp[c] > q]
    if not cs or q <= 0:
        return None
    c = rng.choice(cs)
    d = fp[c] - q
    donors = [b for b in spec["b"] if b["r"][0][0] == c and Fraction(b["w"]) > d]
    takers = [b for b in spec["b"] if b["r"][0][0] != c]
    if not donors or not takers:
        return None
    eps = Fraction(1, 10 ** 6) if rng.random() < 0.5 else Fraction(0)
    b1, b2 = rng.choice(donors), rng.choice(takers)
    b1["w"] = rat(Fraction(b1["w"]) - d - eps)
    b2["w"] = rat(Fraction(b2["w"]) + d + eps)
    return "at-threshold" if eps == 0 else "just-below-threshold"


def cases(rng, tier, shard, nshards, phase):
    if phase == "corpus":
        return
    total = N_THOROUGH if tier == "thorough" else N_QUICK
    if phase.startswith("search"):
        total *= 2
    for _ in range(total // nshards):
        rule = rng.choice(["STV", "STV", "STV", "IRV", "SequentialRCV"])
        spec = gen.gen_ranked_spec(rng, nmin=2, nmax=6, ties=False, partial=True, bmin=1, bmax=10)
        n = len(spec["c"])
        m = 1 if rule == "IRV" else rng.randint(1, n)
        cfg = {"quota": rng.choice(["droop", "droop", "droop", "hare"]),
               "tiebreak": rng.choice([None, "random", "borda", "first_place"]), "m": m}
        if rule != "IRV":
            cfg["simultaneous"] = rng.random() < 0.5
        eng = None
        if rule == "STV" and rng.random() < 0.3:
            cfg["transfer"] = "random"
            for b in spec["b"]:
                b["w"] = rat(max(1, int(Fraction(b["w"]))))
        elif rng.random() < 0.3:
            eng = engineer_threshold(rng, spec, m, cfg["quota"])
        yield {"rule": rule, "cfg": cfg, "spec": spec, "rs": rng.randint(0, 10 ** 9), "eng": eng}


def run_case(vk, case):
    rule, cfg, spec = case["rule"], dict(case["cfg"]), case["spec"]
    names = Names(spec["names"])
    profile = gen.build_profile(vk, spec)
    res = elect.construct(vk, rule, profile, cfg, case["rs"])
    tags = [f"rule:{rule}", f"status:{res['status']}" + (f":{res.get('exn')}" if res["status"] == "exn" else ""),
            f"quota:{cfg['quota']}", f"transfer:{cfg.get('transfer', 'full' if rule == 'SequentialRCV' else 'fractional')}"]
    if case.get("eng"):
        tags.append(f"engineered:{case['eng']}")
    monitors = []
    if res["status"] != "ok":
        # failed runs are C01's business (known findings / legitimate ValueError); nothing to check round by round
        return {"req": None, "expect": None, "monitors": [], "tags": tags, "nontrivial": False}
    e = res["e"]
    log = [c[3] for c in res["log"].calls if c[0] == "sample" and c[1] and isinstance(c[1][0], str)]
    ref = c01.ref_for(spec, cfg, rule, tie_log=[[names.idx[str(x)] for x in o] for o in log],
                      samples=c01.samples_of(res, names))
    impl = names.states(e)
    fail = None
    N = sum(Fraction(b["w"]) for b in spec["b"])
    m = 1 if rule == "IRV" else cfg["m"]
    q = math.floor(N / (m + 1)) + 1 if cfg["quota"] == "droop" else math.floor(N / m)
    if e.threshold != q:
        fail = f"threshold {e.threshold} != documented {q}"
    elif ref["status"] != "OK":
        fail = f"reference count ends with {ref['status']} but the implementation returned a result"
    elif len(ref["rounds"]) != len(impl):
        fail = f"{len(impl)} rounds, reference has {len(ref['rounds'])}"
    else:
        for i, (a, b) in enumerate(zip(impl, ref["rounds"])):
            sc = sorted([c, rat(v)] for c, v in b["scores"].items())
            if a["elected"] != b["elected"] or a["eliminated"] != b["eliminated"] or a["remaining"] != b["remaining"] or a["scores"] != sc:
                fail = (f"round {i}: implementation elected={a['elected']} eliminated={a['eliminated']} "
                        f"remaining={a['remaining']} scores={a['scores']} / reference elected={b['elected']} "
                        f"eliminated={b['eliminated']} remaining={b['remaining']} scores={sc}")
                break
            tb = b.get("tiebreak")
            rec = a["tiebreaks"]
            want = [[sorted(tb[0]), [[c] for c in tb[1]]]] if tb else []
            if rec != want:
                fail = f"round {i}: recorded tiebreaks {rec} / reference {want}"
                break
    if fail:
        monitors.append({"name": "legal-step", "detail": fail, "failure": {"rule": rule, "kind": "illegal-step", "cause": "unexplained"}})
    for s in impl[1:]:
        if s["elected"] and s["scores"]:
            tags.append("round:quota-elect")
        elif s["elected"]:
            tags.append("round:elect-no-remaining")
        if s["eliminated"]:
            tags.append("round:eliminate")
        if s["tiebreaks"]:
            tags.append("round:tiebreak")
    req = elect.model_request(rule, spec, cfg, res, names)
    expect = elect.expect_states(res, names)
    return {"req": req, "expect": expect, "monitors": monitors, "tags": tags, "nontrivial": len(impl) > 2}


compare = elect.compare_states
