"""C06 — pairwise comparison, dominating tiers and Condorcet consistency."""
import itertools
from fractions import Fraction
from .. import gen, elect
from ..common import Names, rat, run_impl
from . import c01
from .c04 import ref_scores

PROP = "C06"
LEAN_MODULE = "VK.Check.C06"
THEOREMS = [
    "VK.C06_margin_antisymm",
    "VK.C06_prefShare_cases",
    "VK.C06_reach_correct",
    "VK.C06_tiers_partition",
    "VK.C06_beats_lower_tier",
    "VK.C06_tier_unsplittable",
    "VK.C06_top_tier_smith",
    "VK.C06_condorcet_iff",
    "VK.C06_dominating_sets_elects_top",
    "VK.sum_before_half",
    "VK.fill_one",
    "VK.C06_fill_correct",
    "VK.C06_prefShareR_cases",
    "VK.prefShareR_untied",
    "VK.h2h_eq_flat",
    "VK.kernel_fill_share_used",
]
RULE = ("cases = profile of ranked ballots (2-6 candidates, partial ballots, rational weights, zero-vote "
        "candidates; 30% of the random profiles with tied positions; 35% engineered: Condorcet cycles of length 3-5, nested cycles, exact pairwise ties) -> "
        "pairwise_dict, dominating_tiers, has/get_condorcet_winner, DominatingSets, CondoBorda(m); non-trivial = at least "
        "two ballots and three candidates; distinct = distinct (profile, m)")
TRUSTED = ["modelled, not verified: networkx DiGraph/has_path (the model has its own bounded closure, proved equal to "
           "reachability); itertools.permutations in ballot_fill (the model's declarative head-to-head share is compared "
           "with its own enumeration mirror on every case and with the implementation)"]
ASSUMPTIONS = ["positive weights; ballots over declared candidates (tied positions allowed); at least one ballot (otherwise F-C01-g)"]
EXPLANATION = ("Theorems over every profile: margins are antisymmetric and follow the listed/unlisted rule, two candidates "
               "tied in one position being ranked neither way (C06_prefShareR_cases; the untied count the ballot_fill "
               "enumeration is proved equal to is the special case, prefShareR_untied / h2h_eq_flat); the bounded "
               "frontier expansion computes exactly reachability; tiers partition the candidates, every member of a higher "
               "tier strictly beats every member of a lower one, no tier can be split, the top tier is contained in every "
               "dominating set, it is a single candidate iff a Condorcet winner exists, DominatingSets elects it.")

N_QUICK, N_THOROUGH = 1200, 43200


def cycle_spec(rng):
    """profiles with engineered cycles / nested cycles / exact ties"""
    n = rng.randint(3, 6)
    names = gen.gen_names(rng, n)
    kind = rng.choice(["cycle", "nested", "tie", "cycle+winner"])
    bs = []
    cands = list(range(n))
    rng.shuffle(cands)
    if kind in ("cycle", "cycle+winner"):
        k = rng.randint(3, n) if kind == "cycle" else rng.randint(3, max(3, n - 1))
        cyc = cands[:k]
        rest = cands[k:]
        for i in range(k):
            r = cyc[i:] + cyc[:i]
            if kind == "cycle+winner" and rest:
                r = rest[:1] + r + rest[1:]
            else:
                r = r + rest
            bs.append({"r": [[c] for c in r], "w": rat(rng.choice([1, 1, 2])), "s": []})
    elif kind == "nested":
        a, b = cands[: n // 2], cands[n // 2:]
        for i in range(len(a)):
            for j in range(max(1, len(b))):
                r = a[i:] + a[:i] + (b[j:] + b[:j])
                bs.append({"r": [[c] for c in r], "w": "1", "s": []})
    else:
        r = cands
        bs.append({"r": [[c] for c in r], "w": "2", "s": []})
        bs.append({"r": [[c] for c in reversed(r)], "w": "2", "s": []})
        if rng.random() < 0.5:
            bs.append({"r": [[r[0]]], "w": "1", "s": []})
    for _ in range(rng.randint(0, 2)):
        bs.append({"r": gen.gen_ranking(rng, n, ties=False), "w": rat(gen.gen_weight(rng, "int")), "s": []})
    return {"names": names, "b": bs, "c": list(range(n))}, kind


def cases(rng, tier, shard, nshards, phase):
    if phase == "corpus":
        return
    total = N_THOROUGH if tier == "thorough" else N_QUICK
    if phase.startswith("search"):
        total *= 2
    for _ in range(total // nshards):
        if rng.random() < 0.35:
            spec, kind = cycle_spec(rng)
        else:
            tied = rng.random() < 0.3
            spec = gen.gen_ranked_spec(rng, nmin=2, nmax=6, ties=tied, partial=True, bmin=1, bmax=8)
            kind = "random-tied" if tied and any(len(s0) > 1 for b in spec["b"] for s0 in b["r"]) else "random"
        yield {"spec": spec, "kind": kind, "m": rng.randint(1, len(spec["c"])), "rs": rng.randint(0, 10 ** 9)}


def margins(spec):
    n = len(spec["c"])
    M = {(a, b): Fraction(0) for a in spec["c"] for b in spec["c"] if a != b}
    for bl in spec["b"]:
        # position = index of the group a candidate stands in: candidates tied on a ballot are ranked neither way
        pos = {c: i for i, s in enumerate(bl["r"]) for c in s}
        w = Fraction(bl["w"])
        for a in spec["c"]:
            for b in spec["c"]:
                if a == b:
                    continue
                if a in pos and (b not in pos or pos[a] < pos[b]):
                    M[(a, b)] += w
                elif a not in pos and b not in pos:
                    M[(a, b)] += w / 2
    return {(a, b): M[(a, b)] - M[(b, a)] for (a, b) in M}


def smith_set(spec, D):
    cands = spec["c"]
    best = None
    for k in range(1, len(cands) + 1):
        for S in itertools.combinations(cands, k):
            if all(D[(a, b)] > 0 for a in S for b in cands if b not in S):
                return set(S)
    return set(cands)


def run_case(vk, case):
    from votekit.graphs import PairwiseComparisonGraph
    spec = case["spec"]
    names = Names(spec["names"])
    profile = gen.build_profile(vk, spec)
    n = len(spec["c"])
    tags = [f"kind:{case['kind']}", f"n:{n}"]
    monitors = []

    def fail(name, detail):
        monitors.append({"name": name, "detail": detail[:500], "failure": {"rule": "pairwise", "kind": name, "cause": "unexplained"}})

    out = run_impl(lambda: PairwiseComparisonGraph(profile))
    if out[0] != "ok":
        fail("graph-construction", out[2])
        return {"req": None, "expect": None, "monitors": monitors, "tags": tags}
    G = out[1]
    D = margins(spec)
    pd = {(names.idx[a], names.idx[b]): Fraction(v) for (a, b), v in G.pairwise_dict.items()}
    want = {}
    for a, b in itertools.combinations(spec["c"], 2):
        d = D[(a, b)]
        if d == 0:
            want[(a, b)] = Fraction(0)
            want[(b, a)] = Fraction(0)
        elif d > 0:
            want[(a, b)] = d
        else:
            want[(b, a)] = -d
    if pd != want:
        fail("head-to-head-margins", f"recorded {sorted((k, str(v)) for k, v in pd.items())} vs definition {sorted((k, str(v)) for k, v in want.items())}")
    tiers = [sorted(names.idx[c] for c in t) for t in G.dominating_tiers()]
    flat = [c for t in tiers for c in t]
    if sorted(flat) != sorted(spec["c"]) or len(flat) != n:
        fail("tiers-not-a-partition", str(tiers))
    else:
        for i, t in enumerate(tiers):
            for u in tiers[i + 1:]:
                if any(D[(a, b)] <= 0 for a in t for b in u):
                    fail("higher-tier-does-not-beat-lower", f"{t} vs {u}")
            for k in range(1, len(t)):
                for A in itertools.combinations(t, k):
                    B = [c for c in t if c not in A]
                    if all(D[(a, b)] > 0 for a in A for b in B):
                        fail("tier-splittable", f"tier {t}: {A} beats {B}")
        sm = smith_set(spec, D)
        if set(tiers[0]) != sm:
            fail("top-tier-not-smith", f"top {tiers[0]} smith {sorted(sm)}")
        cw = [a for a in spec["c"] if all(D[(a, b)] > 0 for b in spec["c"] if b != a)]
        has = G.has_condorcet_winner()
        if bool(cw) != bool(has) or (cw and names.idx[G.get_condorcet_winner()] != cw[0]):
            fail("condorcet-winner", f"winner by definition {cw}, has_condorcet_winner {has}")
        # the graph's queries are pure: asking again (in any order) gives the same answers
        again = [sorted(names.idx[c] for c in t) for t in G.dominating_tiers()]
        has2 = G.has_condorcet_winner()
        if again != tiers or bool(has2) != bool(has):
            fail("graph-queries-not-repeatable", f"tiers {tiers} then {again}; has_condorcet_winner {has} then {has2}")
        if cw:
            w2 = run_impl(lambda: G.get_condorcet_winner())
            if w2[0] != "ok" or names.idx[w2[1]] != cw[0]:
                fail("graph-queries-not-repeatable", f"second get_condorcet_winner: {w2}")
        if cw:
            tags.append("condorcet-winner")
        if len(tiers[0]) > 1:
            tags.append("top-cycle")
        if any(v == 0 for v in D.values()):
            tags.append("pairwise-tie")
    # a second graph object queried in another order: cycle queries first, then the tier / Condorcet queries - the
    # answers must not depend on what was asked before (every query is a pure function of the profile)
    import random as _r
    qr = _r.Random(case["rs"])
    G2o = run_impl(lambda: PairwiseComparisonGraph(profile))
    if G2o[0] == "ok" and tiers:
        G2 = G2o[1]
        first = ["get_condorcet_cycles", "has_condorcet_cycles"]
        qr.shuffle(first)
        for q in first[: qr.randint(1, 2)]:
            out_q = run_impl(getattr(G2, q))
            if out_q[0] != "ok":
                fail("cycle-query-raises", f"{q}: {out_q[2]}")
        t2 = run_impl(lambda: [sorted(names.idx[c] for c in t) for t in G2.dominating_tiers()])
        h2 = run_impl(lambda: bool(G2.has_condorcet_winner()))
        if t2[0] != "ok" or t2[1] != tiers:
            fail("tiers-depend-on-earlier-queries", f"after cycle queries: {t2[1] if t2[0] == 'ok' else t2[2]} vs {tiers}")
        cw_def = [a for a in spec["c"] if all(D[(a, b)] > 0 for b in spec["c"] if b != a)]
        if h2[0] != "ok" or h2[1] != bool(cw_def):
            fail("condorcet-winner-depends-on-earlier-queries", f"after cycle queries: {h2} vs definition {cw_def}")
        # the graph's edges still say what pairwise_dict says: an edge for every positive margin, both directions for a tie
        ed = {(names.idx[a], names.idx[b]) for a, b in G2.pairwise_graph.edges}
        want_e = {(a, b) for (a, b) in D if D[(a, b)] >= 0}
        if ed != want_e:
            fail("graph-edges-changed-by-queries", f"missing {sorted(want_e - ed)[:4]} extra {sorted(ed - want_e)[:4]}")
    # elections
    ds = elect.construct(vk, "DominatingSets", profile, {}, case["rs"])
    if ds["status"] == "ok":
        el = sorted(names.idx[c] for g in ds["e"].get_elected() for c in g)
        if tiers and el != tiers[0]:
            fail("dominating-sets-winner", f"elected {el} top tier {tiers[0]}")
    else:
        fail("dominating-sets-raises", ds.get("msg", ""))
    cb = elect.construct(vk, "CondoBorda", profile, {"m": case["m"]}, case["rs"])
    if cb["status"] == "ok" and tiers:
        el = [names.idx[c] for g in cb["e"].get_elected() for c in g]
        borda = ref_scores(spec, list(range(n, 0, -1)))
        m = case["m"]
        k, whole = 0, []
        for t in tiers:
            if k + len(t) <= m:
                whole += t
                k += len(t)
            else:
                strad = t
                break
        else:
            strad = []
        need = m - k
        if sorted(el[:k]) != sorted(whole) or len(el) != m:
            fail("condoborda-whole-tiers", f"elected {el} tiers {tiers} m={m}")
        elif need:
            chosen = el[k:]
            others = [c for c in strad if c not in chosen]
            if any(c not in strad for c in chosen) or any(borda[o] > borda[c] for c in chosen for o in others):
                fail("condoborda-straddling-tier", f"chosen {chosen} from {strad} borda {[str(borda[c]) for c in strad]}")
    elif cb["status"] != "ok":
        fail("condoborda-raises", cb.get("msg", ""))
    req = {"op": "pairwise", "profile": gen.model_profile(spec)}
    expect = {"ok": {"dict": sorted([a, b, rat(v)] for (a, b), v in pd.items()), "tiers": tiers, "fill_agrees": True}}
    return {"req": req, "expect": expect, "monitors": monitors, "tags": tags,
            "nontrivial": len(spec["b"]) > 1 and n > 2}


def compare(model, expect):
    if "ok" not in model:
        return f"model {model}"
    mo = dict(model["ok"])
    mo["dict"] = sorted(mo["dict"])
    if mo != expect["ok"]:
        for k in mo:
            if mo[k] != expect["ok"].get(k):
                return f"{k}: model {str(mo[k])[:200]} vs impl {str(expect['ok'].get(k))[:200]}"
    return None
