"""C14 — ballot generators return well-formed profiles of exactly the requested size."""
import os, shutil, tempfile
from fractions import Fraction
from .. import bgen
from ..bgen import BLOC_KINDS, COMPLETE, TWO_BLOC
from ..common import Names, rat
from ..genlog import huntington_hill

PROP = "C14"
LEAN_MODULE = "VK.Check.C14"
THEOREMS = [
    "VK.C14_pool_total",
    "VK.C14_pool_weights_pos_int",
    "VK.C14_sum_profiles_wt",
    "VK.C14_sum_profiles_total",
    "VK.C14_pl_ballot_wellformed",
    "VK.C14_pl_ballot_complete",
    "VK.C14_short_pl_length",
    "VK.C14_cumulative_points",
    "VK.C14_fill_wellformed",
    "VK.C14_fill_nodup",
    "VK.C14_sort_perm",
    "VK.C14_hh_total",
    "VK.Gen.expectChoice_spec",
    "VK.Gen.expectChoiceU_spec",
    "VK.Gen.expectApportion_spec",
    "VK.Gen.C14_runPL",
    "VK.Gen.C14_runCumulative",
    "VK.Gen.C14_runBT",
    "VK.Gen.C14_runBTmcmc",
    "VK.Gen.C14_runAC",
    "VK.Gen.C14_runCambridge",
    "VK.Gen.C14_runSlatePL",
    "VK.Gen.C14_runSlateBT",
    "VK.Gen.C14_run_all_bloc_kinds",
    "VK.Gen.C14_runSimplex",
    "VK.Gen.C14_run_simplex",
]
RULE = ("(for a third of the bloc-model cases a sibling generator of the same class, same bloc names, other candidate names is "
        "built after the one under test and kept alive while that one samples) "
        "cases = random parameter sets for all 16 generator paths (ImpartialCulture, ImpartialAnonymousCulture, BallotSimplex "
        "from point, name/short-name PlackettLuce, name BradleyTerry exact + MCMC, slate BradleyTerry exact + MCMC, "
        "AlternatingCrossover, CambridgeSampler (synthetic and historical type table), name_Cumulative, slate_PlackettLuce, "
        "OneDimSpatial, Spatial, ClusteredSpatial) x 1-3 blocs x slate sizes 1-3 x cohesion / proportion vectors with 0 and 1 "
        "entries x zero-support candidates x N in 1..60 x seeded random streams; every random primitive and the apportionment "
        "call are recorded, the Lean model re-assembles by-bloc and aggregate profiles from the recorded draws (validating "
        "each draw against the primitive's contract and its arguments against the documented ones) and is compared with the "
        "implementation's profiles; monitors check the property directly on the implementation's output; non-trivial = "
        "at least two candidates and N >= 2; distinct = distinct parameter sets")
TRUSTED = ["modelled by contract, not verified: numpy.random.choice (replace=False returns distinct members of the support, "
           "replace=True members), random.choices, random.shuffle (a permutation), numpy.random.uniform, default_rng().dirichlet "
           "(a probability vector), apportionment.compute (naturals summing to N; compared with the Lean/Python "
           "Huntington-Hill specification, ties reported separately), pickle + the Cambridge data file, np.linalg.norm",
           "float arithmetic of intervals / bins (model is exact on the exact binary inputs; probability vectors compared "
           "with relative tolerance 1e-9)"]
ASSUMPTIONS = ["parameter sets are valid in the documented sense: proportions and cohesion rows sum to 1, every interval "
               "has a supported candidate, AlternatingCrossover / CambridgeSampler with exactly two blocs"]
EXPLANATION = ("Theorems (every number of ballots / candidates / blocs): counting a pool of N unit ballots gives positive "
               "whole-number weights adding up to N; adding bloc profiles adds weight maps and totals; a Plackett-Luce "
               "ballot built from a duplicate-free draw plus a tied group of zero-support candidates has no repeated "
               "candidate, uses only declared candidates, is complete when the draw covers the supported candidates, and "
               "lists exactly ballot_length candidates in the short model; cumulative score ballots distribute exactly "
               "num_votes points on drawn candidates; filling a slate pattern with per-slate orders yields a "
               "duplicate-free complete ranking; the stable distance sort is a permutation; the Huntington-Hill "
               "specification hands out exactly N seats. End to end over the replay layer (partial-correctness triples for "
               "StateT (List Call) (Except String)): for each of the ten bloc generator kinds, whatever log of primitive "
               "calls Gen.run accepts, the returned profile has total weight exactly N, positive whole weights, and is the "
               "sum of the per-bloc profiles; an accepted Plackett-Luce draw is duplicate-free and inside the positive "
               "support, an accepted apportionment adds up to N.")

N_QUICK, N_THOROUGH = 2400, 86400

_TMP = None


def tmpdir():
    global _TMP
    if _TMP is None:
        # one scratch directory per worker process, inside the run's scratch directory (removed by harness/main.py)
        _TMP = tempfile.mkdtemp(prefix="c14_", dir=os.environ.get("VERIF_RUN_TMP") or None)
    return _TMP


def cases(rng, tier, shard, nshards, phase):
    if phase == "corpus":
        if shard == 0:
            # witnesses of recorded findings
            yield {"kind": "pl", "seed": 1, "N": 2, "blocs": ["W", "C", "x"], "slates": {"W": ["a"], "C": ["Bob"], "x": ["zed"]},
                   "supports": {b: {s: [1.0] for s in ["W", "C", "x"]} for b in ["W", "C", "x"]},
                   "cohesion": {b: {"W": 1.0, "C": 0.0, "x": 0.0} for b in ["W", "C", "x"]}, "props": {"W": 1.0, "C": 0.0, "x": 0.0}}
        return
    total = N_THOROUGH if tier == "thorough" else N_QUICK
    if phase.startswith("search"):
        total *= 2
    for i in range(total // nshards):
        yield bgen.gen_params(rng, bgen.KINDS[(i + shard) % len(bgen.KINDS)] if i % 2 == 0 else None)


def interval_of(sup_by_slate, slates, blocs, cohesion_row):
    """exact combined interval of one bloc: {cand: Fraction}, zero-support set"""
    vals, zeros = {}, set()
    for s in blocs:
        xs = [Fraction(x) for x in sup_by_slate[s]]
        S = sum(xs)
        for c, x in zip(slates[s], xs):
            if x == 0:
                zeros.add(c)
            else:
                v = x / S * Fraction(cohesion_row[s])
                if v > 0:
                    vals[c] = v
                else:
                    zeros.add(c)
    T = sum(vals.values())
    return {c: v / T for c, v in vals.items()}, zeros


def run_case(vk, p):
    kind = p["kind"]
    monitors = []
    tags = [f"kind:{kind}", f"N:{'1' if p['N'] == 1 else '2-5' if p['N'] <= 5 else '6+'}"]

    def fail(name, detail, cause="unexplained"):
        monitors.append({"name": name, "detail": str(detail)[:500], "failure": {"rule": kind, "kind": name, "cause": cause}})

    p = dict(p)
    obs = None
    try:
        import votekit.ballot_generator  # noqa
        obs = _observe(vk, p)
    finally:
        pass
    cands = bgen.all_cands(p)
    names = Names(cands)
    N = p["N"]
    if kind in BLOC_KINDS:
        tags.append(f"blocs:{len(p['blocs'])}")
        if any(v == 0 for v in p["props"].values()):
            tags.append("zero-proportion-bloc")
        if any(v in (0, 1) for row in p["cohesion"].values() for v in row.values()) and len(p["blocs"]) > 1:
            tags.append("cohesion-0-or-1")
        if any(x == 0 for b in p["supports"].values() for s in b.values() for x in s):
            tags.append("zero-support-candidate")
    if obs["status"] != "ok":
        tags.append(f"status:{obs['status']}:{obs['exn']}")
        cause = classify_exn(p, obs)
        fail("generator-raises", f"{obs['status']}: {obs['msg']}", cause)
        return {"req": None, "expect": None, "monitors": monitors, "tags": tags, "nontrivial": False,
                "failure": {"rule": kind, "kind": "generator-raises", "cause": cause}}
    tags.append("status:ok")
    prof = obs["profile"]
    # ---- size and weights
    total = sum(Fraction(b.weight) for b in prof.ballots)
    if total != N:
        fail("total-weight", f"total {total} != N {N}")
    for b in prof.ballots:
        w = Fraction(b.weight)
        if w <= 0 or w.denominator != 1:
            fail("weight-not-positive-integer", f"{w}")
            break
    # ---- ballots use declared candidates once
    declared = set(cands)
    for b in prof.ballots:
        listed = [c for s in (b.ranking or ()) for c in s] if b.ranking else list((b.scores or {}).keys())
        if any(str(c) not in declared for c in listed):
            fail("undeclared-candidate", str(listed))
            break
        if len(listed) != len(set(listed)):
            fail("repeated-candidate", str(listed))
            break
    if kind != "cumulative" and any(b.scores for b in prof.ballots):
        fail("unexpected-scores", "")
    # ---- per-bloc structure
    by = obs.get("by_bloc")
    if kind in BLOC_KINDS:
        if by is None or list(by.keys()) != list(p["blocs"]):
            fail("by-bloc-keys", str(None if by is None else list(by.keys())))
        else:
            agg = {}
            for b in p["blocs"]:
                for k, w in bgen.wmap(names, by[b]).items():
                    agg[k] = agg.get(k, Fraction(0)) + w
            if agg != bgen.wmap(names, prof):
                fail("by-bloc-profiles-do-not-add-up", f"{bgen.jmap(agg)[:4]} vs {bgen.jmap(bgen.wmap(names, prof))[:4]}")
            # bloc sizes
            sizes = [sum(Fraction(x.weight) for x in by[b].ballots) for b in p["blocs"]]
            if kind in TWO_BLOC:
                coh = {b: p["cohesion"][b][b] for b in p["blocs"]}
                vec = []
                for b in p["blocs"]:
                    vec += [coh[b] * p["props"][b], (1 - coh[b]) * p["props"][b]]
                ref, tie = huntington_hill(vec, N)
                ref_sizes = [ref[0] + ref[1], ref[2] + ref[3]]
            else:
                vec = [p["props"][b] for b in p["blocs"]]
                ref, tie = huntington_hill(vec, N)
                ref_sizes = ref
            ap = [c for c in obs["log"] if c["f"] == "apportion"]
            if len(ap) != 1 or ap[0]["method"] != "huntington" or ap[0]["n"] != N or ap[0]["props"] != [rat(float(x)) for x in vec]:
                fail("apportionment-call", f"calls {ap} expected huntington, {vec}, {N}")
            if tie:
                tags.append("hh-tie")
            if [Fraction(x) for x in sizes] != [Fraction(x) for x in ref_sizes]:
                if tie:
                    tags.append("hh-tie-broken-differently")
                else:
                    lib = ap[0]["res"] if ap else None
                    cause = "zero-weight-party-seated" if lib is not None and any(
                        s > 0 and Fraction(v) == 0 for s, v in zip(lib, vec)) else "unexplained"
                    fail("bloc-sizes-not-huntington-hill", f"sizes {sizes} reference {ref_sizes} library {lib} for {vec}, N={N}", cause)
            elif kind in TWO_BLOC and ap and ap[0]["res"] != ref and not tie:
                lib = ap[0]["res"]
                cause = "zero-weight-party-seated" if any(s > 0 and Fraction(v) == 0 for s, v in zip(lib, vec)) else "unexplained"
                fail("bloc-cross-split-not-huntington-hill", f"library {lib} reference {ref} for {vec}, N={N}", cause)
            # completeness / zero-support group per bloc
            for b in p["blocs"]:
                check_bloc_ballots(p, b, by[b], fail, tags)
    else:
        n = len(cands)
        for b in prof.ballots:
            r = b.ranking or ()
            if len(r) != n or any(len(s) != 1 for s in r):
                fail("incomplete-or-tied-ranking", str(r))
                break
    if p.get("shuffle_slates"):
        tags.append("slates-listed-in-another-order:monitors-only")
        return {"req": None, "expect": None, "monitors": monitors, "tags": tags, "nontrivial": True}
    if p.get("asym"):
        tags.append("asymmetric-distance")
    return {"req": bgen.model_request(vk, p, obs), "expect": bgen.expect_profiles(p, obs), "monitors": monitors, "tags": tags,
            "nontrivial": len(cands) >= 2 and N >= 2}


def compare(model, expect):
    return bgen.compare_profiles(model, expect)


def classify_exn(p, obs):
    """diagnose the cause of an exception independently of the message"""
    kind = p["kind"]
    if obs["status"] == "run-exn" and kind in ("bt_mcmc", "slate_bt_mcmc"):
        blocs, slates = p["blocs"], p["slates"]
        for b in blocs:
            if kind == "bt_mcmc":
                interval, _ = interval_of(p["supports"][b], slates, blocs, p["cohesion"][b])
                n = len(interval)
            else:
                n = sum(1 for s in blocs for x in p["supports"][b][s] if x > 0)
            if n == 1 and obs["exn"] in ("IndexError", "ValueError"):
                return "mcmc-single-supported-candidate"
    return "unexplained"


def check_bloc_ballots(p, bloc, prof, fail, tags):
    kind = p["kind"]
    blocs, slates = p["blocs"], p["slates"]
    cands = bgen.all_cands(p)
    if kind in ("pl", "short_pl", "bt", "bt_mcmc", "cumulative"):
        interval, zeros = interval_of(p["supports"][bloc], slates, blocs, p["cohesion"][bloc])
    else:
        zeros = {c for s in blocs for c, x in zip(slates[s], p["supports"][bloc][s]) if x == 0}
        interval = None
    nz = [c for c in cands if c not in zeros]
    for b in prof.ballots:
        r = [set(map(str, s)) for s in (b.ranking or ())]
        if kind == "cumulative":
            sc = b.scores or {}
            if b.ranking:
                fail("cumulative-ballot-has-ranking", str(b.ranking))
            if sum(Fraction(v) for v in sc.values()) != p["votes"]:
                fail("cumulative-points", f"{dict(sc)} != {p['votes']} points")
            if any(str(c) in zeros for c in sc):
                fail("cumulative-points-on-unsupported-candidate", f"{dict(sc)} zeros {zeros}")
            if any(Fraction(v).denominator != 1 or v <= 0 for v in sc.values()):
                fail("cumulative-points-not-whole", str(dict(sc)))
            continue
        listed = [c for s in r for c in s]
        if kind == "short_pl":
            if len(listed) != p["L"]:
                fail("short-pl-length", f"{r} lists {len(listed)} candidates, ballot_length {p['L']}")
            tied = [s for s in r if len(s) > 1]
            if any(len(s) > 1 for s in r[:-1]):
                fail("tie-not-final", str(r))
            if len(nz) >= p["L"]:
                if tied or any(c in zeros for c in listed):
                    fail("zero-support-candidate-ranked", str(r))
            else:
                head = [c for s in r[:-1] for c in s] if len(r) > 0 else []
                if set(head) != set(nz) or not r or not r[-1] <= zeros:
                    fail("short-pl-zero-support-not-final-tie", f"{r} supported {nz}")
            continue
        if kind in COMPLETE:
            if set(listed) != set(cands):
                fail("incomplete-ranking", f"{r} of {cands}")
                continue
            if zeros:
                if not r or r[-1] != zeros or any(len(s) != 1 for s in r[:-1]):
                    fail("zero-support-candidates-not-one-final-tie", f"{r} zeros {sorted(zeros)}")
            elif any(len(s) != 1 for s in r):
                fail("tied-position", str(r))
        elif kind == "ac":
            # AlternatingCrossover is documented to rank every candidate: bloc voters "rank all of their own bloc's
            # candidates above the other bloc", crossover voters alternate, and a candidate of support 0.0 "will always
            # appear at the bottom of the ballot" (docs, preference intervals)
            missing = set(cands) - set(listed)
            if missing:
                opp = [x for x in blocs if x != bloc][0]
                own_sup = [c for c, x in zip(slates[bloc], p["supports"][bloc][bloc]) if x > 0]
                opp_sup = [c for c, x in zip(slates[opp], p["supports"][bloc][opp]) if x > 0]
                crossover = bool(listed) and listed[0] in slates[opp]
                if missing <= zeros:
                    cause = "ac-omits-zero-support-candidates"
                elif crossover and len(own_sup) != len(opp_sup) and \
                        missing <= set(own_sup if len(own_sup) > len(opp_sup) else opp_sup) | zeros:
                    cause = "ac-crossover-truncated-to-shorter-slate"
                else:
                    cause = "unexplained"
                fail("incomplete-ranking", f"{r} lacks {sorted(missing)}", cause)
            if any(len(s) != 1 for s in r) and not (r and r[-1] == zeros and all(len(s) == 1 for s in r[:-1])):
                fail("tied-position", str(r))
        else:
            # CambridgeSampler (historical ballot types are short by design): well-formedness only; never a tie
            if any(len(s) != 1 for s in r):
                fail("tied-position", str(r))


def _observe(vk, p):
    return bgen.observe(vk, p, tmpdir() if p["kind"] == "cambridge" else None)
