"""C01 — every election terminates with exactly m winners and a consistent outcome."""
from fractions import Fraction
from .. import gen, elect, refstv
from ..common import Names, rat

PROP = "C01"
LEAN_MODULE = "VK.Check.C01"
THEOREMS = [
    "VK.C01_topM_two_states",
    "VK.stvStep_inv",
    "VK.stvLoop_inv",
    "VK.C01_stv_exactly_m_and_partition",
    "VK.Good_suffix",
    "VK.C01_stv_round_lists_disjoint",
    "VK.C01_irv_one_winner",
    "VK.noFuel_stvStep",
    "VK.stvStep_decreases",
    "VK.stvLoop_noFuel",
    "VK.C01_stv_terminates",
    "VK.C01_topM_count_partition",
    "VK.C01_topM_no_tiebreak_no_boundary_tie",
    "VK.C01_plurality",
    "VK.C01_borda",
    "VK.C01_toptwo_one_winner",
    "VK.C01_alaska_exactly_m2",
    "VK.C01_random_dictator_exactly_m",
    "VK.C01_boosted_exactly_m",
    "VK.C01_condoborda_exactly_m",
    "VK.C06_dominating_sets_elects_top",
    "VK.removeCand_castOK",
    "VK.dictatorPick_mem",
    "VK.C01_random_dictator_partition",
    "VK.C01_boosted_partition",
    "VK.vetoLoop_struck",
    "VK.fpv_pos_atTop",
    "VK.pvWF_remove",
    "VK.candsCast_scoreProfile",
    "VK.pvRound_inv",
    "VK.pvLoop_spec",
    "VK.C01_veto_exactly_m_and_partition",
    "VK.C01_veto_loops_at",
    "VK.vetoLoop_no_strike",
    "VK.fpv_posSum",
    "VK.noFuel_pvRound",
    "VK.pvRound_progress",
    "VK.pvLoop_noFuel",
    "VK.C01_veto_terminates",
    "VK.topMRun_good",
    "VK.C01_plurality_partition",
    "VK.C01_borda_partition",
    "VK.C01_rating_partition",
    "VK.C01_condoborda_partition",
    "VK.finalistStage_spec",
    "VK.C01_toptwo_partition",
    "VK.stvRun_head",
    "VK.Good_lift",
    "VK.C01_alaska_partition",
    "VK.kernel_veto_decrement",
    "VK.kernel_veto_struck",
    "VK.kernel_veto_zero",
    "VK.kernel_veto_final",
]
RULE = ("cases = rule (18 classes) x random valid profile (1-6 candidates incl. zero-vote ones, 0-10 ballots, partial "
        "ballots, tied positions where the rule allows them, unit/int/rational weights; score ballots within limits for "
        "score rules) x m in 1..n x quota x simultaneous x transfer x tiebreak x RNG seed; engineered streams: all ballots "
        "bullet votes (exhausting), hare quota, m = n, single candidate, no ballots; non-trivial = at least one ballot and "
        "two candidates; distinct = distinct (rule, configuration, profile, seed)")
TRUSTED = ["modelled, not verified: int() on a non-negative Fraction (= floor); random.sample/random.choices/"
           "numpy.random.choice/random.uniform/numpy.random.shuffle (oracle arguments of the model: PluralityVeto's processing "
           "order is the recorded shuffle, its tie orders the stream of recorded random.sample results, each of which the "
           "model must ask for and none may be left over); PluralityVeto's endless loop (finding F-C01-f) is the model's "
           "outOfFuel and the implementation's CPU-time alarm - the two must coincide"]
ASSUMPTIONS = ["positive weights; declared candidates include every cast candidate; TopTwo needs >= 2 candidates; "
               "Alaska needs m_1 <= number of candidates"]
EXPLANATION = ("Theorem: the STV/IRV/SequentialRCV/Alaska count loop never runs out of fuel (termination) for every "
               "profile, configuration and oracle. Correspondence: the complete election_states of every rule (or the "
               "exception class) against the Lean model with the oracle taken from the recorded tiebreaks and the "
               "wrapped random primitives. Monitors (model-independent): winner count, partition at every round, "
               "monotone status, ValueError only with tiebreak=None and a tie across the seat boundary (reference "
               "count), no other exception (PluralityVeto's documented AttributeError for tied ballots without a tiebreak is a "
               "rejection of the profile, not an escape), alarm for non-termination after 4 s of the process's own CPU time (wall-clock backstop 240 s).")

N_QUICK, N_THOROUGH = 2400, 86400

ALL_RULES = ["STV", "IRV", "SequentialRCV", "Plurality", "SNTV", "Borda", "TopTwo", "Alaska", "DominatingSets",
             "CondoBorda", "RandomDictator", "BoostedRandomDictator", "PluralityVeto", "Rating", "Limited",
             "Cumulative", "Approval", "BlocPlurality"]
TIES_OK = ("Plurality", "SNTV", "Borda", "TopTwo", "RandomDictator", "BoostedRandomDictator")


def partial_tiebreak_case(rng):
    """a tie of three or more candidates across the seat boundary that the secondary scores resolve only partly
    (top of the tied group separated, a tie further down): the documented fallback is a random order of what is left"""
    for _ in range(300):
        rule = rng.choice(["Plurality", "SNTV", "Borda"])
        tb = "first_place" if rule == "Borda" else "borda"
        spec = gen.gen_ranked_spec(rng, nmin=3, nmax=5, ties=False, partial=False, weights=rng.choice(["unit", "int"]),
                                   bmin=3, bmax=8)
        n = len(spec["c"])
        fpv = {c: Fraction(0) for c in spec["c"]}
        borda = {c: Fraction(0) for c in spec["c"]}
        for b in spec["b"]:
            w = Fraction(b["w"])
            fpv[b["r"][0][0]] += w
            for pos, s0 in enumerate(b["r"]):
                borda[s0[0]] += w * (n - pos)
        prim, sec = (borda, fpv) if rule == "Borda" else (fpv, borda)
        for m in range(2, n):
            vals = sorted(prim.values(), reverse=True)
            if vals[m - 1] != vals[m]:
                continue
            G = [c for c in spec["c"] if prim[c] == vals[m - 1]]
            above = sum(1 for v in vals if v > vals[m - 1])
            if len(G) < 3 or m - above < 2:
                continue
            sv = sorted((sec[c] for c in G), reverse=True)
            if sv[0] > sv[1] and any(sv[i] == sv[i + 1] for i in range(1, len(sv) - 1)):
                return {"rule": rule, "cfg": {"m": m, "tiebreak": tb}, "spec": spec, "rs": rng.randint(0, 10 ** 9)}
    return None


def double_residual_tie_case(rng):
    """a tie of four or more candidates across the seat boundary that the secondary scores split into two or more
    groups that are still tied ({A,B} > {C,D}): every still-tied group falls back to a random order of its own"""
    from collections import Counter
    for _ in range(4000):
        rule = rng.choice(["Plurality", "SNTV", "Borda"])
        tb = "first_place" if rule == "Borda" else "borda"
        spec = gen.gen_ranked_spec(rng, nmin=4, nmax=5, ties=False, partial=False, weights="unit", bmin=4, bmax=8)
        n = len(spec["c"])
        fpv = {c: Fraction(0) for c in spec["c"]}
        borda = {c: Fraction(0) for c in spec["c"]}
        for b in spec["b"]:
            w = Fraction(b["w"])
            fpv[b["r"][0][0]] += w
            for pos, s0 in enumerate(b["r"]):
                borda[s0[0]] += w * (n - pos)
        prim, sec = (borda, fpv) if rule == "Borda" else (fpv, borda)
        vals = sorted(prim.values(), reverse=True)
        ms = []
        for m in range(1, n):
            if vals[m - 1] != vals[m]:
                continue
            G = [c for c in spec["c"] if prim[c] == vals[m - 1]]
            cnt = Counter(sec[c] for c in G)
            if len(G) >= 4 and sum(1 for v in cnt.values() if v >= 2) >= 2:
                ms.append(m)
        if ms:
            k = rng.randint(1, 3)
            for b in spec["b"]:
                b["w"] = rat(Fraction(b["w"]) * k)
            return {"rule": rule, "cfg": {"m": rng.choice(ms), "tiebreak": tb}, "spec": spec, "rs": rng.randint(0, 10 ** 9)}
    return None


def gen_case(rng, rule=None):
    if rule is None and rng.random() < 0.01:
        c = double_residual_tie_case(rng)
        if c is not None:
            return c
    if rule is None and rng.random() < 0.03:
        c = partial_tiebreak_case(rng)
        if c is not None:
            return c
    rule = rule or rng.choice(ALL_RULES + ["STV", "STV", "SequentialRCV", "Alaska"])
    cfg = {}
    eng = rng.random()
    if rule in elect.SCORE_RULES:
        n = rng.randint(1, 6)
        m = rng.randint(1, n)
        L, k = None, None
        if rule == "Rating":
            L = Fraction(rng.choice([1, 2, 5, Fraction(5, 2)]))
            cfg["L"] = rat(L)
        elif rule == "Limited":
            k = Fraction(rng.randint(1, m))
            cfg["k"] = rat(k)
            L = k
        elif rule == "Cumulative":
            L = k = Fraction(m)
        elif rule == "Approval":
            L = Fraction(1)
        elif rule == "BlocPlurality":
            L = Fraction(1)
            if rng.random() < 0.5:
                k = Fraction(rng.randint(1, n))
                cfg["k"] = rat(k)
            else:
                k = Fraction(m)
        spec = gen.gen_score_spec(rng, n=n, L=L, budget=k, bmin=0 if eng < 0.05 else 1)
        cfg.update(m=m, tiebreak=rng.choice([None, None, "random"]))
        return {"rule": rule, "cfg": cfg, "spec": spec, "rs": rng.randint(0, 10 ** 9)}
    nmin = 2 if rule == "TopTwo" else 1
    ties = (rule in TIES_OK and rng.random() < 0.4) or (rule == "PluralityVeto" and rng.random() < 0.5)
    weights = "int" if (rule == "PluralityVeto") else "mixed"
    spec = gen.gen_ranked_spec(rng, nmin=nmin, nmax=6, ties=ties, partial=True, weights=weights,
                               bmin=0 if eng < 0.04 else 1)
    if eng > 0.9:
        # exhausting stream: bullet votes only
        for b in spec["b"]:
            b["r"] = b["r"][:1]
    n = len(spec["c"])
    m = rng.randint(1, n) if rng.random() < 0.85 else n
    tb = rng.choice([None, None, "random", "borda", "first_place"])
    if rule in ("STV", "SequentialRCV", "Alaska", "IRV"):
        cfg.update(quota=rng.choice(["droop", "droop", "droop", "hare"]), tiebreak=tb)
        if rule != "IRV":
            cfg["simultaneous"] = rng.random() < 0.5
        if rule in ("STV", "Alaska") and rng.random() < 0.3:
            cfg["transfer"] = "random"
            # whole weights, except that one case in ten keeps its fractional weights: the random transfer must then
            # reject the profile with TypeError as soon as a winner's pile holds one (documented), and count it
            # like any other profile when no pile does
            if rng.random() < 0.9:
                for b in spec["b"]:
                    b["w"] = rat(max(1, int(Fraction(b["w"]))))
        if rule == "Alaska":
            m1 = rng.randint(1, n)
            cfg.update(m1=m1, m2=rng.randint(1, m1))
        else:
            cfg["m"] = m
    elif rule in ("Plurality", "SNTV", "Borda"):
        cfg.update(m=m, tiebreak=tb)
    elif rule == "TopTwo":
        cfg.update(tiebreak=tb)
    elif rule == "PluralityVeto":
        cfg.update(m=m, tiebreak=rng.choice([None, "random", "random", "borda", "borda"]) if ties else rng.choice([None, "random"]))
    else:
        cfg.update(m=m)
    return {"rule": rule, "cfg": cfg, "spec": spec, "rs": rng.randint(0, 10 ** 9)}


def cases(rng, tier, shard, nshards, phase):
    if phase == "corpus":
        import json, os
        path = os.path.join(os.path.dirname(__file__), "..", "..", "corpus", "C01.json")
        if os.path.exists(path):
            items = json.load(open(path))
            for i, c in enumerate(items):
                if i % nshards == shard:
                    yield c
        return
    total = N_THOROUGH if tier == "thorough" else N_QUICK
    if phase.startswith("search"):
        total *= 2
    for _ in range(total // nshards):
        yield gen_case(rng)


def expected_winners(rule, cfg, e):
    if rule in ("IRV", "TopTwo"):
        return 1
    if rule == "Alaska":
        return cfg["m2"]
    if rule == "DominatingSets":
        return None
    return cfg["m"]


def boundary_tie(scores, m):
    vals = sorted(scores.values(), reverse=True)
    return 0 < m < len(vals) and vals[m - 1] == vals[m]


def ref_for(spec, cfg, rule, tie_log=None, samples=None, m=None, cands=None, ballots=None):
    ballots = ballots if ballots is not None else [([c for s in b["r"] for c in s], Fraction(b["w"])) for b in spec["b"]]
    cands = cands if cands is not None else list(spec["c"])
    mode = "full" if rule == "SequentialRCV" else ("random" if cfg.get("transfer") == "random" else "frac")
    return refstv.ref_stv(ballots, cands, m if m is not None else (1 if rule == "IRV" else cfg["m"]),
                          quota=cfg.get("quota", "droop"),
                          simultaneous=True if rule == "IRV" else cfg.get("simultaneous", True),
                          mode=mode, tiebreak=cfg.get("tiebreak"), tie_log=tie_log, samples=samples)


def fpv_ref(spec, cands=None):
    from .c04 import ref_scores
    return ref_scores(spec, [1])


def classify_failure(rule, cfg, spec, res, names):
    """independent diagnosis of an illegitimate exception / timeout: returns failure dict"""
    kind = "timeout" if res["status"] == "timeout" else f"exception:{res.get('exn')}"
    cause = "unexplained"
    msg = res.get("msg", "")
    nb = len(spec["b"])
    cast = {c for b in spec["b"] for s in b["r"] for c in s} | {c for b in spec["b"] for c, _ in b["s"]}
    n = len(spec["c"])
    if rule in ("STV", "IRV", "SequentialRCV", "Alaska"):
        if "Sample larger than population" in msg or "negative" in msg:
            cause = "random-transfer-sample-exceeds-transferable"
        elif rule != "Alaska":
            log = [c[3] for c in res["log"].calls if c[0] == "sample" and c[1] and isinstance(c[1][0], str)]
            ref = ref_for(spec, cfg, rule, tie_log=[[names.idx[str(x)] for x in o] for o in log],
                          samples=samples_of(res, names))
            st = ref["status"]
            if cfg.get("quota") == "hare" and st in ("OVERFILL", "ZERO-QUOTA", "STUCK"):
                cause = "hare-quota-overfill-or-zero"
            elif cfg.get("quota") == "hare" and res.get("exn") in ("IndexError", "ZeroDivisionError"):
                cause = "hare-quota-overfill-or-zero"
            elif rule == "SequentialRCV" and cfg.get("simultaneous", True) and st == "OVERFILL":
                cause = "seqrcv-simultaneous-overfill"
        else:
            if cfg.get("quota") == "hare" and res.get("exn") in ("IndexError", "ZeroDivisionError"):
                cause = "hare-quota-overfill-or-zero"
            elif res.get("exn") == "KeyError":
                cause = "alaska-replay-redraws-random-tiebreak"
    elif rule in ("RandomDictator", "BoostedRandomDictator"):
        if len(cast) < cfg["m"]:
            cause = "dictator-fewer-cast-candidates-than-seats"
    elif rule == "PluralityVeto":
        fp = fpv_ref(spec)
        pos = sum(1 for v in fp.values() if v > 0)
        if pos < len(fp) and pos - 1 < cfg["m"]:
            cause = "pluralityveto-zero-fpv-drop-below-seats"
    elif rule in ("DominatingSets", "CondoBorda"):
        if nb == 0:
            cause = "pairwise-rule-on-profile-without-ballots"
    return {"rule": rule, "kind": kind, "cause": cause}


def valueerror_legit(rule, cfg, spec, res, names):
    """ValueError is legitimate only with tiebreak=None and a tie across the boundary of the step"""
    if cfg.get("tiebreak") is not None:
        return False
    from .c04 import ref_scores
    n = len(spec["c"])
    if rule in ("Plurality", "SNTV"):
        return boundary_tie(ref_scores(spec, [1]), cfg["m"])
    if rule == "Borda":
        return boundary_tie(ref_scores(spec, list(range(n, 0, -1))), cfg["m"])
    if rule in elect.SCORE_RULES:
        sc = {c: Fraction(0) for c in spec["c"]}
        for b in spec["b"]:
            for c, v in b["s"]:
                sc[c] += Fraction(v) * Fraction(b["w"])
        return boundary_tie(sc, cfg["m"])
    if rule == "TopTwo":
        fp = ref_scores(spec, [1])
        if boundary_tie(fp, 2):
            return True
        top2 = sorted(fp, key=lambda c: -fp[c])[:2]
        a, b = top2
        wa = sum(Fraction(x["w"]) for x in spec["b"] if first_of(x["r"], (a, b)) == a)
        wb = sum(Fraction(x["w"]) for x in spec["b"] if first_of(x["r"], (a, b)) == b)
        ta = sum(Fraction(x["w"]) / 2 for x in spec["b"] if first_of(x["r"], (a, b)) == "tie")
        return wa + ta == wb + ta
    if rule in ("STV", "IRV", "SequentialRCV"):
        sim = True if rule == "IRV" else cfg.get("simultaneous", True)
        if sim:
            return False
        log = [c[3] for c in res["log"].calls if c[0] == "sample" and c[1] and isinstance(c[1][0], str)]
        ref = ref_for(spec, cfg, rule, tie_log=[[names.idx[str(x)] for x in o] for o in log],
                      samples=samples_of(res, names))
        return ref["status"] == "TOP-TIE"
    if rule == "Alaska":
        fp = ref_scores(spec, [1])
        if boundary_tie(fp, cfg["m1"]):
            return True
        if cfg.get("simultaneous", True):
            return False
        return None   # undecided here: left to the correspondence
    return False


def samples_of(res, names):
    """winner index -> {continuing ranking: kept units} from the logged random transfers"""
    out = {}
    for (w, fpv, smp) in res.get("transfers", []):
        wi = names.idx[str(w)]
        if wi in out or smp is None:
            continue
        cnt = {}
        for b in smp:
            key = tuple(names.idx[str(x)] for pos in b.ranking for x in pos)
            cnt[key] = cnt.get(key, 0) + 1
        out[wi] = cnt
    return out


def first_of(r, pair):
    for s in r:
        hit = [c for c in s if c in pair]
        if len(hit) == 2:
            return "tie"
        if len(hit) == 1:
            return hit[0]
    return None


def run_case(vk, case):
    rule, cfg, spec = case["rule"], dict(case["cfg"]), case["spec"]
    names = Names(spec["names"])
    profile = gen.build_profile(vk, spec)
    n = len(spec["c"])
    res = elect.construct(vk, rule, profile, cfg, case["rs"])
    tags = [f"rule:{rule}", f"status:{rule}:{res['status']}" + (f":{res.get('exn')}" if res["status"] == "exn" else ""),
            f"n:{n}", f"ballots:{min(10, len(spec['b']))}"]
    monitors = []
    failure = None
    random_tb_calls = [c for c in res["log"].calls if c[0] == "sample" and c[1] and isinstance(c[1][0], str)]
    if res["status"] == "ok":
        e = res["e"]
        monitors += [dict(f, failure={"rule": rule, "kind": f["name"], "cause": "unexplained"})
                     for f in elect.monitor_outcome(res, profile, expected_winners(rule, cfg, e), rule)]
        if rule == "DominatingSets":
            pass
        if any(s.tiebreaks for s in e.election_states):
            tags.append("tiebreak-recorded")
        if any(len(s.eliminated) and len(s.eliminated[0]) for s in e.election_states):
            tags.append("has-elimination")
    elif res["status"] == "exn" and res["exn"] == "ValueError":
        legit = valueerror_legit(rule, cfg, spec, res, names)
        if legit is False:
            failure = classify_failure(rule, cfg, spec, res, names)
            failure["kind"] = "exception:ValueError"
            monitors.append({"name": "illegitimate-ValueError", "detail": res.get("msg", ""), "failure": failure})
        elif legit:
            tags.append("legit-ValueError")
    elif (rule == "PluralityVeto" and res["status"] == "exn" and res["exn"] == "AttributeError"
          and cfg.get("tiebreak") is None and any(len(s0) > 1 for b in spec["b"] for s0 in b["r"])):
        # documented rejection: ballots with tied positions need a tiebreak method (the profile is not accepted)
        tags.append("rejected:ties-without-tiebreak")
    elif (rule in elect.STV_FAMILY and cfg.get("transfer") == "random" and res["status"] == "exn"
          and res["exn"] == "TypeError" and "does not have integer weight" in res.get("msg", "")
          and any(Fraction(b["w"]).denominator != 1 for b in spec["b"])):
        # documented rejection: "All ballots must have integer weights" under the random transfer
        tags.append("rejected:random-transfer-fractional-weight")
    else:
        failure = classify_failure(rule, cfg, spec, res, names)
        monitors.append({"name": "escaped-exception" if res["status"] == "exn" else "non-termination",
                         "detail": res.get("msg", "no result within 4 s of CPU time"), "failure": failure})
    req = None
    expect = None
    if res["status"] != "timeout" or rule == "PluralityVeto":
        if res["status"] == "exn" and random_tb_calls and rule in elect.STV_FAMILY:
            req = None   # the rounds of the random draws are not recorded on a failed run
        else:
            req = elect.model_request(rule, spec, cfg, res, names)
            expect = elect.expect_states(res, names)
    # a disagreement on a case that fails for a recorded cause is not counted again where the model describes the
    # intended behaviour; PluralityVeto's model mirrors the rule as it is, endless loop included (outOfFuel = alarm),
    # so there every disagreement counts
    return {"req": req, "expect": expect, "monitors": monitors, "tags": tags,
            "failure": None if rule == "PluralityVeto" else failure,
            "nontrivial": len(spec["b"]) > 0 and n > 1}


compare = elect.compare_states
