"""C18 — cast-vote-record loading and saving keep every vote."""
import csv, os, tempfile, io
from fractions import Fraction
from .. import gen
from ..common import rat, run_impl

PROP = "C18"
LEAN_MODULE = "VK.Check.C18"
THEOREMS = [
    "VK.C18_groups",
    "VK.C18_weights_count",
    "VK.C18_total",
    "VK.C18_total_weighted",
    "VK.C18_errors",
    "VK.C18_scot_rejects",
    "VK.split_three",
    "VK.C18_scot_accepts",
]
RULE = ("cases = (a) real CSV files written with Python's csv writer: 1-6 rank columns, optional id column at any "
        "position, optional weight column, any subset / order of rank_cols or all columns, delimiters ',' ';' '|' tab, "
        "repeated rows, short ballots (trailing and interior empty cells), names with spaces, quotes and commas; "
        "malformed: missing file, header-only / empty file, blank id, duplicate id; (b) Scottish-format files: any "
        "candidate count, blank rows, multiplicities, wrong candidate count in the metadata, first row not of length "
        "2; (c) to_csv of random profiles re-read with csv.reader; non-trivial = at least two rows; distinct = "
        "distinct files")
TRUSTED = ["modelled, not verified: pandas.read_csv, DataFrame.groupby(dropna=False), csv.reader / csv.DictWriter and "
           "the file system (the model starts from the intended table; the harness writes the real file)"]
ASSUMPTIONS = ["candidate names are non-numeric and are not pandas NA tokens"]
EXPLANATION = ("Theorems at table level: one ballot per distinct pattern of the selected columns in column order, weight "
               "= number of rows with that pattern (or the summed weight column), total weight = number of rows, the "
               "documented errors for empty data / blank id / duplicate id; Scottish parser rejects inconsistent "
               "metadata.")

N_QUICK, N_THOROUGH = 500, 18000
NAMES = ["Ann Lee", 'Bo "B" Ray', "Cy, Jr.", "dee", "E.F.", "Gus"]


def cases(rng, tier, shard, nshards, phase):
    if phase == "corpus":
        if shard == 0:
            # F-C18 witnesses
            rows = [["v1", "A", "B"], ["v2", "A", "B"], ["v3", "B", "A"]]
            yield {"op": "csv", "header": ["id", "r1", "r2"], "rows": rows, "rank_cols": [1, 2], "id_col": 0,
                   "weight_col": None, "delim": ",", "mal": None}
            rows = [["A", "B", "2"], ["A", "B", "3"], ["B", "A", "1"]]
            yield {"op": "csv", "header": ["r1", "r2", "w"], "rows": rows, "rank_cols": [0, 1], "id_col": None,
                   "weight_col": 2, "delim": ",", "mal": None}
        return
    total = N_THOROUGH if tier == "thorough" else N_QUICK
    if phase.startswith("search"):
        total *= 2
    for _ in range(total // nshards):
        k = rng.random()
        if k < 0.6:
            nr = rng.randint(1, 6)
            ncand = rng.randint(2, 6)
            names = NAMES[:ncand]
            has_id = rng.random() < 0.5
            has_w = rng.random() < 0.35
            cols = ["r%d" % i for i in range(nr)]
            layout = list(cols)
            if has_id:
                layout.insert(rng.randint(0, len(layout)), "id")
            if has_w:
                layout.insert(rng.randint(0, len(layout)), "w")
            nrows = rng.randint(1, 9)
            base = []
            for _ in range(nrows):
                if base and rng.random() < 0.35:
                    r = list(rng.choice(base))
                else:
                    kk = rng.randint(1, min(nr, ncand))
                    r = rng.sample(names, kk) + [""] * (nr - kk)
                    if rng.random() < 0.15 and nr >= 3:
                        r[rng.randrange(1, nr)] = ""       # interior blank
                    if rng.random() < 0.08 and len(layout) >= 2:
                        r = [""] * nr                      # a voter who ranked nobody: every rank cell empty
                base.append(r)
            rows = []
            for i, r in enumerate(base):
                row = []
                it = iter(r)
                for c in layout:
                    if c == "id":
                        row.append(f"voter{i}")
                    elif c == "w":
                        row.append(str(rng.randint(1, 5)))
                    else:
                        row.append(next(it))
                rows.append(row)
            use_rank = rng.random() < 0.6
            rank_idx = [layout.index(c) for c in cols]
            if use_rank:
                sub = rng.sample(rank_idx, rng.randint(1, len(rank_idx)))
                if rng.random() < 0.6:
                    sub = sorted(sub)
            else:
                sub = []
            mal = rng.choice([None] * 8 + ["missing-file", "header-only", "empty-file", "blank-id", "dup-id"])
            if mal in ("blank-id", "dup-id") and not has_id:
                mal = None
            if mal == "blank-id":
                rows[rng.randrange(len(rows))][layout.index("id")] = ""
            if mal == "dup-id" and len(rows) > 1:
                rows[-1][layout.index("id")] = rows[0][layout.index("id")]
            elif mal == "dup-id":
                mal = None
            yield {"op": "csv", "header": layout, "rows": rows, "rank_cols": sub,
                   "id_col": layout.index("id") if has_id else None,
                   "weight_col": layout.index("w") if has_w else None,
                   "delim": rng.choice([",", ",", ";", "|", "\t"]), "mal": mal}
        elif k < 0.85:
            # two-digit candidate numbers and multiplicities matter: a third of the files have 10-13 candidates
            ncand = rng.randint(1, 6) if rng.random() < 0.67 else rng.randint(10, 13)
            cands = [f"Cand {i}" for i in range(1, ncand + 1)]
            ballots = []
            for _ in range(rng.randint(1, 8)):
                ballots.append((rng.choice([rng.randint(1, 20), rng.randint(100, 1200)]),
                                rng.sample(range(1, ncand + 1), rng.randint(1, min(ncand, 7)))))
            mal = rng.choice([None] * 6 + ["wrong-cand-count", "first-row-3", "empty-file", "missing-file"])
            yield {"op": "scot", "ncand": ncand, "seats": rng.randint(1, ncand), "cands": cands,
                   "parties": [rng.choice(["P", "Q", "Ind"]) for _ in cands], "ballots": ballots,
                   "ward": "Ward 7", "blank_rows": rng.random() < 0.5, "mal": mal}
        else:
            spec = gen.gen_ranked_spec(rng, nmin=2, nmax=4, ties=True, partial=True, bmin=1, bmax=6)
            for b in spec["b"]:
                if rng.random() < 0.3:
                    b["s"] = [[0, "3/2"]]
            yield {"op": "to_csv", "spec": spec}


def run_case(vk, case):
    from votekit import cvr_loaders as L
    monitors = []
    tags = [f"op:{case['op']}", f"malformed:{case.get('mal')}"]

    def fail(name, detail, cause="unexplained"):
        monitors.append({"name": name, "detail": detail[:500], "failure": {"rule": case["op"], "kind": name, "cause": cause}})

    tmp = tempfile.mkdtemp(prefix="c18_")
    path = os.path.join(tmp, "cvr.csv")
    try:
        if case["op"] == "csv":
            header, rows, delim = case["header"], case["rows"], case["delim"]
            mal = case["mal"]
            if mal != "missing-file":
                with open(path, "w", newline="", encoding="utf8") as f:
                    if mal != "empty-file":
                        w = csv.writer(f, delimiter=delim)
                        w.writerow(header)
                        if mal != "header-only":
                            w.writerows(rows)
            kw = {}
            if case["weight_col"] is not None:
                kw["weight_col"] = case["weight_col"]
            if case["id_col"] is not None:
                kw["id_col"] = case["id_col"]
            if delim != ",":
                kw["delimiter"] = delim
            out = run_impl(lambda: L.load_csv(path, list(case["rank_cols"]), **kw))
            tags += [f"delim:{delim!r}", f"rank_cols:{'all' if not case['rank_cols'] else 'subset'}",
                     f"id:{case['id_col'] is not None}", f"weight:{case['weight_col'] is not None}"]
            # table for the model: names -> indices
            names = sorted({c for r in rows for i, c in enumerate(r) if c != "" and header[i] not in ("id", "w")})
            nidx = {c: i for i, c in enumerate(names)}
            vidx = {}
            def vid(x):
                if x == "":
                    return None
                return vidx.setdefault(x, len(vidx))
            mrows = [[(nidx[c] if c != "" else None) if header[i] not in ("id", "w") else None for i, c in enumerate(r)] for r in rows]
            ids = [vid(r[case["id_col"]]) for r in rows] if case["id_col"] is not None else []
            weights = [r[case["weight_col"]] for r in rows] if case["weight_col"] is not None else []
            if mal in ("header-only", "empty-file"):
                mrows, ids, weights = [], [], []
            req = {"op": "load_csv", "ncols": len(header), "rows": mrows, "ids": ids, "weights": weights,
                   "rank_cols": case["rank_cols"], "id_col": case["id_col"], "weight_col": case["weight_col"]}
            if mal == "missing-file":
                req = None
            if out[0] == "exn":
                import pandas.errors as PE
                name = out[2].split(":")[0]
                expect = {"exn": name if name in ("EmptyDataError", "DataError", "FileNotFoundError") else out[1]}
                want = {"missing-file": "FileNotFoundError", "header-only": "EmptyDataError", "empty-file": "EmptyDataError",
                        "blank-id": "ValueError", "dup-id": "DataError"}.get(mal)
                if want is None:
                    cause = "load_csv-special-columns-by-position" if (case["rank_cols"] and (case["id_col"] is not None or case["weight_col"] is not None)) or case["weight_col"] is not None else "unexplained"
                    fail("well-formed-file-rejected", out[2], cause)
                elif expect["exn"] != want:
                    fail("wrong-error", f"{mal}: expected {want}, got {out[2]}")
                return {"req": req, "expect": expect, "monitors": monitors, "tags": tags,
                        "failure": monitors[0]["failure"] if monitors else None}
            prof = out[1]
            if mal is not None:
                fail("malformed-file-accepted", f"{mal}")
            sel = case["rank_cols"] if case["rank_cols"] else [i for i, h in enumerate(header) if h not in ("id", "w")]
            want = {}
            for r in rows:
                pat = tuple(r[i] if r[i] != "" else None for i in sel)
                e = want.setdefault(pat, [Fraction(0), set()])
                e[0] += Fraction(r[case["weight_col"]]) if case["weight_col"] is not None else 1
                if case["id_col"] is not None:
                    e[1].add(r[case["id_col"]])
            got = {}
            bad_shape = False
            for b in prof.ballots:
                pat = tuple(next(iter(s)) for s in b.ranking)
                if pat in got:
                    bad_shape = True
                got[pat] = [Fraction(b.weight), set(b.voter_set) if b.voter_set else set()]
            cause = "load_csv-special-columns-by-position" if (case["rank_cols"] and (case["id_col"] is not None or case["weight_col"] is not None)) or case["weight_col"] is not None else "unexplained"
            if bad_shape:
                fail("pattern-repeated", str(list(got)), cause)
            if {k: v[0] for k, v in got.items()} != {k: v[0] for k, v in want.items()}:
                fail("patterns-and-weights", f"loaded {[(k, str(v[0])) for k, v in got.items()]} / file {[(k, str(v[0])) for k, v in want.items()]}", cause)
            elif case["id_col"] is not None and {k: v[1] for k, v in got.items()} != {k: v[1] for k, v in want.items()}:
                fail("voter-sets", f"{got} / {want}", cause)
            if case["weight_col"] is None and prof.total_ballot_wt != len(rows):
                fail("total-weight", f"{prof.total_ballot_wt} != {len(rows)} rows", cause)
            mb = sorted((([(nidx[c] if c is not None else None) for c in pat], rat(v[0]), sorted(vidx.get(x, -1) for x in v[1]))
                         for pat, v in got.items()), key=str) if not bad_shape and all(c is None or c in nidx for pat in got for c in pat) else "unencodable"
            expect = {"ok": mb}
            return {"req": req, "expect": expect, "monitors": monitors, "tags": tags, "nontrivial": len(rows) > 1,
                    "failure": monitors[0]["failure"] if monitors else None}
        if case["op"] == "scot":
            mal = case["mal"]
            lines = [[str(case["ncand"] + (1 if mal == "wrong-cand-count" else 0)), str(case["seats"])] + (["x"] if mal == "first-row-3" else [])]
            for mult, order in case["ballots"]:
                lines.append([str(mult)] + [str(c) for c in order] + ["0"] * 0)
                if case["blank_rows"]:
                    lines.append([])
            for i, (c, p) in enumerate(zip(case["cands"], case["parties"]), 1):
                lines.append([f"Candidate {i}", c, p])
            lines.append([case["ward"]])
            width = max(len(l) for l in lines)
            if mal != "missing-file":
                with open(path, "w", newline="", encoding="utf8") as f:
                    if mal != "empty-file":
                        w = csv.writer(f)
                        for l in lines:
                            w.writerow(l + [""] * (width - len(l)))
            out = run_impl(lambda: L.load_scottish(path))
            req = {"op": "load_scottish", "rows": [l + [""] * (width - len(l)) for l in lines]} if mal not in ("missing-file", "empty-file") else None
            if out[0] == "exn":
                name = out[2].split(":")[0]
                expect = {"exn": name if name in ("EmptyDataError", "DataError", "FileNotFoundError") else out[1]}
                want = {"missing-file": "FileNotFoundError", "empty-file": "EmptyDataError", "wrong-cand-count": "DataError",
                        "first-row-3": "DataError"}.get(mal)
                if want is None:
                    fail("well-formed-scottish-file-rejected", out[2])
                elif expect["exn"] != want:
                    fail("wrong-error", f"{mal}: expected {want}, got {out[2]}")
                return {"req": req, "expect": expect, "monitors": monitors, "tags": tags}
            if mal is not None:
                fail("malformed-scottish-file-accepted", mal)
            prof, seats, cand_list, c2p, ward = out[1]
            if seats != case["seats"] or ward != case["ward"] or cand_list != case["cands"] or \
                    c2p != dict(zip(case["cands"], case["parties"])):
                fail("scottish-metadata", f"{seats} {ward} {cand_list} {c2p}")
            want = {}
            for mult, order in case["ballots"]:
                k = tuple(case["cands"][c - 1] for c in order)
                want[k] = want.get(k, 0) + mult
            got = {tuple(next(iter(s)) for s in b.ranking): Fraction(b.weight) for b in prof.ballots}
            if got != want:
                fail("scottish-ballots", f"{got} / {want}")
            expect = {"ok": {"seats": seats, "ward": ward, "cands": cand_list, "parties": [c2p[c] for c in cand_list],
                             "wmap": sorted([[case["cands"].index(c) + 1 for c in k], int(v)] for k, v in got.items())}}
            return {"req": req, "expect": expect, "monitors": monitors, "tags": tags, "nontrivial": len(case["ballots"]) > 1}
        # to_csv
        spec = case["spec"]
        prof = gen.build_profile(vk, spec)
        out = run_impl(lambda: prof.to_csv(path))
        if out[0] != "ok":
            fail("to_csv-raises", out[2])
            return {"req": None, "expect": None, "monitors": monitors, "tags": tags}
        with open(path, newline="") as f:
            rd = list(csv.reader(f))
        if rd[0] != ["weight", "ranking", "scores"] or len(rd) - 1 != len(spec["b"]):
            fail("to_csv-rows", f"{len(rd) - 1} rows for {len(spec['b'])} ballots, header {rd[0]}")
        else:
            for row, b in zip(rd[1:], spec["b"]):
                if float(row[0]) != float(Fraction(b["w"])):
                    fail("to_csv-weight", f"{row[0]} vs {b['w']}")
                rk = eval(row[1]) if row[1] else ()
                want = tuple(set(spec["names"][c] for c in s) for s in b["r"])
                if tuple(rk) != want:
                    fail("to_csv-ranking", f"{row[1]} vs {want}")
                sc = eval(row[2]) if row[2] else ()
                wants = tuple((spec["names"][c], float(Fraction(v))) for c, v in b["s"])
                if tuple(sc) != wants:
                    fail("to_csv-scores", f"{row[2]} vs {wants}")
        return {"req": None, "expect": None, "monitors": monitors, "tags": tags, "nontrivial": True}
    finally:
        try:
            if os.path.exists(path):
                os.remove(path)
            os.rmdir(tmp)
        except OSError:
            pass


def compare(model, expect):
    if "exn" in expect:
        return None if model.get("exn") == expect["exn"] else f"model {model} vs impl {expect}"
    if "ok" not in model:
        return f"model {model} vs impl ok"
    ex = expect["ok"]
    if isinstance(ex, dict) and "wmap" in ex:
        mo = model["ok"]
        wm = {}
        for order, mult in mo["ballots"]:
            wm[tuple(order)] = wm.get(tuple(order), 0) + mult
        got = {"seats": mo["seats"], "ward": mo["ward"], "cands": mo["cands"], "parties": mo["parties"],
               "wmap": sorted([list(k), v] for k, v in wm.items())}
        return None if got == ex else f"model {str(got)[:300]} vs impl {str(ex)[:300]}"
    if ex == "unencodable":
        return "implementation output not encodable (pattern contains a non-name value)"
    mo = sorted(((b["pattern"], b["w"], sorted(b["voters"])) for b in model["ok"]), key=str)
    exl = sorted(((list(p), w, v) for p, w, v in ex), key=str)
    return None if [list(x) for x in mo] == [list(x) for x in exl] else f"model {str(mo)[:300]} vs impl {str(exl)[:300]}"
