"""C10 — randomness is used only to break genuine ties, and every tiebreak is recorded."""
from fractions import Fraction
from .. import gen, elect
from ..common import Names, rat, run_impl
from . import c01
from .c04 import ref_scores

PROP = "C10"
LEAN_MODULE = "VK.Check.C10"
THEOREMS = [
    "VK.C10_resolution_is_strict_order",
    "VK.C10_no_tiebreak_no_randomness",
    "VK.C10_recorded_genuine",
    "VK.C10_group_members_tied",
    "VK.C10_scored_tiebreak",
    "VK.applyTransfers_sample_irrelevant",
    "VK.stvStep_no_tiebreak",
    "VK.C10_stv_no_tiebreak_deterministic",
]
RULE = ("cases = deterministic configuration of a rule (STV / IRV / SequentialRCV with fractional or full transfer, "
        "Plurality, SNTV, Borda, TopTwo, Alaska, DominatingSets, CondoBorda, the six score rules) x tiebreak in {None, "
        "random, borda, first_place} x tie-prone profile (unit / small integer weights; 50% generic) engineered to have "
        "ties at the seat boundary, at the elimination end, or none; plus engineered boundary ties of 3-5 candidates that "
        "the scored tiebreak resolves only partly (top separated / two still-tied groups); each case is constructed under three different "
        "seeds of random and numpy.random; non-trivial = at least one ballot; distinct = distinct (rule, configuration, "
        "profile)")
TRUSTED = ["modelled, not verified: the laws of random.sample (only *whether* and *on which set* it is called is checked "
           "here; uniformity is C17)"]
ASSUMPTIONS = ["intentionally random rules (RandomDictator, BoostedRandomDictator, PluralityVeto, random_transfer) are "
               "out of scope"]
EXPLANATION = ("Theorems: a tiebreak resolution is a strict order of exactly the tied set; without a recorded tiebreak "
               "the outcome does not depend on the oracle; a recorded tiebreak concerns one group of equal score with at "
               "least two members that straddles the last seat, and elected/remaining obey the resolution; scored "
               "tiebreaks are sorted by that score. Monitors: identical outcome under three seeds unless a tiebreak is "
               "recorded, no random primitive is called when none is recorded, recorded sets are genuinely tied and obeyed.")

N_QUICK, N_THOROUGH = 900, 32400
RULES = ["STV", "STV", "IRV", "SequentialRCV", "Plurality", "SNTV", "Borda", "TopTwo", "Alaska", "DominatingSets",
         "CondoBorda", "Rating", "Approval", "Cumulative", "Limited", "BlocPlurality"]


def cases(rng, tier, shard, nshards, phase):
    if phase == "corpus":
        return
    total = N_THOROUGH if tier == "thorough" else N_QUICK
    if phase.startswith("search"):
        total *= 2
    for _ in range(total // nshards):
        if rng.random() < 0.04:
            yield float_collapse_case(rng)
            continue
        if rng.random() < 0.05:
            c = later_top_tie_case(rng)
            if c is not None:
                yield c
                continue
        if rng.random() < 0.05:
            c = first_position_tie_case(rng)
            if c is not None:
                yield c
                continue
        if rng.random() < 0.05:
            c = c01.double_residual_tie_case(rng) if rng.random() < 0.6 else c01.partial_tiebreak_case(rng)
            if c is not None:
                yield c
                continue
        rule = rng.choice(RULES)
        case = c01.gen_case(rng, rule)
        case["cfg"].pop("transfer", None)
        k = rng.random()
        if k < 0.5:     # tie-prone: unit weights
            for b in case["spec"]["b"]:
                b["w"] = "1"
        if k < 0.15 and case["spec"]["b"] and not case["spec"]["b"][0]["s"]:
            # ties on the deciding tally whose tiebreak scores differ by less than float resolution:
            # huge equal weights plus a few weight-1 ballots
            n = len(case["spec"]["c"])
            for b in case["spec"]["b"]:
                b["w"] = str(10 ** 16)
            for _ in range(rng.randint(1, 3)):
                case["spec"]["b"].append({"r": gen.gen_ranking(rng, n, ties=False), "w": "1", "s": []})
            case["huge"] = True
        yield case


def float_collapse_case(rng):
    """Plurality/SNTV tie on first-place votes at the seat boundary whose Borda scores differ by less than one float
    ulp: huge equal weights for A>B>.. and B>A>.., weight-1 ballots X>B>A>.. for the other candidates."""
    n = rng.randint(3, 5)
    names = gen.gen_names(rng, n)
    cs = list(range(n))
    rng.shuffle(cs)
    a, b, extras = cs[0], cs[1], cs[2:]
    W = str(10 ** 16 + rng.randint(0, 5) * 2)
    bs = [{"r": [[a], [b]] + [[x] for x in extras], "w": W, "s": []},
          {"r": [[b], [a]] + [[x] for x in extras], "w": W, "s": []}]
    for x in extras:
        rest = [y for y in extras if y != x]
        bs.append({"r": [[x], [b], [a]] + [[y] for y in rest], "w": "1", "s": []})
    rng.shuffle(bs)
    return {"rule": rng.choice(["Plurality", "SNTV"]), "cfg": {"m": 1, "tiebreak": "borda"},
            "spec": {"names": names, "b": bs, "c": list(range(n))}, "rs": rng.randint(0, 10 ** 9), "huge": True}


def first_position_tie_case(rng):
    """Borda with tiebreak='first_place' on a profile whose ballots tie candidates in FIRST position: a tie on the Borda
    score across the seat boundary between candidates one of whom stands in such a tied first position - the first-place
    score splits that ballot's vote among the tied candidates, it does not give each of them the whole vote"""
    for _ in range(400):
        spec = gen.gen_ranked_spec(rng, nmin=3, nmax=5, ties=True, partial=rng.random() < 0.5,
                                   weights=rng.choice(["unit", "int"]), bmin=3, bmax=7)
        n = len(spec["c"])
        tied_first = {c for b in spec["b"] if len(b["r"][0]) > 1 for c in b["r"][0]}
        if not tied_first:
            continue
        borda = ref_scores(spec, list(range(n, 0, -1)))
        vals = sorted(borda.values(), reverse=True)
        ms = [m for m in range(1, n) if vals[m - 1] == vals[m]
              and any(c in tied_first for c in spec["c"] if borda[c] == vals[m])]
        if ms:
            return {"rule": "Borda", "cfg": {"m": rng.choice(ms), "tiebreak": "first_place"}, "spec": spec,
                    "rs": rng.randint(0, 10 ** 9), "first_position_tie": True}
    return None


def later_top_tie_case(rng):
    """one-by-one STV with a scored tiebreak whose top tie arises only AFTER a surplus transfer (round >= 2): A is elected
    with surplus s on ballots A>C>.., which lifts C to the tally of B; both are at or above the quota. The tie must be
    broken on the profile of that round (A gone, A's ballots at reduced weight), not on the initial one."""
    for _ in range(200):
        t, s0, d = rng.randint(3, 14), rng.randint(1, 3), rng.randint(0, 6)
        if t - s0 < 1:
            continue
        qs = [q for q in range(1, t + 1) if q == (q + 2 * t + d) // 4 + 1]
        if not qs:
            continue
        q = qs[0]
        n = rng.randint(4, 5)
        names = gen.gen_names(rng, n)
        cs = list(range(n)); rng.shuffle(cs)
        a, b, c, rest = cs[0], cs[1], cs[2], cs[3:]

        def tail(first):
            others = [x for x in cs if x not in first]
            rng.shuffle(others)
            return [[x] for x in first + others]
        bs = [{"r": tail([a, c]), "w": str(q + s0), "s": []}, {"r": tail([b]), "w": str(t), "s": []},
              {"r": tail([c]), "w": str(t - s0), "s": []}]
        if d:
            bs.append({"r": tail([rest[0]]), "w": str(d), "s": []})
        rng.shuffle(bs)
        rule = rng.choice(["STV", "STV", "SequentialRCV", "Alaska"])
        cfg = {"quota": "droop", "simultaneous": False, "tiebreak": rng.choice(["borda", "first_place"])}
        if rule == "Alaska":
            cfg.update(m1=n, m2=3)
        else:
            cfg["m"] = 3
        return {"rule": rule, "cfg": cfg, "spec": {"names": names, "b": bs, "c": list(range(n))},
                "rs": rng.randint(0, 10 ** 9), "later_tie": True}
    return None


def outcome(res, names):
    if res["status"] == "ok":
        return ("ok", names.states(res["e"]))
    return (res["status"], res.get("exn"))


def run_case(vk, case):
    rule, cfg, spec = case["rule"], dict(case["cfg"]), case["spec"]
    names = Names(spec["names"])
    profile = gen.build_profile(vk, spec)
    runs = [elect.construct(vk, rule, profile, cfg, case["rs"] + i * 7919) for i in range(3)]
    res = runs[0]
    outs = [outcome(r, names) for r in runs]
    tags = [f"rule:{rule}", f"tiebreak:{cfg.get('tiebreak')}", f"status:{res['status']}"]
    if case.get("huge"):
        tags.append("weights:float-collapsing")
    if case.get("first_position_tie"):
        tags.append("engineered:first-place-tiebreak-with-tied-first-positions")
    if case.get("later_tie"):
        tags.append("engineered:top-tie-after-transfer")
    monitors = []

    def fail(name, detail, cause="unexplained"):
        monitors.append({"name": name, "detail": detail[:500], "failure": {"rule": rule, "kind": name, "cause": cause}})

    recorded = any(o[0] == "ok" and any(s["tiebreaks"] for s in o[1]) for o in outs)
    any_known = any(r["status"] in ("exn", "timeout") and r.get("exn") != "ValueError" for r in runs)
    if not recorded and not any_known:
        if any(o != outs[0] for o in outs[1:]):
            fail("seed-dependent-without-recorded-tiebreak", f"{outs[0]} vs {[o for o in outs[1:] if o != outs[0]][0]}")
        # a run that ends in an exception loses the rounds (and their tiebreak records) made before it
        calls = [c[0] for r in runs for c in r["log"].calls] if all(r["status"] == "ok" for r in runs) else []
        if calls:
            fail("random-primitive-called-without-tiebreak", f"{calls[:5]}")
        tags.append("no-tiebreak")
    if recorded:
        tags.append("tiebreak-recorded")
    for r in runs:
        if r["status"] != "ok":
            continue
        st = names.states(r["e"])
        n = len(spec["c"])
        for i, s in enumerate(st):
            for key, resn in s["tiebreaks"]:
                flat = [c for g in resn for c in g]
                if len(key) < 2:
                    fail("tiebreak-on-singleton", f"round {i}: {key}")
                if any(len(g) != 1 for g in resn) or sorted(flat) != sorted(key):
                    fail("resolution-not-strict-order", f"round {i}: {key} -> {resn}")
                    continue
                prev = {c: Fraction(v) for c, v in st[i - 1]["scores"]} if i > 0 else {}
                if rule != "CondoBorda" and prev and all(c in prev for c in key):
                    if len({prev[c] for c in key}) != 1:
                        fail("recorded-set-not-tied", f"round {i}: {key} scores {[str(prev[c]) for c in key]}")
                el = [c for g in s["elected"] for c in g]
                out = [c for g in s["eliminated"] for c in g]
                el_in = [c for c in flat if c in el]
                if el_in and flat[: len(el_in)] != el_in:
                    fail("elected-disobey-resolution", f"round {i}: resolution {flat}, elected {el}")
                if (rule in ("STV", "IRV", "SequentialRCV") or (rule == "Alaska" and i >= 2)) and out:
                    if all(c in key for c in out) and out != [flat[-1]]:
                        fail("eliminated-not-last-of-resolution", f"round {i}: resolution {flat}, eliminated {out}")
                if rule in ("STV", "IRV", "SequentialRCV") and out and all(c in key for c in out):
                    init = {c: Fraction(v) for c, v in st[0]["scores"]}
                    if any(init[flat[j]] < init[flat[j + 1]] for j in range(len(flat) - 1)):
                        fail("elimination-tiebreak-ignores-initial-tally", f"round {i}: {flat} initial {[str(init[c]) for c in flat]}")
                tb = cfg.get("tiebreak")
                if rule in ("STV", "SequentialRCV") and tb in ("borda", "first_place") and el_in and i >= 1 \
                        and not cfg.get("simultaneous", True):
                    # one-by-one election: the tie at the top is broken on the profile the count holds in THAT round
                    held = run_impl(lambda: r["e"].get_profile(i - 1))
                    if held[0] == "ok":
                        hp = names.profile(held[1])
                        hspec = {"b": [b0 for b0 in hp["b"] if b0["r"]], "c": hp["c"]}
                        vec = list(range(len(hspec["c"]), 0, -1)) if tb == "borda" else [1]
                        sc = ref_scores(hspec, vec)
                        if all(c in sc for c in flat):
                            if any(sc[flat[j]] < sc[flat[j + 1]] for j in range(len(flat) - 1)):
                                fail("scored-tiebreak-not-on-round-profile",
                                     f"round {i} {tb}: {flat} scores on the round's profile {[str(sc[c]) for c in flat]}")
                            # candidates still tied on that score need a random draw over exactly that group
                            drawn = [sorted(names.idx[str(x)] for x in c0[1]) for c0 in r["log"].calls
                                     if c0[0] == "sample" and c0[1] and isinstance(c0[1][0], str)]
                            groups = {}
                            for c in flat:
                                groups.setdefault(sc[c], []).append(c)
                            for g in groups.values():
                                if len(g) > 1 and sorted(g) not in drawn:
                                    fail("tied-on-tiebreak-score-without-random-draw",
                                         f"round {i} {tb}: {sorted(g)} tie on the round's profile but no random draw over them")
                if rule in ("Plurality", "SNTV", "Borda") and tb in ("borda", "first_place") and i == 1:
                    vec = list(range(n, 0, -1)) if tb == "borda" else [1]
                    sc = ref_scores(spec, vec)
                    if any(sc[flat[j]] < sc[flat[j + 1]] for j in range(len(flat) - 1)):
                        fail("scored-tiebreak-not-sorted", f"{tb}: {flat} scores {[str(sc[c]) for c in flat]}")
                if rule == "CondoBorda" and i == 1:
                    sc = ref_scores(spec, list(range(n, 0, -1)))
                    if any(sc[flat[j]] < sc[flat[j + 1]] for j in range(len(flat) - 1)):
                        fail("condoborda-tiebreak-not-by-borda", f"{flat} scores {[str(sc[c]) for c in flat]}")
    req, expect, failure = None, None, None
    random_tb_calls = [c for c in res["log"].calls if c[0] == "sample" and c[1] and isinstance(c[1][0], str)]
    if res["status"] != "timeout" and not (res["status"] == "exn" and random_tb_calls and rule in elect.STV_FAMILY):
        req = elect.model_request(rule, spec, cfg, res, names)
        expect = elect.expect_states(res, names)
    if res["status"] == "exn" and (res["exn"] != "ValueError" or c01.valueerror_legit(rule, cfg, spec, res, names) is False):
        failure = c01.classify_failure(rule, cfg, spec, res, names)
    return {"req": req, "expect": expect, "monitors": monitors, "tags": tags, "failure": failure,
            "nontrivial": len(spec["b"]) > 0}


compare = elect.compare_states
