"""C17 — randomised rules and random tiebreaks draw from the documented distributions."""
import math, io, contextlib
from fractions import Fraction
from .. import gen, elect
from ..common import Names, rat, condensed_map
from . import c01
from .c04 import ref_scores

PROP = "C17"
LEAN_MODULE = "VK.Check.C17"
THEOREMS = [
    "VK.C17_rd_step",
    "VK.C17_rd_step'",
    "VK.C17_rd_mass",
    "VK.C17_boosted_step",
    "VK.C17_squares",
    "VK.C17_tiebreak_uniform",
    "VK.kernel_boosted_branch",
    "VK.prob_seq_cons",
    "VK.C17_rd_sequence",
    "VK.C17_rd_two_seats",
    "VK.kernel_boosted_takes_squares",
    "VK.kernel_boosted_single",
    "VK.shuffle_supp_perm",
    "VK.shuffle_mass",
    "VK.C17_tiebreak_first",
    "VK.C17_tiebreak_last",
]
RULE = ("cases = RandomDictator / BoostedRandomDictator on random profiles (1-6 candidates, ties in first place, partial "
        "ballots, rational weights; 15% with unequal weights of mean exactly one) x m x seeds: every call of random.choices / random.uniform / numpy.random.choice / "
        "random.sample made by the implementation is compared with what the documented law needs at that round (the "
        "population is the current profile's ballots with their weights; the squares vector is fpv^2 normalised; the "
        "branch threshold is 1/(c-1); a tied first place is sampled as a whole); the model's round law (computed in Dist "
        "by the driver) is compared with the closed form evaluated independently; the whole run is compared with the "
        "oracle reading of the model; plus the shuffle law for k <= 5 against 1/k!; plus (20% of the cases) direct calls of "
        "tiebreak_set with 'random', 'borda' or 'first_place' on profiles in which two candidates are mirror images of each "
        "other: every group still tied on the score must be ordered by exactly one random.sample of the whole group "
        "(the uniform draw) and reported in the drawn order, higher scores first; non-trivial = two or more "
        "candidates with votes; distinct = distinct (rule, profile, m, seed)")
TRUSTED = ["the laws of random.choices, numpy.random.choice (categorical), random.uniform (uniform on [0,1]) and "
           "random.sample (sequential uniform picks) are assumed, not tested; no frequency test decides anything"]
ASSUMPTIONS = ["runs ending in the known finding F-C01-d are outside C17"]
EXPLANATION = ("Theorems in Dist: a RandomDictator round elects c with probability sum_b w_b share_b(c) / W (tied first "
               "place split evenly) and is a probability distribution; a BoostedRandomDictator round is the 1/(c-1) : "
               "1-1/(c-1) mixture of proportional-to-squares and RandomDictator; sequential uniform picks give each of "
               "the k! orders of a tied set probability 1/k!.")

N_QUICK, N_THOROUGH = 1000, 36000


def cases(rng, tier, shard, nshards, phase):
    if phase == "corpus":
        if shard == 0:
            for n in range(1, 6):
                yield {"op": "shuffle", "n": n}
        return
    total = N_THOROUGH if tier == "thorough" else N_QUICK
    if phase.startswith("search"):
        total *= 2
    for _ in range(total // nshards):
        if rng.random() < 0.2:
            # a direct call of tiebreak_set: 'random', or a scored rule that leaves some of the candidates tied on the
            # score and must finish with a uniform draw among exactly those
            spec = gen.gen_ranked_spec(rng, nmin=2, nmax=6, ties=False, partial=True, bmin=0, bmax=6)
            if rng.random() < 0.5 and len(spec["c"]) >= 3:
                # mirror every ballot in two candidates: they are tied on every positional score
                a, b = rng.sample(spec["c"], 2)
                sw = {a: b, b: a}
                spec["b"] = spec["b"] + [{"r": [[sw.get(c, c) for c in pos] for pos in bl["r"]], "w": bl["w"], "s": []}
                                         for bl in spec["b"]]
            k = rng.randint(2, len(spec["c"]))
            yield {"op": "tiebreak", "spec": spec, "set": sorted(rng.sample(spec["c"], k)),
                   "tb": rng.choice(["random", "borda", "first_place", "first_place"]), "rs": rng.randint(0, 10 ** 9)}
            continue
        rule = rng.choice(["RandomDictator", "BoostedRandomDictator"])
        case = c01.gen_case(rng, rule)
        case["op"] = "run" if rng.random() < 0.7 else "law"
        bs = case["spec"]["b"]
        if len(bs) >= 2 and rng.random() < 0.15:
            # unequal rational weights whose mean is exactly one (total weight = number of rows): a profile that looks
            # "unweighted" to a test on totals although its rows weigh differently
            k = len(bs)
            for _ in range(20):
                ws = [Fraction(rng.randint(1, 7), 4) for _ in range(k - 1)]
                last = k - sum(ws)
                if last > 0 and len(set(ws + [last])) > 1:
                    for b, w in zip(bs, ws + [last]):
                        b["w"] = rat(w)
                    case["mean_one"] = True
                    break
        yield case


def profile_after(spec, winners):
    """weight map of the profile after removing the winners so far (exhausted ballots dropped)"""
    m = {}
    for b in spec["b"]:
        r = [[c for c in s if c not in winners] for s in b["r"]]
        r = [s for s in r if s]
        if r:
            k = str(r)
            m[k] = m.get(k, Fraction(0)) + Fraction(b["w"])
    return m


def run_case(vk, case):
    monitors = []
    tags = [f"op:{case['op']}"]

    def fail(name, detail):
        monitors.append({"name": name, "detail": detail[:500], "failure": {"rule": case.get("rule", "shuffle"), "kind": name, "cause": "unexplained"}})

    if case["op"] == "shuffle":
        n = case["n"]
        return {"req": {"op": "shuffle_law", "n": n},
                "expect": {"ok": {"probs": [rat(Fraction(1, math.factorial(n)))] * math.factorial(n), "mass": "1"}},
                "monitors": [], "tags": tags}
    if case["op"] == "tiebreak":
        import random as _random
        spec, tb, rset = case["spec"], case["tb"], case["set"]
        names = Names(spec["names"])
        tags.append(f"tiebreak:{tb}")
        profile = gen.build_profile(vk, spec)
        if tb != "random" and any(not b["r"] for b in spec["b"]):
            return None
        n = len(spec["c"])
        if tb == "random":
            classes = [set(rset)]
        else:
            sc = ref_scores(spec, [1] if tb == "first_place" else list(range(n, 0, -1)))
            by = {}
            for c in rset:
                by.setdefault(sc[c], set()).add(c)
            classes = [by[v] for v in sorted(by, reverse=True)]
        if any(len(g) > 1 for g in classes):
            tags.append("tiebreak:fallback-needed")
        from votekit.utils import tiebreak_set
        log = elect.RandLog()
        _random.seed(case["rs"])
        try:
            with log.recording(), contextlib.redirect_stdout(io.StringIO()):
                out = tiebreak_set(frozenset(spec["names"][c] for c in rset), profile, tb)
        except Exception as ex:     # noqa: BLE001
            fail("tiebreak-raises", f"{type(ex).__name__}: {ex}")
            return {"req": None, "expect": None, "monitors": monitors, "tags": tags, "nontrivial": True}
        order = [sorted(names.idx[str(c)] for c in g) for g in out]
        flat = [c for g in order for c in g]
        if any(len(g) != 1 for g in order) or sorted(flat) != sorted(rset):
            fail("tiebreak-not-a-strict-order-of-the-set", f"{order} for {rset}")
        else:
            pos = {c: i for i, c in enumerate(flat)}
            want_seq = [c for g in classes for c in sorted(g)]
            cls_of = {c: i for i, g in enumerate(classes) for c in g}
            if [cls_of[c] for c in flat] != sorted(cls_of[c] for c in flat):
                fail("tiebreak-order-ignores-the-score", f"order {flat}, classes of equal score highest first {[sorted(g) for g in classes]}")
            samples = [c for c in log.calls if c[0] == "sample"]
            need = [g for g in classes if len(g) > 1]
            pops = [set(names.idx[str(x)] for x in c[1]) for c in samples]
            if sorted(map(sorted, pops)) != sorted(map(sorted, need)) or any(c[2] != len(c[1]) for c in samples):
                fail("tied-candidates-not-drawn-uniformly",
                     f"groups still tied {[sorted(g) for g in need]}: each needs one draw of a full random order "
                     f"(random.sample of the whole group); draws made over {[sorted(x) for x in pops]}")
            else:
                for c in samples:
                    drawn = [names.idx[str(x)] for x in c[3]]
                    if [x for x in flat if x in set(drawn)] != drawn:
                        fail("tiebreak-order-is-not-the-drawn-order", f"drawn {drawn}, reported {flat}")
                        break
        req = {"op": "tiebreak_set", "set": rset, "tb": tb, "pri": flat, "profile": gen.model_profile(spec)}
        return {"req": req, "expect": {"ok": [[c] for c in flat], "kind": "tiebreak-order"}, "monitors": monitors, "tags": tags, "nontrivial": True}
    rule, cfg, spec = case["rule"], dict(case["cfg"]), case["spec"]
    names = Names(spec["names"])
    if case["op"] == "law":
        # the round law computed by the model in Dist vs the closed form evaluated here
        T = sum(Fraction(b["w"]) for b in spec["b"])
        if T == 0:
            return None
        fp = ref_scores(spec, [1])
        n = len(spec["c"])
        rd = {c: fp[c] / T for c in spec["c"]}
        if n == 1:
            brd = {spec["c"][0]: Fraction(1)}
        else:
            q = Fraction(1, n - 1)
            s2 = sum(v * v for v in fp.values())
            brd = {c: (1 - q) * rd[c] + q * fp[c] * fp[c] / s2 for c in spec["c"]}
        return {"req": {"op": "rd_law", "profile": gen.model_profile(spec)},
                "expect": {"ok": {"rd": [[c, rat(rd[c])] for c in spec["c"]], "brd": [[c, rat(brd[c])] for c in spec["c"]],
                                  "rd_mass": "1"}},
                "monitors": [], "tags": tags, "nontrivial": n > 1}
    profile = gen.build_profile(vk, spec)
    res = elect.construct(vk, rule, profile, cfg, case["rs"])
    tags += [f"rule:{rule}", f"status:{res['status']}"]
    failure = None
    if res["status"] != "ok":
        failure = c01.classify_failure(rule, cfg, spec, res, names)
        req = elect.model_request(rule, spec, cfg, res, names) if res["status"] != "timeout" else None
        return {"req": req, "expect": elect.expect_states(res, names), "monitors": [], "tags": tags, "failure": failure,
                "nontrivial": False}
    e = res["e"]
    st = names.states(e)
    calls = res["log"].calls
    winners = []
    ci = 0
    for rnd in range(1, len(st)):
        w = st[rnd]["elected"][0][0]
        cur = profile_after(spec, winners)
        remaining = [c for c in spec["c"] if c not in winners]
        fp = {names.idx[str(c)]: Fraction(v) for c, v in e.election_states[rnd - 1].scores.items()}
        # the scores recorded for the previous round must be the first-place votes of the profile without the
        # winners so far (the proportional-to-squares branch draws from them)
        reduced = {"c": remaining, "b": []}
        for b in spec["b"]:
            r = [[c for c in s0 if c not in winners] for s0 in b["r"]]
            r = [s0 for s0 in r if s0]
            if r:
                reduced["b"].append({"r": r, "w": b["w"], "s": []})
        fp_true = ref_scores(reduced, [1]) if reduced["b"] else {c: Fraction(0) for c in remaining}
        if {c: v for c, v in fp.items()} != {c: v for c, v in fp_true.items()}:
            fail("recorded-scores-not-first-place-votes-of-current-profile",
                 f"round {rnd - 1}: recorded {fp} but the profile without {winners} gives {fp_true}")
        branch = "rd"
        if rule == "BoostedRandomDictator":
            if ci >= len(calls) or calls[ci][0] != "uniform" or (calls[ci][1], calls[ci][2]) != (0, 1):
                fail("missing-uniform-draw", f"round {rnd}: {calls[ci][:3] if ci < len(calls) else None}")
                break
            u = calls[ci][3]
            ci += 1
            if len(remaining) == 1:
                winners.append(w)
                continue
            thr = 1 / (len(remaining) - 1)
            branch = "squares" if u <= thr else "rd"
            tags.append(f"branch:{branch}")
        if branch == "squares":
            if ci >= len(calls) or calls[ci][0] != "npchoice":
                fail("squares-branch-not-taken", f"round {rnd}: u={u} threshold {thr} next call {calls[ci][0] if ci < len(calls) else None}")
                break
            _, pop, p, result = calls[ci]
            ci += 1
            tot2 = sum(v * v for v in fp.values())
            want = {c: float(v * v / tot2) for c, v in fp.items()}
            got = {names.idx[str(c)]: float(x) for c, x in zip(pop, p)}
            if set(got) != set(want) or any(abs(got[c] - want[c]) > 1e-9 for c in want):
                fail("squares-probability-vector", f"round {rnd}: {got} vs fpv^2 normalised {want}")
            if names.idx[str(result)] != w:
                fail("squares-winner-not-the-draw", f"round {rnd}")
        else:
            if ci >= len(calls) or calls[ci][0] != "choices":
                fail("missing-ballot-draw", f"round {rnd}: next call {calls[ci][0] if ci < len(calls) else None}")
                break
            _, pop, weights, result = calls[ci]
            ci += 1
            if weights is None:
                # a uniform pick among the ballot rows (random.choice / choices without weights) is the documented
                # weight-proportional draw only when all rows weigh the same
                if len({Fraction(b.weight) for b in pop}) > 1:
                    fail("uniform-ballot-draw-on-unequal-weights",
                         f"round {rnd}: rows weigh {[str(Fraction(b.weight)) for b in pop][:8]}")
                weights = [b.weight for b in pop]
            got = {}
            for b, wt in zip(pop, weights):
                k = str(names.ranking_raw(b.ranking))
                got[k] = got.get(k, Fraction(0)) + Fraction(wt)
            if got != cur:
                fail("ballot-draw-population", f"round {rnd}: drawn from {got}, current profile {cur}")
            if any(Fraction(b.weight) != Fraction(wt) for b, wt in zip(pop, weights)):
                fail("ballot-draw-weights", f"round {rnd}")
            first = sorted(names.idx[str(c)] for c in result[0].ranking[0])
            if len(first) > 1:
                if ci >= len(calls) or calls[ci][0] != "sample" or sorted(names.idx[str(c)] for c in calls[ci][1]) != first \
                        or calls[ci][2] != len(first):
                    fail("tied-first-place-not-sampled-as-a-whole", f"round {rnd}: {first}")
                    break
                order = [names.idx[str(c)] for c in calls[ci][3]]
                ci += 1
                if order[0] != w:
                    fail("winner-not-first-of-random-order", f"round {rnd}: order {order} winner {w}")
                tags.append("tied-first-place")
            elif first != [w]:
                fail("winner-not-top-of-drawn-ballot", f"round {rnd}: ballot top {first} winner {w}")
        winners.append(w)
    if ci != len(calls) and not monitors:
        fail("unexpected-random-calls", f"{[c[0] for c in calls[ci:]][:5]}")
    # law of the first round: model (Dist) vs closed form
    fp0 = ref_scores(spec, [1])
    T = sum(Fraction(b["w"]) for b in spec["b"])
    n = len(spec["c"])
    rd = {c: fp0[c] / T for c in spec["c"]} if T else {}
    expect_law = None
    req = elect.model_request(rule, spec, cfg, res, names)
    return {"req": req, "expect": elect.expect_states(res, names), "monitors": monitors, "tags": tags,
            "nontrivial": sum(1 for v in fp0.values() if v > 0) > 1,
            "extra": {"law_req": {"op": "rd_law", "profile": gen.model_profile(spec)},
                      "rd": {str(c): rat(v) for c, v in rd.items()}}}


def compare(model, expect):
    if expect.get("kind") == "tiebreak-order":
        exp = {"ok": expect["ok"]}
        return None if model == exp else f"tiebreak_set: model {str(model)[:200]} vs implementation {str(exp)[:200]}"
    if "ok" in expect and isinstance(expect["ok"], dict) and ("probs" in expect["ok"] or "rd" in expect["ok"]):
        return None if model == expect else f"law: model {str(model)[:300]} vs closed form {str(expect)[:300]}"
    return elect.compare_states(model, expect)
