"""C03 — surplus transfers and STV rounds conserve votes."""
import math
from fractions import Fraction
from .. import gen, elect
from ..common import Names, rat, run_impl, canon_ballots
from . import c01

PROP = "C03"
LEAN_MODULE = "VK.Check.C03"
THEOREMS = [
    "VK.C03_no_winner",
    "VK.C03_order",
    "VK.C03_frac_weight",
    "VK.C03_transfer_value_bounds",
    "VK.C03_loss_le_quota",
    "VK.applyTransfer_fractional_active",
    "VK.applyTransfers_fractional_active",
    "VK.active_shrink",
    "VK.tallies_sum_active",
    "VK.C03_step_accounting",
    "VK.C03_total_nonincreasing",
    "VK.C03_full_transfer_keeps_weights",
    "VK.randomAssign_spec",
    "VK.C03_random_transfer",
    "VK.C03_step_accounting_both",
    "VK.kernel_transfer_value",
    "VK.kernel_transfer_value_used",
    "VK.sampleK_mass",
    "VK.C03_sample_inclusion",
    "VK.kernel_random_sample_size",
    "VK.C03_random_direct",
]
RULE = ("cases = (a) direct calls of fractional_transfer / random_transfer on ballot lists with duplicates, bullet votes "
        "(exhausting), ballots not led by the winner, ballots listing the winner lower down, 20% with tied lower "
        "positions, rational (fractional) or integer (random) weights, tally >= threshold >= 1, tally sometimes larger "
        "than the listed ballots; (b) complete STV / SequentialRCV runs with both transfer rules, every round; "
        "non-trivial = at least one ballot led by the winner with a continuing choice; distinct = distinct inputs")
TRUSTED = ["modelled, not verified: random.sample (oracle; its law = sequential uniform picks without replacement is "
           "assumed, and the harness checks the population and size it is called with)"]
ASSUMPTIONS = ["positive weights", "for random_transfer: transferable units >= surplus (outside: known finding F-C01-c)"]
EXPLANATION = ("Theorems: output rankings never mention the winner and are the input rankings with the winner erased; "
               "the fractional rule keeps exactly (t-q)/t of every winner-led ballot, so the transferred total is "
               "t-q minus the exhausted part; the transfer value lies in [0,1).")

N_QUICK, N_THOROUGH = 2400, 86400


def gen_transfer_case(rng):
    n = rng.randint(2, 6)
    names = gen.gen_names(rng, n)
    w = rng.randrange(n)
    kind = rng.choice(["fractional", "fractional", "random"])
    bs = []
    for _ in range(rng.randint(1, 8)):
        k = rng.random()
        others = [c for c in range(n) if c != w]
        rng.shuffle(others)
        tail = others[: rng.randint(0, len(others))]
        if rng.random() < 0.2 and len(tail) >= 2:
            j = rng.randrange(len(tail) - 1)
            tailr = [[c] for c in tail[:j]] + [sorted(tail[j:j + 2])] + [[c] for c in tail[j + 2:]]
        else:
            tailr = [[c] for c in tail]
        if k < 0.55:
            r = [[w]] + tailr                       # led by the winner
        elif k < 0.75 and tailr:
            pos = rng.randint(1, len(tailr))
            r = tailr[:pos] + [[w]] + tailr[pos:]    # winner lower down
        elif tailr:
            r = tailr                                # winner absent
        else:
            r = [[w]]
        if bs and rng.random() < 0.2:
            r = [list(s) for s in rng.choice(bs)["r"]]
        wt = gen.gen_weight(rng, "int" if kind == "random" else "mixed")
        bs.append({"r": r, "w": rat(wt), "s": []})
    led = sum((Fraction(b["w"]) for b in bs if b["r"][0] == [w]), Fraction(0))
    extra = Fraction(rng.randint(0, 3)) if rng.random() < 0.2 else Fraction(0)
    fpv = led + extra
    if fpv < 1:
        fpv = Fraction(1) + fpv
    q = rng.randint(1, max(1, math.floor(fpv)))
    return {"op": kind, "names": names, "winner": w, "fpv": rat(fpv), "threshold": q, "b": bs,
            "rs": rng.randint(0, 10 ** 9)}


def cases(rng, tier, shard, nshards, phase):
    if phase == "corpus":
        return
    total = N_THOROUGH if tier == "thorough" else N_QUICK
    if phase.startswith("search"):
        total *= 2
    for _ in range(total // nshards):
        if rng.random() < 0.7:
            yield gen_transfer_case(rng)
        else:
            rule = rng.choice(["STV", "STV", "SequentialRCV"])
            spec = gen.gen_ranked_spec(rng, nmin=2, nmax=6, ties=False, partial=True, bmin=1, bmax=10)
            n = len(spec["c"])
            cfg = {"quota": "droop", "tiebreak": "random", "m": rng.randint(1, n), "simultaneous": rng.random() < 0.5}
            if rule == "STV" and rng.random() < 0.4:
                cfg["transfer"] = "random"
                for b in spec["b"]:
                    b["w"] = rat(max(1, int(Fraction(b["w"]))))
            yield {"op": "run", "rule": rule, "cfg": cfg, "spec": spec, "rs": rng.randint(0, 10 ** 9)}


def erase(r, w):
    out = [[c for c in s if c != w] for s in r]
    return [s for s in out if s]


def run_case(vk, case):
    import random
    from votekit.elections import transfers as T
    monitors = []
    if case["op"] == "run":
        rule, cfg, spec = case["rule"], dict(case["cfg"]), case["spec"]
        names = Names(spec["names"])
        profile = gen.build_profile(vk, spec)
        res = elect.construct(vk, rule, profile, cfg, case["rs"])
        tags = [f"run:{rule}:{cfg.get('transfer', 'full' if rule == 'SequentialRCV' else 'fractional')}:{res['status']}"]
        if res["status"] != "ok":
            return {"req": None, "expect": None, "monitors": [], "tags": tags, "nontrivial": False}
        e = res["e"]
        q = e.threshold
        tot = [sum((Fraction(v) for v in s.scores.values()), Fraction(0)) for s in e.election_states]
        for i in range(1, len(tot)):
            s = e.election_states[i]
            n_el = sum(len(g) for g in s.elected)
            quota_elected = n_el if s.scores or not any(len(g) for g in s.remaining) and n_el and any(
                Fraction(v) >= q for v in e.election_states[i - 1].scores.values()) else 0
            if tot[i] > tot[i - 1]:
                monitors.append({"name": "total-increases", "detail": f"round {i}: {tot[i-1]} -> {tot[i]}",
                                 "failure": {"rule": rule, "kind": "total-increases", "cause": "unexplained"}})
            by_quota = [c for g in s.elected for c in g if Fraction(e.election_states[i - 1].scores[c]) >= q]
            if rule == "STV" and by_quota and tot[i - 1] - tot[i] < q * len(by_quota):
                monitors.append({"name": "quota-not-consumed", "detail": f"round {i}: drop {tot[i-1]-tot[i]} < {q}*{len(by_quota)}",
                                 "failure": {"rule": rule, "kind": "quota-not-consumed", "cause": "unexplained"}})
            # exact accounting against the independent reference weights
        log = [c[3] for c in res["log"].calls if c[0] == "sample" and c[1] and isinstance(c[1][0], str)]
        ref = c01.ref_for(spec, cfg, rule, tie_log=[[names.idx[str(x)] for x in o] for o in log],
                          samples=c01.samples_of(res, names))
        if ref["status"] == "OK" and rule == "STV":
            R = [[c for s in b["r"] for c in s] for b in spec["b"]]
            for i in range(1, len(ref["rounds"])):
                rd = ref["rounds"][i]
                hop_prev = set(ref["rounds"][i - 1]["scores"])
                hop = set(rd["scores"])
                W = rd["weights"]
                exhausted = sum((W[j] for j in range(len(R)) if any(c in hop_prev for c in R[j]) and not any(c in hop for c in R[j])), Fraction(0))
                by_quota = [c for g in rd["elected"] for c in g if ref["rounds"][i - 1]["scores"][c] >= q]
                if hop and i < len(tot) and tot[i - 1] - tot[i] != q * len(by_quota) + exhausted:
                    monitors.append({"name": "round-accounting", "detail": f"round {i}: drop {tot[i-1]-tot[i]} != q*{len(by_quota)} + exhausted {exhausted}",
                                     "failure": {"rule": rule, "kind": "round-accounting", "cause": "unexplained"}})
        req = elect.model_request(rule, spec, cfg, res, names)
        return {"req": req, "expect": elect.expect_states(res, names), "monitors": monitors, "tags": tags,
                "nontrivial": len(e.election_states) > 2}
    # direct transfer call
    names = Names(case["names"])
    w = case["winner"]
    ballots = tuple(gen.build_ballot(vk, case["names"], b) for b in case["b"])
    fpv, q = Fraction(case["fpv"]), case["threshold"]
    tags = [f"direct:{case['op']}"]
    log = elect.RandLog()
    st = random.getstate()
    random.seed(case["rs"])
    try:
        with log.recording():
            if case["op"] == "fractional":
                out = run_impl(lambda: T.fractional_transfer(case["names"][w], fpv, ballots, q))
            else:
                out = run_impl(lambda: T.random_transfer(case["names"][w], fpv, ballots, q))
    finally:
        random.setstate(st)
    req = {"op": "fractional_transfer" if case["op"] == "fractional" else "random_transfer", "winner": w,
           "fpv": case["fpv"], "threshold": q, "ballots": case["b"]}
    led = [b for b in case["b"] if b["r"][0] == [w]]
    notled = [b for b in case["b"] if b["r"][0] != [w]]
    if out[0] == "ok":
        res_b = names.ballots(out[1])
        expect = {"ok": canon_ballots(res_b)}
        outmap = {}
        for b in res_b:
            key = str(b["r"])
            outmap[key] = outmap.get(key, Fraction(0)) + Fraction(b["w"])
            if any(w in s for s in b["r"]):
                monitors.append({"name": "winner-still-listed", "detail": str(b), "failure": {"rule": case["op"], "kind": "winner-listed", "cause": "unexplained"}})
        if len(outmap) != len(res_b):
            monitors.append({"name": "not-condensed", "detail": "duplicate rankings in output", "failure": {"rule": case["op"], "kind": "dup", "cause": "unexplained"}})
        legal = {str(erase(b["r"], w)) for b in case["b"]}
        if any(k not in legal for k in outmap):
            monitors.append({"name": "order-changed", "detail": f"{[k for k in outmap if k not in legal]}", "failure": {"rule": case["op"], "kind": "order", "cause": "unexplained"}})
        if case["op"] == "fractional":
            tv = (fpv - q) / fpv
            want = {}
            for b in case["b"]:
                k = str(erase(b["r"], w))
                if k == "[]":
                    continue
                wt = Fraction(b["w"]) * (tv if b["r"][0] == [w] else 1)
                want[k] = want.get(k, Fraction(0)) + wt
            want = {k: v for k, v in want.items() if v > 0}
            if want != outmap:
                monitors.append({"name": "fractional-weights", "detail": f"got {outmap} want {want}", "failure": {"rule": "fractional", "kind": "weights", "cause": "unexplained"}})
            if any(erase(b["r"], w) for b in led):
                tags.append("direct:has-continuing")
        else:
            base = {}
            for b in notled:
                k = str(erase(b["r"], w))
                if k != "[]":
                    base[k] = base.get(k, Fraction(0)) + Fraction(b["w"])
            units = {}
            for b in led:
                k = str(erase(b["r"], w))
                if k != "[]":
                    units[k] = units.get(k, 0) + int(Fraction(b["w"]))
            kept_total = 0
            for k, v in outmap.items():
                kept = v - base.get(k, 0)
                if kept.denominator != 1 or kept < 0 or kept > units.get(k, 0):
                    monitors.append({"name": "random-not-subcollection", "detail": f"{k}: kept {kept} of {units.get(k, 0)}", "failure": {"rule": "random", "kind": "subcollection", "cause": "unexplained"}})
                kept_total += kept
            for k in base:
                if k not in outmap:
                    monitors.append({"name": "random-lost-ballot", "detail": k, "failure": {"rule": "random", "kind": "lost", "cause": "unexplained"}})
            if kept_total != math.floor(fpv) - q:
                monitors.append({"name": "random-size", "detail": f"kept {kept_total} != surplus {math.floor(fpv) - q}", "failure": {"rule": "random", "kind": "size", "cause": "unexplained"}})
            smp = [c for c in log.calls if c[0] == "sample"]
            if len(smp) != 1 or len(smp[0][1]) != sum(units.values()) or smp[0][2] != math.floor(fpv) - q or \
                    any(float(b.weight) != 1.0 for b in smp[0][1]):
                monitors.append({"name": "random-population", "detail": f"sample calls: {[(len(c[1]), c[2]) for c in smp]} expected population {sum(units.values())} size {math.floor(fpv) - q}",
                                 "failure": {"rule": "random", "kind": "population", "cause": "unexplained"}})
            else:
                cnt = {}
                for b in smp[0][3]:
                    key = str(names.ranking_raw(b.ranking))
                    cnt[key] = cnt.get(key, 0) + 1
                req["keep"] = sorted([[eval(k), v] for k, v in cnt.items()], key=str)
            if units:
                tags.append("direct:has-continuing")
    else:
        expect = {"exn": out[1]}
        tags.append(f"direct:{case['op']}:exn:{out[1]}")
        if case["op"] == "random" and out[1] == "ValueError":
            units = sum(int(Fraction(b["w"])) for b in led if erase(b["r"], w))
            if math.floor(fpv) - q <= units:
                monitors.append({"name": "unexpected-ValueError", "detail": out[2], "failure": {"rule": "random", "kind": "exception", "cause": "unexplained"}})
        else:
            monitors.append({"name": "unexpected-exception", "detail": out[2], "failure": {"rule": case["op"], "kind": "exception", "cause": "unexplained"}})
    return {"req": req, "expect": expect, "monitors": monitors, "tags": tags, "nontrivial": "direct:has-continuing" in tags}


def compare(model, expect):
    if "ok" in expect and isinstance(expect["ok"], dict):
        return elect.compare_states(model, expect)
    if "ok" in model and "ok" in expect:
        return None if canon_ballots(model["ok"]) == expect["ok"] else "transfer output differs"
    return None if model == expect else f"model {model} vs impl {expect}"
