"""./check Cxx --replay <file>: re-run the recorded case on /repo and on the model."""
import json, importlib, sys
from . import common, engine


def replay(modname, path):
    mod = importlib.import_module(modname)
    d = json.load(open(path))
    case = d.get("case") or (d.get("correspondence", {}).get("smallest", {}) or {}).get("case")
    if case is None:
        print(f"{path}: no replayable input recorded (kind={d.get('kind')}); broken obligations: "
              f"{json.dumps(d.get('broken_obligations'))[:600]}")
        return 1
    vk = common.import_votekit()
    r = mod.run_case(vk, case)
    bad = False
    known = engine.load_known()
    for m in r.get("monitors", []):
        k = engine.match_known(known, mod.PROP, m.get("failure", {}))
        if k:
            print(f"KNOWN-FINDING: property={mod.PROP} {k['id']} {k['what']}")
            print("  (monitor:", m["name"], "-", m["detail"][:300] + ")")
            continue
        print("MONITOR FAILS:", m["name"], "-", m["detail"][:300])
        bad = True
    if r.get("req") is not None:
        a = common.Driver().run([r["req"]])[0]
        cmp = getattr(mod, "compare", engine.default_compare)
        diff = cmp(a, r["expect"])
        if diff:
            print("CORRESPONDENCE DIFFERS:", diff)
            print(" model:", json.dumps(a)[:600])
            print(" impl :", json.dumps(r["expect"])[:600])
            bad = True
    if bad:
        print(f"VIOLATION property={mod.PROP} replay={path}")
        return 1
    print("replay: the recorded case passes on the current tree")
    return 0
