"""
Ballot-generator cases shared by C14 and C16: parameter sets, construction of the implementation's
generator, an observed run (every random primitive recorded), and the model request.

A *params* dict is JSON-serialisable and replays exactly (numpy / random are seeded from it):
  kind      generator path (see KINDS)
  blocs     bloc names, slates = {bloc: [candidate names]} in declaration order
  supports  {bloc: {slate: [floats per candidate of the slate]}}    (input of PreferenceInterval)
  cohesion  {bloc: {bloc': float}}, props {bloc: float}, N, L (short PL), votes (cumulative)
  seed      seeds `random` and `numpy.random`
"""
import os, random, pickle, tempfile, itertools, math
from fractions import Fraction
import numpy as np
from .common import rat, run_impl, Names
from .genlog import GenLog

KINDS = ["pl", "short_pl", "bt", "bt_mcmc", "ac", "cambridge", "cumulative", "slate_pl", "slate_bt", "slate_bt_mcmc",
         "point", "ic", "iac", "onedim", "spatial", "clustered"]
COMPLETE = {"pl", "bt", "bt_mcmc", "slate_pl", "slate_bt", "slate_bt_mcmc", "point", "ic", "iac", "onedim", "spatial", "clustered"}
BLOC_KINDS = {"pl", "short_pl", "bt", "bt_mcmc", "ac", "cambridge", "cumulative", "slate_pl", "slate_bt", "slate_bt_mcmc"}
TWO_BLOC = {"ac", "cambridge"}

CAND_POOL = ["Chris", "alice", "Bob", "dave", "Erin", "zed", "Ann", "_x", "b b", "9a", "Anna", "a"]
BLOC_POOL = ["W", "C", "x", "B1", "a2"]


def simplex(rng, k, extremes=True):
    """k non-negative floats whose round(sum, 8) == 1, with 0 and 1 entries now and then"""
    if k == 1:
        return [1.0]
    r = rng.random()
    if extremes and r < 0.15:
        v = [0.0] * k
        v[rng.randrange(k)] = 1.0
        return v
    if extremes and r < 0.3 and k > 2:
        v = simplex(rng, k - 1, extremes=False)
        v.insert(rng.randrange(k), 0.0)
        return v
    if r < 0.55:
        parts = [rng.randint(1, 9) for _ in range(k)]
        s = sum(parts)
        v = [p / s for p in parts]
    else:
        cuts = sorted(rng.random() for _ in range(k - 1))
        v = [b - a for a, b in zip([0.0] + cuts, cuts + [1.0])]
    if round(sum(v), 8) != 1.0:
        v[-1] = 1.0 - sum(v[:-1])
    return v


def gen_supports(rng, n, zero_ok=True):
    out = []
    for _ in range(n):
        k = rng.random()
        if zero_ok and k < 0.2:
            out.append(0.0)
        elif k < 0.6:
            out.append(float(rng.randint(1, 9)))
        elif k < 0.9:
            out.append(round(rng.uniform(0.01, 1.0), 3))
        else:
            out.append(10.0 ** rng.randint(-3, 2) * rng.randint(1, 9))
    if all(x == 0 for x in out):
        out[rng.randrange(n)] = 1.0
    return out


def gen_params(rng, kind=None):
    kind = kind or rng.choice(KINDS)
    p = {"kind": kind, "seed": rng.randrange(2 ** 31), "N": rng.choice([1, 1, 2, 3, 4, 5, 7, 8, 13, 20, 30])}
    if kind in BLOC_KINDS:
        if kind in TWO_BLOC:
            nb = 2
        elif kind in ("slate_bt", "slate_bt_mcmc"):
            nb = rng.choice([1, 2, 2, 2])
        else:
            nb = rng.choice([1, 2, 2, 3])
        blocs = rng.sample(BLOC_POOL, nb)
        maxc = 5 if kind in ("bt", "slate_bt") else 6
        sizes = [rng.randint(1, 3) for _ in range(nb)]
        while sum(sizes) > maxc:
            sizes[sizes.index(max(sizes))] -= 1
        names = rng.sample(CAND_POOL, sum(sizes))
        slates, i = {}, 0
        for b, s in zip(blocs, sizes):
            slates[b] = names[i:i + s]
            i += s
        zero_ok = kind != "ac" or rng.random() < 0.1
        p.update(blocs=blocs, slates=slates,
                 supports={b: {s: gen_supports(rng, len(slates[s]), zero_ok) for s in blocs} for b in blocs},
                 cohesion={b: dict(zip(blocs, simplex(rng, nb))) for b in blocs},
                 props=dict(zip(blocs, simplex(rng, nb))))
        if kind in TWO_BLOC and rng.random() < 0.85:
            # the crossover models are documented for cohesion strictly inside (0,1) in the common case
            for b in blocs:
                c = rng.choice([0.5, 0.6, 0.75, 0.9, 0.3, round(rng.uniform(0.05, 0.95), 2)])
                o = [x for x in blocs if x != b][0]
                p["cohesion"][b] = {b: c, o: 1 - c}
        if kind in TWO_BLOC and rng.random() < 0.12:
            # full cohesion of one bloc (0 or 1 exactly), for either bloc
            b = rng.choice(blocs)
            o = [x for x in blocs if x != b][0]
            c = rng.choice([1.0, 0.0])
            p["cohesion"][b] = {b: c, o: 1 - c}
        p["shuffle_keys"] = rng.random() < 0.6
        p["shuffle_rows"] = rng.random() < 0.5
        # slate_to_candidates listed in another order than bloc_voter_prop (both name the same blocs): the order in which
        # a generator walks the slates may change its draws, so these cases go through the monitors only (bloc sizes,
        # totals, well-formedness), not through the call-by-call replay
        p["shuffle_slates"] = len(blocs) > 1 and rng.random() < 0.15
        if kind == "short_pl":
            p["L"] = rng.randint(1, len(names))
        if kind == "cumulative":
            p["votes"] = rng.randint(1, 5)
        if kind == "cambridge":
            p["hist"] = gen_hist(rng) if rng.random() < 0.8 else None
            if p["props"][blocs[0]] == p["props"][blocs[1]] or max(p["props"].values()) < 0.5:
                pass
            p["explicit_wc"] = rng.random() < 0.5
        if kind.endswith("mcmc"):
            p["N"] = rng.choice([1, 2, 3, 5, 8, 13, 20, 30, 60])
    else:
        n = rng.randint(1, 5 if kind in ("point", "ic", "iac") else 6)
        p["cands"] = rng.sample(CAND_POOL, n)
        if kind == "point":
            v = simplex(rng, n, extremes=False)
            # from_point demands sum == 1.0 exactly in floating point
            for _ in range(50):
                if sum(v) == 1.0:
                    break
                v = simplex(rng, n, extremes=False)
            if sum(v) != 1.0:
                v = [1.0 / n] * n if sum([1.0 / n] * n) == 1.0 else [1.0] + [0.0] * (n - 1)
            p["point"] = v
        if kind in ("spatial", "clustered"):
            p["dim"] = rng.choice([1, 2, 3])
            p["grid"] = rng.random() < 0.3      # positions on a coarse grid: equal distances happen
            # a distance that is not symmetric in its arguments (documented order: voter first, candidate second)
            p["asym"] = kind == "spatial" and rng.random() < 0.4
        if kind == "clustered":
            p["per_cand"] = [rng.choice([0, 1, 1, 2, 3, 5]) for _ in range(n)]
            if sum(p["per_cand"]) == 0:
                p["per_cand"][rng.randrange(n)] = 2
            p["N"] = sum(p["per_cand"])
    return p


def gen_hist(rng):
    """a small synthetic table of historical ballot types over the letters W / C"""
    types = {}
    for _ in range(rng.randint(2, 7)):
        t = tuple(rng.choice("WC") for _ in range(rng.randint(1, 6)))
        types[t] = rng.randint(1, 20)
    types.setdefault(("W",), 3)
    types.setdefault(("C", "W"), 2)
    return [[list(t), f] for t, f in types.items()]


def all_cands(p):
    if "cands" in p:
        return list(p["cands"])
    return [c for b in p["blocs"] for c in p["slates"][b]]


# ----------------------------------------------------------------------------- implementation side

# generators whose *recorded draws* (not the law of the ballots) depend on the key order of a cohesion row: the coin
# flip -> slate assignment of sample_cohesion_ballot_types follows the row's own order
ORDER_SENSITIVE = ("slate_pl",)


def build(vk, p, tmpdir=None):
    """construct the implementation's generator object for params p"""
    from votekit import ballot_generator as BG
    from votekit.pref_interval import PreferenceInterval
    kind = p["kind"]
    if kind in BLOC_KINDS:
        def interval_dict(b, s):
            items = list(zip(p["slates"][s], p["supports"][b][s]))
            if p.get("shuffle_keys"):
                # the key order of the interval dict need not be the order of the slate list
                random.Random(f"{p['seed']}/{b}/{s}").shuffle(items)
            return dict(items)
        def order(tag):
            # the key order of the nested parameter dicts carries no meaning (entries are looked up by bloc / slate
            # name): half of the cases list the rows and columns of the cohesion and interval tables in another order
            # than bloc_voter_prop (e.g. every bloc's own slate first)
            ks = list(p["blocs"])
            if p.get("shuffle_rows") and kind not in ORDER_SENSITIVE:
                random.Random(f"{p['seed']}/rows/{tag}").shuffle(ks)
            return ks
        pib = {b: {s: PreferenceInterval(interval_dict(b, s)) for s in order(f"pi/{b}")} for b in order("pi")}
        # bloc_voter_prop and slate_to_candidates are built in the order of p["blocs"] (the order in which the generators
        # go through blocs and slates), so a case replays identically after a JSON round trip
        slate_order = list(p["blocs"])
        if p.get("shuffle_slates"):
            slate_order = slate_order[1:] + slate_order[:1]
        kw = dict(slate_to_candidates={b: list(p["slates"][b]) for b in slate_order}, pref_intervals_by_bloc=pib,
                  bloc_voter_prop={b: p["props"][b] for b in p["blocs"]},
                  cohesion_parameters={b: {s: p["cohesion"][b][s] for s in order(f"co/{b}")} for b in order("co")})
        if kind == "pl":
            return BG.name_PlackettLuce(**kw)
        if kind == "short_pl":
            return BG.short_name_PlackettLuce(ballot_length=p["L"], **kw)
        if kind in ("bt", "bt_mcmc"):
            return BG.name_BradleyTerry(**kw)
        if kind == "ac":
            return BG.AlternatingCrossover(**kw)
        if kind == "cumulative":
            return BG.name_Cumulative(num_votes=p["votes"], **kw)
        if kind == "slate_pl":
            return BG.slate_PlackettLuce(**kw)
        if kind in ("slate_bt", "slate_bt_mcmc"):
            return BG.slate_BradleyTerry(**kw)
        if kind == "cambridge":
            if p.get("hist") is not None:
                path = os.path.join(tmpdir or tempfile.gettempdir(), f"hist_{os.getpid()}_{p['seed']}.p")
                with open(path, "wb") as f:
                    pickle.dump({tuple(t): fr for t, fr in p["hist"]}, f)
                kw["path"] = path
            if p.get("explicit_wc"):
                kw["W_bloc"], kw["C_bloc"] = p["blocs"][0], p["blocs"][1]
            return BG.CambridgeSampler(**kw)
    cands = list(p["cands"])
    if kind == "point":
        return BG.BallotSimplex.from_point(point=dict(zip(cands, p["point"])), candidates=cands)
    if kind == "ic":
        return BG.ImpartialCulture(candidates=cands)
    if kind == "iac":
        return BG.ImpartialAnonymousCulture(candidates=cands)
    if kind == "onedim":
        return BG.OneDimSpatial(candidates=cands)
    if kind in ("spatial", "clustered"):
        dim = p["dim"]
        if p.get("grid"):
            def cdist(size=dim):
                return np.random.randint(0, 3, size=size).astype(float)
        else:
            def cdist(size=dim):
                return np.random.uniform(0.0, 1.0, size)
        if kind == "spatial":
            vdist = cdist
            extra = {}
            if p.get("asym"):
                def directional(v, c):
                    d = np.asarray(c, dtype=float) - np.asarray(v, dtype=float)
                    return float(np.sum(np.where(d > 0, d, -3.0 * d)))       # moving "down" costs three times as much
                extra["distance"] = directional
            return BG.Spatial(candidates=cands, voter_dist=vdist, voter_dist_kwargs={"size": dim},
                              candidate_dist=cdist, candidate_dist_kwargs={"size": dim}, **extra)
        if p.get("grid"):
            def normal(loc=0.0, scale=1.0, size=dim):
                return np.round(np.random.normal(loc, scale, size))
            normal.__name__ = "normal"
            vd = normal
        else:
            vd = np.random.normal
        return BG.ClusteredSpatial(candidates=cands, voter_dist=vd, voter_dist_kwargs={"scale": 1.0, "size": dim},
                                   candidate_dist=cdist, candidate_dist_kwargs={"size": dim})
    raise ValueError(kind)


def observe(vk, p, tmpdir=None):
    """build and run; returns dict(status, exn, gen, out, by_bloc, extra, log)"""
    random.seed(p["seed"])
    np.random.seed(p["seed"] % (2 ** 32))
    out = run_impl(lambda: build(vk, p, tmpdir))
    if out[0] != "ok":
        return {"status": "build-exn", "exn": out[1], "msg": out[2]}
    g = out[1]
    kind, N = p["kind"], p["N"]
    decoy = None
    if kind in BLOC_KINDS and p["seed"] % 3 == 0:
        # a second generator of the same class, same bloc names, other candidate names, built AFTER the one under test
        # and kept alive while that one samples: a generator must not share tables with its siblings (state kept on
        # the class instead of the instance shows up only in this construct-all-then-sample pattern)
        import copy
        p2 = copy.deepcopy(p)
        ren = {c: f"{c}~" for b in p2["blocs"] for c in p2["slates"][b]}
        p2["slates"] = {b: [ren[c] for c in p2["slates"][b]] for b in p2["blocs"]}
        st_py, st_np = random.getstate(), np.random.get_state()
        d = run_impl(lambda: build(vk, p2, tmpdir))
        random.setstate(st_py); np.random.set_state(st_np)
        decoy = d[1] if d[0] == "ok" else None
    log = GenLog()
    seeds = []

    def call():
        with log.recording():
            if kind == "bt_mcmc":
                orig = getattr(g, "_BT_mcmc", None)
                if orig is not None:
                    # the chain's seed ballot is an argument of the private sampler: record it when that sampler
                    # still exists under this name ...
                    def spy(num_ballots, pref_interval, seed_ballot, *a, **kw):
                        seeds.append([next(iter(s)) for s in seed_ballot.ranking])
                        return orig(num_ballots, pref_interval, seed_ballot, *a, **kw)
                    g._BT_mcmc = spy
                else:
                    # ... otherwise take the documented seed (the supported candidates in the interval's own order)
                    for b in g.blocs:
                        seeds.append(list(g.pref_interval_by_bloc[b].non_zero_cands))
                return g.generate_profile_MCMC(N, by_bloc=True)
            if kind == "slate_bt_mcmc":
                return g.generate_profile(N, by_bloc=True, deterministic=False)
            if kind == "clustered":
                return g.generate_profile_with_dict(dict(zip(p["cands"], p["per_cand"])))
            if kind in BLOC_KINDS:
                return g.generate_profile(N, by_bloc=True)
            return g.generate_profile(N)
    out = run_impl(call)
    del decoy
    if out[0] != "ok":
        return {"status": "run-exn", "exn": out[1], "msg": out[2], "gen": g, "log": log.calls}
    res = {"status": "ok", "gen": g, "log": log.calls, "seeds": seeds}
    v = out[1]
    if kind in BLOC_KINDS:
        res["by_bloc"], res["profile"] = v
    elif kind in ("spatial", "clustered"):
        res["profile"], res["cand_pos"], res["voter_pos"] = v
    else:
        res["profile"] = v
    return res


def wmap(names, profile):
    """weight map of an implementation profile: content -> Fraction"""
    m = {}
    for b in profile.ballots:
        k = (tuple(tuple(names.cset(s)) for s in (b.ranking or ())), tuple((c, Fraction(v)) for c, v in names.scores(b.scores)))
        m[k] = m.get(k, Fraction(0)) + Fraction(b.weight)
    return m


def jmap(m):
    return sorted([[list(map(list, k[0])), [[c, rat(v)] for c, v in k[1]], rat(w)] for k, w in m.items()])


# ----------------------------------------------------------------------------- model request

def hist_letters(p):
    """0 for the bloc mapped to the historical majority letter 'W', 1 for 'C' (CambridgeSampler.__init__)"""
    blocs = p["blocs"]
    if p.get("explicit_wc"):
        w = blocs[0]
    else:
        w = [b for b in blocs if p["props"][b] >= 0.5][0]
    return [0 if b == w else 1 for b in blocs]


def encode_log(p, calls, names, bidx):
    out = []
    for c in calls:
        f = c["f"]
        if f == "choice":
            out.append({"f": f, "pop": [names.i(x) for x in c["pop"]], "p": c["p"], "k": c["k"], "replace": c["replace"],
                        "res": [names.i(x) for x in c["res"]]})
        elif f == "shuffle":
            out.append({"f": f, "x": [bidx[x] for x in c["x"]], "res": [bidx[x] for x in c["res"]]})
        elif f == "choices":
            def enc(x):
                if isinstance(x, int):
                    return [x]
                return [0 if y == "W" else 1 for y in x]
            out.append({"f": f, "pop": [enc(x) for x in c["pop"]] if len(c["pop"]) <= 64 else [], "weights": c["weights"] if len(c["pop"]) <= 64 else [],
                        "k": c["k"], "res": [enc(x) for x in c["res"]]})
        elif f == "normal":
            out.append({"f": f, "size": c["args"][2], "res": c["res"]})
        elif f == "apportion":
            out.append({"f": f, "props": c["props"], "n": c["n"], "res": c["res"]})
        else:
            out.append(c)
    return out


def model_request(vk, p, obs):
    """the `gen` request for the Lean driver, or None when the run cannot be encoded"""
    kind = p["kind"]
    cands = all_cands(p)
    names = Names(cands)
    mp = {"kind": kind, "N": p["N"], "cands": list(range(len(cands)))}
    bidx = {}
    g = obs["gen"]
    if kind in BLOC_KINDS:
        blocs = p["blocs"]
        bidx = {b: i for i, b in enumerate(blocs)}
        mp["slates"] = [[names.i(c) for c in p["slates"][b]] for b in blocs]
        mp["props"] = [rat(p["props"][b]) for b in blocs]
        mp["cohesion"] = [[rat(p["cohesion"][b][s]) for s in blocs] for b in blocs]
        mp["supports"] = [[[[names.i(c), rat(x)] for c, x in zip(p["slates"][s], p["supports"][b][s])] for s in blocs] for b in blocs]
        mp["L"] = p.get("L", 0)
        mp["votes"] = p.get("votes", 0)
        if kind == "bt":
            mp["tables"] = [[[names.i(c) for c in r] for r in g.pdfs_by_bloc[b].keys()] for b in blocs]
        if kind == "slate_bt":
            mp["types"] = [[[bidx[x] for x in t] for t in g.ballot_type_pdf[b].keys()] for b in blocs]
        if kind == "bt_mcmc":
            mp["seeds"] = [[names.i(c) for c in s] for s in obs["seeds"]]
        if kind == "cambridge":
            mp["hist_letter"] = hist_letters(p)
            mp["hist"] = None if p.get("hist") is None else [[[0 if y == "W" else 1 for y in t], rat(f)] for t, f in p["hist"]]
    else:
        if kind == "point":
            mp["point"] = [[names.i(c), rat(v)] for c, v in zip(p["cands"], p["point"])]
        if kind == "onedim":
            nm = [c for c in obs["log"] if c["f"] == "normal"]
            n = len(cands)
            if len(nm) == n + 1:
                cpos = [float(Fraction(c["res"][0])) for c in nm[:n]]
                vpos = [float(Fraction(x)) for x in nm[n]["res"]]
                mp["dists"] = [[rat(abs(v - vp)) for v in cpos] for vp in vpos]
            else:
                mp["dists"] = []
        if kind in ("spatial", "clustered"):
            cp, vps = obs["cand_pos"], obs["voter_pos"]
            mp["dists"] = [[rat(float(g.distance(vp, cp[c]))) for c in cands] for vp in vps]
    log = obs["log"] if kind not in ("spatial", "clustered") else []
    return {"op": "gen", "params": mp, "log": encode_log(p, log, names, bidx)}


def expect_profiles(p, obs):
    from .common import condensed_map
    names = Names(all_cands(p))
    out = {"agg": condensed_map(names.ballots(obs["profile"].ballots))}
    if p["kind"] in BLOC_KINDS:
        out["by_bloc"] = [condensed_map(names.ballots(obs["by_bloc"][b].ballots)) for b in p["blocs"]]
    else:
        out["by_bloc"] = []
    return out


def compare_profiles(model, expect):
    from .common import condensed_map
    if "ok" not in model:
        return f"model does not accept the recorded run: {model.get('mismatch', model)}"
    mo = model["ok"]
    if condensed_map(mo["agg"]) != expect["agg"]:
        return f"aggregate profile: model {str(condensed_map(mo['agg']))[:300]} vs implementation {str(expect['agg'])[:300]}"
    mb = [condensed_map(x) for x in mo["by_bloc"]]
    if mb != expect["by_bloc"]:
        return f"by-bloc profiles: model {str(mb)[:300]} vs implementation {str(expect['by_bloc'])[:300]}"
    return None
