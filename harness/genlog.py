"""
Recording layer for the ballot generators (C14, C16): wraps every random primitive that
`votekit.ballot_generator` / `votekit.pref_interval` use, plus `apportionment.methods.compute`,
from outside the source tree, and records arguments and results of each call in order.

Recorded call kinds (all values JSON-serialisable; floats at their exact binary value as "n/d"):
  {"f":"choice","pop":[names],"p":[rats]|None,"k":int,"replace":bool,"res":[names]}   np.random.choice over labels
  {"f":"choice_idx","n":int,"p":[rats]|None,"size":int,"res":[ints]}                  np.random.choice(a=int,...)
  {"f":"uniform","size":int,"res":[rats]}                                               np.random.uniform(size=K)
  {"f":"shuffle","x":[...],"res":[...]}                                                 random.shuffle
  {"f":"choices","pop":[...],"weights":[rats]|None,"k":int,"res":[...]}                random.choices
  {"f":"random","res":rat}                                                              random.random
  {"f":"apportion","method":str,"props":[rats],"n":int,"res":[ints]}
  {"f":"dirichlet","alpha":[rats],"res":[rats]}                                         default_rng().dirichlet
  {"f":"normal","args":[...],"res":[rats]}                                              np.random.normal
"""
import random, contextlib
from fractions import Fraction
import numpy as np
from .common import rat


def _r(x):
    return rat(float(x))


def _lab(x):
    """label of a population element: numpy strings -> str, tuples kept as lists"""
    if isinstance(x, (tuple, list)):
        return [_lab(y) for y in x]
    if isinstance(x, (np.integer,)):
        return int(x)
    if isinstance(x, (int,)):
        return x
    return str(x)


class GenLog:
    def __init__(self):
        self.calls = []

    @contextlib.contextmanager
    def recording(self):
        import apportionment.methods as apm
        log = self
        o_choice, o_uniform, o_normal, o_rng = np.random.choice, np.random.uniform, np.random.normal, np.random.default_rng
        o_shuffle, o_choices, o_random = random.shuffle, random.choices, random.random
        o_compute = apm.compute

        def choice(a, size=None, replace=True, p=None):
            res = o_choice(a, size=size, replace=replace, p=p)
            pp = None if p is None else [_r(x) for x in p]
            if isinstance(a, (int, np.integer)):
                rl = [int(res)] if np.ndim(res) == 0 else [int(x) for x in res]
                log.calls.append({"f": "choice_idx", "n": int(a), "p": pp, "size": None if size is None else int(size), "res": rl})
            else:
                rl = [_lab(res)] if np.ndim(res) == 0 else [_lab(x) for x in res]
                log.calls.append({"f": "choice", "pop": [_lab(x) for x in a], "p": pp,
                                  "k": None if size is None else int(size), "replace": bool(replace), "res": rl})
            return res

        def uniform(low=0.0, high=1.0, size=None):
            res = o_uniform(low, high, size)
            if size is not None and np.ndim(res) == 1 and low == 0.0 and high == 1.0:
                log.calls.append({"f": "uniform", "size": int(size), "res": [_r(x) for x in res]})
            return res

        def normal(loc=0.0, scale=1.0, size=None):
            res = o_normal(loc, scale, size)
            if np.ndim(loc) == 0 and np.ndim(scale) == 0:
                log.calls.append({"f": "normal", "args": [float(loc), float(scale), None if size is None else int(size)],
                                  "res": [_r(res)] if np.ndim(res) == 0 else [_r(x) for x in np.ravel(res)]})
            return res

        class RngProxy:
            def __init__(self, g):
                self._g = g

            def dirichlet(self, alpha, size=None):
                res = self._g.dirichlet(alpha, size)
                log.calls.append({"f": "dirichlet", "alpha": [_r(x) for x in alpha], "res": [_r(x) for x in res]})
                return res

            def __getattr__(self, name):
                return getattr(self._g, name)

        def default_rng(*a, **kw):
            return RngProxy(o_rng(*a, **kw))

        def shuffle(x):
            before = [_lab(y) for y in x]
            o_shuffle(x)
            log.calls.append({"f": "shuffle", "x": before, "res": [_lab(y) for y in x]})

        def choices(population, weights=None, *, cum_weights=None, k=1):
            res = o_choices(population, weights=weights, cum_weights=cum_weights, k=k)
            log.calls.append({"f": "choices", "pop": [_lab(x) for x in population],
                              "weights": None if weights is None else [_r(x) for x in weights], "k": int(k),
                              "res": [_lab(x) for x in res]})
            return res

        def rnd():
            res = o_random()
            log.calls.append({"f": "random", "res": _r(res)})
            return res

        def compute(method, votes, seats, *a, **kw):
            res = o_compute(method, votes, seats, *a, **kw)
            log.calls.append({"f": "apportion", "method": str(method), "props": [_r(x) for x in votes], "n": int(seats),
                              "res": [int(x) for x in res]})
            return res

        np.random.choice, np.random.uniform, np.random.normal, np.random.default_rng = choice, uniform, normal, default_rng
        random.shuffle, random.choices, random.random = shuffle, choices, rnd
        apm.compute = compute
        try:
            yield self
        finally:
            np.random.choice, np.random.uniform, np.random.normal, np.random.default_rng = o_choice, o_uniform, o_normal, o_rng
            random.shuffle, random.choices, random.random = o_shuffle, o_choices, o_random
            apm.compute = o_compute


# ----------------------------------------------------------------------------- Huntington-Hill (independent reference)

def huntington_hill(props, n):
    """Reference Huntington-Hill apportionment of n seats by the non-negative weights `props`
    (exact rationals): seats are given one at a time to the largest priority v^2/(s(s+1)), a party
    with no seat yet having infinite priority when its weight is positive. Returns (seats, tie) where
    `tie` says whether some choice was between equal priorities (the library may break it
    differently)."""
    v = [Fraction(x) for x in props]
    s = [0] * len(v)
    tie = False
    for _ in range(n):
        best, bi = None, None
        for i, x in enumerate(v):
            if x <= 0:
                continue
            pr = (1, Fraction(0)) if s[i] == 0 else (0, x * x / (s[i] * (s[i] + 1)))
            if best is None or pr > best:
                best, bi = pr, i
            elif pr == best:
                tie = True
        if bi is None:
            break
        s[bi] += 1
    return s, tie
