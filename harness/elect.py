"""
Running election rules of the implementation under observation, and building the matching model
request (with the oracle record) — shared by C01, C02, C04, C05, C07, C08, C09, C10, C13, C17.
"""
import random, contextlib, io, signal
from fractions import Fraction
import numpy as np
from .common import Names, rat, exn_name
from . import gen

RANK_RULES = ["STV", "IRV", "SequentialRCV", "Plurality", "SNTV", "Borda", "TopTwo", "Alaska",
              "DominatingSets", "CondoBorda", "RandomDictator", "BoostedRandomDictator"]
SCORE_RULES = {"GeneralRating": "general", "Rating": "rating", "Limited": "limited",
               "Cumulative": "cumulative", "Approval": "approval", "BlocPlurality": "bloc"}
STV_FAMILY = ("STV", "IRV", "SequentialRCV", "Alaska")


class Timeout(Exception):
    pass


@contextlib.contextmanager
def time_limit(sec):
    """Non-termination alarm. The limit is on the CPU time the process itself consumes (ITIMER_PROF), so a busy machine
    that leaves the process waiting for a core cannot make a terminating run look like a loop (this happened once in a
    thorough run under load 100: a three-ballot TopTwo election "did not finish in 10 s" of wall-clock time); a loop
    burns CPU and still trips it. A wall-clock backstop 60 times longer catches a run that blocks without computing."""
    def h(sig, frm):
        raise Timeout()
    old_p = signal.signal(signal.SIGPROF, h)
    old_a = signal.signal(signal.SIGALRM, h)
    signal.setitimer(signal.ITIMER_PROF, sec)
    signal.alarm(sec * 60)
    try:
        yield
    finally:
        signal.setitimer(signal.ITIMER_PROF, 0)
        signal.alarm(0)
        signal.signal(signal.SIGPROF, old_p)
        signal.signal(signal.SIGALRM, old_a)


class RandLog:
    """wraps the random primitives the rules use and records every call made while active"""

    def __init__(self):
        self.calls = []
        self.active = False

    @contextlib.contextmanager
    def recording(self):
        o_sample, o_choices, o_uniform = random.sample, random.choices, random.uniform
        o_choice = random.choice
        o_npchoice, o_npshuffle = np.random.choice, np.random.shuffle
        log = self

        def choice(population):
            # a uniform pick is a weighted pick without weights: recorded as such, so that a rule may use either
            res = o_choice(population)
            log.calls.append(("choices", list(population), None, [res]))
            return res

        def sample(population, k, **kw):
            res = o_sample(population, k, **kw)
            log.calls.append(("sample", list(population), k, list(res)))
            return res

        def choices(population, weights=None, **kw):
            res = o_choices(population, weights=weights, **kw)
            log.calls.append(("choices", list(population), list(weights) if weights is not None else None, list(res)))
            return res

        def uniform(a, b):
            res = o_uniform(a, b)
            log.calls.append(("uniform", a, b, res))
            return res

        def npchoice(a, *args, **kw):
            res = o_npchoice(a, *args, **kw)
            log.calls.append(("npchoice", list(a) if hasattr(a, "__iter__") else a, kw.get("p"), res))
            return res

        def npshuffle(x):
            o_npshuffle(x)
            log.calls.append(("npshuffle", list(x)))

        random.sample, random.choices, random.uniform = sample, choices, uniform
        random.choice = choice
        np.random.choice, np.random.shuffle = npchoice, npshuffle
        try:
            yield self
        finally:
            random.sample, random.choices, random.uniform = o_sample, o_choices, o_uniform
            random.choice = o_choice
            np.random.choice, np.random.shuffle = o_npchoice, o_npshuffle


def construct(vk, rule, profile, cfg, rng_seed, timeout=4):
    """Build the election; returns dict(status='ok'|'exn'|'timeout', e, exn, log, transfers)."""
    from votekit import elections as E
    from votekit.elections import transfers as T
    log = RandLog()
    transfers = []  # (winner, fpv, result ballots) in call order

    def logged_random_transfer(winner, fpv, ballots, threshold):
        n0 = len(log.calls)
        res = T.random_transfer(winner, fpv, ballots, threshold)
        smp = [c for c in log.calls[n0:] if c[0] == "sample"]
        transfers.append((winner, fpv, smp[-1][3] if smp else None))
        return res

    kw = {}
    cls = getattr(E, rule)
    if rule in ("STV", "Alaska"):
        if cfg.get("transfer") == "random":
            kw["transfer"] = logged_random_transfer
        kw["quota"] = cfg.get("quota", "droop")
        kw["simultaneous"] = cfg.get("simultaneous", True)
        kw["tiebreak"] = cfg.get("tiebreak")
        if rule == "STV":
            kw["m"] = cfg["m"]
        else:
            kw["m_1"] = cfg["m1"]
            kw["m_2"] = cfg["m2"]
    elif rule == "IRV":
        kw["quota"] = cfg.get("quota", "droop")
        kw["tiebreak"] = cfg.get("tiebreak")
    elif rule == "SequentialRCV":
        kw.update(m=cfg["m"], quota=cfg.get("quota", "droop"), simultaneous=cfg.get("simultaneous", True),
                  tiebreak=cfg.get("tiebreak"))
    elif rule in ("Plurality", "SNTV"):
        kw.update(m=cfg["m"], tiebreak=cfg.get("tiebreak"))
    elif rule == "Borda":
        kw.update(m=cfg["m"], tiebreak=cfg.get("tiebreak"))
        if cfg.get("vector") is not None:
            kw["score_vector"] = cfg["vector_py"]
    elif rule == "TopTwo":
        kw.update(tiebreak=cfg.get("tiebreak"))
    elif rule == "DominatingSets":
        pass
    elif rule == "CondoBorda":
        kw.update(m=cfg["m"])
    elif rule in ("RandomDictator", "BoostedRandomDictator"):
        kw.update(m=cfg["m"])
    elif rule == "PluralityVeto":
        kw.update(m=cfg["m"], tiebreak=cfg.get("tiebreak"))
    elif rule == "GeneralRating":
        kw.update(m=cfg["m"], L=Fraction(cfg["L"]), tiebreak=cfg.get("tiebreak"))
        if cfg.get("k") is not None:
            kw["k"] = Fraction(cfg["k"])
    elif rule == "Rating":
        kw.update(m=cfg["m"], L=Fraction(cfg["L"]), tiebreak=cfg.get("tiebreak"))
    elif rule == "Limited":
        kw.update(m=cfg["m"], tiebreak=cfg.get("tiebreak"))
        if cfg.get("k") is not None:
            kw["k"] = Fraction(cfg["k"])
    elif rule in ("Cumulative", "Approval"):
        kw.update(m=cfg["m"], tiebreak=cfg.get("tiebreak"))
    elif rule == "BlocPlurality":
        kw.update(m=cfg["m"], tiebreak=cfg.get("tiebreak"))
        if cfg.get("k") is not None:
            kw["k"] = int(Fraction(cfg["k"])) if Fraction(cfg["k"]).denominator == 1 else Fraction(cfg["k"])
    else:
        raise ValueError(rule)

    st = random.getstate()
    npst = np.random.get_state()
    random.seed(rng_seed)
    np.random.seed(rng_seed % (2 ** 32))
    buf = io.StringIO()
    out = {"log": log, "transfers": transfers}
    try:
        with log.recording(), contextlib.redirect_stdout(buf), time_limit(timeout):
            e = cls(profile, **kw)
        out.update(status="ok", e=e)
    except Timeout:
        out.update(status="timeout")
    except Exception as ex:  # noqa
        out.update(status="exn", exn=exn_name(ex), msg=f"{type(ex).__name__}: {str(ex)[:160]}")
    finally:
        random.setstate(st)
        np.random.set_state(npst)
    return out


def pri_from_states(names, states, nrounds=None):
    """per-round priority lists from the recorded tiebreak resolutions"""
    pri = []
    for s in states:
        order = []
        for k, v in s.tiebreaks.items():
            for g in v:
                for c in sorted(names.idx[str(x)] for x in g):
                    if c not in order:
                        order.append(c)
        pri.append(order)
    return pri


def model_request(rule, spec, cfg, res, names):
    """request for the Lean driver, with the oracle taken from what the implementation did"""
    prof = gen.model_profile(spec)
    req = {"profile": prof}
    states = res["e"].election_states if res.get("status") == "ok" else []
    pri = pri_from_states(names, states)
    if rule in STV_FAMILY:
        req.update(quota=cfg.get("quota", "droop"), simultaneous=cfg.get("simultaneous", True),
                   tiebreak=cfg.get("tiebreak"))
        if rule == "IRV":
            req.update(op="stv", m=1, simultaneous=True, transfer="fractional")
        elif rule == "SequentialRCV":
            req.update(op="stv", m=cfg["m"], transfer="full")
        elif rule == "STV":
            req.update(op="stv", m=cfg["m"], transfer=cfg.get("transfer", "fractional"))
        else:
            req.update(op="alaska", m1=cfg["m1"], m2=cfg["m2"], transfer=cfg.get("transfer", "fractional"))
        req["pri"] = pri
        if cfg.get("transfer") == "random":
            # sample oracle: per round, [winner, [[continuing ranking, kept units], …]]
            first = {}
            for (w, fpv, smp) in res["transfers"]:
                if w not in first:
                    first[w] = smp
            allw = []
            for c, smp in first.items():
                if smp is not None:
                    cnt = {}
                    for b in smp:
                        key = tuple(names.idx[str(x)] for pos in b.ranking for x in pos)
                        cnt[key] = cnt.get(key, 0) + 1
                    allw.append([names.idx[str(c)], sorted([list(k), v] for k, v in cnt.items())])
            # a winner is elected once, so the same winner-keyed table serves every round
            per_round = [allw] * (len(spec["c"]) + 4)
            req["sample"] = per_round
        return req
    if rule in ("Plurality", "SNTV"):
        req.update(op="plurality", m=cfg["m"], tiebreak=cfg.get("tiebreak"), pri=pri[1] if len(pri) > 1 else [])
    elif rule == "Borda":
        req.update(op="borda_run", m=cfg["m"], tiebreak=cfg.get("tiebreak"), pri=pri[1] if len(pri) > 1 else [])
        if cfg.get("vector") is not None:
            req["vector"] = cfg["vector"]
    elif rule == "TopTwo":
        req.update(op="top_two", tiebreak=cfg.get("tiebreak"), pri=pri)
    elif rule == "DominatingSets":
        req.update(op="dominating")
    elif rule == "CondoBorda":
        req.update(op="condo_borda", m=cfg["m"], pri=pri[1] if len(pri) > 1 else [])
    elif rule in SCORE_RULES:
        req.update(op="score_rule", rule=SCORE_RULES[rule], m=cfg["m"], tiebreak=cfg.get("tiebreak"),
                   pri=pri[1] if len(pri) > 1 else [])
        if cfg.get("L") is not None:
            req["L"] = cfg["L"]
        if cfg.get("k") is not None:
            req["k"] = cfg["k"]
    elif rule in ("RandomDictator", "BoostedRandomDictator"):
        req.update(op="random_dictator" if rule == "RandomDictator" else "boosted", m=cfg["m"], pri=pri)
        picks, us, sqs = [[]], ["0"], [0]
        calls = res["log"].calls
        if rule == "RandomDictator":
            for c in calls:
                if c[0] == "choices":
                    picks.append(names.ranking_raw(c[3][0].ranking))
            req.update(pick=picks)
        else:
            cur = None
            rounds = []
            for c in calls:
                if c[0] == "uniform":
                    cur = {"u": rat(c[3]), "pick": [], "sq": 0}
                    rounds.append(cur)
                elif c[0] == "choices" and cur is not None:
                    cur["pick"] = names.ranking_raw(c[3][0].ranking)
                elif c[0] == "npchoice" and cur is not None:
                    cur["sq"] = names.idx[str(c[3])]
            req.update(pick=[[]] + [r["pick"] for r in rounds], u=["0"] + [r["u"] for r in rounds],
                       sq=[0] + [r["sq"] for r in rounds])
    elif rule == "PluralityVeto":
        calls = res["log"].calls
        order = next((c[1] for c in calls if c[0] == "npshuffle"), [])
        samples = [[names.idx[str(x)] for x in c[3]] for c in calls
                   if c[0] == "sample" and c[1] and isinstance(c[1][0], str)]
        req.update(op="plurality_veto", m=cfg["m"], tiebreak=cfg.get("tiebreak"), order=[int(i) for i in order],
                   samples=samples)
    else:
        raise ValueError(rule)
    return req


def expect_states(res, names, with_threshold=False):
    if res["status"] == "ok":
        st = names.states(res["e"])
        out = {"ok": {"states": st}}
        if hasattr(res["e"], "threshold"):
            out["ok"]["threshold"] = res["e"].threshold
        return out
    if res["status"] == "exn":
        return {"exn": res["exn"]}
    return {"timeout": True}


# ----------------------------------------------------------------------------- monitors (C01 core)

def groups_flat(t):
    return [c for s in t for c in s]


def monitor_outcome(res, profile, m_expected, rule):
    """C01 monitors on a finished election: count, partition, monotone status. Returns failures."""
    fails = []
    e = res["e"]
    cands = set(profile.candidates)
    n_states = len(e.election_states)
    if m_expected is not None:
        ne = len(groups_flat(e.get_elected()))
        if ne != m_expected:
            fails.append({"name": "winner-count", "detail": f"{ne} winners, expected {m_expected}"})
    status_prev = {}
    for r in range(n_states):
        el = groups_flat(e.get_elected(r))
        rem = groups_flat(e.get_remaining(r))
        out = groups_flat(e.get_eliminated(r))
        allc = el + rem + out
        if sorted(allc) != sorted(cands) or len(set(allc)) != len(allc):
            fails.append({"name": "partition", "detail": f"round {r}: elected={el} remaining={rem} eliminated={out} candidates={sorted(cands)}"})
            break
        status = {c: "E" for c in el}
        status.update({c: "R" for c in rem})
        status.update({c: "X" for c in out})
        for c, s in status_prev.items():
            if s in ("E", "X") and status.get(c) != s:
                fails.append({"name": "status-monotone", "detail": f"round {r}: {c} was {s} now {status.get(c)}"})
        status_prev = status
    return fails


def score_class_failures(e, rounds="first"):
    """'candidates of equal score are reported as tied, in descending score order': in a round that records no
    tiebreak and reports scores, the remaining groups must be exactly the classes of equal score, highest first.
    rounds='first' checks round 0 only (true of every rule that scores its initial profile); 'all' checks every
    round (true of the STV family, whose every round re-ranks the hopeful candidates by their tallies)."""
    fails = []
    states = e.election_states if rounds == "all" else e.election_states[:1]
    for s in states:
        if not s.scores or getattr(s, "tiebreaks", None):
            continue
        groups = [g for g in s.remaining if len(g)]
        listed = [c for g in groups for c in g]
        if any(c not in s.scores for c in listed):
            continue
        classes = {}
        for c in listed:
            classes.setdefault(Fraction(s.scores[c]), set()).add(c)
        want = [classes[v] for v in sorted(classes, reverse=True)]
        if [set(g) for g in groups] != want:
            fails.append({"name": "remaining-not-score-classes",
                          "detail": f"round {s.round_number}: remaining {[sorted(g) for g in groups]} but the classes of equal "
                                    f"score, highest first, are {[sorted(g) for g in want]} (scores {dict(s.scores)})"})
            break
    return fails


def compare_states(model, expect):
    """model answer vs. implementation: states (and threshold where both report one)"""
    if "ok" in model and "ok" in expect:
        mo = model["ok"]
        m_states = mo["states"] if isinstance(mo, dict) else mo
        if m_states != expect["ok"]["states"]:
            for i, (a, b) in enumerate(zip(m_states, expect["ok"]["states"])):
                if a != b:
                    keys = [k for k in a if a[k] != b.get(k)]
                    return f"round {i} differs in {keys}"
            return f"number of rounds: model {len(m_states)} vs impl {len(expect['ok']['states'])}"
        if isinstance(mo, dict) and "threshold" in mo and "threshold" in expect["ok"]:
            if mo["threshold"] != expect["ok"]["threshold"]:
                return f"threshold model {mo['threshold']} vs impl {expect['ok']['threshold']}"
        if isinstance(mo, dict) and mo.get("fpv_link") is False:
            return "fpv_link: firstPlaceVotes of the model differs from the tallies of the initial count state (hypothesis of C07_droop_psc_fractional)"
        return None
    if "exn" in model and "exn" in expect and model["exn"] == expect["exn"]:
        return None
    if "exn" in model and "exn" in expect and expect["exn"] in model.get("exn_alts", ()):
        # random transfer, simultaneous round: several winners are defective in different ways and the class of the
        # exception depends on the order the winners' set is iterated in (hash order in the implementation, listing
        # order in the model - C08_cand_order_random_transfer_differs); the driver reports the classes met under
        # the other listing orders
        return None
    if "fuel" in model and "timeout" in expect:
        # the model's loop ran out of fuel where the implementation's loop did not end within the alarm
        return None
    return f"model {list(model)[0]}:{model.get('exn', '')} vs impl {list(expect)[0]}:{expect.get('exn', '')}"
