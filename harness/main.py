import os, sys, json, time, traceback
from . import engine


def main(argv):
    if not argv:
        print("usage: ./check <Cxx> [quick|thorough] [--replay file]", file=sys.stderr)
        return 2
    prop = argv[0].upper()
    tier = os.environ.get("VERIF_TIER", "quick")
    replay = None
    i = 1
    while i < len(argv):
        if argv[i] in ("quick", "thorough"):
            tier = argv[i]
        elif argv[i] == "--replay":
            replay = argv[i + 1]
            i += 1
        i += 1
    try:
        seed = int(os.environ.get("VERIF_SEED", "1"))
    except ValueError:
        seed = 1
    modname = f"harness.props.{prop.lower()}"
    # scratch files of this run (the generators' data files, C14 / C16) live in one directory that is removed when the
    # run ends, whatever the verdict; worker processes inherit its name through the environment
    import tempfile, shutil
    run_tmp = tempfile.mkdtemp(prefix="verif_run_")
    os.environ["VERIF_RUN_TMP"] = run_tmp
    try:
        if replay:
            from . import replay as rp
            return rp.replay(modname, replay)
        return engine.run_check(modname, tier, seed)
    except Exception:
        traceback.print_exc()
        print(f"[{prop}] harness error: no verdict", file=sys.stderr)
        return 2
    finally:
        shutil.rmtree(run_tmp, ignore_errors=True)


if __name__ == "__main__":
    sys.exit(main(sys.argv[1:]))
