"""
Shared harness infrastructure.

* imports mggg/VoteKit from /repo/src (never the wheel in site-packages), stubbing the absent `ot`
* encodes implementation values into the model's canonical JSON form
* talks to the compiled Lean driver over the line protocol
"""
import os, sys, json, types, io, contextlib, subprocess, random, time, math, hashlib
from fractions import Fraction

VERIF = os.path.dirname(os.path.dirname(os.path.abspath(__file__)))
REPO = os.environ.get("VERIF_REPO", "/repo")
REPO_SRC = os.path.join(REPO, "src")
LEAN_DIR = os.path.join(VERIF, "lean")
DRIVER = os.path.join(LEAN_DIR, ".lake", "build", "bin", "driver")


def import_votekit():
    """Import the working tree. Exit code 2 (no verdict) if the tree cannot be imported."""
    if "ot" not in sys.modules:
        sys.modules["ot"] = types.ModuleType("ot")  # POT is not installed; only earth_mover_dist uses it
    if sys.path[0] != REPO_SRC:
        sys.path.insert(0, REPO_SRC)
    import warnings
    warnings.filterwarnings("ignore")
    import votekit
    if not os.path.abspath(votekit.__file__).startswith(os.path.abspath(REPO_SRC)):
        print(f"harness error: votekit imported from {votekit.__file__}, not {REPO_SRC}", file=sys.stderr)
        sys.exit(2)
    return votekit


# --------------------------------------------------------------------------- canonical encoding

def rat(x):
    """exact rational string of an int / Fraction / float (floats at their exact binary value)"""
    f = Fraction(x)
    return str(f.numerator) if f.denominator == 1 else f"{f.numerator}/{f.denominator}"


def unrat(s):
    return Fraction(s)


class Names:
    """candidate names <-> indices into the declared candidate tuple"""

    class _Idx(dict):
        """a name the implementation produced that was never declared gets an index beyond the declared ones instead of
        crashing the harness: the model cannot produce it, so the correspondence / monitors report the case"""

        def __missing__(self, key):
            self[key] = 1000 + len(self)
            return self[key]

    def __init__(self, names):
        self.names = list(names)
        self.idx = Names._Idx({c: i for i, c in enumerate(self.names)})

    def i(self, c):
        return self.idx[str(c)]

    def cset(self, s):
        return sorted(self.idx[str(c)] for c in s)

    def ranking(self, r):
        """tuple of frozensets -> list of sorted index lists; None/() -> []; empty sets dropped"""
        if not r:
            return []
        return [self.cset(s) for s in r if len(s) > 0]

    def scores(self, d):
        if not d:
            return []
        return sorted([self.idx[str(c)], rat(v)] for c, v in d.items())

    def ballot(self, b):
        return {"r": self.ranking_raw(b.ranking), "w": rat(b.weight), "s": self.scores(b.scores)}

    def ranking_raw(self, r):
        # keep empty positions out (the model never holds them); None -> []
        if not r:
            return []
        return [self.cset(s) for s in r]

    def ballots(self, bs):
        return [self.ballot(b) for b in bs]

    def profile(self, p):
        return {"b": self.ballots(p.ballots), "c": sorted(self.idx[str(c)] for c in p.candidates)}

    def state(self, s):
        return {
            "round": s.round_number,
            "remaining": self.ranking(s.remaining),
            "elected": self.ranking(s.elected),
            "eliminated": self.ranking(s.eliminated),
            "tiebreaks": sorted([self.cset(k), self.ranking(v)] for k, v in s.tiebreaks.items()),
            "scores": self.scores(s.scores),
        }

    def states(self, e):
        return [self.state(s) for s in e.election_states]


def canon_ballots(bs):
    """sort a JSON ballot list (order of ballots in a profile is not observable); no merging"""
    return sorted(bs, key=lambda b: json.dumps(b, sort_keys=True))


def canon_profile(p):
    return {"b": canon_ballots(p["b"]), "c": sorted(p["c"])}


def condensed_map(bs):
    """weight map of a JSON ballot list: content -> total weight, zero entries dropped"""
    m = {}
    for b in bs:
        k = json.dumps([b["r"], b["s"]])
        m[k] = m.get(k, Fraction(0)) + Fraction(b["w"])
    return {k: rat(v) for k, v in sorted(m.items()) if v != 0}


EXN_ORDER = [
    ("TypeError", TypeError),
    ("ValueError", ValueError),
    ("IndexError", IndexError),
    ("ZeroDivisionError", ZeroDivisionError),
    ("KeyError", KeyError),
    ("AttributeError", AttributeError),
    ("UnboundLocalError", UnboundLocalError),
]


def exn_name(e):
    for name, cls in EXN_ORDER:
        if isinstance(e, cls):
            return name
    return "Other"


def run_impl(f):
    """run f() with stdout chatter captured; returns ('ok', value) or ('exn', name, repr)"""
    buf = io.StringIO()
    try:
        with contextlib.redirect_stdout(buf):
            v = f()
        return ("ok", v)
    except Exception as e:  # noqa
        return ("exn", exn_name(e), f"{type(e).__name__}: {str(e)[:200]}")


# --------------------------------------------------------------------------- driver

class Driver:
    """batch interface to the compiled Lean model driver"""

    def __init__(self):
        if not os.path.exists(DRIVER):
            raise RuntimeError(f"model driver not built: {DRIVER}")

    def run(self, requests):
        if not requests:
            return []
        data = "\n".join(json.dumps(r, separators=(",", ":")) for r in requests) + "\n"
        p = subprocess.run([DRIVER], input=data.encode(), stdout=subprocess.PIPE, stderr=subprocess.PIPE, timeout=3600)
        if p.returncode != 0:
            raise RuntimeError(f"driver failed: {p.stderr.decode()[:500]}")
        lines = p.stdout.decode().splitlines()
        if len(lines) != len(requests):
            raise RuntimeError(f"driver answered {len(lines)} lines for {len(requests)} requests; stderr={p.stderr.decode()[:300]}")
        return [json.loads(l) for l in lines]


# --------------------------------------------------------------------------- misc

def seed_rng(*parts):
    h = hashlib.sha256(("/".join(str(p) for p in parts)).encode()).digest()
    return random.Random(int.from_bytes(h[:8], "big"))


def jdump(x):
    return json.dumps(x, sort_keys=True, default=str)
