"""
Check engine: verdict logic shared by every property (DESIGN.md §2.5).

stage A  lake build of the property's Lean module + axiom/grep audit     (proof obligations)
stage B  correspondence: implementation vs. Lean model on corpus + generated inputs
stage C  property monitors: executable Python statements of the property on every
         implementation output of stage B

A failing monitor on input x is a VIOLATION with x as replay. A broken proof obligation or a
correspondence disagreement is not by itself a violation: the engine then searches (monitors on a
larger budget of inputs); with no hit it still reports the violation, names the theorem or the
correspondence operation in the replay file and ends the line with no-failing-input-found.
"""
import os, sys, json, time, re, subprocess, importlib, traceback, multiprocessing as mp
from . import common
from .common import VERIF, LEAN_DIR, jdump

# VERIF_OUT redirects the evidence / work directories (used by tools/mutation_run.py to run several changed trees side
# by side); the registered checks never set it
_OUT = os.environ.get("VERIF_OUT")
EVID_DIR = os.path.join(_OUT, "evidence") if _OUT else os.path.join(VERIF, "evidence")
WORK_DIR = os.path.join(_OUT, "work") if _OUT else os.path.join(VERIF, "work")
ALLOWED_AXIOMS = {"propext", "Classical.choice", "Quot.sound"}
FORBIDDEN = re.compile(r"\b(sorry|admit|native_decide|bv_decide|implemented_by)\b|^\s*axiom\s|\bunsafe\s|maxHeartbeats\s+0")

BASE_TRUSTED = [
    "Lean 4.33 kernel (thorough tier: also leanchecker)",
    "axioms: propext, Classical.choice, Quot.sound only (audited by #print axioms on every property theorem; no native_decide, no bv_decide, no sorry)",
    "Lean compiler/runtime for the model driver (executable run of the same definitions the theorems are about)",
    "hand-written model fidelity as far as the correspondence check samples it",
    "harness encoders/canonicaliser; CPython, fractions.Fraction, pydantic dataclasses",
]


def ncpu():
    if os.environ.get("VERIF_NCPU"):
        return max(1, int(os.environ["VERIF_NCPU"]))
    try:
        return max(1, min(16, len(os.sched_getaffinity(0))))
    except Exception:
        return 8


# ------------------------------------------------------------------------------ stage A

def strip_comments(src):
    src = re.sub(r"/-.*?-/", "", src, flags=re.S)
    src = re.sub(r"--.*", "", src)
    return src


def lean_sources():
    out = []
    for root, _, files in os.walk(os.path.join(LEAN_DIR, "VK")):
        for f in files:
            if f.endswith(".lean"):
                out.append(os.path.join(root, f))
    return sorted(out)


def grep_audit():
    bad = []
    for path in lean_sources():
        src = strip_comments(open(path).read())
        for i, line in enumerate(src.splitlines(), 1):
            if FORBIDDEN.search(line) or re.search(r"\bpartial\s+def\b", line):
                bad.append(f"{os.path.relpath(path, LEAN_DIR)}:{i}: {line.strip()[:120]}")
    return bad


def stage_a(prop, module, theorems, log):
    """returns dict(ok, obligations, discharged, failures[], axioms{}, build_s)"""
    t0 = time.time()
    res = {"ok": True, "obligations": len(theorems), "discharged": 0, "failures": [], "axioms": {}}
    # regenerate the arithmetic kernels from /repo's current source (DESIGN.md §2.4); VK.Props.Kernels proves them
    # equal to the model's definitions, so a changed kernel breaks the build below
    k = subprocess.run([sys.executable, os.path.join(VERIF, "tools", "extract_kernels.py")], stdout=subprocess.PIPE,
                       stderr=subprocess.STDOUT, timeout=120)
    res["kernel_extraction"] = {0: "regenerated from the current source (or unchanged)",
                                3: "fell back to the committed kernels: "}.get(k.returncode, f"exit {k.returncode}: ") \
        + (k.stdout.decode(errors="replace").strip()[-300:] if k.returncode != 0 else "")
    p = subprocess.run(["lake", "build", module, "driver"], cwd=LEAN_DIR, stdout=subprocess.PIPE,
                       stderr=subprocess.STDOUT, timeout=3000)
    res["build_s"] = round(time.time() - t0, 1)
    out = p.stdout.decode(errors="replace")
    if p.returncode != 0:
        res["ok"] = False
        res["failures"].append({"kind": "build", "detail": out[-3000:]})
        return res
    bad = grep_audit()
    if bad:
        res["ok"] = False
        res["failures"].append({"kind": "forbidden-construct", "detail": bad})
    # axiom audit
    os.makedirs(WORK_DIR, exist_ok=True)
    audit = os.path.join(WORK_DIR, f"Audit_{prop}.lean")
    with open(audit, "w") as f:
        f.write(f"import {module}\n")
        for t in theorems:
            f.write(f"#print axioms {t}\n")
    p = subprocess.run(["lake", "env", "lean", audit], cwd=LEAN_DIR, stdout=subprocess.PIPE,
                       stderr=subprocess.STDOUT, timeout=1800)
    out = p.stdout.decode(errors="replace")
    if p.returncode != 0:
        res["ok"] = False
        res["failures"].append({"kind": "audit", "detail": out[-3000:]})
        return res
    # parse: "'name' depends on axioms: [a, b]" / "'name' does not depend on any axioms"
    flat = re.sub(r"\s+", " ", out)
    for t in theorems:
        m = re.search(r"'" + re.escape(t) + r"' (does not depend on any axioms|depends on axioms: \[([^\]]*)\])", flat)
        if not m:
            res["ok"] = False
            res["failures"].append({"kind": "audit-missing", "detail": t})
            continue
        axs = set() if m.group(2) is None else {a.strip() for a in m.group(2).split(",") if a.strip()}
        res["axioms"][t] = sorted(axs)
        if axs - ALLOWED_AXIOMS:
            res["ok"] = False
            res["failures"].append({"kind": "axiom", "detail": f"{t}: {sorted(axs - ALLOWED_AXIOMS)}"})
        else:
            res["discharged"] += 1
    return res


def leanchecker(modules):
    p = subprocess.run(["lake", "env", "leanchecker"] + modules, cwd=LEAN_DIR, stdout=subprocess.PIPE,
                       stderr=subprocess.STDOUT, timeout=3000)
    return p.returncode == 0, p.stdout.decode(errors="replace")[-2000:]


# ------------------------------------------------------------------------------ stage B/C workers

def _worker(args):
    modname, tier, seed, shard, nshards, phase = args
    try:
        vk = common.import_votekit()
        mod = importlib.import_module(modname)
        rng = common.seed_rng("verif", mod.PROP, tier, seed, shard, phase)
        out = []
        for case in mod.cases(rng, tier, shard, nshards, phase):
            try:
                r = mod.run_case(vk, case)
            except Exception as e:
                # The harness could not interpret what the implementation returned for this case (an unexpected type,
                # a missing attribute, an undeclared name ...). On the unchanged tree this does not happen (every check is
                # soaked over many seeds before it is registered); on a changed tree it means the observable output no
                # longer has the shape the property talks about, so it is reported as a violation with the case as
                # replay instead of ending the run without a verdict. VERIF_STRICT_HARNESS=1 restores the old behaviour.
                if os.environ.get("VERIF_STRICT_HARNESS"):
                    return {"error": f"harness exception in {modname}: {traceback.format_exc()[-1500:]} case={jdump(case)[:800]}"}
                r = {"req": None, "expect": None, "tags": ["uninterpretable-output"], "nontrivial": False,
                     "monitors": [{"name": "uninterpretable-output",
                                   "detail": traceback.format_exc()[-700:],
                                   "failure": {"rule": str(case.get("rule", case.get("op", case.get("stream", "")))),
                                               "kind": "uninterpretable-output", "cause": "harness-could-not-read-the-result"}}]}
            if r is not None:
                r["case"] = case
                out.append(r)
        return {"results": out}
    except SystemExit as e:
        return {"error": f"worker exit {e.code}"}
    except Exception:
        return {"error": traceback.format_exc()[-2000:]}


def run_phase(modname, tier, seed, phase, nshards=None):
    nshards = nshards or ncpu()
    args = [(modname, tier, seed, s, nshards, phase) for s in range(nshards)]
    ctx = mp.get_context("fork")
    with ctx.Pool(nshards) as pool:
        outs = pool.map(_worker, args, chunksize=1)
    results = []
    for o in outs:
        if "error" in o:
            raise RuntimeError(o["error"])
        results.extend(o["results"])
    return results


def load_known():
    path = os.path.join(VERIF, "known_findings.json")
    if not os.path.exists(path):
        return []
    return json.load(open(path))["findings"]


def match_known(known, prop, failure, any_prop=False):
    """failure: dict(rule, kind, cause). Match an *open* entry by cause, never by property alone."""
    for k in known:
        if k.get("status") != "open" or not (any_prop or prop in k.get("properties", [k.get("property")])):
            continue
        m = k["match"]
        if all(failure.get(key) == val for key, val in m.items()):
            return k
    return None


def write_replay(prop, name, payload):
    os.makedirs(os.path.join(WORK_DIR, "replay"), exist_ok=True)
    path = os.path.join(WORK_DIR, "replay", f"{prop}_{name}.json")
    with open(path, "w") as f:
        json.dump(payload, f, indent=1, default=str, sort_keys=True)
    return path


def default_compare(model, expect):
    return None if model == expect else "model != implementation"


def run_check(modname, tier, seed, replay=None):
    t0 = time.time()
    mod = importlib.import_module(modname)
    prop = mod.PROP
    os.makedirs(EVID_DIR, exist_ok=True)
    known = load_known()
    lines = []          # stdout lines (VIOLATION / KNOWN-FINDING)
    violations = 0

    # ---- stage A
    if os.environ.get("VERIF_SKIP_STAGE_A"):
        # mutation sweeps only (tools/mutation_run.py): correspondence and monitors alone, no verdict is registered
        sa = {"ok": True, "obligations": len(mod.THEOREMS), "discharged": 0, "failures": [], "axioms": {},
              "kernel_extraction": "skipped (VERIF_SKIP_STAGE_A)", "build_s": 0}
    else:
        sa = stage_a(prop, mod.LEAN_MODULE, mod.THEOREMS, lines)
    proof_broken = not sa["ok"]
    lc = None
    if tier == "thorough" and sa["ok"]:
        ok, out = leanchecker([mod.LEAN_MODULE])
        lc = {"ok": ok, "tail": out[-400:]}
        if not ok:
            proof_broken = True
            sa["failures"].append({"kind": "leanchecker", "detail": out})

    # ---- stage B + C
    phases = ["corpus", "main"]
    results = []
    for ph in phases:
        results.extend(run_phase(modname, tier, seed, ph))
    drv = common.Driver()
    reqs = [r["req"] for r in results if r.get("req") is not None]
    answers = drv.run(reqs)
    ai = iter(answers)
    disagreements = []
    monitor_fail = []
    tags = {}
    distinct = set()
    compare = getattr(mod, "compare", default_compare)
    for r in results:
        for t in r.get("tags", []):
            tags[t] = tags.get(t, 0) + 1
        if r.get("nontrivial", True):
            distinct.add(jdump(r["case"]))
        if r.get("req") is not None:
            a = next(ai)
            if "error" in a:
                raise RuntimeError(f"driver error {a['error']} on {jdump(r['req'])[:500]}")
            d = compare(a, r["expect"])
            if d is not None:
                disagreements.append({"case": r["case"], "req": r["req"], "model": a, "impl": r["expect"], "diff": d,
                                      "failure": r.get("failure")})
        for mfail in r.get("monitors", []):
            monitor_fail.append({"case": r["case"], "monitor": mfail, "impl": r.get("expect")})

    global_info = None
    if hasattr(mod, "global_checks"):
        gfails, global_info = mod.global_checks(tier, seed)
        monitor_fail.extend(gfails)

    # ---- known findings: replay committed witnesses, print the line only if it still fails
    reported_known = set()
    for mf in monitor_fail:
        k = match_known(known, prop, mf["monitor"].get("failure", {}))
        if k:
            mf["known"] = k["id"]
    for k in known:
        if k.get("status") == "open" and prop in k.get("properties", [k.get("property")]):
            hit = [mf for mf in monitor_fail if mf.get("known") == k["id"]]
            if hit:
                lines.append(f"KNOWN-FINDING: property={prop} {k['id']} {k['what']}")
                reported_known.add(k["id"])

    new_fail = [mf for mf in monitor_fail if "known" not in mf]
    if new_fail:
        # smallest case first
        new_fail.sort(key=lambda mf: len(jdump(mf["case"])))
        seen_kinds = set()
        for mf in new_fail:
            kind = jdump(mf["monitor"].get("failure", mf["monitor"].get("name")))
            if kind in seen_kinds:
                continue
            seen_kinds.add(kind)
            path = write_replay(prop, f"violation_{len(seen_kinds)}", {
                "property": prop, "kind": "failing-input", "monitor": mf["monitor"], "case": mf["case"],
                "implementation_output": mf["impl"], "seed": seed, "tier": tier,
                "replay": f"./check {prop} --replay <this file>"})
            lines.append(f"VIOLATION property={prop} replay={path}")
            violations += 1

    # disagreements explained by an open known finding (the model mirrors the repaired/intended
    # behaviour there) are not counted again
    unexplained = []
    for d in disagreements:
        f = d.get("failure")
        if f and match_known(known, prop, f, any_prop=True):
            continue   # the implementation fails here for a recorded cause; the model mirrors the intended behaviour
        unexplained.append(d)

    if os.environ.get("VERIF_DEBUG"):
        os.makedirs(WORK_DIR, exist_ok=True)
        with open(os.path.join(WORK_DIR, f"disagreements_{prop}.json"), "w") as f:
            json.dump(unexplained, f, indent=1, default=str)
    searched = 0
    if (unexplained or proof_broken) and not new_fail:
        # search for a failing input with a larger budget of monitor-only runs
        extra = []
        for ph in ["search1", "search2", "search3"]:
            extra.extend(run_phase(modname, "thorough" if tier == "thorough" else "quick", seed, ph))
        searched = len(extra)
        hits = []
        for r in extra:
            for mfail in r.get("monitors", []):
                if not match_known(known, prop, mfail.get("failure", {})):
                    hits.append({"case": r["case"], "monitor": mfail, "impl": r.get("expect")})
        if hits:
            hits.sort(key=lambda mf: len(jdump(mf["case"])))
            mf = hits[0]
            path = write_replay(prop, "violation_search", {
                "property": prop, "kind": "failing-input (found by search after a broken obligation/correspondence)",
                "monitor": mf["monitor"], "case": mf["case"], "implementation_output": mf["impl"], "seed": seed})
            lines.append(f"VIOLATION property={prop} replay={path}")
            violations += 1
        else:
            unexplained.sort(key=lambda d: len(jdump(d["case"])))
            payload = {"property": prop, "kind": "no-failing-input-found", "seed": seed, "tier": tier,
                       "searched_inputs": searched + len(results)}
            if proof_broken:
                payload["broken_obligations"] = sa["failures"]
                payload["theorems"] = mod.THEOREMS
            if unexplained:
                payload["correspondence"] = {"operation": unexplained[0]["req"].get("op"),
                                             "disagreements": len(unexplained),
                                             "smallest": unexplained[0]}
            path = write_replay(prop, "unproved", payload)
            lines.append(f"VIOLATION property={prop} replay={path} no-failing-input-found")
            violations += 1

    # ---- evidence
    wall = round(time.time() - t0, 1)
    samples = [r["case"] for r in results[:: max(1, len(results) // 3)][:3]]
    cov = {
        "obligations": sa["obligations"],
        "discharged": sa["discharged"],
        "checker_cmd": f"cd lean && lake build {mod.LEAN_MODULE} && lake env lean work/Audit_{prop}.lean  (#print axioms on every theorem)"
                       + (" && lake env leanchecker " + mod.LEAN_MODULE if tier == "thorough" else ""),
        "trusted_base": BASE_TRUSTED + getattr(mod, "TRUSTED", []),
        "theorems": mod.THEOREMS,
        "axioms": sa["axioms"],
        "lean_build_s": sa.get("build_s"),
        "kernel_extraction": sa.get("kernel_extraction"),
        "proof_failures": sa["failures"],
        "leanchecker": lc,
        "evaluations": len(results),
        "distinct_nontrivial": len(distinct),
        "rule": mod.RULE,
        "samples": samples,
        "traces_validated_against_impl": len(reqs),
        "correspondence_disagreements": len(disagreements),
        "correspondence_disagreements_explained_by_known_findings": len(disagreements) - len(unexplained),
        "monitor_failures": len(monitor_fail),
        "monitor_failures_known": len(monitor_fail) - len(new_fail),
        "known_findings_reported": sorted(reported_known),
        "search_inputs_after_break": searched,
        "distribution": dict(sorted(tags.items())),
        "global_checks": global_info,
        "explanation": getattr(mod, "EXPLANATION", ""),
    }
    ev = {"property_id": prop, "tier": tier, "seed": seed, "level": "proof", "coverage": cov,
          "assumptions": getattr(mod, "ASSUMPTIONS", []), "wall_s": wall, "violations": violations}
    with open(os.path.join(EVID_DIR, f"{prop}.json"), "w") as f:
        json.dump(ev, f, indent=1, default=str)
    for l in lines:
        print(l)
    print(f"[{prop}] tier={tier} seed={seed} theorems={sa['discharged']}/{sa['obligations']} cases={len(results)} "
          f"model-checked={len(reqs)} disagreements={len(disagreements)} (unexplained {len(unexplained)}) "
          f"monitor-failures={len(monitor_fail)} (new {len(new_fail)}) wall={wall}s")
    return 1 if violations else 0
