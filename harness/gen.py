"""
Input generators. A *spec* is a JSON-serialisable profile in model encoding plus the candidate
names used on the implementation side:
  {"names": [...], "b": [{"r": [[0],[2,1]], "w": "3/2", "s": [[0,"1"]]}], "c": [0,1,2]}
Every random choice comes from the `random.Random` handed in, so a case replays from its seed.
"""
from fractions import Fraction
from .common import rat

# names chosen so that index, sort and hash orders differ, and so that some names are substrings of others
NAME_POOL = ["Chris", "alice", "Bob", "dave", "Erin", "zed", "Ann", "_x", "Ömer", "b b", "10", "9a", "Anna", "a", "C1", "C10"]


def gen_names(rng, n):
    return rng.sample(NAME_POOL, n)


def gen_weight(rng, kind="mixed"):
    if kind == "int":
        return Fraction(rng.randint(1, 9))
    if kind == "unit":
        return Fraction(1)
    k = rng.random()
    if k < 0.55:
        return Fraction(rng.randint(1, 9))
    if k < 0.85:
        return Fraction(rng.randint(1, 12), rng.choice([2, 3, 4]))
    return Fraction(rng.randint(1, 10 ** 6), rng.choice([999983, 7919, 104729]))


def gen_ranking(rng, n, ties=False, partial=True, full=False):
    """ranking over indices 0..n-1: list of positions (sorted index lists)"""
    k = n if (full or not partial) else rng.randint(1, n)
    order = rng.sample(range(n), k)
    if not ties:
        return [[c] for c in order]
    out = []
    i = 0
    while i < len(order):
        g = 1 if rng.random() < 0.6 else rng.randint(2, 4)
        out.append(sorted(order[i:i + g]))
        i += g
    return out


def gen_ranked_spec(rng, nmin=1, nmax=6, ties=False, partial=True, weights="mixed",
                    bmin=0, bmax=10, dup=True, n=None):
    n = n if n is not None else rng.randint(nmin, nmax)
    names = gen_names(rng, n)
    nb = rng.randint(bmin, bmax)
    if weights == "mixed":
        # tie-prone profiles (unit / small integer weights) are as common as generic ones
        weights = rng.choice(["unit", "int", "mixed", "mixed"])
    bs = []
    for _ in range(nb):
        if dup and bs and rng.random() < 0.15:
            r = [list(s) for s in rng.choice(bs)["r"]]
        else:
            r = gen_ranking(rng, n, ties=ties and rng.random() < 0.5, partial=partial)
        bs.append({"r": r, "w": rat(gen_weight(rng, weights)), "s": []})
    return {"names": names, "b": bs, "c": list(range(n))}


def gen_score(rng, L=None):
    k = rng.random()
    if L is not None and k < 0.3:
        return Fraction(L)
    if k < 0.6:
        return Fraction(rng.randint(1, 5))
    return Fraction(rng.randint(1, 20), rng.choice([2, 3, 4, 5]))


def gen_score_spec(rng, nmin=1, nmax=6, bmin=0, bmax=8, L=None, budget=None, n=None, weights="mixed"):
    """score ballots within per-candidate limit L and budget (if given)"""
    n = n if n is not None else rng.randint(nmin, nmax)
    names = gen_names(rng, n)
    bs = []
    for _ in range(rng.randint(bmin, bmax)):
        k = rng.randint(1, n)
        cs = sorted(rng.sample(range(n), k))
        sc = []
        tot = Fraction(0)
        for c in cs:
            v = gen_score(rng, L)
            if L is not None and v > L:
                v = Fraction(L)
            if budget is not None and tot + v > budget:
                v = Fraction(budget) - tot
            if v > 0:
                sc.append([c, rat(v)])
                tot += v
        if not sc:
            sc = [[cs[0], rat(min(Fraction(1), Fraction(L) if L is not None else Fraction(1),
                                  Fraction(budget) if budget is not None else Fraction(1)))]]
        bs.append({"r": [], "w": rat(gen_weight(rng, weights)), "s": sc})
    return {"names": names, "b": bs, "c": list(range(n))}


def build_ballot(vk, names, b, as_float_weight=False):
    kw = {}
    if b["r"]:
        kw["ranking"] = tuple(frozenset(names[c] for c in s) for s in b["r"])
    if b["s"]:
        kw["scores"] = {names[c]: Fraction(v) for c, v in b["s"]}
    kw["weight"] = Fraction(b["w"])
    return vk.Ballot(**kw)


def build_profile(vk, spec, declare=True):
    names = spec["names"]
    ballots = tuple(build_ballot(vk, names, b) for b in spec["b"])
    if declare:
        return vk.PreferenceProfile(ballots=ballots, candidates=tuple(names[c] for c in spec["c"]))
    return vk.PreferenceProfile(ballots=ballots)


def model_profile(spec):
    return {"b": spec["b"], "c": spec["c"]}


def spec_brief(spec):
    """compact human-readable rendering used in evidence samples and replay files"""
    return {"names": spec["names"], "ballots": [[b["r"], b["w"]] + ([b["s"]] if b["s"] else []) for b in spec["b"]]}
