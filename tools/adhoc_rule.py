"""usage: PYTHONPATH=/verif /venv/bin/python tools/adhoc_rule.py <prop> <rule> <n> [seed]
run n generated cases of one rule through implementation + model; print disagreements and monitor failures"""
import sys, importlib, json, collections
sys.path.insert(0, "/verif")
from harness import common
prop, rule, n = sys.argv[1], sys.argv[2], int(sys.argv[3])
seed = int(sys.argv[4]) if len(sys.argv) > 4 else 7
vk = common.import_votekit()
mod = importlib.import_module(f"harness.props.{prop.lower()}")
rng = common.seed_rng("adhoc", prop, rule, seed)
res = []
for _ in range(n):
    case = mod.gen_case(rng, rule)
    r = mod.run_case(vk, case); r["case"] = case; res.append(r)
drv = common.Driver()
reqs = [r["req"] for r in res if r.get("req") is not None]
ans = iter(drv.run(reqs))
tags = collections.Counter(); bad = 0
for r in res:
    tags.update(r["tags"])
    if r.get("req") is not None:
        a = next(ans)
        d = mod.compare(a, r["expect"])
        if d is not None:
            bad += 1
            if bad <= 3:
                print("DISAGREE", d, json.dumps(r["case"])[:1500]); print("  model", json.dumps(a)[:1200]); print("  impl ", json.dumps(r["expect"], default=str)[:1200])
    for m in r["monitors"]:
        tags["monitor:" + m["name"] + ":" + str(m.get("failure", {}).get("cause"))] += 1
print("disagreements", bad, "of", len(reqs))
for k, v in sorted(tags.items()):
    if not k.startswith(("n:", "ballots:")):
        print(" ", k, v)
