#!/bin/bash
# usage: tools/thorough_all.sh [seed] [props...] — runs every check's thorough tier on the unchanged tree and reports
# non-zero exits (a false alarm or a harness error) with timings
cd "$(dirname "$0")/.." || exit 2
SEED=${1:-1}; shift
PROPS=${@:-C01 C02 C03 C04 C05 C06 C07 C08 C09 C10 C11 C12 C13 C14 C15 C16 C17 C18 C19 C20}
( cd lean && lake build VK driver $(ls VK/Props/*.lean | sed "s|/|.|g; s|\.lean$||") > /dev/null 2>&1 )
BAD=0
for p in $PROPS; do
  t0=$(date +%s)
  out=$(VERIF_SEED=$SEED ./check $p thorough 2>&1); rc=$?
  t1=$(date +%s)
  echo "$p rc=$rc $((t1-t0))s $(echo "$out" | tail -1)"
  if [ $rc -ne 0 ]; then BAD=$((BAD+1)); echo "$out" | grep -v KNOWN | tail -6; mkdir -p work/thorough_$p; cp work/replay/${p}_* work/thorough_$p/ 2>/dev/null; fi
done
echo "thorough finished: $BAD alarms"
