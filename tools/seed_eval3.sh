#!/bin/bash
# usage: tools/seed_eval3.sh <id> <author-worktree> <prop> [more props...]
# Evaluates a seeded change without git stash (the stash is shared by all worktrees of a repository) and
# without touching /repo: the author's uncommitted diff is saved as patch.diff, a fresh scratch worktree of
# /repo's HEAD is created, the demonstration is run there without and with the patch, and the checks are pointed at it
# through VERIF_REPO. The scratch worktree is removed at the end.
set -u
ID=$1; SRC=$2; shift 2
OUT=/verif/seeded/$ID; mkdir -p $OUT
( cd $SRC && git diff -- src > $OUT/patch.diff )
cp $SRC/demo.py $OUT/demo.py 2>/dev/null
cp $SRC/NOTES.md $OUT/NOTES.md 2>/dev/null
WT=/tmp/wt/eval-$ID
git -C /repo worktree remove --force $WT 2>/dev/null
git -C /repo worktree add -q --detach $WT HEAD || exit 2
cp $OUT/demo.py $WT/demo.py
sed -i "s|$SRC|$WT|g" $WT/demo.py
run_demo() { ( cd $WT && OMP_NUM_THREADS=1 PYTHONPATH=$WT/src:/tmp/otstub timeout 1500 /venv/bin/python demo.py > $1 2>&1 ); echo $?; }
WO=$(run_demo $OUT/demo_without.log)
if ! git -C $WT apply $OUT/patch.diff; then echo "patch does not apply to HEAD"; git -C /repo worktree remove --force $WT; exit 2; fi
W=$(run_demo $OUT/demo_with.log)
echo "demo with change: exit $W ; without: exit $WO"
RES=""
EVBAK=$(mktemp -d /tmp/evbak.XXXX); cp /verif/evidence/*.json $EVBAK/ 2>/dev/null
for P in "$@"; do
  ( cd /verif && VERIF_REPO=$WT timeout 3000 ./check $P quick > $OUT/check_$P.log 2>&1 ); RC=$?
  V=$(grep -c '^VIOLATION' $OUT/check_$P.log)
  echo "check $P: exit $RC violations $V"; grep '^VIOLATION' $OUT/check_$P.log | head -3; tail -1 $OUT/check_$P.log
  RES="$RES $P:exit$RC:violations$V"
done
echo "$ID demo_with=$W demo_without=$WO$RES" > $OUT/result.txt
cp $EVBAK/*.json /verif/evidence/ 2>/dev/null; rm -rf $EVBAK   # evidence files must come from runs against /repo itself
git -C /repo worktree remove --force $WT
( cd /verif && python3 tools/extract_kernels.py > /dev/null )
