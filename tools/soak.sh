#!/bin/bash
# usage: tools/soak.sh <tier> <seed-from> <seed-to> [props...]   — runs the checks on the unchanged tree and reports
# every non-zero exit (a false alarm or a harness error); used to flush out rare false alarms
cd "$(dirname "$0")/.." || exit 2
TIER=$1; A=$2; B=$3; shift 3
PROPS=${@:-C01 C02 C03 C04 C05 C06 C07 C08 C09 C10 C11 C12 C13 C14 C15 C16 C17 C18 C19 C20}
( cd lean && lake build VK driver $(ls VK/Props/*.lean | sed "s|/|.|g; s|\.lean$||") > /dev/null 2>&1 )
BAD=0
for s in $(seq $A $B); do
  for p in $PROPS; do
    out=$(VERIF_SEED=$s ./check $p $TIER 2>&1); rc=$?
    if [ $rc -ne 0 ]; then BAD=$((BAD+1)); echo "ALARM seed=$s prop=$p rc=$rc"; echo "$out" | grep -v KNOWN | tail -4; cp -r work/replay work/replay_${p}_$s 2>/dev/null; fi
  done
  echo "seed $s done (alarms so far: $BAD)"
done
echo "soak finished: $BAD alarms"
