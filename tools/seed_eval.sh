#!/bin/bash
# usage: tools/seed_eval.sh <id> <worktree> <prop> [more props...]
# confirms the demonstration (fails with the change, passes without), runs the listed checks against /repo with the
# change applied, restores /repo, and stores the change under /verif/seeded/<id>/
set -u
ID=$1; WT=$2; shift 2
OUT=/verif/seeded/$ID; mkdir -p $OUT
( cd $WT && git diff -- src > $OUT/patch.diff )
cp $WT/demo.py $OUT/demo.py 2>/dev/null
cp $WT/NOTES.md $OUT/NOTES.md 2>/dev/null
# demo with the change
( cd $WT && PYTHONPATH=$WT/src:/tmp/otstub timeout 600 /venv/bin/python demo.py > $OUT/demo_with.log 2>&1 ); W=$?
( cd $WT && git stash -q && PYTHONPATH=$WT/src:/tmp/otstub timeout 600 /venv/bin/python demo.py > $OUT/demo_without.log 2>&1; echo $? > /tmp/seed_rc; git stash pop -q ); WO=$(cat /tmp/seed_rc)
echo "demo with change: exit $W ; without: exit $WO"
RES=""
if git -C /repo apply --check $OUT/patch.diff 2>/dev/null; then
  git -C /repo apply $OUT/patch.diff
  for P in "$@"; do
    ( cd /verif && timeout 3000 ./check $P quick > $OUT/check_$P.log 2>&1 ); RC=$?
    V=$(grep -c '^VIOLATION' $OUT/check_$P.log)
    echo "check $P: exit $RC violations $V"; tail -1 $OUT/check_$P.log
    RES="$RES $P:exit$RC:violations$V"
  done
  git -C /repo checkout -- .
else
  echo "patch does not apply to /repo"
fi
echo "$ID demo_with=$W demo_without=$WO$RES" > $OUT/result.txt
git -C /repo status --short | head -3
