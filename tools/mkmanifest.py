#!/usr/bin/env python3
"""Regenerates /verif/MANIFEST.json from the table below (keeps it valid at all times)."""
import json, os
HERE = os.path.dirname(os.path.dirname(os.path.abspath(__file__)))
ids = [json.loads(l)["id"] for l in open(os.path.join(HERE, "properties.jsonl"))]

CLAIMED = {
 "C01": dict(
   text="Lean theorems (kernel-checked, unbounded in profile size, seats and oracle). STV family (every quota, transfer rule, simultaneous / one-by-one, tiebreak, every oracle value): one step of the count keeps the invariant 'hopeful, elected-so-far and eliminated-so-far partition the candidates; the seat counter equals the number of recorded winners; the recorded remaining groups are the hopeful candidates' (stvStep_inv), hence a finished STV / IRV / SequentialRCV count has elected EXACTLY m candidates (one for IRV) and at EVERY recorded round remaining / elected-up-to / eliminated-up-to list each candidate exactly once (C01_stv_exactly_m_and_partition, Good_suffix, C01_stv_round_lists_disjoint); status monotonicity is the append-only form of the cumulative lists. TERMINATION (C01_stv_terminates): for profiles of untied ranked ballots over declared candidates no configuration and no oracle value makes the count run out of fuel - every successful round removes a hopeful candidate (stvStep_decreases) and no callee of a step can answer outOfFuel (noFuel_stvStep) - so a count ends within #candidates+1 rounds with a result or an exception. Single-round rules (Plurality, SNTV, Borda - the body shared with the score rules): exactly m winners, nobody eliminated, elected ++ remaining a permutation of the candidates, and with no tiebreak requested a finished election means the seat boundary falls between two equal-score groups (an unbroken boundary tie cannot return a result). The model is tied to /repo on every run by a correspondence check over all 18 rule classes (complete election_states or exception class, oracle = recorded tiebreaks + wrapped random primitives) and model-independent monitors (winner count, partition, monotone status, ValueError legitimacy via a reference count, 4 s non-termination alarm).",
   note="Trusted: Lean kernel + propext/Classical.choice/Quot.sound; hand-written model as far as the correspondence samples it; random primitives as oracle. NOT yet theorems: the composites (TopTwo, Alaska), DominatingSets/CondoBorda, the dictator rules and PluralityVeto (monitored on the implementation; PluralityVeto only there). Seven open known findings (F-C01-a,b,c,d,f,g,h) are reported as KNOWN-FINDING.",
   ref="DESIGN.md §4 C01, §5, §9"),
 "C04": dict(
   text="Lean theorems (all profiles, vectors, weights): every ballot hands out exactly the vector total (exact division), scores are the weight-summed declarative points over the original ballots. Correspondence on the four scoring utilities and Plurality/SNTV/Borda; monitors: point total, independent reference scoring, top-m.",
   note="Trusted: Lean kernel + standard axioms; model fidelity as sampled; float vector entries taken at exact binary value.",
   ref="DESIGN.md §4 C04"),

 "C02": dict(
   text="Lean theorems: the threshold is the documented Droop/Hare function of the initial total (with the defining Droop inequalities) and is the value every step of a run uses. Correspondence: every round (threshold, elected, eliminated, remaining order, tallies, tiebreak record) of STV/IRV/SequentialRCV against the Lean model; monitor: an independent textbook reference count compared round by round, engineered tallies exactly at and 1/10^6 below the threshold.",
   note="Trusted: Lean kernel + standard axioms; pointwise count state vs. the code's physical deletion/condensing (observational equality checked per round); int() as floor; random.sample as oracle.",
   ref="DESIGN.md §4 C02"),
 "C03": dict(
   text="Lean theorems. (a) fractional_transfer on arbitrary ballot lists: no output mentions the winner, every output ranking is an input ranking with the winner erased, each continuing ranking carries exactly (t-q)/t of the winner-led weight plus the full weight of the other ballots mapping to it, transfer value in [0,1), a ballot loses at most q. (b) Round accounting of the STV count model, for every profile, quota, mode, tiebreak and oracle: one fractional surplus transfer lowers the active weight (= total of the profile the code holds) by exactly the threshold and touches no other ballot; all transfers of a round lower it by threshold x number elected; shrinking the hopeful set loses exactly the ballots left with no surviving choice; hence in every step either the remaining candidates fill the seats (profile empty) or new total + exhausted weight = old total - threshold x #elected, an elimination consuming nothing (C03_step_accounting); the recorded tallies add up to that total; the total never increases (non-negative weights); SequentialRCV's full-weight transfer changes no weight. Correspondence on direct calls of both transfer functions (oracle = the logged random.sample result) and on full STV runs; monitors: sub-collection/size/population of the random rule, per-round accounting against reference weights.",
   note="Trusted: Lean kernel + standard axioms; random.sample's law (sequential uniform picks) is assumed; the harness checks the population and size it is called with. PARTIAL: the random rule's accounting (whole ballots, size tally-threshold, sub-collection) is validated per call against the oracle and monitored, not a theorem; equal inclusion probability is the assumed law of random.sample. Open finding F-C01-c (sample larger than transferable ballots).",
   ref="DESIGN.md §4 C03, §9"),
 "C05": dict(
   text="Lean theorems: a ballot passes the validator iff it has scores all within [0,L] and within the budget (inclusive boundaries); a profile with an invalid ballot is rejected with TypeError whatever else it contains; an all-valid profile runs the score-then-elect computation; totals are sum of weight x score; subclass parameterisation. Correspondence over the six classes with ballots violating exactly one limit by 1/10^6 or grossly at first/middle/last position; monitors: accept-iff, totals, top-m, boundary-tie ValueError.",
   note="Trusted: Lean kernel + standard axioms; pydantic score conversion.",
   ref="DESIGN.md §4 C05"),
 "C11": dict(
   text="Lean theorems (all ballot lists): condensing yields pairwise distinct contents, keeps every content's weight and the total, is permutation-invariant as a weight map and idempotent; profile equality iff equal weight maps; addition adds weight maps; duplicate candidate lists rejected. Correspondence on condense/==/+/derived fields over mixed ranked/scored/empty ballots in permuted orders; Python-side monitors (labelled tests) for immutability and float->Fraction conversion.",
   note="Trusted: Lean kernel + standard axioms; pydantic frozen=True and Fraction.limit_denominator are observed, not proved. Repaired defect F-C11 (fix: commit a91f9f8).",
   ref="DESIGN.md §4 C11"),
 "C12": dict(
   text="Lean theorems: removed candidates absent; output rankings are the inputs filtered in place; weight of every resulting content = summed weight of the inputs mapping to it (condensed or not); weight lost = weight of ballots that end up empty; add_missing appends exactly the unlisted candidates; tie expansion yields prod(k_i!) equal-weight ballots adding up to the original. Correspondence on remove_cand (3 input kinds x flags), add_missing_cands, expand/resolve ties and the three cleaning functions; monitors recompute weight maps and first-place/Borda totals independently.",
   note="Trusted: Lean kernel + standard axioms; itertools.groupby/permutations modelled by own enumeration. Open finding F-C12.",
   ref="DESIGN.md §4 C12"),

 "C13": dict(
   text="In the Lean model IRV, SNTV and SequentialRCV are STV(m=1), Plurality and STV with the full-weight transfer; theorems unfold TopTwo into Plurality(2) -> remove the others -> Plurality(1) and Alaska into Plurality(m_1) -> remove losers -> STV(m_2) renumbered. The content is the tie: the implementation's own IRV/SNTV/SequentialRCV/TopTwo/Alaska classes are compared with these definitions and, on the implementation itself, with separately constructed component elections under the same random stream; TopTwo's head-to-head winner is recomputed independently.",
   note="Trusted: Lean kernel + standard axioms; fixed random stream by seeding; component comparison for Alaska only on runs without random draws.",
   ref="DESIGN.md §4 C13"),
 "C20": dict(
   text="Lean theorems: each validator rejects iff the documented predicate holds (some ballot without ranking / with a tied position; m outside 1..n; Alaska stage sizes; negative or increasing vector <-> not(non-negative and pairwise non-increasing); rating arguments; generator and interval-combination conditions), with exact boundaries, and a rejected request is `raised e` (no state list). Correspondence + monitors on one stream per documented precondition, violated by the smallest margin and grossly, offending ballot first/middle/last, plus the accepting boundary value.",
   note="Trusted: Lean kernel + standard axioms; Python round(x, 8) evaluated by the harness. Repaired defect F-C20 (zero budget accepted; fix: commit 07ede19).",
   ref="DESIGN.md §4 C20"),

 "C09": dict(
   text="Lean theorems about the query functions of the model (pure functions of the recorded rounds): index normalisation (exactly [-len, len) accepted, negative indices address the same rounds, otherwise IndexError) for all getters, cumulative elected/eliminated as concatenations of the per-round records (hence monotone growth), ranking = elected ++ remaining ++ eliminated. Correspondence: random query histories (6-30 calls, repetition, negative and out-of-range indices) on finished elections of every rule, each answer compared with the model; monitors: recorded rounds unchanged after every call (snapshot), repeated calls repeat, profile candidates = remaining, re-scoring reproduces recorded tallies.",
   note="Trusted: Lean kernel + standard axioms; Python aliasing/purity is observed, not proved; get_profile is modelled by direct construction, the implementation's replay is compared with it. Repaired defect F-C09-a (fix: commit e2abdfa); open finding F-C09-b (PluralityVeto.get_profile).",
   ref="DESIGN.md §4 C09"),

 "C10": dict(
   text="Lean theorems (oracle = the model's random argument): every tiebreak resolution is a strict order of exactly the tied set; without a recorded tiebreak the result is the same for every oracle value; a recorded tiebreak concerns one equal-score group with >= 2 members straddling the last seat, and elected/remaining obey it; 'borda'/'first_place' resolutions are sorted by that score, the oracle deciding only among candidates still tied. Correspondence: the model consumes the recorded tiebreaks as its oracle, so an unrecorded random influence or a spurious record is a disagreement. Monitors: three seeds give identical outcomes unless a tiebreak is recorded; no random primitive is called when none is recorded; recorded sets are tied on the previous tally and obeyed.",
   note="Trusted: Lean kernel + standard axioms; only whether/on which set random.sample is called is checked here (uniformity is C17). Intentionally random rules are out of scope.",
   ref="DESIGN.md §4 C10"),

 "C06": dict(
   text="Lean theorems for every profile of untied ballots: margins antisymmetric with the listed/unlisted/both-unlisted rule (shares of two candidates add to one); the bounded frontier expansion computes exactly reachability (saturation by cardinality); tiers partition the candidates; every member of a higher tier strictly beats every member of a lower one; no tier can be split; the top tier is dominating and contained in every non-empty dominating set (Smith set); it is a single candidate iff that candidate is a Condorcet winner; DominatingSets elects it. Correspondence: pairwise_dict and dominating_tiers against the model on random and engineered (cycles, nested cycles, exact ties) profiles; monitors: direct margins, brute-force Smith set and split search, Condorcet winner, CondoBorda whole-tiers-then-Borda.",
   note="Trusted: Lean kernel + standard axioms; networkx has_path replaced by the model's own closure (proved). PARTIAL: the code computes margins by expanding short ballots into all completions (ballot_fill); that this equals the declarative share is not a theorem yet - the model's enumeration mirror h2hFill is compared with the declarative h2h on every case by the driver (fill_agrees) and both with the implementation. CondoBorda's straddling-tier choice is covered by C10's scored-tiebreak theorem plus the monitor.",
   ref="DESIGN.md §4 C06"),

 "C19": dict(
   text="Lean theorems: over the reals (Mathlib) the p-norm distance of two functions on a common finite support is symmetric, zero iff they agree, and satisfies the triangle inequality for every p >= 1 (Minkowski) and for the maximum; the executable rational shares are invariant under reordering and rescaling. Ballot graph, for every n: the node enumeration is exactly the duplicate-free sequences over 1..n of length 1..n except n-1, the edge list exactly the adjacent node pairs, adjacency is symmetric, a ballot of length n-1 is completed to a node. Correspondence: lp_dist for p in {1,2,3,4,inf} against the exact power sums (rel. 1e-9, exact zero = exact zero); BallotGraph(n) nodes and edges compared exhaustively for n = 2..6 on every run; node weights of random profiles.",
   note="Trusted: Lean kernel + standard axioms; numpy floats in lp_dist (numerical comparison); PARTIAL: the metric theorems are stated for real-valued functions on a common support and the bridge from the rational power sum lpPow (cast to the reals) to lpDist is not a theorem (the correspondence compares lp_dist with lpPow numerically); the recursive build_graph/_relabel is not re-proved: over the property's whole range n = 2..6 it is compared exhaustively with the proved specification; the node-weight total is monitored, not proved.",
   ref="DESIGN.md §4 C19"),

 "C18": dict(
   text="Lean theorems at table level (any number of rows and columns): one ballot per distinct pattern of the selected columns in column order (patterns pairwise distinct, each the pattern of some row and vice versa), weight = number of rows with the pattern, total weight = number of rows (partition lemma), the documented errors for empty data / blank id / duplicate id, Scottish first-row check. Correspondence: the harness writes real CSV files (delimiters, quoting, names with commas/quotes/spaces, id and weight columns anywhere, any subset/order of rank_cols, repeated and short rows) and real Scottish files, loads them with the implementation and gives the intended table to the model; monitors recompute pattern weights and voter sets; to_csv output is re-read with csv.reader.",
   note="Trusted: Lean kernel + standard axioms; pandas.read_csv / groupby(dropna=False) / csv module / file system are modelled by contract. PARTIAL: the Scottish parser's positive path (metadata and ballots with multiplicities) and to_csv rows are carried by correspondence + monitors, not by theorems; the summed-weight-column variant of the weight theorem is not stated. Repaired defect F-C18 (fix: commit e8e3349).",
   ref="DESIGN.md §4 C18"),

 "C15": dict(
   text="Lean theorems for every number of candidates: a normalised interval consists of the positive supports divided by their sum (sums to one, zero-support candidates set aside, entries positive); every table of the form w/Z sums to one, in particular the name-BT and slate-BT tables; the pair-sum product is permutation invariant and the code's numerator prod x_i^(m-1-i) equals the defining pairwise product prod_{i<j} x_i/(x_i+x_j) times that constant, so the normalised table is the documented one. Correspondence: interval, zero_cands, combine_preference_intervals, pdfs_by_bloc and ballot_type_pdf against the exact rational tables of the model (relative 1e-9) on the exact binary inputs; monitors evaluate the defining formulas independently.",
   note="Trusted: Lean kernel + standard axioms; float arithmetic compared with tolerance. PARTIAL: the combine theorem (each interval multiplied by its cohesion share) and the slate-BT exponent formula are definitional in the model and carried by correspondence + the independent monitor, not stated as separate theorems.",
   ref="DESIGN.md §4 C15"),

 "C17": dict(
   text="Lean theorems in Dist (finite rational distributions): a RandomDictator round elects c with probability sum_b w_b*share_b(c)/W (a tied first place split evenly) and has total mass one; a BoostedRandomDictator round with c >= 2 remaining candidates is the 1/(c-1) : 1-1/(c-1) mixture of proportional-to-squares (score^2 / sum score^2) and RandomDictator; sequential uniform picks give each of the k! orders of a tied set probability 1/k! (for every k). Correspondence: every random.choices / random.uniform / numpy.random.choice / random.sample call of the implementation is compared with what the law needs at that round (population = current profile with its weights, squares vector, branch threshold, whole tied set sampled, winner = first of the drawn order); the model's round law computed in Dist is compared with the independently evaluated closed form; complete runs against the oracle reading of the model.",
   note="Trusted: Lean kernel + standard axioms; the laws of random.choices / numpy.random.choice (categorical), random.uniform and random.sample (sequential uniform picks) are ASSUMED - the theorems are conditional on them and no frequency test is used. Multi-seat law = product of step laws on the successively reduced profiles is not stated as a theorem (the per-round argument check covers every round). Open finding F-C01-d.",
   ref="DESIGN.md §4 C17"),

 "C08": dict(
   text="Lean theorems: every positional score (hence first-place, Borda, any vector) is invariant under permuting the ballots, under merging identical ballots (condensing) and under splitting a ballot into identical ballots whose weights add up; the points a ballot hands out and the head-to-head margins are equivariant under an injective renaming of candidate indices; margins are ballot-order invariant. The model is name-free, so renaming candidates with the declared order kept is the same model input and neutrality under renaming is the correspondence holding for arbitrary names. Metamorphic runs on the implementation: rename by a random bijection into a second name pool, permute ballots, split, merge, permute the declared candidate order - every round compared after un-renaming for all deterministic rules; a fixed script replayed in fresh interpreters under 2 (quick) / 8 (thorough) PYTHONHASHSEED values must give byte-identical canonical output.",
   note="Trusted: Lean kernel + standard axioms. PARTIAL: equivariance / split-invariance of the STV family and of the multi-round composites is carried by the metamorphic runs and the correspondence, not by a theorem; hash-seed independence cannot be exhibited by a model (no hash in it) and is carried by the multi-interpreter replay only.",
   ref="DESIGN.md §4 C08"),

 "C07": dict(
   text="FULL proof for the fractional transfer rule (C07_droop_psc_fractional): for every profile, candidate subset S, k, seat count, simultaneous or one-by-one mode, tiebreak setting and oracle value - if ballots solid for S weigh at least k thresholds (Droop), every finished count of the model elects at least min(k, |S|, m) members of S; corollary C07_irv_majority. Proved by an invariant over the count (psc_step / psc_loop / psc_final): recorded tallies are the tallies of the count state; weights stay non-negative; whoever the quota test elects holds a quota (both modes); a coalition loses at most one threshold per elected member and nothing to winners outside it; elected + hopeful members never drop below min(k,|S|) because with the coalition's quotas on its hopeful members the pigeonhole puts one of them at the threshold, so none can be eliminated; every quota-filled seat consumed a threshold, so m seats cannot be filled while the coalition still holds a quota (Droop bound). The glue hypothesis hfpv (the scoring utility's initial first-place tallies are the initial count state's tallies) is itself a theorem for profiles of untied ranked ballots over declared candidates (fpv_link), so C07_droop_psc is unconditional for such profiles; the driver still evaluates the identity on every correspondence case. The random transfer rule is NOT covered by the theorem: it is decided on the implementation by the monitor (all candidate subsets S of every finished run, coalitions planted at exactly k*threshold and 1/10^6 below) and tied to the model by the per-round correspondence of C02.",
   note="Trusted: Lean kernel + standard axioms; model fidelity as sampled (same per-round correspondence as C02); random.sample as oracle. PARTIAL: random_transfer (whole-ballot transfers) has no theorem - the coalition-weight lemma is proved for the fractional rule only.",
   ref="DESIGN.md §4 C07, §9"),
}
TECH = "Lean 4 kernel-checked theorems over a hand-written executable model + differential correspondence check of the model against /repo/src + independent Python monitors"

checks = []
for pid in ids:
    if pid in CLAIMED:
        c = CLAIMED[pid]
        checks.append({
            "property_id": pid,
            "quick_cmd": f"./check {pid} quick",
            "thorough_cmd": f"./check {pid} thorough",
            "evidence_file": f"evidence/{pid}.json",
            "replay_cmd_template": f"./check {pid} --replay {{path}}",
            "engine": "lean-model+correspondence",
            "level_claimed": {"category": "proof", "text": c["text"], "design_ref": c["ref"]},
            "level_note": c["note"],
            "technique": TECH,
        })
m = {
 "version": 1,
 "setup_cmd": "cd lean && lake build VK driver && lake build $(ls VK/Props/*.lean | sed 's|/|.|g; s|\\.lean$||')",
 "hooks": {"guard": "VOTEKIT_VERIF", "enable": "no source hooks are needed: the harness imports /repo/src in a fresh interpreter and wraps random / numpy.random from outside; the guard name is declared but unused",
           "baseline_off_cmd": "cd /repo && /venv/bin/python -m pytest -ra -q -p no:cacheprovider --timeout=900 --continue-on-collection-errors",
           "source_commits": [], "add_only": True},
 "engines": [{"name": "lean-model+correspondence", "path": "lean/ (Lean 4 project VK: Model, Lemmas, Props, Driver) + harness/ (Python)",
              "serves_properties": sorted(CLAIMED), "kind_free_text": "machine-checked proof in Lean 4 about a hand-written executable model; the model is tied to the source by a differential correspondence check run on every invocation"}],
 "checks": checks,
 "notes": "Fix commits in /repo: see known_findings.json (status fixed). Open findings are printed as KNOWN-FINDING lines.",
 "not_applicable": [{"property_id": i, "reason": "check not built yet (work in progress; the plan is in DESIGN.md §4)"} for i in ids if i not in CLAIMED],
}
json.dump(m, open(os.path.join(HERE, "MANIFEST.json"), "w"), indent=1)
print("claimed:", sorted(CLAIMED))
