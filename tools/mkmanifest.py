#!/usr/bin/env python3
"""Regenerates /verif/MANIFEST.json from the table below (keeps it valid at all times)."""
import json, os
HERE = os.path.dirname(os.path.dirname(os.path.abspath(__file__)))
ids = [json.loads(l)["id"] for l in open(os.path.join(HERE, "properties.jsonl"))]

CLAIMED = {
 "C01": dict(
   text="Lean theorems about the executable model of every rule (kernel-checked, unbounded in profile size, seats and oracle): see evidence.theorems. The model is tied to /repo on every run by a correspondence check over all 18 rule classes (complete election_states or exception class, oracle = recorded tiebreaks + wrapped random primitives) and model-independent monitors (winner count, partition, monotone status, ValueError legitimacy via a reference count, 4 s non-termination alarm).",
   note="Trusted: Lean kernel + propext/Classical.choice/Quot.sound; hand-written model as far as the correspondence samples it; random primitives as oracle; PluralityVeto monitored on the implementation only. Seven open known findings (F-C01-a,b,c,d,f,g,h) are reported as KNOWN-FINDING.",
   ref="DESIGN.md §4 C01, §5"),
 "C04": dict(
   text="Lean theorems (all profiles, vectors, weights): every ballot hands out exactly the vector total (exact division), scores are the weight-summed declarative points over the original ballots. Correspondence on the four scoring utilities and Plurality/SNTV/Borda; monitors: point total, independent reference scoring, top-m.",
   note="Trusted: Lean kernel + standard axioms; model fidelity as sampled; float vector entries taken at exact binary value.",
   ref="DESIGN.md §4 C04"),
}
TECH = "Lean 4 kernel-checked theorems over a hand-written executable model + differential correspondence check of the model against /repo/src + independent Python monitors"

checks = []
for pid in ids:
    if pid in CLAIMED:
        c = CLAIMED[pid]
        checks.append({
            "property_id": pid,
            "quick_cmd": f"./check {pid} quick",
            "thorough_cmd": f"./check {pid} thorough",
            "evidence_file": f"evidence/{pid}.json",
            "replay_cmd_template": f"./check {pid} --replay {{path}}",
            "engine": "lean-model+correspondence",
            "level_claimed": {"category": "proof", "text": c["text"], "design_ref": c["ref"]},
            "level_note": c["note"],
            "technique": TECH,
        })
m = {
 "version": 1,
 "setup_cmd": "cd lean && lake build VK driver",
 "hooks": {"guard": "VOTEKIT_VERIF", "enable": "no source hooks are needed: the harness imports /repo/src in a fresh interpreter and wraps random / numpy.random from outside; the guard name is declared but unused",
           "baseline_off_cmd": "cd /repo && /venv/bin/python -m pytest -ra -q -p no:cacheprovider --timeout=900 --continue-on-collection-errors",
           "source_commits": [], "add_only": True},
 "engines": [{"name": "lean-model+correspondence", "path": "lean/ (Lean 4 project VK: Model, Lemmas, Props, Driver) + harness/ (Python)",
              "serves_properties": sorted(CLAIMED), "kind_free_text": "machine-checked proof in Lean 4 about a hand-written executable model; the model is tied to the source by a differential correspondence check run on every invocation"}],
 "checks": checks,
 "notes": "Fix commits in /repo: see known_findings.json (status fixed). Open findings are printed as KNOWN-FINDING lines.",
 "not_applicable": [{"property_id": i, "reason": "check not built yet (work in progress; the plan is in DESIGN.md §4)"} for i in ids if i not in CLAIMED],
}
json.dump(m, open(os.path.join(HERE, "MANIFEST.json"), "w"), indent=1)
print("claimed:", sorted(CLAIMED))
