#!/usr/bin/env python3
"""
Mutation sweep: first-order mutants of the source files the properties are anchored in, each run through the quick
checks of the properties anchored in that file (correspondence + monitors only, stage A skipped), several mutants side
by side in scratch worktrees of /repo. Reports which mutants no check notices ("survivors") so that the checks can be
strengthened or the mutant recognised as equivalent. This is a measuring instrument for the correspondence / monitor
layer, not part of any registered check; /repo itself is never touched.

usage: tools/mutation_run.py [--max N] [--jobs J] [--seed S] [--files f1,f2] [--out DIR]
"""
import ast, os, sys, json, random, subprocess, shutil, copy, time, argparse
from concurrent.futures import ThreadPoolExecutor

VERIF = os.path.dirname(os.path.dirname(os.path.abspath(__file__)))
REPO = "/repo"

CMP_SWAP = {ast.Lt: ast.LtE, ast.LtE: ast.Lt, ast.Gt: ast.GtE, ast.GtE: ast.Gt, ast.Eq: ast.NotEq, ast.NotEq: ast.Eq}
BIN_SWAP = {ast.Add: ast.Sub, ast.Sub: ast.Add, ast.Mult: ast.Div, ast.Div: ast.Mult}


def anchors():
    """file -> properties anchored in it"""
    m = {}
    for line in open(os.path.join(VERIF, "properties.jsonl")):
        p = json.loads(line)
        for f in p["anchors"]["files"]:
            m.setdefault(f, []).append(p["id"])
    # the properties that observe every rule (winner counts, query purity) apply to every election class, whatever
    # file their statement is anchored in
    for f, ids in m.items():
        if "/elections/election_types/" in f:
            for extra in ("C09", "C01"):
                if extra not in ids:
                    ids.append(extra)
    return m


def in_docstring_or_message(node, parents):
    # skip constants inside raise / print / warnings / f-strings (messages) and docstrings
    for a in parents:
        if isinstance(a, (ast.Raise, ast.JoinedStr)):
            return True
        if isinstance(a, ast.Call) and isinstance(a.func, ast.Name) and a.func.id in ("print", "ValueError", "TypeError"):
            return True
    return False


def mutants_of(tree):
    """yield (description, mutated tree) for every single-site mutation"""
    sites = []
    parents = {}

    def walk(node, anc):
        for child in ast.iter_child_nodes(node):
            parents[child] = anc + [node]
            walk(child, anc + [node])
    walk(tree, [])
    for node in ast.walk(tree):
        anc = parents.get(node, [])
        if any(isinstance(a, (ast.Raise,)) for a in anc):
            continue
        if isinstance(node, ast.Compare) and len(node.ops) == 1 and type(node.ops[0]) in CMP_SWAP:
            sites.append((node, "cmp"))
        elif isinstance(node, ast.BinOp) and type(node.op) in BIN_SWAP:
            sites.append((node, "bin"))
        elif isinstance(node, ast.Constant) and isinstance(node.value, int) and not isinstance(node.value, bool) \
                and node.value in (0, 1, 2) and not in_docstring_or_message(node, anc):
            sites.append((node, "const"))
        elif isinstance(node, ast.BoolOp):
            sites.append((node, "bool"))
        elif isinstance(node, ast.UnaryOp) and isinstance(node.op, ast.Not):
            sites.append((node, "not"))
        elif isinstance(node, ast.Constant) and isinstance(node.value, bool):
            sites.append((node, "flag"))
    for idx, (node, kind) in enumerate(sites):
        t2 = copy.deepcopy(tree)
        # find the same node in the copy by position in walk order
        nodes2 = [n for n in ast.walk(t2)]
        nodes1 = [n for n in ast.walk(tree)]
        n2 = nodes2[nodes1.index(node)]
        line = getattr(node, "lineno", 0)
        if kind == "cmp":
            old = type(n2.ops[0]).__name__
            n2.ops = [CMP_SWAP[type(n2.ops[0])]()]
            desc = f"L{line}: {old} -> {type(n2.ops[0]).__name__}"
        elif kind == "bin":
            old = type(n2.op).__name__
            n2.op = BIN_SWAP[type(n2.op)]()
            desc = f"L{line}: {old} -> {type(n2.op).__name__}"
        elif kind == "const":
            old = n2.value
            n2.value = {0: 1, 1: 0, 2: 1}[old]
            desc = f"L{line}: const {old} -> {n2.value}"
        elif kind == "bool":
            old = type(n2.op).__name__
            n2.op = ast.Or() if isinstance(n2.op, ast.And) else ast.And()
            desc = f"L{line}: {old} -> {type(n2.op).__name__}"
        elif kind == "not":
            # replace `not x` by `x`
            par = None
            for cand in nodes2:
                for field, val in ast.iter_fields(cand):
                    if val is n2:
                        setattr(cand, field, n2.operand); par = cand
                    elif isinstance(val, list) and n2 in val:
                        val[val.index(n2)] = n2.operand; par = cand
            if par is None:
                continue
            desc = f"L{line}: dropped not"
        else:
            n2.value = not n2.value
            desc = f"L{line}: {not n2.value} -> {n2.value}"
        yield desc, t2


def run_mutant(job):
    i, relfile, desc, code, props, outdir, ncpu = job
    wt = f"/tmp/wt/mut{i}"
    subprocess.run(["git", "-C", REPO, "worktree", "remove", "--force", wt], capture_output=True)
    r = subprocess.run(["git", "-C", REPO, "worktree", "add", "-q", "--detach", wt, "HEAD"], capture_output=True)
    if r.returncode != 0:
        return {"i": i, "file": relfile, "desc": desc, "error": r.stderr.decode()[-200:]}
    res = {"i": i, "file": relfile, "desc": desc, "props": {}}
    try:
        open(os.path.join(wt, relfile), "w").write(code)
        # does the mutated module still import?
        imp = subprocess.run(["/venv/bin/python", "-c", "import sys,types; sys.modules['ot']=types.ModuleType('ot'); import votekit, votekit.elections, votekit.ballot_generator"],
                             env=dict(os.environ, PYTHONPATH=os.path.join(wt, "src")), capture_output=True, timeout=300)
        if imp.returncode != 0:
            res["verdict"] = "does-not-import"
            return res
        out = os.path.join(outdir, f"m{i}")
        os.makedirs(out, exist_ok=True)
        killed = False
        order = ["C11", "C12", "C20", "C05", "C04", "C15", "C18", "C03", "C02", "C07", "C10", "C13", "C17", "C09", "C16",
                 "C14", "C19", "C06", "C08", "C01"]
        for p in sorted(props, key=order.index):
            env = dict(os.environ, VERIF_REPO=wt, VERIF_OUT=out, VERIF_SKIP_STAGE_A="1", VERIF_NCPU=str(ncpu))
            t0 = time.time()
            try:
                c = subprocess.run([os.path.join(VERIF, "check"), p, "quick"], env=env, capture_output=True, timeout=1500)
                rc = c.returncode
            except subprocess.TimeoutExpired:
                rc = 124
            res["props"][p] = {"rc": rc, "s": round(time.time() - t0)}
            if rc == 1:
                killed = True
                break          # one check noticing is enough
            if rc != 0:
                res["verdict"] = f"no-verdict(rc={rc})"
                return res
        res["verdict"] = "killed" if killed else "survived"
        shutil.rmtree(out, ignore_errors=True)
        return res
    finally:
        subprocess.run(["git", "-C", REPO, "worktree", "remove", "--force", wt], capture_output=True)


def main():
    ap = argparse.ArgumentParser()
    ap.add_argument("--max", type=int, default=120)
    ap.add_argument("--jobs", type=int, default=6)
    ap.add_argument("--seed", type=int, default=1)
    ap.add_argument("--files", default="")
    ap.add_argument("--out", default="/tmp/mutation_out")
    a = ap.parse_args()
    rng = random.Random(a.seed)
    anc = anchors()
    files = [f for f in anc if (not a.files or any(x in f for x in a.files.split(",")))]
    allm = []
    for f in sorted(files):
        src = open(os.path.join(REPO, f)).read()
        tree = ast.parse(src)
        for desc, t2 in mutants_of(tree):
            try:
                code = ast.unparse(t2)
            except Exception:
                continue
            allm.append((f, desc, code, anc[f]))
    rng.shuffle(allm)
    chosen = allm[: a.max]
    os.makedirs(a.out, exist_ok=True)
    print(f"{len(allm)} mutants in {len(files)} files; running {len(chosen)} with {a.jobs} side by side", flush=True)
    jobs = [(i, f, d, c, p, a.out, max(2, 16 // a.jobs)) for i, (f, d, c, p) in enumerate(chosen)]
    results = []
    with ThreadPoolExecutor(a.jobs) as ex:
        for r in ex.map(run_mutant, jobs):
            results.append(r)
            print(json.dumps(r), flush=True)
    surv = [r for r in results if r.get("verdict") == "survived"]
    killed = [r for r in results if r.get("verdict") == "killed"]
    print(f"SUMMARY killed={len(killed)} survived={len(surv)} not-importable={sum(1 for r in results if r.get('verdict') == 'does-not-import')}")
    json.dump(results, open(os.path.join(a.out, "results.json"), "w"), indent=1)


if __name__ == "__main__":
    main()
