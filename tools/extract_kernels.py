#!/usr/bin/env python3
"""
Kernel extraction (DESIGN.md §2.4, §9.2): a small translator that reads arithmetic and decision kernels from
/repo's *current* source with `ast` and regenerates lean/VK/Model/Generated/<Group>.lean on every check.
VK/Props/Kernels<Group>.lean proves each generated definition equal to the corresponding definition of the
hand-written model, so a change of one of these expressions or comparisons in the source breaks a proof obligation
at `lake build`, before any sampling. Groups are separate files and separate proof modules so that a changed kernel
only reaches the properties whose theorems depend on it.

Groups and kernels
  STV       get_threshold (droop, hare) · fractional_transfer's transfer_value · the two quota tests
            (`>= self.threshold` in _simultaneous_elect_step and in _run_step) · random_transfer's sample size
  Dictator  BoostedRandomDictator's branch threshold `u <= 1/(c-1)` and its single-candidate test
  MCMC      the two acceptance probabilities of the slate-BT chain, the one of the name-BT chain
  Rating    GeneralRating._validate_profile: per-candidate limit, negative score and budget tests
  Vector    validate_score_vector: negative entry and increasing entry tests
  Veto      PluralityVeto._run_step: the strike test, the zero-tally test of round 1, the decrement, the final-round test
  Fill      ballot_fill's share of one completion
  Expand    expand_tied_ballot's share of one ordering of a tied group

Accepted expression subset: integer constants, names / attributes listed in the kernel's environment, + - * /,
len(x), int(x) (floor), Fraction(n), math.factorial(len(x)), unary minus, min(a, b), comparisons
(< <= > >= == !=), `a if x <cmp> y else b`, and subscripts through a kernel-specific map.
If a group cannot be located or translated its previous file is kept and the reason is printed (exit code 3): the
correspondence check then carries those kernels alone.
"""
import ast, os, sys

REPO = os.environ.get("VERIF_REPO", "/repo")
HERE = os.path.dirname(os.path.dirname(os.path.abspath(__file__)))
OUTDIR = os.path.join(HERE, "lean", "VK", "Model", "Generated")

CMP = {ast.Gt: ">", ast.Lt: "<", ast.GtE: "≥", ast.LtE: "≤", ast.Eq: "=", ast.NotEq: "≠"}


class Untranslatable(Exception):
    pass


def tr(node, env):
    """Python expression -> Lean term over Rat"""
    if isinstance(node, ast.Constant) and isinstance(node.value, int) and not isinstance(node.value, bool):
        return f"({node.value} : Rat)"
    if isinstance(node, ast.Name) and node.id in env:
        return env[node.id]
    if isinstance(node, ast.Attribute) and isinstance(node.value, ast.Name) and (node.value.id + "." + node.attr) in env:
        return env[node.value.id + "." + node.attr]
    if isinstance(node, ast.Call):
        fn = node.func
        if isinstance(fn, ast.Name) and fn.id == "len" and len(node.args) == 1 \
                and isinstance(node.args[0], ast.Name) and ("len:" + node.args[0].id) in env:
            return env["len:" + node.args[0].id]
        if isinstance(fn, ast.Name) and fn.id == "min" and len(node.args) == 2:
            return f"(rmin2 {tr(node.args[0], env)} {tr(node.args[1], env)})"
        if isinstance(fn, ast.Name) and fn.id == "int" and len(node.args) == 1:
            return f"((({tr(node.args[0], env)}).floor : Int) : Rat)"
        if isinstance(fn, ast.Name) and fn.id == "Fraction" and len(node.args) == 1 \
                and isinstance(node.args[0], ast.Constant) and isinstance(node.args[0].value, int):
            return f"({node.args[0].value} : Rat)"
        if isinstance(fn, ast.Attribute) and isinstance(fn.value, ast.Name) and fn.value.id == "math" \
                and fn.attr == "factorial" and len(node.args) == 1 and isinstance(node.args[0], ast.Call) \
                and isinstance(node.args[0].func, ast.Name) and node.args[0].func.id == "len" \
                and isinstance(node.args[0].args[0], ast.Name) and ("len:" + node.args[0].args[0].id) in env:
            return f"((gfact {env['lenNat:' + node.args[0].args[0].id]} : Nat) : Rat)"
        if "call" in env:
            r = env["call"](node)
            if r is not None:
                return r
    if isinstance(node, ast.IfExp) and isinstance(node.test, ast.Compare) and len(node.test.ops) == 1:
        return f"(if {trc(node.test, env, prop=True)} then {tr(node.body, env)} else {tr(node.orelse, env)})"
    if isinstance(node, ast.Subscript) and "subscript" in env:
        key = env["subscript"](node)
        if key is not None:
            return key
    if isinstance(node, ast.UnaryOp) and isinstance(node.op, ast.USub):
        return f"(-{tr(node.operand, env)})"
    if isinstance(node, ast.BinOp):
        ops = {ast.Add: "+", ast.Sub: "-", ast.Mult: "*", ast.Div: "/"}
        for k, v in ops.items():
            if isinstance(node.op, k):
                return f"({tr(node.left, env)} {v} {tr(node.right, env)})"
    raise Untranslatable(ast.dump(node)[:120])


def trc(node, env, prop=False):
    """comparison -> Lean Bool (`decide (...)`) or Prop"""
    if not (isinstance(node, ast.Compare) and len(node.ops) == 1 and len(node.comparators) == 1):
        raise Untranslatable("comparison expected: " + ast.dump(node)[:100])
    for k, v in CMP.items():
        if isinstance(node.ops[0], k):
            body = f"{tr(node.left, env)} {v} {tr(node.comparators[0], env)}"
            return body if prop else f"decide ({body})"
    raise Untranslatable("comparison operator: " + ast.dump(node.ops[0]))


def find_func(tree, cls, name):
    for n in ast.walk(tree):
        if isinstance(n, ast.ClassDef) and (cls is None or n.name == cls):
            for f in n.body:
                if isinstance(f, ast.FunctionDef) and f.name == name:
                    return f
    if cls is None:
        for n in ast.walk(tree):
            if isinstance(n, ast.FunctionDef) and n.name == name:
                return n
    raise Untranslatable(f"function {cls}.{name} not found")


def compares(func, pred):
    out = [n for n in ast.walk(func) if isinstance(n, ast.Compare) and len(n.ops) == 1 and pred(n)]
    out.sort(key=lambda n: (n.lineno, n.col_offset))
    return out


def is_attr(node, obj, attr):
    return isinstance(node, ast.Attribute) and isinstance(node.value, ast.Name) and node.value.id == obj and node.attr == attr


def is_const(node, v):
    return isinstance(node, ast.Constant) and node.value == v and not isinstance(node.value, bool)


def one(lst, what):
    if len(lst) != 1:
        raise Untranslatable(f"expected exactly one {what}, found {len(lst)}")
    return lst[0]


def parse(rel):
    return ast.parse(open(os.path.join(REPO, "src", "votekit", rel)).read())


def quota_returns(func):
    out = {}
    for n in ast.walk(func):
        if isinstance(n, ast.If) and isinstance(n.test, ast.Compare) and len(n.test.comparators) == 1 \
                and isinstance(n.test.comparators[0], ast.Constant) and isinstance(n.test.comparators[0].value, str):
            q = n.test.comparators[0].value
            for s in n.body:
                if isinstance(s, ast.Return) and isinstance(s.value, ast.Call) and isinstance(s.value.func, ast.Name) \
                        and s.value.func.id == "int" and len(s.value.args) == 1:
                    out[q] = s.value.args[0]
    return out


def src(node):
    return " ".join(ast.unparse(node).split())


# ----------------------------------------------------------------------------------------------- groups

def g_stv():
    stv = parse("elections/election_types/ranking/stv.py")
    rets = quota_returns(find_func(stv, "STV", "get_threshold"))
    env_q = {"total_ballot_wt": "N", "self.m": "(m : Rat)"}
    droop, hare = tr(rets["droop"], env_q), tr(rets["hare"], env_q)
    trf = parse("elections/transfers.py")
    ft = find_func(trf, None, "fractional_transfer")
    tv = one([n.value for n in ast.walk(ft) if isinstance(n, ast.Assign) and len(n.targets) == 1
              and isinstance(n.targets[0], ast.Name) and n.targets[0].id == "transfer_value"], "transfer_value assignment")
    tvs = tr(tv, {"fpv": "fpv", "threshold": "(threshold : Rat)"})
    env_t = {"self.threshold": "(threshold : Rat)", "score": "score", "subscript": lambda n: "score"}
    q1 = one(compares(find_func(stv, "STV", "_simultaneous_elect_step"), lambda n: is_attr(n.comparators[0], "self", "threshold")),
             "comparison with self.threshold in _simultaneous_elect_step")
    q2 = one(compares(find_func(stv, "STV", "_run_step"), lambda n: is_attr(n.comparators[0], "self", "threshold")),
             "comparison with self.threshold in _run_step")
    rt = find_func(trf, None, "random_transfer")
    smp = one([n for n in ast.walk(rt) if isinstance(n, ast.Call) and isinstance(n.func, ast.Attribute)
               and n.func.attr == "sample" and len(n.args) == 2], "random.sample(population, k) call")
    size = tr(smp.args[1], {"fpv": "fpv", "threshold": "(threshold : Rat)"})
    return f"""/-- `STV.get_threshold`, quota == "droop": `int({src(rets['droop'])})` -/
def thresholdDroop (m : Nat) (N : Rat) : Int := ({droop}).floor

/-- `STV.get_threshold`, quota == "hare": `int({src(rets['hare'])})` -/
def thresholdHare (m : Nat) (N : Rat) : Int := ({hare}).floor

/-- `fractional_transfer`: `transfer_value = {src(tv)}` -/
def transferValue (fpv : Rat) (threshold : Int) : Rat := {tvs}

/-- `STV._simultaneous_elect_step`: a candidate of the tally order is elected while `{src(q1)}` -/
def quotaReachedSimul (score : Rat) (threshold : Int) : Bool := {trc(q1, env_t)}

/-- `STV._run_step`: somebody is elected this round when some `{src(q2)}` -/
def quotaReachedStep (score : Rat) (threshold : Int) : Bool := {trc(q2, env_t)}

/-- `random_transfer`: `random.sample(transferable, {src(smp.args[1])})` -/
def randomSampleSize (fpv : Rat) (threshold : Int) : Rat := {size}
"""


def g_dictator():
    brd = parse("elections/election_types/ranking/boosted_random_dictator.py")
    f = find_func(brd, "BoostedRandomDictator", "_run_step")
    br = one(compares(f, lambda n: isinstance(n.left, ast.Name) and n.left.id == "u"), "comparison `u <op> ...`")
    env = {"len:remaining_cands": "(n : Rat)", "u": "u"}
    single = one(compares(f, lambda n: isinstance(n.left, ast.Call) and isinstance(n.left.func, ast.Name)
                          and n.left.func.id == "len" and isinstance(n.left.args[0], ast.Name)
                          and n.left.args[0].id == "remaining_cands" and is_const(n.comparators[0], 1)),
                 "comparison `len(remaining_cands) <op> 1`")
    return f"""/-- `BoostedRandomDictator._run_step`: the squares branch is taken when `{src(br)}` -/
def boostedBranch (n : Nat) : Rat := {tr(br.comparators[0], env)}

/-- the comparison itself: `{src(br)}` -/
def boostedTakesSquares (u : Rat) (n : Nat) : Bool := {trc(br, env)}

/-- a single remaining candidate wins outright: `{src(single)}` -/
def boostedSingle (n : Nat) : Bool := {trc(single, env)}
"""


def g_mcmc():
    bg = parse("ballot_generator.py")
    sm = find_func(bg, "slate_BradleyTerry", "_sample_ballot_types_MCMC")
    acc = [n.value for n in ast.walk(sm) if isinstance(n, ast.Assign) and len(n.targets) == 1
           and isinstance(n.targets[0], ast.Name) and n.targets[0].id == "acceptance_prob"
           and not isinstance(n.value, ast.Constant)]
    acc.sort(key=lambda v: v.lineno)
    if len(acc) != 2:
        raise Untranslatable(f"expected two non-constant acceptance_prob assignments in slate MCMC, found {len(acc)}")
    bm = find_func(bg, "name_BradleyTerry", "_BT_mcmc")
    bacc = one([n.value for n in ast.walk(bm) if isinstance(n, ast.Assign) and len(n.targets) == 1
                and isinstance(n.targets[0], ast.Name) and n.targets[0].id == "acceptance_prob"], "acceptance_prob in _BT_mcmc")

    def sub(node):
        if isinstance(node.value, ast.Name) and node.value.id == "pref_interval":
            names = {n.id for n in ast.walk(node.slice) if isinstance(n, ast.Name)}
            if "j1" in names and "j2" not in names:
                return "x1"
            if "j2" in names and "j1" not in names:
                return "x2"
        return None
    return f"""/-- Python's `min` on two numbers -/
def rmin2 (a b : Rat) : Rat := if a ≤ b then a else b

/-- `slate_BradleyTerry._sample_ballot_types_MCMC`, swap that moves the bloc's own slate down:
`{src(acc[0])}` -/
def slateAcceptDown (c : Rat) : Rat := {tr(acc[0], {"cohesion": "c"})}

/-- the swap that moves the bloc's own slate up: `{src(acc[1])}` -/
def slateAcceptUp (c : Rat) : Rat := {tr(acc[1], {"cohesion": "c"})}

/-- `name_BradleyTerry._BT_mcmc`: `{src(bacc)}` with x1 = support of the
candidate at j1 (currently above), x2 = support of the candidate at j2 -/
def btAccept (x1 x2 : Rat) : Rat := {tr(bacc, {"subscript": sub})}
"""


def g_rating():
    f = find_func(parse("elections/election_types/scores/rating.py"), "GeneralRating", "_validate_profile")
    over = one(compares(f, lambda n: is_attr(n.comparators[0], "self", "L")), "comparison with self.L")
    neg = one(compares(f, lambda n: isinstance(n.left, ast.Name) and n.left.id == "score" and is_const(n.comparators[0], 0)),
              "comparison `score <op> 0`")
    bud = one(compares(f, lambda n: is_attr(n.comparators[0], "self", "k")), "comparison with self.k")
    env = {"score": "score", "self.L": "L", "self.k": "k",
           "call": lambda n: "total" if isinstance(n.func, ast.Name) and n.func.id == "sum" else None}
    return f"""/-- `GeneralRating._validate_profile`: a ballot is refused when some `{src(over)}` -/
def overLimit (score L : Rat) : Bool := {trc(over, env)}

/-- … or some `{src(neg)}` -/
def negScore (score : Rat) : Bool := {trc(neg, env)}

/-- … or, with a budget, `{src(bud)}` -/
def overBudget (total k : Rat) : Bool := {trc(bud, env)}
"""


def g_vector():
    f = find_func(parse("utils.py"), None, "validate_score_vector")
    neg = one(compares(f, lambda n: isinstance(n.left, ast.Name) and n.left.id == "score" and is_const(n.comparators[0], 0)),
              "comparison `score <op> 0`")
    inc = one(compares(f, lambda n: isinstance(n.left, ast.Name) and n.left.id == "score" and isinstance(n.comparators[0], ast.Subscript)),
              "comparison `score <op> score_vector[i - 1]`")
    sub = inc.comparators[0]
    ok = isinstance(sub.value, ast.Name) and sub.value.id == "score_vector" and isinstance(sub.slice, ast.BinOp) \
        and isinstance(sub.slice.op, ast.Sub) and isinstance(sub.slice.left, ast.Name) and sub.slice.left.id == "i" \
        and is_const(sub.slice.right, 1)
    if not ok:
        raise Untranslatable("the increasing test does not compare with score_vector[i - 1]: " + src(inc))
    env = {"score": "score", "subscript": lambda n: "prev"}
    return f"""/-- `validate_score_vector`: rejected when some `{src(neg)}` -/
def negEntry (score : Rat) : Bool := {trc(neg, env)}

/-- … or some entry after the first has `{src(inc)}` (prev = the entry before it) -/
def increasing (prev score : Rat) : Bool := {trc(inc, env)}
"""


def g_veto():
    f = find_func(parse("elections/election_types/ranking/plurality_veto.py"), "PluralityVeto", "_run_step")
    strike = one(compares(f, lambda n: isinstance(n.left, ast.Subscript) and isinstance(n.left.value, ast.Name)
                          and n.left.value.id == "new_scores" and is_const(n.comparators[0], 0)), "comparison `new_scores[...] <op> 0`")
    zero = one(compares(f, lambda n: isinstance(n.left, ast.Name) and n.left.id == "score" and is_const(n.comparators[0], 0)),
               "comparison `score <op> 0`")
    fin = one(compares(f, lambda n: isinstance(n.left, ast.Name) and n.left.id == "remaining_count"), "comparison of remaining_count")
    dec = one([n for n in ast.walk(f) if isinstance(n, ast.AugAssign) and isinstance(n.target, ast.Subscript)
               and isinstance(n.target.value, ast.Name) and n.target.value.id == "new_scores"], "augmented assignment to new_scores[...]")
    op = {ast.Sub: "-", ast.Add: "+"}.get(type(dec.op))
    if op is None:
        raise Untranslatable("new_scores[...] is updated by " + ast.dump(dec.op))
    env = {"score": "score", "subscript": lambda n: "score", "remaining_count": "(standing : Rat)", "self.m": "(m : Rat)"}
    return f"""/-- `PluralityVeto._run_step`: the voters stop when `{src(strike)}` -/
def vetoStruck (score : Rat) : Bool := {trc(strike, env)}

/-- round 1 drops every candidate with `{src(zero)}` -/
def zeroTally (score : Rat) : Bool := {trc(zero, env)}

/-- one veto: `{src(dec)}` -/
def vetoDecrement (score : Rat) : Rat := (score {op} {tr(dec.value, env)})

/-- the last round: `{src(fin)}` -/
def vetoFinal (standing m : Nat) : Bool := {trc(fin, env)}
"""


def g_fill():
    f = find_func(parse("graphs/pairwise_comparison_graph.py"), "PairwiseComparisonGraph", "ballot_fill")
    ff = one([n.value for n in ast.walk(f) if isinstance(n, ast.Assign) and len(n.targets) == 1
              and isinstance(n.targets[0], ast.Name) and n.targets[0].id == "frac_freq"], "frac_freq assignment")
    env = {"ballot.weight": "w", "len:missing_cands_perms": "(k : Rat)"}
    return f"""/-- `ballot_fill`: every completion of a short ballot gets `frac_freq = {src(ff)}`
(k = number of completions) -/
def fillShare (w : Rat) (k : Nat) : Rat := {tr(ff, env)}
"""


def g_expand():
    f = find_func(parse("utils.py"), None, "expand_tied_ballot")
    kws = [kw.value for n in ast.walk(f) if isinstance(n, ast.Call) and isinstance(n.func, ast.Name) and n.func.id == "Ballot"
           for kw in n.keywords if kw.arg == "weight" and not (isinstance(kw.value, ast.Attribute))]
    w = one(kws, "computed weight= keyword of a Ballot(...) call")
    env = {"ballot.weight": "w", "len:s": "(k : Rat)", "lenNat:s": "k"}
    return f"""/-- Python's `math.factorial` -/
def gfact : Nat → Nat
  | 0 => 1
  | n + 1 => (n + 1) * gfact n

/-- `expand_tied_ballot`: every ordering of a tied group of k candidates gets `weight={src(w)}` -/
def expandShare (w : Rat) (k : Nat) : Rat := {tr(w, env)}
"""


GROUPS = [("STV", g_stv), ("Dictator", g_dictator), ("MCMC", g_mcmc), ("Rating", g_rating), ("Vector", g_vector),
          ("Veto", g_veto), ("Fill", g_fill), ("Expand", g_expand)]


def main():
    os.makedirs(OUTDIR, exist_ok=True)
    rc = 0
    for name, fn in GROUPS:
        out = os.path.join(OUTDIR, name + ".lean")
        try:
            body = fn()
        except (Untranslatable, KeyError, OSError, SyntaxError, IndexError, AttributeError) as e:
            print(f"kernel group {name} fell back to the committed file: {type(e).__name__}: {e}")
            rc = 3
            continue
        text = f"""/-
  GENERATED by tools/extract_kernels.py from /repo's current source — do not edit.
  int(x) on a non-negative rational is the floor (trusted: CPython's int() truncation).
-/
namespace VK.Generated

{body}
end VK.Generated
"""
        old = open(out).read() if os.path.exists(out) else None
        if old != text:
            with open(out, "w") as f:
                f.write(text)
            print(f"Generated/{name}.lean rewritten from the current source")
    return rc


if __name__ == "__main__":
    sys.exit(main())
