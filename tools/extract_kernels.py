#!/usr/bin/env python3
"""
Kernel extraction (DESIGN.md §2.4): reads seven arithmetic kernels from /repo's *current* source with
`ast` and regenerates lean/VK/Model/Generated.lean. VK/Props/Kernels.lean proves each generated
definition equal to the corresponding definition of the hand-written model, so a change of one of
these expressions in the source breaks a proof obligation at `lake build` (before any sampling).

Kernels:  STV.get_threshold (droop, hare) · fractional_transfer's transfer_value ·
          BoostedRandomDictator's branch threshold · the two acceptance probabilities of the slate-BT
          MCMC chain · the acceptance probability of the name-BT MCMC chain.
Accepted expression subset: integer constants, the names listed in ENV, + - * /, len(x), unary minus,
min(a, b), `a if x <cmp> y else b`, and pref_interval[...] lookups by the swap index they mention.
If a kernel cannot be located or translated the previous Generated.lean is kept and the reason is
printed (exit code 3): the correspondence check then carries that kernel alone.
"""
import ast, os, sys

REPO = os.environ.get("VERIF_REPO", "/repo")
HERE = os.path.dirname(os.path.dirname(os.path.abspath(__file__)))
OUT = os.path.join(HERE, "lean", "VK", "Model", "Generated.lean")


class Untranslatable(Exception):
    pass


def tr(node, env):
    if isinstance(node, ast.Constant) and isinstance(node.value, int) and not isinstance(node.value, bool):
        return f"({node.value} : Rat)"
    if isinstance(node, ast.Name) and node.id in env:
        return env[node.id]
    if isinstance(node, ast.Attribute) and isinstance(node.value, ast.Name) and node.value.id == "self" and ("self." + node.attr) in env:
        return env["self." + node.attr]
    if isinstance(node, ast.Call) and isinstance(node.func, ast.Name) and node.func.id == "len" and len(node.args) == 1 \
            and isinstance(node.args[0], ast.Name) and ("len:" + node.args[0].id) in env:
        return env["len:" + node.args[0].id]
    if isinstance(node, ast.Call) and isinstance(node.func, ast.Name) and node.func.id == "min" and len(node.args) == 2:
        return f"(rmin2 {tr(node.args[0], env)} {tr(node.args[1], env)})"
    if isinstance(node, ast.IfExp) and isinstance(node.test, ast.Compare) and len(node.test.ops) == 1:
        cmp = {ast.Gt: ">", ast.Lt: "<", ast.GtE: "≥", ast.LtE: "≤", ast.Eq: "=", ast.NotEq: "≠"}
        for k, v in cmp.items():
            if isinstance(node.test.ops[0], k):
                return (f"(if {tr(node.test.left, env)} {v} {tr(node.test.comparators[0], env)} "
                        f"then {tr(node.body, env)} else {tr(node.orelse, env)})")
    if isinstance(node, ast.Subscript) and "subscript" in env:
        key = env["subscript"](node)
        if key is not None:
            return key
    if isinstance(node, ast.UnaryOp) and isinstance(node.op, ast.USub):
        return f"(-{tr(node.operand, env)})"
    if isinstance(node, ast.BinOp):
        ops = {ast.Add: "+", ast.Sub: "-", ast.Mult: "*", ast.Div: "/"}
        for k, v in ops.items():
            if isinstance(node.op, k):
                return f"({tr(node.left, env)} {v} {tr(node.right, env)})"
    raise Untranslatable(ast.dump(node)[:120])


def find_func(tree, cls, name):
    for n in ast.walk(tree):
        if isinstance(n, ast.ClassDef) and (cls is None or n.name == cls):
            for f in n.body:
                if isinstance(f, ast.FunctionDef) and f.name == name:
                    return f
    if cls is None:
        for n in ast.walk(tree):
            if isinstance(n, ast.FunctionDef) and n.name == name:
                return n
    raise Untranslatable(f"function {cls}.{name} not found")


def quota_returns(func):
    """the `return int(<expr>)` under `if self.quota == "<name>"`"""
    out = {}
    for n in ast.walk(func):
        if isinstance(n, ast.If) and isinstance(n.test, ast.Compare) and len(n.test.comparators) == 1 \
                and isinstance(n.test.comparators[0], ast.Constant) and isinstance(n.test.comparators[0].value, str):
            q = n.test.comparators[0].value
            for s in n.body:
                if isinstance(s, ast.Return) and isinstance(s.value, ast.Call) and isinstance(s.value.func, ast.Name) \
                        and s.value.func.id == "int" and len(s.value.args) == 1:
                    out[q] = s.value.args[0]
    return out


def main():
    src = os.path.join(REPO, "src", "votekit")
    try:
        stv = ast.parse(open(os.path.join(src, "elections/election_types/ranking/stv.py")).read())
        rets = quota_returns(find_func(stv, "STV", "get_threshold"))
        env_q = {"total_ballot_wt": "N", "self.m": "(m : Rat)"}
        droop = tr(rets["droop"], env_q)
        hare = tr(rets["hare"], env_q)
        trf = ast.parse(open(os.path.join(src, "elections/transfers.py")).read())
        ft = find_func(trf, None, "fractional_transfer")
        tv = None
        for n in ast.walk(ft):
            if isinstance(n, ast.Assign) and len(n.targets) == 1 and isinstance(n.targets[0], ast.Name) and n.targets[0].id == "transfer_value":
                tv = n.value
        if tv is None:
            raise Untranslatable("transfer_value assignment not found")
        tvs = tr(tv, {"fpv": "fpv", "threshold": "(threshold : Rat)"})
        brd = ast.parse(open(os.path.join(src, "elections/election_types/ranking/boosted_random_dictator.py")).read())
        br = None
        for n in ast.walk(brd):
            if isinstance(n, ast.Compare) and isinstance(n.left, ast.Name) and n.left.id == "u" and len(n.ops) == 1 \
                    and isinstance(n.ops[0], (ast.LtE, ast.Lt)):
                br = n.comparators[0]
        if br is None:
            raise Untranslatable("boosted branch comparison `u <= ...` not found")
        brs = tr(br, {"len:remaining_cands": "(n : Rat)"})
        bg = ast.parse(open(os.path.join(src, "ballot_generator.py")).read())
        # slate_BradleyTerry._sample_ballot_types_MCMC: the two acceptance probabilities, in source order
        sm = find_func(bg, "slate_BradleyTerry", "_sample_ballot_types_MCMC")
        acc = [n.value for n in ast.walk(sm) if isinstance(n, ast.Assign) and len(n.targets) == 1
               and isinstance(n.targets[0], ast.Name) and n.targets[0].id == "acceptance_prob"
               and not isinstance(n.value, ast.Constant)]
        acc.sort(key=lambda v: v.lineno)
        if len(acc) != 2:
            raise Untranslatable(f"expected two non-constant acceptance_prob assignments in slate MCMC, found {len(acc)}")
        sdown = tr(acc[0], {"cohesion": "c"})
        sup = tr(acc[1], {"cohesion": "c"})
        # name_BradleyTerry._BT_mcmc: min(1, x[second] / x[first])
        bm = find_func(bg, "name_BradleyTerry", "_BT_mcmc")
        bacc = [n.value for n in ast.walk(bm) if isinstance(n, ast.Assign) and len(n.targets) == 1
                and isinstance(n.targets[0], ast.Name) and n.targets[0].id == "acceptance_prob"]
        if len(bacc) != 1:
            raise Untranslatable("acceptance_prob assignment in _BT_mcmc not found")

        def sub(node):
            if isinstance(node.value, ast.Name) and node.value.id == "pref_interval":
                names = {n.id for n in ast.walk(node.slice) if isinstance(n, ast.Name)}
                if "j1" in names and "j2" not in names:
                    return "x1"
                if "j2" in names and "j1" not in names:
                    return "x2"
            return None
        bts = tr(bacc[0], {"subscript": sub})
    except (Untranslatable, KeyError, OSError, SyntaxError) as e:
        print(f"kernel extraction fell back to the committed Generated.lean: {type(e).__name__}: {e}")
        return 3
    text = f"""/-
  GENERATED by tools/extract_kernels.py from /repo's current source — do not edit.
  int(x) on a non-negative rational is the floor (trusted: CPython's int() truncation).
-/
namespace VK.Generated

/-- Python's `min` on two numbers -/
def rmin2 (a b : Rat) : Rat := if a ≤ b then a else b

/-- `STV.get_threshold`, quota == "droop": `int({ast.unparse(rets['droop'])})` -/
def thresholdDroop (m : Nat) (N : Rat) : Int := ({droop}).floor

/-- `STV.get_threshold`, quota == "hare": `int({ast.unparse(rets['hare'])})` -/
def thresholdHare (m : Nat) (N : Rat) : Int := ({hare}).floor

/-- `fractional_transfer`: `transfer_value = {ast.unparse(tv)}` -/
def transferValue (fpv : Rat) (threshold : Int) : Rat := {tvs}

/-- `BoostedRandomDictator._run_step`: the squares branch is taken when `u <= {ast.unparse(br)}` -/
def boostedBranch (n : Nat) : Rat := {brs}

/-- `slate_BradleyTerry._sample_ballot_types_MCMC`, swap that moves the bloc's own slate down:
`{ast.unparse(acc[0])}` -/
def slateAcceptDown (c : Rat) : Rat := {sdown}

/-- the swap that moves the bloc's own slate up: `{ast.unparse(acc[1])}` -/
def slateAcceptUp (c : Rat) : Rat := {sup}

/-- `name_BradleyTerry._BT_mcmc`: `{' '.join(ast.unparse(bacc[0]).split())}` with x1 = support of the
candidate at j1 (currently above), x2 = support of the candidate at j2 -/
def btAccept (x1 x2 : Rat) : Rat := {bts}

end VK.Generated
"""
    old = open(OUT).read() if os.path.exists(OUT) else None
    if old != text:
        with open(OUT, "w") as f:
            f.write(text)
        print("Generated.lean rewritten from the current source")
    return 0


if __name__ == "__main__":
    sys.exit(main())
