#!/bin/bash
# usage: tools/seed_recheck.sh <id> <prop> [more props...]
# Re-runs the checks against a seeded change already kept under seeded/<id>/ (patch.diff, demo.py): fresh scratch
# worktree of /repo's HEAD, demo without / with the patch, checks through VERIF_REPO, result.txt rewritten, evidence of
# /verif restored, worktree removed. Used after a check was strengthened.
set -u
ID=$1; shift
OUT=/verif/seeded/$ID
WT=/tmp/wt/eval-$ID
git -C /repo worktree remove --force $WT 2>/dev/null
git -C /repo worktree add -q --detach $WT HEAD || exit 2
cp $OUT/demo.py $WT/demo.py
sed -i "s|/tmp/wt/$ID|$WT|g" $WT/demo.py
run_demo() { ( cd $WT && OMP_NUM_THREADS=1 PYTHONPATH=$WT/src:/tmp/otstub timeout 1500 /venv/bin/python demo.py > $1 2>&1 ); echo $?; }
WO=$(run_demo $OUT/demo_without.log)
git -C $WT apply $OUT/patch.diff || { echo "patch does not apply"; git -C /repo worktree remove --force $WT; exit 2; }
W=$(run_demo $OUT/demo_with.log)
RES=""
EVBAK=$(mktemp -d /tmp/evbak.XXXX); cp /verif/evidence/*.json $EVBAK/ 2>/dev/null
for P in "$@"; do
  ( cd /verif && VERIF_REPO=$WT timeout 3000 ./check $P quick > $OUT/check_$P.log 2>&1 ); RC=$?
  V=$(grep -c '^VIOLATION' $OUT/check_$P.log)
  echo "check $P: exit $RC violations $V"; tail -1 $OUT/check_$P.log
  RES="$RES $P:exit$RC:violations$V"
done
echo "$ID demo_with=$W demo_without=$WO$RES" > $OUT/result.txt
cp $EVBAK/*.json /verif/evidence/ 2>/dev/null; rm -rf $EVBAK
git -C /repo worktree remove --force $WT
( cd /verif && python3 tools/extract_kernels.py > /dev/null )
cat $OUT/result.txt
