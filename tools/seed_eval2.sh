#!/bin/bash
# usage: tools/seed_eval2.sh <id> <worktree> <prop> [more props...]
# like seed_eval.sh, but never touches /repo: the checks are pointed at the scratch worktree (which holds the
# uncommitted change) through VERIF_REPO, so it can run while other checks use /repo.
set -u
ID=$1; WT=$2; shift 2
OUT=/verif/seeded/$ID; mkdir -p $OUT
( cd $WT && git diff -- src > $OUT/patch.diff )
cp $WT/demo.py $OUT/demo.py 2>/dev/null
cp $WT/NOTES.md $OUT/NOTES.md 2>/dev/null
( cd $WT && PYTHONPATH=$WT/src:/tmp/otstub timeout 900 /venv/bin/python demo.py > $OUT/demo_with.log 2>&1 ); W=$?
( cd $WT && git stash -q && PYTHONPATH=$WT/src:/tmp/otstub timeout 900 /venv/bin/python demo.py > $OUT/demo_without.log 2>&1; echo $? > /tmp/seed_rc_$ID; git stash pop -q ); WO=$(cat /tmp/seed_rc_$ID)
echo "demo with change: exit $W ; without: exit $WO"
RES=""
for P in "$@"; do
  ( cd /verif && VERIF_REPO=$WT timeout 3000 ./check $P quick > $OUT/check_$P.log 2>&1 ); RC=$?
  V=$(grep -c '^VIOLATION' $OUT/check_$P.log)
  echo "check $P: exit $RC violations $V"; tail -1 $OUT/check_$P.log
  RES="$RES $P:exit$RC:violations$V"
done
echo "$ID demo_with=$W demo_without=$WO$RES" > $OUT/result.txt
( cd /verif && python3 tools/extract_kernels.py > /dev/null )
