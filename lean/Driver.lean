/-
  Driver — line protocol: one JSON request per line on stdin, one JSON answer per line on stdout.
  Runs the executable definitions of `VK.Model.*` (the same definitions the theorems are about).
-/
import VK.Model.Codec
import VK.Model.Transfers
import VK.Model.Clean
import VK.Model.Validate
import VK.Model.Veto
import VK.Model.Replay
import VK.Model.Metric
import VK.Model.BallotGraph
import VK.Model.BallotGraphRec
import VK.Model.Loaders
import VK.Model.Interval
import VK.Model.Dist
import VK.Model.Gen
open Lean VK VK.Codec

def getSTVCfg (j : Json) : D STVCfg := do
  let mI ← getInt (fieldD j "m" (jNat 1))
  let m := mI.toNat   -- m ≤ 0 is rejected by the model exactly like m = 0
  let quota ← getStr (fieldD j "quota" (.str "droop"))
  let sim ← getBool (fieldD j "simultaneous" (.bool true))
  let tb ← getTB (fieldD j "tiebreak" .null)
  let tr ← getStr (fieldD j "transfer" (.str "fractional"))
  let q ← match quota with
    | "droop" => pure Quota.droop
    | "hare" => pure Quota.hare
    | _ => pure Quota.droop
  let t ← match tr with
    | "fractional" => pure Transfer.fractional
    | "random" => pure Transfer.random
    | "full" => pure Transfer.full
    | _ => throw "bad transfer"
  pure { m := m, quota := q, simultaneous := sim, tiebreak := tb, transfer := t }

/-- Under the random transfer the winners of a simultaneous round are processed in set-iteration order, which the
model renders as listing order; when several of them are defective in different ways the exception class depends on
that order (`C08_cand_order_random_transfer_differs`). For a raised answer in that configuration the driver also
reports the exception classes met under the other rotations / reversals of the declared candidates. -/
def exnAltsOver {α} (cfg : STVCfg) (cands : List Cand) (run : List Cand → Outcome α) (ans : Json) : Json :=
  if cfg.transfer == .random && cfg.simultaneous then
    match ans.getObjVal? "exn" with
    | .ok _ =>
      let n := cands.length
      let rots := (List.range n).map (fun k => cands.drop k ++ cands.take k)
      let orders := rots ++ rots.map List.reverse
      let alts := orders.filterMap (fun c' =>
        match run c' with
        | .raised e => some (Json.str (exnName e))
        | _ => none)
      ans.setObjVal! "exn_alts" (.arr alts.eraseDups.toArray)
    | .error _ => ans
  else ans

def stvExnAlts (cfg : STVCfg) (p : Profile) (ω : STVOracle) (qok : Bool) (ans : Json) : Json :=
  exnAltsOver cfg p.cands (fun c' => stvRun cfg { p with cands := c' } ω qok) ans

def quotaOk (j : Json) : Bool :=
  match fieldD j "quota" (.str "droop") with
  | .str "droop" => true
  | .str "hare" => true
  | _ => false

/-- sample oracle: per round, a list of [winner, [[ranking, count], …]] -/
def getSTVOracle (j : Json) : D STVOracle := do
  let pri ← byRound getCands [] (fieldD j "pri" .null)
  let smp ← byRound (getList (getPair getNat (getList (getPair getCands getNat)))) [] (fieldD j "sample" .null)
  pure { pri := pri,
         sample := fun r c => match (smp r).find? (fun x => x.1 = c) with
           | some x => x.2
           | none => [] }

def getRDOracle (j : Json) : D RDOracle := do
  let pick ← byRound getRanking [] (fieldD j "pick" .null)
  let pri ← byRound getCands [] (fieldD j "pri" .null)
  let u ← byRound getRat 0 (fieldD j "u" .null)
  let sq ← byRound getNat 0 (fieldD j "sq" .null)
  pure { pick := pick, pri := pri, u := u, sq := sq }

def optProfile (j : Json) (k : String) : D (Option Profile) := optField j k getProfile

def jElect (r : ElectResult) : Json :=
  Json.mkObj [("elected", jRanking r.elected), ("remaining", jRanking r.remaining),
    ("tiebreak", match r.tiebreak with
      | some t => Json.arr #[jCands t.1, jRanking t.2]
      | none => .null)]

def jStatus (rows : List (Cand × Status × Nat)) : Json :=
  .arr (rows.map (fun (c, s, r) => Json.arr #[jNat c,
    .str (match s with | .remaining => "Remaining" | .elected => "Elected" | .eliminated => "Eliminated"),
    jNat r])).toArray

def getScoreRule (s : String) : D ScoreRule :=
  match s with
  | "general" => pure .general | "rating" => pure .rating | "limited" => pure .limited
  | "cumulative" => pure .cumulative | "approval" => pure .approval | "bloc" => pure .bloc
  | _ => throw "bad score rule"

def optNat (j : Json) : D (Option Nat) := match j with | .null => pure none | _ => do let n ← getNat j; pure (some n)
def optRats (j : Json) : D (Option (List Rat)) := match j with | .null => pure none | _ => do let l ← getList getRat j; pure (some l)

def getCall (j : Json) : D Gen.Call := do
  let f ← getStr (← field j "f")
  match f with
  | "choice" => do
    pure (.choice (← getCands (← field j "pop")) (← optRats (fieldD j "p" .null)) (← optNat (fieldD j "k" .null))
      (← getBool (← field j "replace")) (← getCands (← field j "res")))
  | "choice_idx" => do
    pure (.choiceIdx (← getNat (← field j "n")) (← optRats (fieldD j "p" .null)) (← optNat (fieldD j "size" .null))
      (← getList getNat (← field j "res")))
  | "uniform" => do pure (.uniform (← getList getRat (← field j "res")))
  | "shuffle" => do pure (.shuffle (← getList getNat (← field j "x")) (← getList getNat (← field j "res")))
  | "choices" => do
    pure (.choices (← getList (getList getNat) (← field j "pop")) (← optRats (fieldD j "weights" .null))
      (← getNat (← field j "k")) (← getList (getList getNat) (← field j "res")))
  | "random" => do pure (.random (← getRat (← field j "res")))
  | "apportion" => do
    pure (.apportion (← getList getRat (← field j "props")) (← getNat (← field j "n")) (← getList getNat (← field j "res")))
  | "dirichlet" => do pure (.dirichlet (← getList getRat (← field j "alpha")) (← getList getRat (← field j "res")))
  | "normal" => do pure (.normal (← optNat (fieldD j "size" .null)) (← getList getRat (← field j "res")))
  | _ => throw s!"unknown call {f}"

def getGenParams (j : Json) : D Gen.Params := do
  let hist ← optField j "hist" (getList (getPair (getList getNat) getRat))
  pure { kind := ← getStr (← field j "kind"),
         slates := ← getList getCands (fieldD j "slates" .null),
         cands := ← getCands (fieldD j "cands" .null),
         props := ← getList getRat (fieldD j "props" .null),
         cohesion := ← getList (getList getRat) (fieldD j "cohesion" .null),
         supports := ← getList (getList getScores) (fieldD j "supports" .null),
         N := ← getNat (fieldD j "N" (jNat 0)), L := ← getNat (fieldD j "L" (jNat 0)),
         votes := ← getNat (fieldD j "votes" (jNat 0)),
         tables := ← getList (getList getCands) (fieldD j "tables" .null),
         types := ← getList (getList (getList getNat)) (fieldD j "types" .null),
         seeds := ← getList getCands (fieldD j "seeds" .null),
         point := ← getScores (fieldD j "point" .null),
         hist := hist,
         histLetter := ← getList getNat (fieldD j "hist_letter" .null),
         dists := ← getList (getList getRat) (fieldD j "dists" .null) }

def handle (j : Json) : D Json := do
  let op ← getStr (← field j "op")
  match op with
  | "ping" => pure (Json.mkObj [("ok", .str "pong")])
  | "condense" => do
    let bs ← getList getBallot (← field j "ballots")
    pure (Json.mkObj [("ok", jBallots (condense bs))])
  | "prof_eq" => do
    let p ← getProfile (← field j "p"); let q ← getProfile (← field j "q")
    pure (Json.mkObj [("ok", .bool (profEq p q))])
  | "prof_add" => do
    let p ← getProfile (← field j "p"); let q ← getProfile (← field j "q")
    pure (Json.mkObj [("ok", jProfile (profAdd p q))])
  | "mk_profile" => do
    let bs ← getList getBallot (← field j "ballots")
    let cs ← getCands (fieldD j "cands" .null)
    pure (jOutcome (fun (p : Profile) => Json.mkObj [("cands", jCands (sortCands p.cands)),
      ("cast", jCands (candsCast p.ballots)), ("num", jNat p.numBallots), ("total", jRat p.total)])
      (mkProfile bs cs))
  | "remove_cand" => do
    let removed ← getCands (← field j "removed")
    let kind ← getStr (← field j "kind")
    let cond ← getBool (fieldD j "condense" (.bool true))
    let lz ← getBool (fieldD j "leave_zero" (.bool false))
    match kind with
    | "profile" => do
      let p ← getProfile (← field j "profile")
      pure (Json.mkObj [("ok", jProfile (removeCand removed p cond lz))])
    | "tuple" => do
      let bs ← getList getBallot (← field j "ballots")
      pure (Json.mkObj [("ok", jBallots (removeCandBallots removed bs cond lz))])
    | _ => do
      let b ← getBallot (← field j "ballot")
      pure (jOutcome jBallot (removeCandBallot removed b cond lz))
  | "add_missing" => do
    let p ← getProfile (← field j "profile")
    pure (jOutcome jProfile (addMissing p))
  | "score_rankings" => do
    let p ← getProfile (← field j "profile")
    let v ← getList getRat (← field j "vector")
    pure (jOutcome jScores (scoreFromRankings p v))
  | "fpv" => do
    let p ← getProfile (← field j "profile")
    pure (jOutcome jScores (firstPlaceVotes p))
  | "borda" => do
    let p ← getProfile (← field j "profile")
    pure (jOutcome jScores (bordaScores p))
  | "mentions" => do
    let p ← getProfile (← field j "profile")
    pure (jOutcome jScores (mentions p))
  | "ballot_scores" => do
    let p ← getProfile (← field j "profile")
    pure (jOutcome jScores (scoreFromBallotScores p))
  | "validate_vector" => do
    let v ← getList getRat (← field j "vector")
    pure (Json.mkObj [("ok", .bool (validVector v))])
  | "score_to_ranking" => do
    let sc ← getScores (← field j "scores")
    let hl ← getBool (fieldD j "high_low" (.bool true))
    pure (Json.mkObj [("ok", jRanking (scoreToRanking sc hl))])
  | "tiebreak_set" => do
    let s ← getCands (← field j "set")
    let p ← optProfile j "profile"
    let tb ← getTB (← field j "tb")
    let pri ← getCands (fieldD j "pri" .null)
    match tb with
    | some t => pure (jOutcome jRanking (tiebreakSet pri s p t))
    | none => throw "tb required"
  | "elect" => do
    let r ← getRanking (← field j "ranking")
    let m ← getInt (← field j "m")
    let p ← optProfile j "profile"
    let tb ← getTB (fieldD j "tb" .null)
    let pri ← getCands (fieldD j "pri" .null)
    if m < 0 then pure (jOutcome jElect (Outcome.raised (α := ElectResult) .valueError))
    else pure (jOutcome jElect (electFromRanking pri r m.toNat p tb))
  | "expand_tied" => do
    let b ← getBallot (← field j "ballot")
    pure (jOutcome jBallots (expandTied b))
  | "resolve_ties" => do
    let p ← getProfile (← field j "profile")
    pure (jOutcome jProfile (resolveTies p))
  | "stv" => do
    let p ← getProfile (← field j "profile")
    let cfg ← getSTVCfg j
    let ω ← getSTVOracle j
    let mInt ← getInt (fieldD j "m" (jNat 1))
    if mInt ≤ 0 then
      -- `m <= 0` is rejected after the profile validation
      pure (jOutcome (fun (_ : Unit) => Json.null)
        (if !stvValidProfile p then Outcome.raised .typeError else Outcome.raised .valueError))
    else
    pure (jOutcome (fun (r : STVResult) => Json.mkObj [("threshold", jInt r.threshold),
      ("states", jStates r.states), ("profiles", .arr (r.profiles.map jProfile).toArray),
      -- the hypothesis `hfpv` of C07_droop_psc_fractional, evaluated on this input
      ("fpv_link", .bool (decide (firstPlaceVotes p = .ok (tallies (stvInitState p).bs p.cands))))])
      (stvRun cfg p ω (quotaOk j)) |> stvExnAlts cfg p ω (quotaOk j))
  | "plurality" => do
    let p ← getProfile (← field j "profile")
    let m ← getInt (← field j "m")
    let tb ← getTB (fieldD j "tiebreak" .null)
    let pri ← getCands (fieldD j "pri" .null)
    if m < 0 then pure (jOutcome jStates (if !rankingValid p then Outcome.raised .typeError else Outcome.raised .valueError))
    else pure (jOutcome jStates (pluralityRun p m.toNat tb pri))
  | "borda_run" => do
    let p ← getProfile (← field j "profile")
    let m ← getInt (← field j "m")
    let tb ← getTB (fieldD j "tiebreak" .null)
    let pri ← getCands (fieldD j "pri" .null)
    let v ← optField j "vector" (getList getRat)
    if m < 0 then pure (jOutcome jStates (bordaRun p 0 v tb pri))
    else pure (jOutcome jStates (bordaRun p m.toNat v tb pri))
  | "score_rule" => do
    let p ← getProfile (← field j "profile")
    let rule ← getScoreRule (← getStr (← field j "rule"))
    let m ← getInt (← field j "m")
    let L ← getRat (fieldD j "L" (.str "1"))
    let k ← optField j "k" getRat
    let tb ← getTB (fieldD j "tiebreak" .null)
    let pri ← getCands (fieldD j "pri" .null)
    pure (jOutcome jStates (scoreRuleRun rule p m L k tb pri))
  | "dominating" => do
    let p ← getProfile (← field j "profile")
    pure (jOutcome jStates (dominatingSetsRun p))
  | "condo_borda" => do
    let p ← getProfile (← field j "profile")
    let m ← getInt (← field j "m")
    let pri ← getCands (fieldD j "pri" .null)
    if m < 0 then pure (jOutcome jStates (condoBordaRun p 0 pri))
    else pure (jOutcome jStates (condoBordaRun p m.toNat pri))
  | "top_two" => do
    let p ← getProfile (← field j "profile")
    let tb ← getTB (fieldD j "tiebreak" .null)
    let pri ← byRound getCands [] (fieldD j "pri" .null)
    pure (jOutcome jStates (topTwoRun p tb pri))
  | "alaska" => do
    let p ← getProfile (← field j "profile")
    let cfg ← getSTVCfg (j.setObjVal! "m" (jNat 1))
    let ω ← getSTVOracle j
    let m1 ← getInt (← field j "m1")
    let m2 ← getInt (← field j "m2")
    pure (jOutcome jStates (alaskaRun p m1 m2 cfg ω (quotaOk j)) |>
      exnAltsOver cfg p.cands (fun c' => alaskaRun { p with cands := c' } m1 m2 cfg ω (quotaOk j)))
  | "random_dictator" => do
    let p ← getProfile (← field j "profile")
    let m ← getInt (← field j "m")
    let ω ← getRDOracle j
    pure (jOutcome jStates (randomDictatorRun p m ω))
  | "boosted" => do
    let p ← getProfile (← field j "profile")
    let m ← getInt (← field j "m")
    let ω ← getRDOracle j
    pure (jOutcome jStates (boostedRun p m ω))
  | "plurality_veto" => do
    let p ← getProfile (← field j "profile")
    let m ← getInt (← field j "m")
    let tb ← getTB (fieldD j "tiebreak" .null)
    let order ← getList getNat (fieldD j "order" .null)
    let smp ← getList getCands (fieldD j "samples" .null)
    pure (jOutcome jStates (pluralityVetoRun p m tb { order := order, samples := smp }))
  | "fractional_transfer" => do
    let w ← getNat (← field j "winner")
    let fpv ← getRat (← field j "fpv")
    let bs ← getList getBallot (← field j "ballots")
    let q ← getInt (← field j "threshold")
    pure (jOutcome jBallots (fractionalTransfer w fpv bs q))
  | "random_transfer" => do
    let w ← getNat (← field j "winner")
    let fpv ← getRat (← field j "fpv")
    let bs ← getList getBallot (← field j "ballots")
    let q ← getInt (← field j "threshold")
    let keep ← getList (getPair getRanking getNat) (fieldD j "keep" .null)
    pure (jOutcome jBallots (randomTransfer w fpv bs q keep))
  | "remove_empty" => do
    let p ← getProfile (← field j "profile")
    let keep ← getBool (fieldD j "keep" (.bool false))
    pure (Json.mkObj [("ok", jProfile (removeEmptyBallots p keep))])
  | "deduplicate" => do
    let p ← getProfile (← field j "profile")
    pure (jOutcome jProfile (deduplicateProfiles p))
  | "remove_noncands" => do
    let p ← getProfile (← field j "profile")
    let nc ← getCands (← field j "noncands")
    pure (jOutcome jProfile (removeNoncands p nc))
  | "gen_init" => do
    let b := fun k => getBool (fieldD j k (.bool false))
    let a : GenArgs := {
      hasCandidates := ← b "has_candidates", hasSlates := ← b "has_slates",
      hasIntervals := ← b "has_intervals", hasCohesion := ← b "has_cohesion", hasProps := ← b "has_props",
      propSum8 := ← getRat (fieldD j "prop_sum8" (.str "1")),
      propBlocs := ← getCands (fieldD j "prop_blocs" .null),
      intervalBlocs := ← getCands (fieldD j "interval_blocs" .null),
      cohesionBlocs := ← getCands (fieldD j "cohesion_blocs" .null),
      cohesionSums8 := ← getList getRat (fieldD j "cohesion_sums8" .null) }
    pure (jOutcome (fun (_ : Unit) => Json.null) (genInit a))
  | "combine_check" => do
    let cs ← getList getCands (← field j "cand_sets")
    let s ← getRat (← field j "prop_sum8")
    pure (jOutcome (fun (_ : Unit) => Json.null) (combineCheck cs s))
  | "pv_validate" => do
    let p ← getProfile (← field j "profile")
    let m ← getInt (← field j "m")
    let tb ← getTB (fieldD j "tiebreak" .null)
    pure (jOutcome (fun (_ : Unit) => Json.null) (pluralityVetoValidate p m tb))
  | "lp" => do
    let P ← getList getBallot (← field j "P")
    let Q ← getList getBallot (← field j "Q")
    let ps ← getList getNat (← field j "ps")
    pure (Json.mkObj [("ok", Json.mkObj [
      ("pow", .arr (ps.map (fun p => jRat (lpPow p P Q))).toArray),
      ("inf", jRat (lInf P Q))])])
  | "ballot_graph" => do
    let n ← getNat (← field j "n")
    pure (Json.mkObj [("ok", Json.mkObj [
      ("nodes", .arr ((specNodes n).map jCands).toArray),
      ("edges", .arr ((specEdges n).map (fun e => Json.arr #[jCands e.1, jCands e.2])).toArray)])])
  | "ballot_graph_rec" => do
    let n ← getNat (← field j "n")
    let g := buildGraph n
    pure (Json.mkObj [("ok", Json.mkObj [
      ("nodes", .arr (g.nodes.eraseDups.map jCands).toArray),
      ("edges", .arr ((recEdgesCanon g).map (fun e => Json.arr #[jCands e.1, jCands e.2])).toArray)])])
  | "node_weights" => do
    let n ← getNat (← field j "n")
    let fix ← getBool (fieldD j "fix_short" (.bool true))
    let bs ← getList (getPair getCands getRat) (← field j "ballots")
    let nw := (nodeWeights n fix bs).filter (fun x => x.2 ≠ 0)
    pure (Json.mkObj [("ok", .arr (nw.map (fun x => Json.arr #[jCands x.1, jRat x.2])).toArray)])
  | "load_csv" => do
    let getCell : Json → D Cell := fun c => match c with
      | .null => pure none
      | v => do let n ← getNat v; pure (some n)
    let rows ← getList (getList getCell) (← field j "rows")
    let ids ← getList getCell (fieldD j "ids" .null)
    let weights ← getList getRat (fieldD j "weights" .null)
    let ncols ← getNat (← field j "ncols")
    let rc ← getCands (fieldD j "rank_cols" .null)
    let idc ← optField j "id_col" getNat
    let wc ← optField j "weight_col" getNat
    let ids' := if ids.isEmpty then rows.map (fun _ => (none : Cell)) else ids
    let ws' := if weights.isEmpty then rows.map (fun _ => (1 : Rat)) else weights
    pure (jOutcome (fun (bs : List CsvBallot) => Json.arr (bs.map (fun b => Json.mkObj [
        ("pattern", .arr (b.pattern.map (fun c => match c with | some n => jNat n | none => Json.null)).toArray),
        ("w", jRat b.weight), ("voters", jCands b.voters)])).toArray)
      (loadTable { rankCols := rc, idCol := idc, weightCol := wc } ncols rows ids' ws'))
  | "load_scottish" => do
    let rows ← getList (getList getStr) (← field j "rows")
    pure (jOutcome (fun (r : ScotResult) => Json.mkObj [("seats", jNat r.seats), ("ward", .str r.ward),
        ("cands", .arr (r.cands.map Json.str).toArray), ("parties", .arr (r.parties.map Json.str).toArray),
        ("ballots", .arr (r.ballots.map (fun b => Json.arr #[jCands b.1, jNat b.2])).toArray)])
      (parseScottish rows))
  | "mk_interval" => do
    let sup ← getScores (← field j "supports")
    pure (jOutcome (fun (iv : Interval) => Json.mkObj [("interval", jScores iv.interval), ("zeros", jCands (sortCands iv.zeros))])
      (mkInterval sup))
  | "combine_intervals" => do
    let sups ← getList getScores (← field j "supports")
    let props ← getList getRat (← field j "props")
    let r : Outcome Interval := do
      let ivs ← sups.foldr (fun s acc => do let iv ← mkInterval s; let rest ← acc; pure (iv :: rest)) (.ok [])
      combineIntervals ivs props
    pure (jOutcome (fun (iv : Interval) => Json.mkObj [("interval", jScores iv.interval), ("zeros", jCands (sortCands iv.zeros))]) r)
  | "bt_pdf" => do
    let x ← getScores (← field j "interval")
    pure (Json.mkObj [("ok", .arr ((btPdf x).map (fun rp => Json.arr #[jCands rp.1, jRat rp.2])).toArray)])
  | "slate_bt_pdf" => do
    let a ← getNat (← field j "a"); let b ← getNat (← field j "b")
    let c ← getRat (← field j "cohesion")
    pure (Json.mkObj [("ok", .arr ((slateBtPdf a b c).map (fun tp =>
      Json.arr #[.arr (tp.1.map Json.bool).toArray, jRat tp.2])).toArray)])
  | "rd_law" => do
    let p ← getProfile (← field j "profile")
    let sc := match firstPlaceVotes p with | .ok s => s | _ => []
    let law := fun (d : Dist Cand) => Json.arr (p.cands.map (fun c => Json.arr #[jNat c, jRat (d.prob c)])).toArray
    pure (Json.mkObj [("ok", Json.mkObj [("rd", law (rdStepDist p)), ("brd", law (brdStepDist p sc)),
      ("rd_mass", jRat (rdStepDist p).mass)])])
  | "shuffle_law" => do
    let n ← getNat (← field j "n")
    let d := shuffleDist n (List.range n)
    let ps := (perms (List.range n)).map (fun o => d.prob o)
    pure (Json.mkObj [("ok", Json.mkObj [("probs", .arr (ps.map jRat).toArray), ("mass", jRat d.mass)])])
  | "gen" => do
    let P ← getGenParams (← field j "params")
    let log ← getList getCall (← field j "log")
    match Gen.run P log with
    | .ok o => pure (Json.mkObj [("ok", Json.mkObj [("by_bloc", .arr (o.byBloc.map jBallots).toArray), ("agg", jBallots o.agg)])])
    | .error e => pure (Json.mkObj [("mismatch", .str e)])
  | "hh" => do
    let props ← getList getRat (← field j "props")
    let n ← getNat (← field j "n")
    let r := Gen.huntingtonHill props n
    pure (Json.mkObj [("ok", Json.mkObj [("seats", .arr (r.1.map jNat).toArray), ("tie", .bool r.2)])])
  | "pairwise" => do
    let p ← getProfile (← field j "profile")
    let d := pairwiseDict p
    pure (Json.mkObj [("ok", Json.mkObj [
      ("dict", .arr (d.map (fun kv => Json.arr #[jNat kv.1.1, jNat kv.1.2, jRat kv.2])).toArray),
      ("tiers", jRanking (dominatingTiers p)),
      -- the mirror of the `ballot_fill` enumeration is for untied ballots (C06_fill_correct)
      ("fill_agrees", .bool (!(p.ballots.all (fun bl => bl.ranking.all (fun s => s.length = 1))) ||
        (pairs p.cands).all (fun ab =>
          h2hFill p ab.1 ab.2 = h2h p ab.1 ab.2 && h2hFill p ab.2 ab.1 = h2h p ab.2 ab.1)))])])
  | "history" => do
    -- run a rule, then answer a sequence of round queries on the finished election
    let run ← field j "run"
    let rop ← getStr (← field run "op")
    let p ← getProfile (← field run "profile")
    let res : Outcome (States × List Profile) ← (do
      match rop with
      | "stv" => do
        let cfg ← getSTVCfg run
        let ω ← getSTVOracle run
        pure ((stvRun cfg p ω (quotaOk run)).bind (fun r => .ok (r.states, r.profiles)))
      | "plurality" => do
        let m ← getInt (← field run "m"); let tb ← getTB (fieldD run "tiebreak" .null)
        let pri ← getCands (fieldD run "pri" .null)
        pure ((pluralityRun p m.toNat tb pri).bind (fun st => .ok (st, singleRoundProfiles p st)))
      | "borda_run" => do
        let m ← getInt (← field run "m"); let tb ← getTB (fieldD run "tiebreak" .null)
        let pri ← getCands (fieldD run "pri" .null)
        let v ← optField run "vector" (getList getRat)
        pure ((bordaRun p m.toNat v tb pri).bind (fun st => .ok (st, singleRoundProfiles p st)))
      | "score_rule" => do
        let rule ← getScoreRule (← getStr (← field run "rule"))
        let m ← getInt (← field run "m")
        let L ← getRat (fieldD run "L" (.str "1"))
        let k ← optField run "k" getRat
        let tb ← getTB (fieldD run "tiebreak" .null)
        let pri ← getCands (fieldD run "pri" .null)
        pure ((scoreRuleRun rule p m L k tb pri).bind (fun st => .ok (st, singleRoundProfiles p st)))
      | "dominating" => pure ((dominatingSetsRun p).bind (fun st => .ok (st, singleRoundProfiles p st)))
      | "condo_borda" => do
        let m ← getInt (← field run "m"); let pri ← getCands (fieldD run "pri" .null)
        pure ((condoBordaRun p m.toNat pri).bind (fun st => .ok (st, singleRoundProfiles p st)))
      | "top_two" => do
        let tb ← getTB (fieldD run "tiebreak" .null)
        let pri ← byRound getCands [] (fieldD run "pri" .null)
        pure ((topTwoRun p tb pri).bind (fun st => .ok (st, topTwoProfiles p st)))
      | "alaska" => do
        let cfg ← getSTVCfg (run.setObjVal! "m" (jNat 1))
        let ω ← getSTVOracle run
        let m1 ← getInt (← field run "m1"); let m2 ← getInt (← field run "m2")
        pure ((alaskaRun p m1 m2 cfg ω (quotaOk run)).bind (fun st => .ok (st, alaskaProfiles p m2 cfg ω st)))
      | "random_dictator" => do
        let m ← getInt (← field run "m"); let ω ← getRDOracle run
        pure ((randomDictatorRun p m ω).bind (fun st => .ok (st, p :: sequentialProfiles p (st.drop 1))))
      | "boosted" => do
        let m ← getInt (← field run "m"); let ω ← getRDOracle run
        pure ((boostedRun p m ω).bind (fun st => .ok (st, p :: sequentialProfiles p (st.drop 1))))
      | _ => throw s!"history: unknown rule op {rop}")
    let calls ← getList (getPair getStr getInt) (← field j "calls")
    match res with
    | .ok (st, profiles) =>
      let outs := calls.map (fun (name, r) =>
        match name with
        | "get_elected" => jOutcome jRanking (getElected st r)
        | "get_eliminated" => jOutcome jRanking (getEliminated st r)
        | "get_remaining" => jOutcome jRanking (getRemaining st r)
        | "get_ranking" => jOutcome jRanking (getRanking st r)
        | "get_status_df" => jOutcome jStatus (getStatus p.cands st r)
        | "get_profile" => jOutcome jProfile (VK.getProfile profiles r)
        | "get_step" => jOutcome (fun (x : Profile × RoundState) => Json.arr #[jProfile x.1, jState x.2])
            (do let pr ← VK.getProfile profiles r; let s ← pyIndex st r; pure (pr, s))
        | _ => Json.mkObj [("error", .str "unknown query")])
      pure (Json.mkObj [("ok", Json.mkObj [("states", jStates st), ("answers", .arr outs.toArray)])])
    | .raised e => pure (Json.mkObj [("exn", .str (exnName e))])
    | .oracleMismatch => pure (Json.mkObj [("mismatch", .bool true)])
    | .outOfFuel => pure (Json.mkObj [("fuel", .bool true)])
  | "query" => do
    let st ← getList (fun s => do
      let round ← getNat (fieldD s "round" (jNat 0))
      let remaining ← getRanking (fieldD s "remaining" .null)
      let elected ← getRanking (fieldD s "elected" .null)
      let eliminated ← getRanking (fieldD s "eliminated" .null)
      pure ({ round := round, remaining := remaining, elected := elected, eliminated := eliminated } : RoundState))
      (← field j "states")
    let cands ← getCands (← field j "cands")
    let calls ← getList (getPair getStr getInt) (← field j "calls")
    let outs := calls.map (fun (name, r) =>
      match name with
      | "get_elected" => jOutcome jRanking (getElected st r)
      | "get_eliminated" => jOutcome jRanking (getEliminated st r)
      | "get_remaining" => jOutcome jRanking (getRemaining st r)
      | "get_ranking" => jOutcome jRanking (getRanking st r)
      | "get_status_df" => jOutcome jStatus (getStatus cands st r)
      | _ => Json.mkObj [("error", .str "unknown query")])
    pure (Json.mkObj [("ok", .arr outs.toArray)])
  | _ => throw s!"unknown op {op}"

partial def loop (h : IO.FS.Stream) (out : IO.FS.Stream) : IO Unit := do
  let line ← h.getLine
  if line.isEmpty then return ()
  let ans := match Json.parse line with
    | .ok j => match handle j with
      | .ok r => r
      | .error e => Json.mkObj [("error", .str e)]
    | .error e => Json.mkObj [("error", .str s!"parse: {e}")]
  out.putStrLn ans.compress
  loop h out

def main : IO Unit := do
  let out ← IO.getStdout
  loop (← IO.getStdin) out
  out.flush
