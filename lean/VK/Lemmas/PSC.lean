/-
  VK.Lemmas.PSC — the ingredients of Droop proportionality for solid coalitions over the model's
  count state (fractional transfer): the link between a round's recorded tallies and the count
  state, winners hold a quota, what a sequence of surplus transfers does to a coalition's weight.
-/
import VK.Lemmas.STVRun
import VK.Lemmas.STVWeight
import Mathlib.Algebra.Order.Field.Basic
import Mathlib.Algebra.Order.Field.Rat

namespace VK

/-- the recorded tallies and candidate order of a round are those of the count state -/
def Linked (S : CState) (prev : RoundState) : Prop :=
  prev.scores = tallies S.bs S.hopeful ∧ prev.remaining = scoreToRanking prev.scores

theorem tallies_nil (bs : List PBallot) : tallies bs [] = [] := rfl

theorem lookupScore_map (l : List Cand) (f : Cand → Rat) (c : Cand) (hc : c ∈ l) :
    lookupScore (l.map (fun c => (c, f c))) c = f c := by
  unfold lookupScore
  induction l with
  | nil => simp at hc
  | cons x xs ih =>
    simp only [List.map_cons, List.find?_cons]
    by_cases hx : x = c
    · subst hx; simp
    · have : c ∈ xs := by
        rcases List.mem_cons.1 hc with h | h
        · exact absurd h.symm hx
        · exact h
      simp only [hx, decide_false]
      exact ih this

theorem lookupScore_tallies (bs : List PBallot) (hop : List Cand) (c : Cand) (hc : c ∈ hop) :
    lookupScore (tallies bs hop) c = tally bs hop c :=
  lookupScore_map hop (fun c => tally bs hop c) c hc

/-- every step of the count re-establishes the link -/
theorem stvStep_linked (cfg : STVCfg) (init : Profile) (q : Int) (ω : STVOracle) (rnd : Nat)
    (S S' : CState) (prev r : RoundState) (h : stvStep cfg init q ω rnd S prev = .ok (S', r)) :
    Linked S' r := by
  unfold stvStep at h
  simp only at h
  split at h
  · cases he : electChoice cfg q ω rnd S prev with
    | ok gt =>
      obtain ⟨g, tbs⟩ := gt
      simp only [he, bind, Outcome.bind] at h
      cases ha : applyTransfers cfg S.hopeful q (ω.sample rnd) g.flatten S.bs with
      | ok bs' =>
        simp only [ha, pure, Outcome.ok.injEq, Prod.mk.injEq] at h
        obtain ⟨h1, h2⟩ := h
        subst h1 h2
        exact ⟨rfl, rfl⟩
      | raised e => simp [ha] at h
      | oracleMismatch => simp [ha] at h
      | outOfFuel => simp [ha] at h
    | raised e => simp [he, bind, Outcome.bind] at h
    | oracleMismatch => simp [he, bind, Outcome.bind] at h
    | outOfFuel => simp [he, bind, Outcome.bind] at h
  · split at h
    · simp only [pure, Outcome.ok.injEq, Prod.mk.injEq] at h
      obtain ⟨h1, h2⟩ := h
      subst h1 h2
      exact ⟨rfl, rfl⟩
    · split at h
      · cases h
      · rename_i lowest hlast
        cases hlc : loserChoice init ω rnd lowest with
        | ok ct =>
          obtain ⟨c, tbs⟩ := ct
          simp only [hlc, bind, Outcome.bind, pure, Outcome.ok.injEq, Prod.mk.injEq] at h
          obtain ⟨h1, h2⟩ := h
          subst h1 h2
          exact ⟨rfl, rfl⟩
        | raised e => simp [hlc, bind, Outcome.bind] at h
        | oracleMismatch => simp [hlc, bind, Outcome.bind] at h
        | outOfFuel => simp [hlc, bind, Outcome.bind] at h

/-- members of a group of `scoreToRanking` carry the score of the group -/
theorem mem_group_score (sc : List (Cand × Rat)) (g : List Cand) (hg : g ∈ scoreToRanking sc)
    (hk : (sc.map (·.1)).Nodup) :
    ∃ v, ∀ c ∈ g, (c, v) ∈ sc ∧ lookupScore sc c = v := by
  rw [scoreToRanking_eq] at hg
  obtain ⟨v, hvd, rfl⟩ := List.mem_map.1 hg
  clear hvd
  refine ⟨v, fun c hc => ?_⟩
  unfold groupOf at hc
  obtain ⟨cs, hcs, rfl⟩ := List.mem_map.1 hc
  obtain ⟨hmem, hv⟩ := List.mem_filter.1 hcs
  have hv' : cs.2 = v := by simpa using hv
  have hpair : (cs.1, v) ∈ sc := by rw [← hv']; exact hmem
  refine ⟨hpair, ?_⟩
  -- keys are duplicate-free, so the lookup finds this entry
  unfold lookupScore
  have : sc.find? (fun e => e.1 = cs.1) = some (cs.1, v) := by
    clear hcs hc hg
    induction sc with
    | nil => simp at hpair
    | cons e es ih =>
      simp only [List.map_cons, List.nodup_cons] at hk
      simp only [List.find?_cons]
      rcases List.mem_cons.1 hpair with h | h
      · rw [← h]; simp
      · have hne : e.1 ≠ cs.1 := fun heq => hk.1 (List.mem_map.2 ⟨(cs.1, v), h, heq.symm⟩)
        simp only [hne, decide_false]
        have hm' : cs ∈ es := by
          rcases List.mem_cons.1 hmem with h' | h'
          · exact absurd (h' ▸ rfl) hne
          · exact h'
        exact ih hk.2 hm' h
  rw [this]

/-- **Simultaneous winners hold a quota**: every candidate of the groups taken by the quota test has
a tally at or above the threshold. -/
theorem simultaneous_winners_ge (S : CState) (prev : RoundState) (q : Int) (hl : Linked S prev)
    (hn : S.hopeful.Nodup) (c : Cand)
    (hc : c ∈ (prev.remaining.takeWhile (fun g =>
      match g with
      | [] => false
      | c :: _ => decide ((q : Rat) ≤ lookupScore prev.scores c))).flatten) :
    (q : Rat) ≤ tally S.bs S.hopeful c ∧ c ∈ S.hopeful := by
  obtain ⟨g, hg, hcg⟩ := List.mem_flatten.1 hc
  have hgm : g ∈ prev.remaining := (List.takeWhile_sublist _).subset hg
  have hpred := List.mem_takeWhile_imp hg
  rw [hl.2] at hgm
  have hk : (prev.scores.map (·.1)).Nodup := by rw [hl.1, tallies_keys]; exact hn
  obtain ⟨v, hv⟩ := mem_group_score prev.scores g hgm hk
  cases g with
  | nil => simp at hcg
  | cons c0 rest =>
    simp only [decide_eq_true_eq] at hpred
    have h0 := (hv c0 (by simp)).2
    have hcv := hv c hcg
    have hch : c ∈ S.hopeful := by
      have : c ∈ prev.scores.map (·.1) := List.mem_map.2 ⟨(c, v), hcv.1, rfl⟩
      rwa [hl.1, tallies_keys] at this
    refine ⟨?_, hch⟩
    have : lookupScore prev.scores c = tally S.bs S.hopeful c := by
      rw [hl.1]; exact lookupScore_tallies _ _ _ hch
    rw [← this, hcv.2, ← h0]; exact hpred

/-! ### what surplus transfers do to the weight of a set of ballots -/

/-- the fractional surplus transfer of winner `w` as a map on the pointwise state -/
def scaleLed (hop : List Cand) (w : Cand) (f : Rat) (bs : List PBallot) : List PBallot :=
  bs.map (fun b => if topOf hop b.1 = some w then (b.1, b.2 * f) else b)

/-- weight selected by a predicate on *rankings* after scaling the ballots led by `w` -/
theorem wsum_scaleLed (pr : List Cand → Bool) (hop : List Cand) (w : Cand) (f : Rat) (bs : List PBallot) :
    wsum (fun b => pr b.1) (scaleLed hop w f bs) =
      wsum (fun b => pr b.1) bs + (f - 1) * wsum (fun b => pr b.1 && decide (topOf hop b.1 = some w)) bs := by
  unfold scaleLed
  induction bs with
  | nil => simp [wsum_nil]
  | cons b rest ih =>
    simp only [List.map_cons, wsum_cons, ih]
    by_cases hb : topOf hop b.1 = some w
    · by_cases hp : pr b.1 <;> simp [hb, hp] <;> ring
    · by_cases hp : pr b.1 <;> simp [hb, hp] <;> ring

theorem tally_scaleLed_other (hop : List Cand) (w w' : Cand) (f : Rat) (bs : List PBallot) (hne : w' ≠ w) :
    tally (scaleLed hop w f bs) hop w' = tally bs hop w' := by
  rw [tally_eq_wsum, tally_eq_wsum]
  have h := wsum_scaleLed (fun r => decide (topOf hop r = some w')) hop w f bs
  rw [h]
  have : wsum (fun b => decide (topOf hop b.1 = some w') && decide (topOf hop b.1 = some w)) bs = 0 := by
    have hfalse : (fun b : PBallot => decide (topOf hop b.1 = some w') && decide (topOf hop b.1 = some w)) = fun _ => false := by
      funext b
      by_cases h1 : topOf hop b.1 = some w'
      · simp [h1, hne]
      · simp [h1]
    rw [hfalse]; simp [wsum]
  rw [this]; ring

theorem wsum_le_of_imp (p p' : PBallot → Bool) (bs : List PBallot) (hnn : ∀ b ∈ bs, 0 ≤ b.2)
    (himp : ∀ b ∈ bs, p b = true → p' b = true) : wsum p bs ≤ wsum p' bs := by
  induction bs with
  | nil => simp [wsum_nil]
  | cons b rest ih =>
    simp only [wsum_cons]
    have h1 := ih (fun x hx => hnn x (by simp [hx])) (fun x hx => himp x (by simp [hx]))
    have hb := hnn b (by simp)
    by_cases hp : p b
    · have := himp b (by simp) hp
      simp only [hp, this, if_true]; linarith
    · by_cases hp' : p' b <;> simp [hp, hp'] <;> linarith

theorem scaleLed_nonneg (hop : List Cand) (w : Cand) (f : Rat) (bs : List PBallot) (hf : 0 ≤ f)
    (hnn : ∀ b ∈ bs, 0 ≤ b.2) : ∀ b ∈ scaleLed hop w f bs, 0 ≤ b.2 := by
  intro b hb
  unfold scaleLed at hb
  obtain ⟨b0, hb0, rfl⟩ := List.mem_map.1 hb
  split
  · exact mul_nonneg (hnn b0 hb0) hf
  · exact hnn b0 hb0

/-- the fractional transfer is `scaleLed` with the transfer value -/
theorem applyTransfer_fractional_eq (cfg : STVCfg) (hop : List Cand) (q : Int) (sample : List (List Cand × Nat))
    (bs bs' : List PBallot) (w : Cand) (hf : cfg.transfer = .fractional)
    (h : applyTransfer cfg hop q sample bs w = .ok bs') :
    tally bs hop w ≠ 0 ∧ bs' = scaleLed hop w ((tally bs hop w - q) / tally bs hop w) bs := by
  unfold applyTransfer at h
  simp only [hf] at h
  split at h
  · cases h
  · rename_i ht
    injection h with h
    exact ⟨ht, h.symm⟩

/-- **A coalition loses at most one threshold per elected member.** After the fractional transfers of
the winners `ws` (each holding at least the threshold `q > 0`, distinct), every weight is still
non-negative and the weight of the ballots selected by `pr` has dropped by at most `q` for each winner
that leads some selected ballot (`inS`), winners leading none of them taking nothing. -/
theorem applyTransfers_coalition (cfg : STVCfg) (hop : List Cand) (q : Int)
    (sample : Cand → List (List Cand × Nat)) (pr : List Cand → Bool) (inS : Cand → Bool)
    (hf : cfg.transfer = .fractional) (hq : 0 < q)
    (ws : List Cand) (bs bs' : List PBallot)
    (hnn : ∀ b ∈ bs, 0 ≤ b.2) (hws : ws.Nodup)
    (hge : ∀ w ∈ ws, (q : Rat) ≤ tally bs hop w)
    (hout : ∀ w ∈ ws, inS w = false → wsum (fun b => pr b.1 && decide (topOf hop b.1 = some w)) bs = 0)
    (h : applyTransfers cfg hop q sample ws bs = .ok bs') :
    (∀ b ∈ bs', 0 ≤ b.2) ∧
    wsum (fun b => pr b.1) bs - (q : Rat) * ((ws.filter inS).length : Rat) ≤ wsum (fun b => pr b.1) bs' := by
  induction ws generalizing bs with
  | nil =>
    simp only [applyTransfers] at h
    injection h with h; subst h
    exact ⟨hnn, by simp⟩
  | cons w rest ih =>
    simp only [applyTransfers] at h
    cases h1 : applyTransfer cfg hop q (sample w) bs w with
    | ok bs1 =>
      simp only [h1, bind, Outcome.bind] at h
      obtain ⟨ht0, hbs1⟩ := applyTransfer_fractional_eq cfg hop q _ bs bs1 w hf h1
      have hqr : (0 : Rat) < (q : Rat) := by exact_mod_cast hq
      have htq : (q : Rat) ≤ tally bs hop w := hge w (by simp)
      have htpos : 0 < tally bs hop w := lt_of_lt_of_le hqr htq
      have hfnn : 0 ≤ (tally bs hop w - q) / tally bs hop w := div_nonneg (by linarith) (le_of_lt htpos)
      rw [List.nodup_cons] at hws
      have hnn1 : ∀ b ∈ bs1, 0 ≤ b.2 := by rw [hbs1]; exact scaleLed_nonneg hop w _ bs hfnn hnn
      have hge1 : ∀ w' ∈ rest, (q : Rat) ≤ tally bs1 hop w' := by
        intro w' hw'
        have hne : w' ≠ w := fun e => hws.1 (e ▸ hw')
        rw [hbs1, tally_scaleLed_other hop w w' _ bs hne]
        exact hge w' (by simp [hw'])
      have hout1 : ∀ w' ∈ rest, inS w' = false →
          wsum (fun b => pr b.1 && decide (topOf hop b.1 = some w')) bs1 = 0 := by
        intro w' hw' hin
        have hne : w' ≠ w := fun e => hws.1 (e ▸ hw')
        have h0 := hout w' (by simp [hw']) hin
        have hs := wsum_scaleLed (fun r => pr r && decide (topOf hop r = some w')) hop w
          ((tally bs hop w - q) / tally bs hop w) bs
        rw [hbs1, hs, h0]
        have : wsum (fun b => (pr b.1 && decide (topOf hop b.1 = some w')) && decide (topOf hop b.1 = some w)) bs = 0 := by
          have hfalse : (fun b : PBallot => (pr b.1 && decide (topOf hop b.1 = some w')) && decide (topOf hop b.1 = some w)) = fun _ => false := by
            funext b
            by_cases h1 : topOf hop b.1 = some w'
            · simp [h1, hne]
            · simp [h1]
          rw [hfalse]; simp [wsum]
        rw [this]; ring
      obtain ⟨hnn', hk'⟩ := ih bs1 hnn1 hws.2 hge1 hout1 h
      refine ⟨hnn', ?_⟩
      -- one transfer: the selected weight drops by (q/t)·(selected weight led by w) ≤ q, and by 0 if w leads none
      have hs := wsum_scaleLed pr hop w ((tally bs hop w - q) / tally bs hop w) bs
      rw [← hbs1] at hs
      have hled_le : wsum (fun b => pr b.1 && decide (topOf hop b.1 = some w)) bs ≤ tally bs hop w := by
        rw [tally_eq_wsum]
        apply wsum_le_of_imp _ _ bs hnn
        intro b _ hb
        simp only [Bool.and_eq_true] at hb
        exact hb.2
      have hled_nn : 0 ≤ wsum (fun b => pr b.1 && decide (topOf hop b.1 = some w)) bs := wsum_nonneg _ _ hnn
      have hfm : (tally bs hop w - q) / tally bs hop w - 1 = -(q / tally bs hop w) := by
        field_simp; ring
      by_cases hin : inS w
      · have hlen : (((w :: rest).filter inS).length : Rat) = ((rest.filter inS).length : Rat) + 1 := by
          simp [List.filter_cons, hin]
        rw [hlen]
        have hloss : (q / tally bs hop w) * wsum (fun b => pr b.1 && decide (topOf hop b.1 = some w)) bs ≤ q := by
          have : (q : Rat) / tally bs hop w * wsum (fun b => pr b.1 && decide (topOf hop b.1 = some w)) bs ≤
              (q : Rat) / tally bs hop w * tally bs hop w :=
            mul_le_mul_of_nonneg_left hled_le (div_nonneg (le_of_lt hqr) (le_of_lt htpos))
          have e : (q : Rat) / tally bs hop w * tally bs hop w = q := by field_simp
          linarith
        rw [hs, hfm] at hk'
        nlinarith
      · have hin' : inS w = false := by simpa using hin
        have h0 := hout w (by simp) hin'
        have hlen : (((w :: rest).filter inS).length : Rat) = ((rest.filter inS).length : Rat) := by
          simp [List.filter_cons, hin']
        rw [hlen]
        rw [hs, h0] at hk'
        linarith
    | raised e => simp [h1, bind, Outcome.bind] at h
    | oracleMismatch => simp [h1, bind, Outcome.bind] at h
    | outOfFuel => simp [h1, bind, Outcome.bind] at h

/-! ### the one-by-one winner holds a quota as well -/

/-- the first group of `scoreToRanking` carries the maximal score -/
theorem first_group_max (sc : List (Cand × Rat)) (g1 : List Cand) (rest : Ranking)
    (h : scoreToRanking sc = g1 :: rest) (hk : (sc.map (·.1)).Nodup) :
    ∃ v1, (∀ c ∈ g1, (c, v1) ∈ sc ∧ lookupScore sc c = v1) ∧ ∀ cs ∈ sc, cs.2 ≤ v1 := by
  rw [scoreToRanking_eq] at h
  cases hd : distinctDesc (sc.map (·.2)) with
  | nil => rw [hd] at h; simp at h
  | cons v1 vs =>
    rw [hd] at h
    simp only [List.map_cons, List.cons.injEq] at h
    obtain ⟨hg, _⟩ := h
    have hsorted := distinctDesc_sorted (sc.map (·.2))
    rw [hd, List.pairwise_cons] at hsorted
    have hmem : g1 ∈ scoreToRanking sc := by
      rw [scoreToRanking_eq, hd]; simp [hg]
    obtain ⟨v, hv⟩ := mem_group_score sc g1 hmem hk
    refine ⟨v1, ?_, ?_⟩
    · intro c hc
      have h1 := hv c hc
      -- the group's common score is v1
      have : c ∈ groupOf sc v1 := by rw [hg]; exact hc
      unfold groupOf at this
      obtain ⟨cs, hcs, rfl⟩ := List.mem_map.1 this
      have hv1 : cs.2 = v1 := by simpa using (List.mem_filter.1 hcs).2
      have hcs' : (cs.1, v1) ∈ sc := by rw [← hv1]; exact (List.mem_filter.1 hcs).1
      -- uniqueness of the entry for a key
      have huniq : v = v1 := by
        have hinj := List.inj_on_of_nodup_map hk h1.1 hcs' rfl
        exact (Prod.mk.inj hinj).2
      rw [← huniq]; exact h1
    · intro cs hcs
      have : cs.2 ∈ distinctDesc (sc.map (·.2)) := (mem_distinctDesc _ _).2 (List.mem_map_of_mem hcs)
      rw [hd] at this
      rcases List.mem_cons.1 this with h | h
      · exact le_of_eq h
      · exact le_of_lt (hsorted.1 _ h)

/-- whoever fills one seat from a ranking of non-empty groups comes from its first group -/
theorem elect_one_from_first (pri : List Cand) (ranking : Ranking) (prof : Option Profile) (tb : Option TB)
    (r : ElectResult) (hne : ∀ g ∈ ranking, g ≠ []) (hnd : ∀ g ∈ ranking, g.Nodup)
    (hsub : ∀ p, prof = some p → p.cands.Nodup ∧ ∀ g ∈ ranking, ∀ c ∈ g, c ∈ p.cands)
    (h : electFromRanking pri ranking 1 prof tb = .ok r) :
    ∃ g1 rest, ranking = g1 :: rest ∧ ∀ w ∈ r.elected.flatten, w ∈ g1 := by
  unfold electFromRanking at h
  split at h; · cases h
  split at h; · cases h
  obtain ⟨pre, post, hrest, hcase⟩ := electLoop_spec pri prof tb 1 [] ranking r hnd hsub h
  rcases hcase with ⟨_, h2, h3, _⟩ | ⟨g, post', broken, t, h1, _, _, h4, _, _, h7, _, h9, _⟩
  · cases pre with
    | nil => simp at h2
    | cons g1 pre' =>
      refine ⟨g1, pre' ++ post, by simp [hrest], ?_⟩
      have hg1 : g1 ≠ [] := hne g1 (by rw [hrest]; simp)
      have hlen : 0 < g1.length := List.length_pos_iff.2 hg1
      simp only [List.flatten_cons, List.length_append] at h2
      have hpre' : pre'.flatten = [] := by
        have : pre'.flatten.length = 0 := by omega
        exact List.length_eq_zero_iff.1 this
      intro w hw
      rw [h3] at hw
      simp only [List.reverse_nil, List.nil_append, List.flatten_cons, hpre', List.append_nil] at hw
      exact hw
  · have hpre : pre = [] := by
      cases pre with
      | nil => rfl
      | cons g1 pre' =>
        have hg1 : g1 ≠ [] := hne g1 (by rw [hrest]; simp)
        have hlen : 0 < g1.length := List.length_pos_iff.2 hg1
        simp only [List.flatten_cons, List.length_append] at h4
        omega
    subst hpre
    refine ⟨g, post', by simp [hrest, h1], ?_⟩
    intro w hw
    rw [h9] at hw
    simp only [List.reverse_nil, List.nil_append, List.flatten_nil, List.length_nil, Nat.sub_zero,
      List.append_nil] at hw
    have : w ∈ broken.flatten := by
      obtain ⟨x, hx, hwx⟩ := List.mem_flatten.1 hw
      exact List.mem_flatten.2 ⟨x, List.mem_of_mem_take hx, hwx⟩
    exact h7.mem_iff.1 this

/-- **Whoever is elected by the quota test holds a quota** (both modes): in a round in which some
tally reaches the threshold, every candidate the round elects has a tally at or above it. -/
theorem electChoice_ge (cfg : STVCfg) (q : Int) (ω : STVOracle) (rnd : Nat) (S : CState) (prev : RoundState)
    (g : Ranking) (tbs : List (List Cand × Ranking)) (hl : Linked S prev) (hn : S.hopeful.Nodup)
    (habove : (prev.scores.filter (fun cs => decide ((q : Rat) ≤ cs.2))).isEmpty = false)
    (h : electChoice cfg q ω rnd S prev = .ok (g, tbs)) :
    ∀ c ∈ g.flatten, (q : Rat) ≤ tally S.bs S.hopeful c := by
  have hk : (prev.scores.map (·.1)).Nodup := by rw [hl.1, tallies_keys]; exact hn
  unfold electChoice at h
  split at h
  · simp only [pure, Outcome.ok.injEq, Prod.mk.injEq] at h
    obtain ⟨h1, _⟩ := h
    subst h1
    intro c hc
    exact (simultaneous_winners_ge S prev q hl hn c hc).1
  · cases he : electFromRanking (ω.pri rnd) prev.remaining 1 (some (currentProfile S)) cfg.tiebreak with
    | ok r =>
      simp only [he, bind, Outcome.bind, pure, Outcome.ok.injEq, Prod.mk.injEq] at h
      obtain ⟨h1, _⟩ := h
      subst h1
      have hperm : prev.remaining.flatten.Perm S.hopeful := by
        rw [hl.2]
        have := scoreToRanking_perm prev.scores
        have hkeys : prev.scores.map (·.1) = S.hopeful := by rw [hl.1, tallies_keys]
        rwa [hkeys] at this
      have hrn : prev.remaining.flatten.Nodup := hperm.nodup_iff.2 hn
      have hne : ∀ x ∈ prev.remaining, x ≠ [] := by rw [hl.2]; exact scoreToRanking_groups_nonempty _
      have hnd : ∀ x ∈ prev.remaining, x.Nodup := fun x hx => (List.nodup_flatten.1 hrn).1 x hx
      have hsub : ∀ p, some (currentProfile S) = some p → p.cands.Nodup ∧ ∀ x ∈ prev.remaining, ∀ c ∈ x, c ∈ p.cands := by
        intro p hp
        injection hp with hp; subst hp
        exact ⟨hn, fun x hx c hc => hperm.mem_iff.1 (List.mem_flatten.2 ⟨x, hx, hc⟩)⟩
      obtain ⟨g1, rest, hrank, hw⟩ := elect_one_from_first _ _ _ _ r hne hnd hsub he
      rw [hl.2] at hrank
      obtain ⟨v1, hg1, hmax⟩ := first_group_max prev.scores g1 rest hrank hk
      -- somebody reaches the threshold, so the maximal tally does
      have hq1 : (q : Rat) ≤ v1 := by
        cases hf : prev.scores.filter (fun cs => decide ((q : Rat) ≤ cs.2)) with
        | nil => rw [hf] at habove; simp at habove
        | cons cs _ =>
          have hm : cs ∈ prev.scores.filter (fun cs => decide ((q : Rat) ≤ cs.2)) := by rw [hf]; simp
          obtain ⟨hmem, hq⟩ := List.mem_filter.1 hm
          exact le_trans (by simpa using hq) (hmax cs hmem)
      intro c hc
      have hcg := hw c hc
      obtain ⟨hpair, hlook⟩ := hg1 c hcg
      have hch : c ∈ S.hopeful := by
        have : c ∈ prev.scores.map (·.1) := List.mem_map.2 ⟨(c, v1), hpair, rfl⟩
        rwa [hl.1, tallies_keys] at this
      have : lookupScore prev.scores c = tally S.bs S.hopeful c := by
        rw [hl.1]; exact lookupScore_tallies _ _ _ hch
      rw [← this, hlook]; exact hq1
    | raised e => simp [he, bind, Outcome.bind] at h
    | oracleMismatch => simp [he, bind, Outcome.bind] at h
    | outOfFuel => simp [he, bind, Outcome.bind] at h

/-- the tallies of a duplicate-free set of hopeful candidates add up to the weight of the ballots
whose current top is one of them -/
theorem sum_tally_subset (bs : List PBallot) (hop H : List Cand) (hn : H.Nodup) :
    rsum (H.map (fun c => tally bs hop c)) =
      wsum (fun b => match topOf hop b.1 with | some c => H.contains c | none => false) bs := by
  induction bs with
  | nil => simp [tally, wsum_nil, rsum_replicate]
  | cons b rest ih =>
    have hsplit : (fun c => tally (b :: rest) hop c) =
        fun c => (if topOf hop b.1 = some c then b.2 else 0) + tally rest hop c := by
      funext c
      rw [tally_eq_wsum, wsum_cons, ← tally_eq_wsum]
      by_cases h : topOf hop b.1 = some c <;> simp [h]
    rw [hsplit, rsum_map_add, ih, wsum_cons]
    congr 1
    cases htop : topOf hop b.1 with
    | none => simp [rsum_replicate]
    | some c0 =>
      simp only [Option.some.injEq]
      clear ih hsplit htop
      induction H with
      | nil => simp
      | cons x xs ihx =>
        rw [List.nodup_cons] at hn
        simp only [List.map_cons, rsum_cons]
        by_cases hx : c0 = x
        · subst hx
          have : ∀ c ∈ xs, (if c0 = c then b.2 else 0) = 0 := by
            intro c hc
            have : c0 ≠ c := fun e => hn.1 (e ▸ hc)
            simp [this]
          rw [List.map_congr_left this]; simp [rsum_replicate]
        · rw [ihx hn.2]
          have hx' : (x == c0) = false := by simpa using (fun e => hx e.symm)
          simp [hx, List.contains_cons, hx', eq_comm]

/-! ### the three kinds of step, spelled out -/

/-- **What a successful step is**: an election round (somebody at the threshold), the final round
(remaining candidates fill the seats) or an elimination round. -/
theorem stvStep_cases (cfg : STVCfg) (init : Profile) (q : Int) (ω : STVOracle) (rnd : Nat)
    (S S' : CState) (prev r : RoundState) (h : stvStep cfg init q ω rnd S prev = .ok (S', r)) :
    (∃ g tbs bs', (prev.scores.filter (fun cs => decide ((q : Rat) ≤ cs.2))).isEmpty = false ∧
        electChoice cfg q ω rnd S prev = .ok (g, tbs) ∧
        applyTransfers cfg S.hopeful q (ω.sample rnd) g.flatten S.bs = .ok bs' ∧
        S'.bs = bs' ∧ S'.hopeful = S.hopeful.filter (fun c => !g.flatten.contains c) ∧
        S'.nElected = S.nElected + g.flatten.length ∧
        r.elected = g ∧ r.eliminated = [] ∧ r.scores = tallies S'.bs S'.hopeful) ∨
    ((prev.scores.filter (fun cs => decide ((q : Rat) ≤ cs.2))).isEmpty = true ∧
        S'.hopeful = [] ∧ S'.bs = S.bs.map (fun b => (b.1, 0)) ∧ S'.nElected = S.nElected + S.hopeful.length ∧
        S.hopeful.length = cfg.m - S.nElected ∧ S.nElected ≤ cfg.m ∧
        r.elected = prev.remaining ∧ r.eliminated = [] ∧ r.remaining = []) ∨
    ((prev.scores.filter (fun cs => decide ((q : Rat) ≤ cs.2))).isEmpty = true ∧
        ∃ lowest c tbs, prev.remaining.getLast? = some lowest ∧ loserChoice init ω rnd lowest = .ok (c, tbs) ∧
        S'.bs = S.bs ∧ S'.hopeful = S.hopeful.filter (fun x => x != c) ∧ S'.nElected = S.nElected ∧
        r.elected = [] ∧ r.eliminated = [[c]]) := by
  unfold stvStep at h
  simp only at h
  split at h
  · rename_i habove
    cases he : electChoice cfg q ω rnd S prev with
    | ok gt =>
      obtain ⟨g, tbs⟩ := gt
      simp only [he, bind, Outcome.bind] at h
      cases ha : applyTransfers cfg S.hopeful q (ω.sample rnd) g.flatten S.bs with
      | ok bs' =>
        simp only [ha, pure, Outcome.ok.injEq, Prod.mk.injEq] at h
        obtain ⟨h1, h2⟩ := h
        subst h1 h2
        left
        exact ⟨g, tbs, bs', by simpa using habove, rfl, ha, rfl, rfl, rfl, rfl, rfl, rfl⟩
      | raised e => simp [ha] at h
      | oracleMismatch => simp [ha] at h
      | outOfFuel => simp [ha] at h
    | raised e => simp [he, bind, Outcome.bind] at h
    | oracleMismatch => simp [he, bind, Outcome.bind] at h
    | outOfFuel => simp [he, bind, Outcome.bind] at h
  · rename_i habove
    have hab : (prev.scores.filter (fun cs => decide ((q : Rat) ≤ cs.2))).isEmpty = true := by simpa using habove
    split at h
    · rename_i hcond
      simp only [pure, Outcome.ok.injEq, Prod.mk.injEq] at h
      obtain ⟨h1, h2⟩ := h
      subst h1 h2
      simp only [Bool.and_eq_true, decide_eq_true_eq] at hcond
      right; left
      exact ⟨hab, rfl, rfl, rfl, hcond.2, hcond.1, rfl, rfl, rfl⟩
    · split at h
      · cases h
      · rename_i lowest hlast
        cases hlc : loserChoice init ω rnd lowest with
        | ok ct =>
          obtain ⟨c, tbs⟩ := ct
          simp only [hlc, bind, Outcome.bind, pure, Outcome.ok.injEq, Prod.mk.injEq] at h
          obtain ⟨h1, h2⟩ := h
          subst h1 h2
          right; right
          exact ⟨hab, lowest, c, tbs, hlast, hlc, rfl, rfl, rfl, rfl, rfl⟩
        | raised e => simp [hlc, bind, Outcome.bind] at h
        | oracleMismatch => simp [hlc, bind, Outcome.bind] at h
        | outOfFuel => simp [hlc, bind, Outcome.bind] at h

/-! ### every successful step removes a hopeful candidate -/

/-- a round in which somebody reaches the threshold elects somebody -/
theorem electChoice_nonempty (cfg : STVCfg) (q : Int) (ω : STVOracle) (rnd : Nat) (S : CState) (prev : RoundState)
    (g : Ranking) (tbs : List (List Cand × Ranking)) (hl : Linked S prev) (hn : S.hopeful.Nodup)
    (habove : (prev.scores.filter (fun cs => decide ((q : Rat) ≤ cs.2))).isEmpty = false)
    (h : electChoice cfg q ω rnd S prev = .ok (g, tbs)) : 0 < g.flatten.length := by
  have hk : (prev.scores.map (·.1)).Nodup := by rw [hl.1, tallies_keys]; exact hn
  have hkeys : prev.scores.map (·.1) = S.hopeful := by rw [hl.1, tallies_keys]
  have hperm : prev.remaining.flatten.Perm S.hopeful := by
    rw [hl.2]
    have := scoreToRanking_perm prev.scores
    rwa [hkeys] at this
  unfold electChoice at h
  split at h
  · simp only [pure, Outcome.ok.injEq, Prod.mk.injEq] at h
    obtain ⟨h1, _⟩ := h
    subst h1
    -- somebody is above the threshold, so the ranking is non-empty and its first group passes the test
    obtain ⟨cs, hcs⟩ : ∃ cs, cs ∈ prev.scores.filter (fun cs => decide ((q : Rat) ≤ cs.2)) := by
      cases hf : prev.scores.filter (fun cs => decide ((q : Rat) ≤ cs.2)) with
      | nil => rw [hf] at habove; simp at habove
      | cons x _ => exact ⟨x, by simp⟩
    obtain ⟨hmem, hq⟩ := List.mem_filter.1 hcs
    cases hr : scoreToRanking prev.scores with
    | nil =>
      have := scoreToRanking_perm prev.scores
      rw [hr] at this
      have hnil : prev.scores.map (·.1) = [] := by simpa using this.symm.eq_nil
      have : cs.1 ∈ prev.scores.map (·.1) := List.mem_map_of_mem hmem
      rw [hnil] at this; cases this
    | cons g1 rest =>
      obtain ⟨v1, hg1, hmax⟩ := first_group_max prev.scores g1 rest hr hk
      have hg1ne : g1 ≠ [] := scoreToRanking_groups_nonempty prev.scores g1 (by rw [hr]; simp)
      rw [hl.2, hr]
      cases g1 with
      | nil => exact absurd rfl hg1ne
      | cons c0 tl =>
        have hq1 : (q : Rat) ≤ lookupScore prev.scores c0 := by
          rw [(hg1 c0 (by simp)).2]
          exact le_trans (by simpa using hq) (hmax cs hmem)
        simp [List.takeWhile_cons, hq1]
  · cases he : electFromRanking (ω.pri rnd) prev.remaining 1 (some (currentProfile S)) cfg.tiebreak with
    | ok r =>
      simp only [he, bind, Outcome.bind, pure, Outcome.ok.injEq, Prod.mk.injEq] at h
      obtain ⟨h1, _⟩ := h
      subst h1
      have hrn : prev.remaining.flatten.Nodup := hperm.nodup_iff.2 hn
      have hnd : ∀ x ∈ prev.remaining, x.Nodup := fun x hx => (List.nodup_flatten.1 hrn).1 x hx
      have hsub : ∀ p, some (currentProfile S) = some p → p.cands.Nodup ∧ ∀ x ∈ prev.remaining, ∀ c ∈ x, c ∈ p.cands := by
        intro p hp
        injection hp with hp; subst hp
        exact ⟨hn, fun x hx c hc => hperm.mem_iff.1 (List.mem_flatten.2 ⟨x, hx, hc⟩)⟩
      rw [(electFromRanking_count _ _ _ _ _ r hnd hsub he).1]; exact Nat.one_pos
    | raised e => simp [he, bind, Outcome.bind] at h
    | oracleMismatch => simp [he, bind, Outcome.bind] at h
    | outOfFuel => simp [he, bind, Outcome.bind] at h

/-- **Progress.** While seats are open, a successful step leaves strictly fewer hopeful candidates. -/
theorem stvStep_decreases (cfg : STVCfg) (init : Profile) (q : Int) (ω : STVOracle) (rnd : Nat)
    (S S' : CState) (prev r : RoundState) (recs : List RoundState)
    (hi : init.cands.Nodup) (hcs : ∀ c ∈ S.hopeful, c ∈ init.cands)
    (inv : StvInv init.cands S prev recs) (hl : Linked S prev) (hm : S.nElected ≠ cfg.m)
    (h : stvStep cfg init q ω rnd S prev = .ok (S', r)) : S'.hopeful.length < S.hopeful.length := by
  rcases stvStep_cases cfg init q ω rnd S S' prev r h with
    ⟨g, tbs, bs', habove, he, _, _, hSh, _, _, _, _⟩ |
    ⟨_, hSh, _, _, hlen, hle, _, _, _⟩ |
    ⟨_, lowest, c, tbs, hlast, hlc, _, hSh, _, _, _⟩
  · obtain ⟨hWn, hWs⟩ := electChoice_spec cfg q ω rnd S prev g tbs inv.hop_nodup inv.rem he
    have hpos := electChoice_nonempty cfg q ω rnd S prev g tbs hl inv.hop_nodup habove he
    have := (filter_not_contains_perm S.hopeful g.flatten inv.hop_nodup hWn hWs).length_eq
    simp only [List.length_append] at this
    rw [hSh]; omega
  · rw [hSh]
    simp only [List.length_nil]
    by_contra hcon
    have : S.hopeful.length = 0 := by omega
    omega
  · have hrn : prev.remaining.flatten.Nodup := inv.rem.nodup_iff.2 inv.hop_nodup
    have hlm : lowest ∈ prev.remaining := List.mem_of_getLast? hlast
    have hln : lowest.Nodup := (List.nodup_flatten.1 hrn).1 lowest hlm
    have hlh : ∀ x ∈ lowest, x ∈ S.hopeful := fun x hx =>
      inv.rem.mem_iff.1 (List.mem_flatten.2 ⟨lowest, hlm, hx⟩)
    have hc : c ∈ S.hopeful :=
      hlh c (loserChoice_mem init ω rnd lowest c tbs hln hi (fun x hx => hcs x (hlh x hx)) hlc)
    have := (filter_ne_perm S.hopeful c inv.hop_nodup hc).length_eq
    simp only [List.length_append, List.length_cons, List.length_nil] at this
    rw [hSh]; omega

end VK
