/-
  VK.Lemmas.Ranking — `score_dict_to_ranking`: groups of equal score, strictly descending.
-/
import VK.Model.Utils
import Mathlib.Data.List.Sort
import Mathlib.Data.List.Perm.Basic
import Mathlib.Data.List.Count
import Mathlib.Algebra.Order.Field.Rat
import Mathlib.Tactic.Linarith

namespace VK

theorem mem_insertDesc (x y : Rat) (l : List Rat) : y ∈ insertDesc x l ↔ y = x ∨ y ∈ l := by
  induction l with
  | nil => simp [insertDesc]
  | cons z zs ih =>
    unfold insertDesc
    split
    · simp
    · split
      · rename_i h; subst h; simp
      · simp [ih]; tauto

theorem mem_distinctDesc (y : Rat) (l : List Rat) : y ∈ distinctDesc l ↔ y ∈ l := by
  unfold distinctDesc
  induction l with
  | nil => simp
  | cons x xs ih => simp [mem_insertDesc, ih]

theorem insertDesc_sorted (x : Rat) (l : List Rat) (h : l.Pairwise (· > ·)) :
    (insertDesc x l).Pairwise (· > ·) := by
  induction l with
  | nil => simp [insertDesc]
  | cons z zs ih =>
    rw [List.pairwise_cons] at h
    unfold insertDesc
    split
    · rename_i hz
      rw [List.pairwise_cons]
      refine ⟨?_, List.pairwise_cons.2 h⟩
      intro a ha
      rcases List.mem_cons.1 ha with rfl | ha
      · exact hz
      · exact lt_trans (h.1 a ha) hz
    · rename_i hz
      split
      · exact List.pairwise_cons.2 h
      · rename_i hne
        rw [List.pairwise_cons]
        refine ⟨?_, ih h.2⟩
        intro a ha
        rcases (mem_insertDesc x a zs).1 ha with rfl | ha
        · exact lt_of_le_of_ne (not_lt.1 hz) (fun e => hne e)
        · exact h.1 a ha

theorem distinctDesc_sorted (l : List Rat) : (distinctDesc l).Pairwise (· > ·) := by
  unfold distinctDesc
  induction l with
  | nil => simp
  | cons x xs ih => exact insertDesc_sorted x _ ih

theorem distinctDesc_nodup (l : List Rat) : (distinctDesc l).Nodup :=
  (distinctDesc_sorted l).imp (fun h => ne_of_gt h)

/-- the group of candidates with score `v` -/
def groupOf (sc : List (Cand × Rat)) (v : Rat) : List Cand := (sc.filter (fun cs => cs.2 = v)).map (·.1)

theorem scoreToRanking_eq (sc : List (Cand × Rat)) :
    scoreToRanking sc true = (distinctDesc (sc.map (·.2))).map (groupOf sc) := by
  simp [scoreToRanking, groupOf]

/-- a duplicate-free list of values that covers all values partitions `sc` -/
theorem flatMap_filter_perm (sc : List (Cand × Rat)) (vals : List Rat) (hnd : vals.Nodup)
    (hcov : ∀ cs ∈ sc, cs.2 ∈ vals) :
    (vals.flatMap (fun v => sc.filter (fun cs => cs.2 = v))).Perm sc := by
  induction vals generalizing sc with
  | nil =>
    have : sc = [] := by
      cases sc with
      | nil => rfl
      | cons x xs => exact absurd (hcov x (by simp)) (by simp)
    subst this; simp
  | cons v vs ih =>
    rw [List.nodup_cons] at hnd
    let sc' := sc.filter (fun cs => !decide (cs.2 = v))
    have hcov' : ∀ cs ∈ sc', cs.2 ∈ vs := by
      intro cs hcs
      have h1 := (List.mem_filter.1 hcs)
      have h2 := hcov cs h1.1
      rcases List.mem_cons.1 h2 with h | h
      · simp [h] at h1
      · exact h
    have ih' := ih sc' hnd.2 hcov'
    have hrest : vs.flatMap (fun u => sc.filter (fun cs => cs.2 = u)) =
        vs.flatMap (fun u => sc'.filter (fun cs => cs.2 = u)) := by
      apply List.flatMap_congr
      intro u hu
      have huv : u ≠ v := fun e => hnd.1 (e ▸ hu)
      simp only [sc', List.filter_filter]
      apply List.filter_congr
      intro cs _
      by_cases h : cs.2 = u
      · have : cs.2 ≠ v := fun e => huv (h.symm.trans e)
        simp [h, huv]
      · simp [h]
    rw [List.flatMap_cons, hrest]
    exact (List.Perm.append_left _ ih').trans (List.filter_append_perm _ sc)

/-- **The groups partition the candidates.** -/
theorem scoreToRanking_perm (sc : List (Cand × Rat)) :
    (scoreToRanking sc true).flatten.Perm (sc.map (·.1)) := by
  rw [scoreToRanking_eq]
  have h := flatMap_filter_perm sc (distinctDesc (sc.map (·.2))) (distinctDesc_nodup _)
    (fun cs hcs => (mem_distinctDesc _ _).2 (List.mem_map_of_mem hcs))
  have := h.map (·.1)
  have e : (List.map (groupOf sc) (distinctDesc (sc.map (·.2)))).flatten =
      List.map (·.1) ((distinctDesc (sc.map (·.2))).flatMap (fun v => sc.filter (fun cs => cs.2 = v))) := by
    have hg : groupOf sc = fun v => (sc.filter (fun cs => cs.2 = v)).map (·.1) := rfl
    rw [hg]
    simp [List.flatMap, List.map_flatten, List.map_map, Function.comp_def]
  rw [e]; exact this

end VK
