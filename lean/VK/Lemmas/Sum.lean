/-
  VK.Lemmas.Sum — `rsum` and weight-map lemmas shared by several properties.
-/
import VK.Model.Utils
import Mathlib.Tactic.Ring
import Mathlib.Tactic.Linarith
import Mathlib.Algebra.Order.Field.Rat
import Mathlib.Algebra.BigOperators.Group.List.Basic

namespace VK

@[simp] theorem rsum_nil : rsum [] = 0 := rfl
@[simp] theorem rsum_cons (x : Rat) (xs : List Rat) : rsum (x :: xs) = x + rsum xs := rfl

theorem rsum_eq_sum (l : List Rat) : rsum l = l.sum := by
  induction l with
  | nil => rfl
  | cons x xs ih => simp [ih]

@[simp] theorem rsum_append (a b : List Rat) : rsum (a ++ b) = rsum a + rsum b := by
  induction a with
  | nil => simp
  | cons x xs ih => simp [ih]; ring

theorem rsum_map_add {α} (l : List α) (f g : α → Rat) :
    rsum (l.map (fun a => f a + g a)) = rsum (l.map f) + rsum (l.map g) := by
  induction l with
  | nil => simp
  | cons x xs ih => simp [ih]; ring

theorem rsum_map_mul_right {α} (l : List α) (f : α → Rat) (c : Rat) :
    rsum (l.map (fun a => f a * c)) = rsum (l.map f) * c := by
  induction l with
  | nil => simp
  | cons x xs ih => simp [ih]; ring

theorem rsum_map_mul_left {α} (l : List α) (f : α → Rat) (c : Rat) :
    rsum (l.map (fun a => c * f a)) = c * rsum (l.map f) := by
  induction l with
  | nil => simp
  | cons x xs ih => simp [ih]; ring

theorem rsum_nonneg (l : List Rat) (h : ∀ x ∈ l, 0 ≤ x) : 0 ≤ rsum l := by
  induction l with
  | nil => simp
  | cons x xs ih =>
    simp only [rsum_cons]
    have h1 := h x (by simp)
    have h2 := ih (fun y hy => h y (by simp [hy]))
    linarith

theorem rsum_replicate (n : Nat) (x : Rat) : rsum (List.replicate n x) = n * x := by
  induction n with
  | zero => simp
  | succ k ih => simp [List.replicate_succ, ih]; ring

@[simp] theorem rsum_map_zero {α} (l : List α) : rsum (l.map (fun _ => (0 : Rat))) = 0 := by
  simp [rsum_replicate]

/-- swapping the order of a double sum -/
theorem rsum_comm {α β} (l : List α) (m : List β) (f : α → β → Rat) :
    rsum (l.map (fun a => rsum (m.map (fun b => f a b)))) =
    rsum (m.map (fun b => rsum (l.map (fun a => f a b)))) := by
  induction l with
  | nil => simp [rsum_replicate]
  | cons x xs ih => simp [ih, rsum_map_add]

theorem rsum_filter_add_filter_not {α} (l : List α) (p : α → Bool) (f : α → Rat) :
    rsum ((l.filter p).map f) + rsum ((l.filter (fun a => !p a)).map f) = rsum (l.map f) := by
  induction l with
  | nil => simp
  | cons x xs ih =>
    by_cases h : p x = true
    · simp [h]; linarith
    · simp [h]; linarith


theorem rsum_filter_map_eq_ite {α} (l : List α) (p : α → Bool) (f : α → Rat) :
    rsum ((l.filter p).map f) = rsum (l.map (fun a => if p a then f a else 0)) := by
  induction l with
  | nil => simp
  | cons x xs ih =>
    by_cases h : p x = true
    · simp [h, ih]
    · simp [h, ih]

theorem rsum_map_ite_const {α} (l : List α) (p : α → Bool) (x : Rat) :
    rsum (l.map (fun a => if p a then x else 0)) = ((l.filter p).length : Rat) * x := by
  induction l with
  | nil => simp
  | cons y ys ih =>
    by_cases h : p y = true
    · simp [h, ih]; ring
    · simp [h, ih]

/-- members of a duplicate-free `s ⊆ cands` are counted once each by a duplicate-free `cands` -/
theorem filter_contains_length (cands s : List Cand) (hc : cands.Nodup) (hs : s.Nodup)
    (hsub : ∀ c ∈ s, c ∈ cands) : (cands.filter (fun c => s.contains c)).length = s.length := by
  apply List.Perm.length_eq
  apply (List.perm_ext_iff_of_nodup (hc.filter _) hs).2
  intro a
  simp only [List.mem_filter, List.contains_iff_mem]
  exact ⟨fun h => h.2, fun h => ⟨hsub a h, h⟩⟩

/-! ### accumulate / condense keep the weight map -/

/-- total of `g k * w` over an accumulator -/
def accSum (g : Content → Rat) (acc : List (Content × Rat)) : Rat :=
  rsum (acc.map (fun kw => g kw.1 * kw.2))

theorem accSum_accAdd (g : Content → Rat) (k : Content) (w : Rat) (acc : List (Content × Rat)) :
    accSum g (accAdd k w acc) = accSum g acc + g k * w := by
  induction acc with
  | nil => simp [accSum, accAdd]
  | cons x xs ih =>
    unfold accAdd
    by_cases h : x.1 = k
    · simp [h, accSum]; ring
    · simp only [h, if_false]
      simp only [accSum, List.map_cons, rsum_cons] at ih ⊢
      rw [ih]; ring

theorem accSum_foldl (g : Content → Rat) (bs : List Ballot) (acc : List (Content × Rat)) :
    accSum g (bs.foldl (fun acc b => accAdd b.content b.weight acc) acc) =
      accSum g acc + rsum (bs.map (fun b => g b.content * b.weight)) := by
  induction bs generalizing acc with
  | nil => simp
  | cons b bs ih => simp [ih, accSum_accAdd]; ring

/-- **Condensing preserves every content-linear total.** -/
theorem sum_condense (g : Content → Rat) (bs : List Ballot) :
    rsum ((condense bs).map (fun b => g b.content * b.weight)) =
    rsum (bs.map (fun b => g b.content * b.weight)) := by
  have := accSum_foldl g bs []
  simp only [accSum, List.map_nil, rsum_nil, zero_add] at this
  simpa [condense, accumulate, List.map_map, Function.comp_def, Ballot.content] using this

end VK
