/-
  VK.Lemmas.ReorderScore — the scoring functions and `remove_cand` on a profile whose declared candidates are listed
  in another order: the score dictionary is the same dictionary re-listed.
-/
import VK.Lemmas.Reorder
import VK.Props.C08
namespace VK

def withCands (p : Profile) (c2 : List Cand) : Profile := { ballots := p.ballots, cands := c2 }

theorem positionAlloc_append (v : List Rat) (i : Nat) (r s : Ranking) :
    positionAlloc v i (r ++ s) = positionAlloc v i r ++ positionAlloc v (i + (r.map List.length).sum) s := by
  induction r generalizing i with
  | nil => simp [positionAlloc]
  | cons g rest ih =>
    simp only [List.cons_append, positionAlloc, ih, List.map_cons, List.sum_cons]
    congr 3
    omega

theorem ballotPoints_last_perm (v : List Rat) (r : Ranking) (g g' : List Cand) (h : g.Perm g') (c : Cand) :
    ballotPoints v (r ++ [g]) c = ballotPoints v (r ++ [g']) c := by
  unfold ballotPoints
  rw [positionAlloc_append, positionAlloc_append]
  simp only [positionAlloc, List.filter_append, List.map_append, h.length_eq]
  congr 2
  have : g.contains c = g'.contains c := by
    rw [Bool.eq_iff_iff]; simp only [List.contains_iff_mem]; exact h.mem_iff
  simp only [List.filter_cons, this, List.filter_nil]
  split <;> rfl

theorem addMissing_points_perm (cands c2 : List Cand) (h : c2.Perm cands) (b : Ballot) (v : List Rat) (c : Cand) :
    ballotPoints v (addMissingBallot c2 b).ranking c = ballotPoints v (addMissingBallot cands b).ranking c := by
  unfold addMissingBallot missingCands
  have hp : (c2.filter (fun c => !b.ranking.flatten.contains c)).Perm (cands.filter (fun c => !b.ranking.flatten.contains c)) :=
    h.filter _
  have he : (c2.filter (fun c => !b.ranking.flatten.contains c)).isEmpty =
      (cands.filter (fun c => !b.ranking.flatten.contains c)).isEmpty := by
    rw [Bool.eq_iff_iff, List.isEmpty_iff, List.isEmpty_iff]
    exact ⟨fun e => by rw [e] at hp; exact hp.symm.eq_nil, fun e => by rw [e] at hp; exact hp.eq_nil⟩
  simp only [he]
  split
  · rfl
  · exact ballotPoints_last_perm v b.ranking _ _ hp c

theorem reSc_of_map (c2 cands : List Cand) (hperm : c2.Perm cands) (F : Cand → Rat) :
    reSc c2 (cands.map (fun c => (c, F c))) = c2.map (fun c => (c, F c)) := by
  unfold reSc
  rw [List.map_map]
  have hk : (cands.map ((fun cs : Cand × Rat => cs.1) ∘ fun c => (c, F c))) = cands := by
    simp [Function.comp_def]
  rw [hk]
  have hall : reG c2 cands = c2 := by
    unfold reG
    apply List.filter_eq_self.mpr
    intro x hx; simpa using hperm.subset hx
  rw [hall]
  apply List.map_congr_left; intro c hc
  rw [lookupScore_map cands F c (hperm.subset hc)]

theorem scoreFromRankings_re (p : Profile) (c2 : List Cand) (hperm : c2.Perm p.cands) (v : List Rat) :
    scoreFromRankings (withCands p c2) v = (scoreFromRankings p v).map (reSc c2) := by
  by_cases hv : validVector v = true
  · by_cases hr : ∀ b ∈ p.ballots, b.ranking ≠ []
    · rw [scoreFromRankings_eq _ v hv (show ∀ b ∈ (withCands p c2).ballots, b.ranking ≠ [] from hr),
        scoreFromRankings_eq _ v hv hr]
      simp only [Outcome.map_ok, withCands]
      rw [reSc_of_map c2 p.cands hperm]
      congr 1
      apply List.map_congr_left; intro c _
      simp only [Prod.mk.injEq, true_and, hperm.length_eq]
      congr 1
      apply List.map_congr_left; intro b _
      rw [addMissing_points_perm p.cands c2 hperm]
    · have hany : p.ballots.any (fun b => b.ranking.isEmpty) = true := by
        rw [List.any_eq_true]
        push Not at hr
        obtain ⟨b, hb, he⟩ := hr
        exact ⟨b, hb, by simp [he]⟩
      simp [scoreFromRankings, addMissing, withCands, hv, hany, Outcome.map]
  · simp [scoreFromRankings, hv, Outcome.map]

theorem firstPlaceVotes_re (p : Profile) (c2 : List Cand) (hperm : c2.Perm p.cands) :
    firstPlaceVotes (withCands p c2) = (firstPlaceVotes p).map (reSc c2) := by
  unfold firstPlaceVotes
  have : (withCands p c2).cands.length = p.cands.length := hperm.length_eq
  rw [this]; exact scoreFromRankings_re p c2 hperm _

theorem bordaScores_re (p : Profile) (c2 : List Cand) (hperm : c2.Perm p.cands) :
    bordaScores (withCands p c2) = (bordaScores p).map (reSc c2) := by
  unfold bordaScores
  have : (withCands p c2).cands.length = p.cands.length := hperm.length_eq
  rw [this]; exact scoreFromRankings_re p c2 hperm _

theorem scoreFromBallotScores_re (p : Profile) (c2 : List Cand) (hperm : c2.Perm p.cands) :
    scoreFromBallotScores (withCands p c2) = (scoreFromBallotScores p).map (reSc c2) := by
  unfold scoreFromBallotScores
  have hb : (withCands p c2).ballots = p.ballots := rfl
  have hc : (withCands p c2).cands = c2 := rfl
  rw [hb, hc]
  have hcont : ∀ x, c2.contains x = p.cands.contains x := by
    intro x; rw [Bool.eq_iff_iff]; simp only [List.contains_iff_mem]; exact hperm.mem_iff
  simp only [hcont]
  split
  · rfl
  · split
    · rfl
    · simp only [Outcome.map_ok]
      rw [reSc_of_map c2 p.cands hperm]

/-- `remove_cand` only asks whether a candidate is among the removed ones -/
theorem removeCand_re (p : Profile) (c2 removed removed' : List Cand) (h : ∀ x, x ∈ removed' ↔ x ∈ removed)
    (cond leaveZero : Bool) :
    removeCand removed' (withCands p c2) cond leaveZero =
      withCands (removeCand removed p cond leaveZero) (c2.filter (fun c => !removed.contains c)) := by
  have hcont : ∀ x, removed'.contains x = removed.contains x := by
    intro x; rw [Bool.eq_iff_iff]; simp only [List.contains_iff_mem]; exact h x
  unfold removeCand removeCandBallots scrubBallots scrubBallot scrubRanking scrubScores withCands
  simp only [hcont]

end VK
