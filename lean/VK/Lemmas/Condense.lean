/-
  VK.Lemmas.Condense — `condense` groups by content and keeps the weight map.
-/
import VK.Lemmas.Sum
import Mathlib.Data.List.Nodup

namespace VK

theorem wt_eq_sum (bs : List Ballot) (k : Content) :
    wt bs k = rsum (bs.map (fun b => (if b.content = k then (1 : Rat) else 0) * b.weight)) := by
  unfold wt
  induction bs with
  | nil => simp
  | cons b bs ih =>
    by_cases h : b.content = k
    · simp [h, ih]
    · simp [h, ih]

/-- **Condensing keeps the total weight of every content.** -/
theorem wt_condense (bs : List Ballot) (k : Content) : wt (condense bs) k = wt bs k := by
  rw [wt_eq_sum, wt_eq_sum]
  exact sum_condense (fun c => if c = k then (1 : Rat) else 0) bs

theorem totalWeight_condense (bs : List Ballot) : totalWeight (condense bs) = totalWeight bs := by
  have := sum_condense (fun _ => (1 : Rat)) bs
  simpa [totalWeight] using this

/-! keys of the accumulator -/

theorem accAdd_keys (k : Content) (w : Rat) (acc : List (Content × Rat)) :
    (accAdd k w acc).map (·.1) =
      if k ∈ acc.map (·.1) then acc.map (·.1) else acc.map (·.1) ++ [k] := by
  induction acc with
  | nil => simp [accAdd]
  | cons x xs ih =>
    unfold accAdd
    by_cases h : x.1 = k
    · simp [h]
    · have hk : ¬ k = x.1 := fun e => h e.symm
      simp only [h, if_false, List.map_cons, ih, List.mem_cons, hk, false_or]
      split <;> simp

theorem accAdd_keys_nodup (k : Content) (w : Rat) (acc : List (Content × Rat))
    (h : (acc.map (·.1)).Nodup) : ((accAdd k w acc).map (·.1)).Nodup := by
  rw [accAdd_keys]
  split
  · exact h
  · rename_i hk
    exact List.Nodup.append h (by simp) (by simpa using hk)

theorem accAdd_mem_keys (k k' : Content) (w : Rat) (acc : List (Content × Rat)) :
    k' ∈ (accAdd k w acc).map (·.1) ↔ k' = k ∨ k' ∈ acc.map (·.1) := by
  rw [accAdd_keys]
  split
  · rename_i h
    constructor
    · exact Or.inr
    · rintro (rfl | h') <;> assumption
  · simp [or_comm]

theorem foldl_accAdd_keys_nodup (bs : List Ballot) (acc : List (Content × Rat))
    (h : (acc.map (·.1)).Nodup) :
    ((bs.foldl (fun acc b => accAdd b.content b.weight acc) acc).map (·.1)).Nodup := by
  induction bs generalizing acc with
  | nil => simpa
  | cons b bs ih => exact ih _ (accAdd_keys_nodup _ _ _ h)

theorem foldl_accAdd_mem_keys (bs : List Ballot) (acc : List (Content × Rat)) (k : Content) :
    k ∈ (bs.foldl (fun acc b => accAdd b.content b.weight acc) acc).map (·.1) ↔
      k ∈ acc.map (·.1) ∨ ∃ b ∈ bs, b.content = k := by
  induction bs generalizing acc with
  | nil => simp
  | cons b bs ih =>
    simp only [List.foldl_cons, ih, accAdd_mem_keys, List.mem_cons, exists_eq_or_imp]
    constructor
    · rintro ((rfl | h) | h)
      · exact Or.inr (Or.inl rfl)
      · exact Or.inl h
      · exact Or.inr (Or.inr h)
    · rintro (h | h | h)
      · exact Or.inl (Or.inr h)
      · exact Or.inl (Or.inl h.symm)
      · exact Or.inr h

/-- **Condensed ballots are pairwise distinct in content.** -/
theorem condense_contents_nodup (bs : List Ballot) : ((condense bs).map Ballot.content).Nodup := by
  have := foldl_accAdd_keys_nodup bs [] (by simp)
  simpa [condense, accumulate, List.map_map, Function.comp_def, Ballot.content] using this

/-- a content occurs in the condensed list iff it occurs in the input -/
theorem mem_condense_content (bs : List Ballot) (k : Content) :
    k ∈ (condense bs).map Ballot.content ↔ ∃ b ∈ bs, b.content = k := by
  have := foldl_accAdd_mem_keys bs [] k
  simpa [condense, accumulate, List.map_map, Function.comp_def, Ballot.content] using this

end VK
