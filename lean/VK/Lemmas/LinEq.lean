/-
  VK.Lemmas.LinEq — two ballot lists that give every ranking the same total weight (equal as
  "weight maps": one is a reordering, splitting or merging of the other) drive the STV count through
  the same rounds.
-/
import VK.Lemmas.PSC
import VK.Lemmas.FpvLink

namespace VK

/-- weighted sum of a ranking-function over a pointwise ballot list -/
def lsum (f : List Cand → Rat) (bs : List PBallot) : Rat := rsum (bs.map (fun b => f b.1 * b.2))

/-- same total for every function of the ranking -/
def LinEq (bs bs' : List PBallot) : Prop := ∀ f : List Cand → Rat, lsum f bs = lsum f bs'

theorem lsum_nil (f : List Cand → Rat) : lsum f [] = 0 := rfl
theorem lsum_cons (f : List Cand → Rat) (b : PBallot) (bs : List PBallot) :
    lsum f (b :: bs) = f b.1 * b.2 + lsum f bs := rfl

theorem lsum_append (f : List Cand → Rat) (a b : List PBallot) : lsum f (a ++ b) = lsum f a + lsum f b := by
  unfold lsum; simp

theorem LinEq.refl (bs : List PBallot) : LinEq bs bs := fun _ => rfl
theorem LinEq.symm {a b : List PBallot} (h : LinEq a b) : LinEq b a := fun f => (h f).symm
theorem LinEq.trans {a b c : List PBallot} (h1 : LinEq a b) (h2 : LinEq b c) : LinEq a c :=
  fun f => (h1 f).trans (h2 f)

/-- reordering the ballots -/
theorem LinEq.of_perm {a b : List PBallot} (h : a.Perm b) : LinEq a b := by
  intro f
  unfold lsum
  rw [rsum_eq_sum, rsum_eq_sum]
  exact (h.map _).sum_eq

/-- splitting a ballot into two identical ballots whose weights add up (or merging them back) -/
theorem LinEq.of_split (r : List Cand) (w1 w2 : Rat) (rest : List PBallot) :
    LinEq ((r, w1 + w2) :: rest) ((r, w1) :: (r, w2) :: rest) := by
  intro f
  simp only [lsum_cons]; ring

/-- a weight-selecting sum is a linear functional -/
theorem wsum_eq_lsum (pr : List Cand → Bool) (bs : List PBallot) :
    wsum (fun b => pr b.1) bs = lsum (fun r => if pr r then 1 else 0) bs := by
  induction bs with
  | nil => simp [wsum_nil, lsum_nil]
  | cons b rest ih =>
    rw [wsum_cons, lsum_cons, ih]
    by_cases h : pr b.1 <;> simp [h]

theorem LinEq.wsum {a b : List PBallot} (h : LinEq a b) (pr : List Cand → Bool) :
    wsum (fun x => pr x.1) a = wsum (fun x => pr x.1) b := by
  rw [wsum_eq_lsum, wsum_eq_lsum]; exact h _

theorem LinEq.tally {a b : List PBallot} (h : LinEq a b) (hop : List Cand) (c : Cand) :
    tally a hop c = tally b hop c := by
  rw [tally_eq_wsum, tally_eq_wsum]
  exact h.wsum (fun r => decide (topOf hop r = some c))

theorem LinEq.tallies {a b : List PBallot} (h : LinEq a b) (hop : List Cand) : VK.tallies a hop = VK.tallies b hop := by
  unfold VK.tallies
  apply List.map_congr_left
  intro c _
  rw [h.tally hop c]

theorem lsum_scaleLed (f : List Cand → Rat) (hop : List Cand) (w : Cand) (x : Rat) (bs : List PBallot) :
    lsum f (scaleLed hop w x bs) = lsum (fun r => f r * (if topOf hop r = some w then x else 1)) bs := by
  unfold scaleLed
  induction bs with
  | nil => rfl
  | cons b rest ih =>
    simp only [List.map_cons, lsum_cons, ih]
    by_cases h : topOf hop b.1 = some w <;> simp [h] <;> ring

theorem LinEq.scaleLed {a b : List PBallot} (h : LinEq a b) (hop : List Cand) (w : Cand) (x : Rat) :
    LinEq (scaleLed hop w x a) (scaleLed hop w x b) := by
  intro f
  rw [lsum_scaleLed, lsum_scaleLed]; exact h _

theorem LinEq.zero (a b : List PBallot) : LinEq (a.map (fun x => (x.1, (0 : Rat)))) (b.map (fun x => (x.1, (0 : Rat)))) := by
  intro f
  have : ∀ l : List PBallot, lsum f (l.map (fun x => (x.1, (0 : Rat)))) = 0 := by
    intro l
    induction l with
    | nil => rfl
    | cons y ys ih => simp only [List.map_cons, lsum_cons, ih]; ring
  rw [this, this]

/-- outcomes that agree up to `LinEq` of the resulting ballot lists -/
def RelBs : Outcome (List PBallot) → Outcome (List PBallot) → Prop
  | .ok a, .ok b => LinEq a b
  | .raised e, .raised e' => e = e'
  | .oracleMismatch, .oracleMismatch => True
  | .outOfFuel, .outOfFuel => True
  | _, _ => False

/-- the fractional and the full-weight transfers of a round respect `LinEq` -/
theorem applyTransfers_lineq (cfg : STVCfg) (hop : List Cand) (q : Int) (sample : Cand → List (List Cand × Nat))
    (hnr : cfg.transfer ≠ .random) (ws : List Cand) (a b : List PBallot) (h : LinEq a b) :
    RelBs (applyTransfers cfg hop q sample ws a) (applyTransfers cfg hop q sample ws b) := by
  induction ws generalizing a b with
  | nil => simpa [applyTransfers, RelBs] using h
  | cons w rest ih =>
    simp only [applyTransfers]
    have ht := h.tally hop w
    cases hk : cfg.transfer with
    | random => exact absurd hk hnr
    | full =>
      have e1 : applyTransfer cfg hop q (sample w) a w = .ok a := by unfold applyTransfer; simp [hk]
      have e2 : applyTransfer cfg hop q (sample w) b w = .ok b := by unfold applyTransfer; simp [hk]
      rw [e1, e2]
      simp only [bind, Outcome.bind]
      exact ih a b h
    | fractional =>
      by_cases hz : tally a hop w = 0
      · have hz' : tally b hop w = 0 := by rw [← ht]; exact hz
        have e1 : applyTransfer cfg hop q (sample w) a w = .raised .zeroDiv := by unfold applyTransfer; simp [hk, hz]
        have e2 : applyTransfer cfg hop q (sample w) b w = .raised .zeroDiv := by unfold applyTransfer; simp [hk, hz']
        rw [e1, e2]; simp [bind, Outcome.bind, RelBs]
      · have hz' : tally b hop w ≠ 0 := by rw [← ht]; exact hz
        have e1 : applyTransfer cfg hop q (sample w) a w =
            .ok (scaleLed hop w ((tally a hop w - q) / tally a hop w) a) := by
          unfold applyTransfer scaleLed; simp [hk, hz]
        have e2 : applyTransfer cfg hop q (sample w) b w =
            .ok (scaleLed hop w ((tally b hop w - q) / tally b hop w) b) := by
          unfold applyTransfer scaleLed; simp [hk, hz']
        rw [← ht] at e2
        rw [e1, e2]
        simp only [bind, Outcome.bind]
        exact ih _ _ (h.scaleLed hop w _)

/-! ### one step of the count on two equivalent ballot lists -/

/-- a tiebreak by a random order does not look at the profile -/
theorem electLoop_prof_irrelevant (pri : List Cand) (prof prof' : Option Profile) (tb : Option TB)
    (htb : tb = none ∨ tb = some .random) (k : Nat) (acc rest : Ranking) :
    electLoop pri prof tb k acc rest = electLoop pri prof' tb k acc rest := by
  induction rest generalizing k acc with
  | nil => rfl
  | cons g rest ih =>
    unfold electLoop
    split
    · rfl
    · split
      · exact ih _ _
      · rcases htb with h | h
        · subst h; rfl
        · subst h; rfl

theorem electFromRanking_prof_irrelevant (pri : List Cand) (ranking : Ranking) (m : Nat) (prof prof' : Option Profile)
    (tb : Option TB) (htb : tb = none ∨ tb = some .random) :
    electFromRanking pri ranking m prof tb = electFromRanking pri ranking m prof' tb := by
  unfold electFromRanking
  split; · rfl
  split; · rfl
  exact electLoop_prof_irrelevant pri prof prof' tb htb _ _ _

/-- configurations in which the choice of winners does not consult the current profile -/
def ProfileFreeChoice (cfg : STVCfg) : Prop :=
  cfg.simultaneous = true ∨ cfg.tiebreak = none ∨ cfg.tiebreak = some .random

theorem electChoice_state_irrelevant (cfg : STVCfg) (q : Int) (ω : STVOracle) (rnd : Nat) (S S2 : CState)
    (prev : RoundState) (hcfg : ProfileFreeChoice cfg) :
    electChoice cfg q ω rnd S prev = electChoice cfg q ω rnd S2 prev := by
  unfold electChoice
  split
  · rfl
  · rename_i hsim
    rcases hcfg with h | h
    · exact absurd h hsim
    · rw [electFromRanking_prof_irrelevant _ _ _ (some (currentProfile S)) (some (currentProfile S2)) _ h]

theorem tiebreakSet_firstPlace (pri s : List Cand) (p : Profile) :
    tiebreakSet pri s (some p) .firstPlace =
      (firstPlaceVotes p >>= fun sc => breakGroups pri (scoreToRanking (sc.filter (fun cs => s.contains cs.1)))) := by
  unfold tiebreakSet
  simp

/-- the elimination tiebreak depends on the initial profile only through its first-place votes -/
theorem loserChoice_init (init init' : Profile) (ω : STVOracle) (rnd : Nat) (lowest : List Cand)
    (h : firstPlaceVotes init = firstPlaceVotes init') :
    loserChoice init ω rnd lowest = loserChoice init' ω rnd lowest := by
  unfold loserChoice
  rw [tiebreakSet_firstPlace, tiebreakSet_firstPlace, h]

/-- same hopeful set, same seat counter, equivalent ballots -/
def SameCount (S S2 : CState) : Prop := S.hopeful = S2.hopeful ∧ S.nElected = S2.nElected ∧ LinEq S.bs S2.bs

/-- step outcomes that record the same round and reach equivalent count states -/
def RelStep : Outcome (CState × RoundState) → Outcome (CState × RoundState) → Prop
  | .ok a, .ok b => a.2 = b.2 ∧ SameCount a.1 b.1
  | .raised e, .raised e' => e = e'
  | .oracleMismatch, .oracleMismatch => True
  | .outOfFuel, .outOfFuel => True
  | _, _ => False

/-- **One step on equivalent states.** -/
theorem stvStep_lineq_of (cfg : STVCfg) (init init' : Profile) (q : Int) (ω : STVOracle) (rnd : Nat)
    (S S2 : CState) (prev : RoundState) (hnr : cfg.transfer ≠ .random)
    (hec : electChoice cfg q ω rnd S prev = electChoice cfg q ω rnd S2 prev)
    (hinit : firstPlaceVotes init = firstPlaceVotes init') (hS : SameCount S S2) :
    RelStep (stvStep cfg init q ω rnd S prev) (stvStep cfg init' q ω rnd S2 prev) := by
  obtain ⟨hh, hn, hb⟩ := hS
  unfold stvStep
  simp only
  split
  · -- election round
    rw [hec]
    cases he : electChoice cfg q ω rnd S2 prev with
    | ok gt =>
      obtain ⟨g, tbs⟩ := gt
      simp only [bind, Outcome.bind]
      have hrel := applyTransfers_lineq cfg S.hopeful q (ω.sample rnd) hnr g.flatten S.bs S2.bs hb
      rw [← hh]
      cases h1 : applyTransfers cfg S.hopeful q (ω.sample rnd) g.flatten S.bs with
      | ok bs1 =>
        cases h2 : applyTransfers cfg S.hopeful q (ω.sample rnd) g.flatten S2.bs with
        | ok bs2 =>
          rw [h1, h2] at hrel
          have hl : LinEq bs1 bs2 := hrel
          simp only [pure, RelStep]
          refine ⟨?_, rfl, by rw [hn], hl⟩
          rw [hl.tallies]
        | raised e => rw [h1, h2] at hrel; exact absurd hrel (by simp [RelBs])
        | oracleMismatch => rw [h1, h2] at hrel; exact absurd hrel (by simp [RelBs])
        | outOfFuel => rw [h1, h2] at hrel; exact absurd hrel (by simp [RelBs])
      | raised e =>
        cases h2 : applyTransfers cfg S.hopeful q (ω.sample rnd) g.flatten S2.bs with
        | raised e' => rw [h1, h2] at hrel; simpa [RelStep, RelBs] using hrel
        | ok _ => rw [h1, h2] at hrel; exact absurd hrel (by simp [RelBs])
        | oracleMismatch => rw [h1, h2] at hrel; exact absurd hrel (by simp [RelBs])
        | outOfFuel => rw [h1, h2] at hrel; exact absurd hrel (by simp [RelBs])
      | oracleMismatch =>
        cases h2 : applyTransfers cfg S.hopeful q (ω.sample rnd) g.flatten S2.bs with
        | oracleMismatch => simp [RelStep]
        | ok _ => rw [h1, h2] at hrel; exact absurd hrel (by simp [RelBs])
        | raised e => rw [h1, h2] at hrel; exact absurd hrel (by simp [RelBs])
        | outOfFuel => rw [h1, h2] at hrel; exact absurd hrel (by simp [RelBs])
      | outOfFuel =>
        cases h2 : applyTransfers cfg S.hopeful q (ω.sample rnd) g.flatten S2.bs with
        | outOfFuel => simp [RelStep]
        | ok _ => rw [h1, h2] at hrel; exact absurd hrel (by simp [RelBs])
        | raised e => rw [h1, h2] at hrel; exact absurd hrel (by simp [RelBs])
        | oracleMismatch => rw [h1, h2] at hrel; exact absurd hrel (by simp [RelBs])
    | raised e => simp [bind, Outcome.bind, RelStep]
    | oracleMismatch => simp [bind, Outcome.bind, RelStep]
    | outOfFuel => simp [bind, Outcome.bind, RelStep]
  · rw [← hh, ← hn]
    split
    · simp only [pure, RelStep, SameCount]
      exact ⟨trivial, trivial, trivial, LinEq.zero _ _⟩
    · split
      · simp [RelStep]
      · rename_i lowest _
        rw [loserChoice_init init init' ω rnd lowest hinit]
        cases hlc : loserChoice init' ω rnd lowest with
        | ok ct =>
          simp only [bind, Outcome.bind, pure, RelStep]
          refine ⟨?_, rfl, rfl, hb⟩
          rw [hb.tallies]
        | raised e => simp [bind, Outcome.bind, RelStep]
        | oracleMismatch => simp [bind, Outcome.bind, RelStep]
        | outOfFuel => simp [bind, Outcome.bind, RelStep]

/-- **One step on equivalent states**, configurations whose choice of winners ignores the profile. -/
theorem stvStep_lineq (cfg : STVCfg) (init init' : Profile) (q : Int) (ω : STVOracle) (rnd : Nat)
    (S S2 : CState) (prev : RoundState) (hnr : cfg.transfer ≠ .random) (hcfg : ProfileFreeChoice cfg)
    (hinit : firstPlaceVotes init = firstPlaceVotes init') (hS : SameCount S S2) :
    RelStep (stvStep cfg init q ω rnd S prev) (stvStep cfg init' q ω rnd S2 prev) :=
  stvStep_lineq_of cfg init init' q ω rnd S S2 prev hnr (electChoice_state_irrelevant cfg q ω rnd S S2 prev hcfg) hinit hS

end VK
