/-
  VK.Lemmas.LinEqOn — the coarser equivalence the random (whole-ballot) transfer needs: two ballot lists
  that give the same total weight to every ranking ONCE THE CANDIDATES NO LONGER HOPEFUL ARE STRUCK.
  `LinEq` (same weight for every ranking) is too fine for the random rule: which of two ballots with the
  same continuing ranking keeps its vote depends on the order of the ballots, but the rankings that
  differ only in candidates already elected or eliminated never behave differently again.
-/
import VK.Lemmas.LinEq
import VK.Lemmas.Rescore
import VK.Lemmas.RandomTransfer

namespace VK

/-- the ranking with the candidates outside `hop` struck -/
def restr (hop : List Cand) (r : List Cand) : List Cand := r.filter (fun c => hop.contains c)

/-- same total for every function of the restricted ranking -/
def LinEqOn (hop : List Cand) (a b : List PBallot) : Prop :=
  ∀ f : List Cand → Rat, lsum (fun r => f (restr hop r)) a = lsum (fun r => f (restr hop r)) b

theorem LinEq.on {a b : List PBallot} (h : LinEq a b) (hop : List Cand) : LinEqOn hop a b :=
  fun f => h (fun r => f (restr hop r))

theorem LinEqOn.refl (hop : List Cand) (a : List PBallot) : LinEqOn hop a a := fun _ => rfl

/-- a functional that only looks at the restricted ranking agrees on equivalent lists -/
theorem LinEqOn.apply {hop : List Cand} {a b : List PBallot} (h : LinEqOn hop a b) (g : List Cand → Rat)
    (hg : ∀ r, g r = g (restr hop r)) : lsum g a = lsum g b := by
  have e : ∀ bs : List PBallot, lsum g bs = lsum (fun r => g (restr hop r)) bs := by
    intro bs
    unfold lsum
    congr 1
    apply List.map_congr_left
    intro x _
    rw [hg x.1]
  rw [e a, e b]
  exact h g

theorem topOf_restr (hop r : List Cand) : topOf hop (restr hop r) = topOf hop r := topOf_filter hop r

theorem restr_idem (hop r : List Cand) : restr hop (restr hop r) = restr hop r := by
  unfold restr
  rw [List.filter_filter]
  congr 1
  funext c
  cases hop.contains c <;> rfl

theorem restr_mono (hop hop' r : List Cand) (hsub : ∀ c, hop'.contains c = true → hop.contains c = true) :
    restr hop' (restr hop r) = restr hop' r := by
  unfold restr
  rw [List.filter_filter]
  apply List.filter_congr
  intro c _
  by_cases h : hop'.contains c = true
  · rw [h, hsub c h]; rfl
  · have h' : hop'.contains c = false := by simpa using h
    rw [h']; simp

theorem LinEqOn.mono {hop hop' : List Cand} {a b : List PBallot} (h : LinEqOn hop a b)
    (hsub : ∀ c, hop'.contains c = true → hop.contains c = true) : LinEqOn hop' a b := by
  intro f
  apply h.apply
  intro r
  rw [restr_mono hop hop' r hsub]

theorem LinEqOn.wsum {hop : List Cand} {a b : List PBallot} (h : LinEqOn hop a b) (pr : List Cand → Bool)
    (hpr : ∀ r, pr r = pr (restr hop r)) :
    VK.wsum (fun x => pr x.1) a = VK.wsum (fun x => pr x.1) b := by
  rw [wsum_eq_lsum, wsum_eq_lsum]
  apply h.apply
  intro r
  rw [hpr r]

theorem LinEqOn.tally {hop : List Cand} {a b : List PBallot} (h : LinEqOn hop a b) (c : Cand) :
    VK.tally a hop c = VK.tally b hop c := by
  rw [tally_eq_wsum, tally_eq_wsum]
  apply h.wsum (fun r => decide (topOf hop r = some c))
  intro r
  rw [topOf_restr]

theorem LinEqOn.tallies {hop : List Cand} {a b : List PBallot} (h : LinEqOn hop a b) :
    VK.tallies a hop = VK.tallies b hop := by
  unfold VK.tallies
  apply List.map_congr_left
  intro c _
  rw [h.tally c]

/-- tallies for a smaller hopeful set agree as well -/
theorem LinEqOn.tallies_sub {hop hop' : List Cand} {a b : List PBallot} (h : LinEqOn hop a b)
    (hsub : ∀ c, hop'.contains c = true → hop.contains c = true) : VK.tallies a hop' = VK.tallies b hop' :=
  (h.mono hsub).tallies

theorem LinEqOn.scaleLed {hop : List Cand} {a b : List PBallot} (h : LinEqOn hop a b) (w : Cand) (x : Rat) :
    LinEqOn hop (VK.scaleLed hop w x a) (VK.scaleLed hop w x b) := by
  intro f
  rw [lsum_scaleLed, lsum_scaleLed]
  apply h.apply
  intro r
  rw [restr_idem, topOf_restr]

theorem LinEqOn.zero (hop : List Cand) (a b : List PBallot) :
    LinEqOn hop (a.map (fun x => (x.1, (0 : Rat)))) (b.map (fun x => (x.1, (0 : Rat)))) := by
  intro f
  have : ∀ l : List PBallot, lsum (fun r => f (restr hop r)) (l.map (fun x => (x.1, (0 : Rat)))) = 0 := by
    intro l
    induction l with
    | nil => rfl
    | cons y ys ih => simp only [List.map_cons, lsum_cons, ih]; ring
  rw [this, this]

end VK

namespace VK

/-! ### the random (whole-ballot) transfer only looks at class totals -/

/-- whole votes the winner's ballots with continuing ranking `k` can hand on -/
def classAvail (hop : List Cand) (w : Cand) : List PBallot → List Cand → Nat
  | [], _ => 0
  | b :: rest, k =>
    (if topOf hop b.1 = some w ∧ (contRanking hop w b.1).isEmpty = false ∧ contRanking hop w b.1 = k
     then b.2.floor.toNat else 0) + classAvail hop w rest k

/-- what is left of the requested units once every class has handed on what it can: the first entry for a
ranking absorbs the class, later entries for the same ranking are never served -/
def settle (T : List Cand → Nat) : List (List Cand × Nat) → List (List Cand × Nat)
  | [] => []
  | (k, n) :: rest => (k, n - min n (T k)) :: settle (fun k' => if k' = k then 0 else T k') rest

theorem settle_congr (T T' : List Cand → Nat) (h : ∀ k, T k = T' k) (need : List (List Cand × Nat)) :
    settle T need = settle T' need := by
  have : T = T' := funext h
  rw [this]

theorem settle_take (T : List Cand → Nat) (k : List Cand) (a : Nat) (need : List (List Cand × Nat)) :
    settle (fun k' => (if k' = k then a else 0) + T k') need = settle T (takeUnits need k a).2 := by
  induction need generalizing T with
  | nil => rfl
  | cons e rest ih =>
    obtain ⟨k0, n⟩ := e
    unfold takeUnits
    by_cases hk : k0 = k
    · subst hk
      simp only [if_true, settle]
      congr 1
      · congr 1; omega
      · apply settle_congr
        intro k'
        by_cases h' : k' = k0 <;> simp [h']
    · simp only [hk, if_false, settle]
      congr 1
      · congr 1; simp [hk]
      · rw [← ih]
        apply settle_congr
        intro k'
        by_cases h' : k' = k0
        · subst h'; simp [hk]
        · simp [h']

/-- **The unmet requests after the random assignment depend only on the class totals.** -/
theorem randomAssign_need (hop : List Cand) (w : Cand) (bs : List PBallot) (need : List (List Cand × Nat)) :
    (randomAssign hop w bs need).2 = settle (classAvail hop w bs) need := by
  induction bs generalizing need with
  | nil =>
    simp only [randomAssign, classAvail]
    have hz : ∀ (T : List Cand → Nat), (∀ k, T k = 0) → ∀ need : List (List Cand × Nat), need = settle T need := by
      intro T hT need
      induction need generalizing T with
      | nil => rfl
      | cons e rest ih =>
        obtain ⟨k, n⟩ := e
        simp only [settle, hT k, Nat.min_zero, Nat.sub_zero]
        congr 1
        exact ih _ (fun k' => by split <;> simp [hT k'])
    exact hz _ (fun _ => rfl) need
  | cons b rest ih =>
    unfold randomAssign
    by_cases hled : topOf hop b.1 = some w
    · simp only [hled, if_true]
      by_cases hemp : (contRanking hop w b.1).isEmpty = true
      · simp only [hemp, if_true]
        rw [ih]
        apply settle_congr
        intro k
        simp [classAvail, hled, hemp]
      · have hemp' : (contRanking hop w b.1).isEmpty = false := by simpa using hemp
        simp only [hemp', Bool.false_eq_true, if_false]
        rw [ih, ← settle_take]
        apply settle_congr
        intro k
        simp only [classAvail, hled, hemp', true_and]
        by_cases hk : contRanking hop w b.1 = k
        · simp [hk]
        · have : ¬ k = contRanking hop w b.1 := fun e => hk e.symm
          simp [hk, this]
    · simp only [hled, if_false]
      rw [ih]
      apply settle_congr
      intro k
      simp [classAvail, hled]

end VK

namespace VK

/-! ### what the random assignment does to weighted sums -/

/-- weighted number of units served between two states of the request list (same rankings, entry by entry) -/
def gain (φ : List Cand → Rat) : List (List Cand × Nat) → List (List Cand × Nat) → Rat
  | (k, n) :: r, (_, n') :: r' => φ k * ((n : Rat) - (n' : Rat)) + gain φ r r'
  | _, _ => 0

theorem takeUnits_keys (need : List (List Cand × Nat)) (k : List Cand) (a : Nat) :
    (takeUnits need k a).2.map (·.1) = need.map (·.1) := by
  induction need with
  | nil => rfl
  | cons e rest ih =>
    obtain ⟨k0, n⟩ := e
    unfold takeUnits
    by_cases hk : k0 = k
    · simp [hk]
    · simp only [hk, if_false, List.map_cons]; rw [ih]

theorem randomAssign_keys (hop : List Cand) (w : Cand) (bs : List PBallot) (need : List (List Cand × Nat)) :
    (randomAssign hop w bs need).2.map (·.1) = need.map (·.1) := by
  induction bs generalizing need with
  | nil => rfl
  | cons b rest ih =>
    unfold randomAssign
    by_cases hled : topOf hop b.1 = some w
    · simp only [hled, if_true]
      by_cases hemp : (contRanking hop w b.1).isEmpty = true
      · simp only [hemp, if_true]; exact ih need
      · have hemp' : (contRanking hop w b.1).isEmpty = false := by simpa using hemp
        simp only [hemp', Bool.false_eq_true, if_false]
        rw [ih, takeUnits_keys]
    · simp only [hled, if_false]; exact ih need

theorem gain_self (φ : List Cand → Rat) (need : List (List Cand × Nat)) : gain φ need need = 0 := by
  induction need with
  | nil => rfl
  | cons e rest ih => obtain ⟨k, n⟩ := e; simp [gain, ih]

theorem gain_trans (φ : List Cand → Rat) (a b c : List (List Cand × Nat))
    (hb : b.map (·.1) = a.map (·.1)) (hc : c.map (·.1) = a.map (·.1)) :
    gain φ a c = gain φ a b + gain φ b c := by
  induction a generalizing b c with
  | nil =>
    cases b with
    | nil => simp [gain]
    | cons _ _ => simp at hb
  | cons e rest ih =>
    obtain ⟨k, n⟩ := e
    cases b with
    | nil => simp at hb
    | cons eb rb =>
      cases c with
      | nil => simp at hc
      | cons ec rc =>
        obtain ⟨kb, nb⟩ := eb
        obtain ⟨kc, nc⟩ := ec
        simp only [List.map_cons, List.cons.injEq] at hb hc
        obtain ⟨hb1, hb2⟩ := hb
        obtain ⟨hc1, hc2⟩ := hc
        subst hb1
        simp only [gain]
        rw [ih rb rc hb2 hc2]
        ring

theorem gain_take (φ : List Cand → Rat) (need : List (List Cand × Nat)) (k : List Cand) (a : Nat) :
    gain φ need (takeUnits need k a).2 = φ k * ((takeUnits need k a).1 : Rat) := by
  induction need with
  | nil => simp [takeUnits, gain]
  | cons e rest ih =>
    obtain ⟨k0, n⟩ := e
    unfold takeUnits
    by_cases hk : k0 = k
    · subst hk
      simp only [if_true, gain, gain_self]
      have : ((n - min n a : Nat) : Rat) = (n : Rat) - ((min n a : Nat) : Rat) := by
        rw [Nat.cast_sub (Nat.min_le_left n a)]
      rw [this]; ring
    · simp only [hk, if_false, gain]
      rw [ih]; ring

/-- all requested units, weighted -/
def full (φ : List Cand → Rat) (need : List (List Cand × Nat)) : Rat := rsum (need.map (fun kn => φ kn.1 * (kn.2 : Rat)))

theorem gain_all_served (φ : List Cand → Rat) (need need' : List (List Cand × Nat))
    (hk : need'.map (·.1) = need.map (·.1)) (hz : ∀ kn ∈ need', kn.2 = 0) : gain φ need need' = full φ need := by
  induction need generalizing need' with
  | nil => cases need' <;> simp [gain, full]
  | cons e rest ih =>
    obtain ⟨k, n⟩ := e
    cases need' with
    | nil => simp at hk
    | cons e' r' =>
      obtain ⟨k', n'⟩ := e'
      simp only [List.map_cons, List.cons.injEq] at hk
      have hn' : n' = 0 := hz (k', n') (by simp)
      subst hn'
      simp only [gain, full, List.map_cons, rsum_cons]
      rw [ih r' hk.2 (fun kn hkn => hz kn (by simp [hkn]))]
      simp [full]

/-- **Weighted sums after the random assignment**: the ballots not counted for the winner keep their weight,
the winner's ballots carry, class by class, exactly the units served. `F` is any ranking functional that on
the winner's transferable ballots only looks at the continuing ranking (`φ`). -/
theorem randomAssign_lsum (hop : List Cand) (w : Cand) (F : List Cand → Rat) (φ : List Cand → Rat)
    (bs : List PBallot) (need : List (List Cand × Nat))
    (hF : ∀ b ∈ bs, topOf hop b.1 = some w → F b.1 = φ (contRanking hop w b.1)) :
    lsum F (randomAssign hop w bs need).1 =
      lsum (fun r => if topOf hop r = some w then 0 else F r) bs + gain φ need (randomAssign hop w bs need).2 := by
  induction bs generalizing need with
  | nil => simp [randomAssign, lsum_nil, gain_self]
  | cons b rest ih =>
    have ih' := fun need => ih need (fun x hx => hF x (by simp [hx]))
    unfold randomAssign
    by_cases hled : topOf hop b.1 = some w
    · simp only [hled, if_true]
      by_cases hemp : (contRanking hop w b.1).isEmpty = true
      · simp only [hemp, if_true, lsum_cons, hled]
        rw [ih' need]; ring
      · have hemp' : (contRanking hop w b.1).isEmpty = false := by simpa using hemp
        simp only [hemp', Bool.false_eq_true, if_false, lsum_cons, hled, if_true]
        rw [ih' _]
        rw [gain_trans φ need (takeUnits need (contRanking hop w b.1) b.2.floor.toNat).2 _
          (takeUnits_keys _ _ _) (by rw [randomAssign_keys, takeUnits_keys])]
        rw [gain_take, hF b (by simp) hled]
        ring
    · simp only [hled, if_false, lsum_cons]
      rw [ih' need]; ring

end VK

namespace VK

/-! ### the random transfer of one winner on two equivalent lists -/

/-- whole, non-negative weights (what the random rule requires and keeps) -/
def IntW (bs : List PBallot) : Prop := ∀ b ∈ bs, isIntRat b.2 = true ∧ 0 ≤ b.2
/-- no ranking lists a candidate twice -/
def NodupR (bs : List PBallot) : Prop := ∀ b ∈ bs, b.1.Nodup

theorem floor_toNat_int (x : Rat) (hi : isIntRat x = true) (h0 : 0 ≤ x) : ((x.floor.toNat : Nat) : Rat) = x := by
  have hx := (isIntRat_iff x).1 hi
  have hfl : x.floor = x.num := by
    have hthis : Int.floor ((x.num : Int) : Rat) = x.num := Int.floor_intCast x.num
    have h2 : ((x.num : Int) : Rat).floor = x.num := hthis
    rw [hx] at h2; exact h2
  have hn : 0 ≤ x.num := Rat.num_nonneg.2 h0
  rw [hfl]
  have : ((x.num.toNat : Nat) : Int) = x.num := Int.toNat_of_nonneg hn
  have h3 : ((x.num.toNat : Nat) : Rat) = ((x.num : Int) : Rat) := by exact_mod_cast this
  rw [h3, hx]

/-- a ballot counted for `w` restricts to `w` followed by its continuing ranking -/
theorem restr_led (hop : List Cand) (w : Cand) (r : List Cand) (hnd : r.Nodup) (h : topOf hop r = some w) :
    restr hop r = w :: contRanking hop w r := by
  induction r with
  | nil => simp [topOf] at h
  | cons x xs ih =>
    rw [List.nodup_cons] at hnd
    unfold topOf at h
    rw [List.find?_cons] at h
    by_cases hx : hop.contains x = true
    · simp only [hx] at h
      injection h with h
      subst h
      unfold restr contRanking
      simp only [List.filter_cons, hx, if_true, bne_self_eq_false, Bool.and_false, Bool.false_eq_true, if_false]
      congr 1
      apply List.filter_congr
      intro c hc
      have : c ≠ x := fun e => hnd.1 (e ▸ hc)
      simp [this]
    · have hx' : hop.contains x = false := by simpa using hx
      simp only [hx'] at h
      have := ih hnd.2 h
      unfold restr contRanking at this ⊢
      simp only [List.filter_cons, hx', Bool.false_eq_true, if_false, Bool.false_and]
      exact this

theorem contRanking_restr (hop : List Cand) (w : Cand) (r : List Cand) :
    contRanking hop w (restr hop r) = contRanking hop w r := by
  unfold contRanking restr
  rw [List.filter_filter]
  apply List.filter_congr
  intro c _
  cases hop.contains c <;> simp

theorem classAvail_eq_lsum (hop : List Cand) (w : Cand) (bs : List PBallot) (k : List Cand) (hi : IntW bs) :
    ((classAvail hop w bs k : Nat) : Rat) =
      lsum (fun r => if topOf hop r = some w ∧ (contRanking hop w r).isEmpty = false ∧ contRanking hop w r = k
        then 1 else 0) bs := by
  induction bs with
  | nil => simp [classAvail, lsum_nil]
  | cons b rest ih =>
    have hb := hi b (by simp)
    simp only [classAvail, lsum_cons]
    rw [← ih (fun x hx => hi x (by simp [hx]))]
    push_cast
    congr 1
    split
    · rw [floor_toNat_int b.2 hb.1 hb.2]; ring
    · simp

theorem classAvail_lineqOn (hop : List Cand) (w : Cand) (a b : List PBallot) (h : LinEqOn hop a b)
    (ia : IntW a) (ib : IntW b) (k : List Cand) : classAvail hop w a k = classAvail hop w b k := by
  have e : ((classAvail hop w a k : Nat) : Rat) = ((classAvail hop w b k : Nat) : Rat) := by
    rw [classAvail_eq_lsum hop w a k ia, classAvail_eq_lsum hop w b k ib]
    apply h.apply
    intro r
    rw [topOf_restr, contRanking_restr]
  exact_mod_cast e

theorem randomAssign_fst (hop : List Cand) (w : Cand) (bs : List PBallot) (need : List (List Cand × Nat)) :
    (randomAssign hop w bs need).1.map (·.1) = bs.map (·.1) := by
  induction bs generalizing need with
  | nil => rfl
  | cons b rest ih =>
    unfold randomAssign
    by_cases hled : topOf hop b.1 = some w
    · simp only [hled, if_true]
      by_cases hemp : (contRanking hop w b.1).isEmpty = true
      · simp only [hemp, if_true, List.map_cons]; rw [ih]
      · have hemp' : (contRanking hop w b.1).isEmpty = false := by simpa using hemp
        simp only [hemp', Bool.false_eq_true, if_false, List.map_cons]; rw [ih]
    · simp only [hled, if_false, List.map_cons]; rw [ih]

theorem isIntRat_nat (n : Nat) : isIntRat (n : Rat) = true := by
  unfold isIntRat; simp

theorem randomAssign_intW (hop : List Cand) (w : Cand) (bs : List PBallot) (need : List (List Cand × Nat))
    (hi : IntW bs) : IntW (randomAssign hop w bs need).1 := by
  induction bs generalizing need with
  | nil => intro b hb; simp [randomAssign] at hb
  | cons b rest ih =>
    have ih' := fun need => ih need (fun x hx => hi x (by simp [hx]))
    unfold randomAssign
    by_cases hled : topOf hop b.1 = some w
    · simp only [hled, if_true]
      by_cases hemp : (contRanking hop w b.1).isEmpty = true
      · simp only [hemp, if_true]
        intro x hx
        rcases List.mem_cons.1 hx with e | e
        · subst e; exact ⟨by unfold isIntRat; simp, le_refl _⟩
        · exact ih' need x e
      · have hemp' : (contRanking hop w b.1).isEmpty = false := by simpa using hemp
        simp only [hemp', Bool.false_eq_true, if_false]
        intro x hx
        rcases List.mem_cons.1 hx with e | e
        · subst e; exact ⟨isIntRat_nat _, by simp⟩
        · exact ih' _ x e
    · simp only [hled, if_false]
      intro x hx
      rcases List.mem_cons.1 hx with e | e
      · rw [e]; exact hi b (by simp)
      · exact ih' need x e

end VK

namespace VK

/-- two ballot lists the random rule cannot tell apart -/
structure GoodPair (hop : List Cand) (a b : List PBallot) : Prop where
  eq : LinEqOn hop a b
  ia : IntW a
  ib : IntW b
  na : NodupR a
  nb : NodupR b

def RelBsOn (hop : List Cand) : Outcome (List PBallot) → Outcome (List PBallot) → Prop
  | .ok a, .ok b => GoodPair hop a b
  | .raised e, .raised e' => e = e'
  | .oracleMismatch, .oracleMismatch => True
  | .outOfFuel, .outOfFuel => True
  | _, _ => False

theorem nodupR_of_fst (a a' : List PBallot) (h : a'.map (·.1) = a.map (·.1)) (na : NodupR a) : NodupR a' := by
  intro b hb
  have : b.1 ∈ a'.map (·.1) := List.mem_map_of_mem hb
  rw [h] at this
  obtain ⟨b0, hb0, e⟩ := List.mem_map.1 this
  rw [← e]; exact na b0 hb0

/-- **One random transfer on two equivalent lists**: same exception, same oracle verdict, or equivalent
results — whatever the sample. -/
theorem applyTransfer_random_on (cfg : STVCfg) (hr : cfg.transfer = .random) (hop : List Cand) (q : Int)
    (sample : List (List Cand × Nat)) (a b : List PBallot) (w : Cand) (h : GoodPair hop a b) :
    RelBsOn hop (applyTransfer cfg hop q sample a w) (applyTransfer cfg hop q sample b w) := by
  have hint : ∀ l : List PBallot, IntW l →
      ((l.filter (fun x => topOf hop x.1 = some w)).any (fun x => !isIntRat x.2)) = false := by
    intro l hl
    rw [List.any_eq_false]
    intro x hx
    have := (hl x (List.mem_filter.1 hx).1).1
    simp [this]
  have htr : ∀ l : List PBallot,
      rsum (((l.filter (fun x => topOf hop x.1 = some w)).filter (fun x => !(contRanking hop w x.1).isEmpty)).map (·.2)) =
      VK.wsum (fun x => (fun r => decide (topOf hop r = some w) && !(contRanking hop w r).isEmpty) x.1) l := by
    intro l
    unfold VK.wsum
    rw [List.filter_filter]
    congr 2
    apply List.filter_congr
    intro x _
    simp [Bool.and_comm]
  have htrans : rsum (((a.filter (fun x => topOf hop x.1 = some w)).filter (fun x => !(contRanking hop w x.1).isEmpty)).map (·.2)) =
      rsum (((b.filter (fun x => topOf hop x.1 = some w)).filter (fun x => !(contRanking hop w x.1).isEmpty)).map (·.2)) := by
    rw [htr a, htr b]
    exact h.eq.wsum (fun r => decide (topOf hop r = some w) && !(contRanking hop w r).isEmpty)
      (fun r => by simp only [topOf_restr, contRanking_restr])
  have htally := h.eq.tally (hop := hop) w
  have hneed : (randomAssign hop w a sample).2 = (randomAssign hop w b sample).2 := by
    rw [randomAssign_need, randomAssign_need]
    apply settle_congr
    exact classAvail_lineqOn hop w a b h.eq h.ia h.ib
  unfold applyTransfer
  simp only [hr, hint a h.ia, hint b h.ib, Bool.false_eq_true, if_false, ← htally, ← htrans]
  split
  · simp [RelBsOn]
  · split
    · simp [RelBsOn]
    · simp only [← hneed]
      split
      · simp [RelBsOn]
      · rename_i hserved
        have hz : ∀ kn ∈ (randomAssign hop w a sample).2, kn.2 = 0 := by
          intro kn hkn
          by_contra hne
          apply hserved
          exact List.any_eq_true.2 ⟨kn, hkn, by simpa using hne⟩
        simp only [RelBsOn]
        refine ⟨?_, randomAssign_intW hop w a sample h.ia, randomAssign_intW hop w b sample h.ib,
          nodupR_of_fst a _ (randomAssign_fst hop w a sample) h.na,
          nodupR_of_fst b _ (randomAssign_fst hop w b sample) h.nb⟩
        intro f
        have hFa : ∀ x ∈ a, topOf hop x.1 = some w →
            (fun r => f (restr hop r)) x.1 = (fun k => f (w :: k)) (contRanking hop w x.1) := by
          intro x hx hl
          simp only
          rw [restr_led hop w x.1 (h.na x hx) hl]
        have hFb : ∀ x ∈ b, topOf hop x.1 = some w →
            (fun r => f (restr hop r)) x.1 = (fun k => f (w :: k)) (contRanking hop w x.1) := by
          intro x hx hl
          simp only
          rw [restr_led hop w x.1 (h.nb x hx) hl]
        rw [randomAssign_lsum hop w (fun r => f (restr hop r)) (fun k => f (w :: k)) a sample hFa,
          randomAssign_lsum hop w (fun r => f (restr hop r)) (fun k => f (w :: k)) b sample hFb]
        rw [gain_all_served _ _ _ (randomAssign_keys hop w a sample) hz]
        rw [gain_all_served _ _ _ (randomAssign_keys hop w b sample) (by rw [← hneed]; exact hz)]
        congr 1
        apply h.eq.apply
        intro r
        rw [topOf_restr, restr_idem]

end VK

namespace VK

/-! ### a whole round and the whole count under the random transfer -/

theorem applyTransfers_random_on (cfg : STVCfg) (hr : cfg.transfer = .random) (hop : List Cand) (q : Int)
    (sample : Cand → List (List Cand × Nat)) (ws : List Cand) (a b : List PBallot) (h : GoodPair hop a b) :
    RelBsOn hop (applyTransfers cfg hop q sample ws a) (applyTransfers cfg hop q sample ws b) := by
  induction ws generalizing a b with
  | nil => simpa [applyTransfers, RelBsOn] using h
  | cons w rest ih =>
    simp only [applyTransfers]
    have h1 := applyTransfer_random_on cfg hr hop q (sample w) a b w h
    cases ha : applyTransfer cfg hop q (sample w) a w <;> cases hb : applyTransfer cfg hop q (sample w) b w <;>
      rw [ha, hb] at h1 <;> simp only [RelBsOn] at h1 <;> simp only [bind, Outcome.bind, RelBsOn]
    · exact ih _ _ h1
    · exact h1

/-- same hopeful set, same seat counter, ballot lists the random rule cannot tell apart -/
def SameCountOn (S S2 : CState) : Prop :=
  S.hopeful = S2.hopeful ∧ S.nElected = S2.nElected ∧ GoodPair S.hopeful S.bs S2.bs

def RelStepOn : Outcome (CState × RoundState) → Outcome (CState × RoundState) → Prop
  | .ok a, .ok b => a.2 = b.2 ∧ SameCountOn a.1 b.1
  | .raised e, .raised e' => e = e'
  | .oracleMismatch, .oracleMismatch => True
  | .outOfFuel, .outOfFuel => True
  | _, _ => False

theorem GoodPair.mono {hop hop' : List Cand} {a b : List PBallot} (h : GoodPair hop a b)
    (hsub : ∀ c, hop'.contains c = true → hop.contains c = true) : GoodPair hop' a b :=
  ⟨h.eq.mono hsub, h.ia, h.ib, h.na, h.nb⟩

theorem filter_contains_sub (hop : List Cand) (p : Cand → Bool) :
    ∀ c, (hop.filter p).contains c = true → hop.contains c = true := by
  intro c hc
  simp only [List.contains_iff_mem] at hc ⊢
  exact (List.mem_filter.1 hc).1

/-- **One step of the count under the random transfer on equivalent states** (configurations whose choice of
winners does not consult the held profile). -/
theorem stvStep_random_on (cfg : STVCfg) (init init' : Profile) (q : Int) (ω : STVOracle) (rnd : Nat)
    (S S2 : CState) (prev : RoundState) (hr : cfg.transfer = .random) (hcfg : ProfileFreeChoice cfg)
    (hinit : firstPlaceVotes init = firstPlaceVotes init') (hS : SameCountOn S S2) :
    RelStepOn (stvStep cfg init q ω rnd S prev) (stvStep cfg init' q ω rnd S2 prev) := by
  obtain ⟨hh, hn, hg⟩ := hS
  have hec := electChoice_state_irrelevant cfg q ω rnd S S2 prev hcfg
  unfold stvStep
  simp only
  split
  · rw [hec]
    cases he : electChoice cfg q ω rnd S2 prev with
    | ok gt =>
      obtain ⟨g, tbs⟩ := gt
      simp only [bind, Outcome.bind]
      have hrel := applyTransfers_random_on cfg hr S.hopeful q (ω.sample rnd) g.flatten S.bs S2.bs hg
      rw [← hh]
      cases h1 : applyTransfers cfg S.hopeful q (ω.sample rnd) g.flatten S.bs <;>
        cases h2 : applyTransfers cfg S.hopeful q (ω.sample rnd) g.flatten S2.bs <;>
        rw [h1, h2] at hrel <;> simp only [RelBsOn] at hrel <;> simp only [pure, RelStepOn]
      · rename_i bs1 bs2
        have hsub := filter_contains_sub S.hopeful (fun c => !g.flatten.contains c)
        have hg' : GoodPair (S.hopeful.filter (fun c => !g.flatten.contains c)) bs1 bs2 := hrel.mono hsub
        refine ⟨?_, rfl, by rw [hn], hg'⟩
        rw [hg'.eq.tallies]
      · exact hrel
    | raised e => simp [bind, Outcome.bind, RelStepOn]
    | oracleMismatch => simp [bind, Outcome.bind, RelStepOn]
    | outOfFuel => simp [bind, Outcome.bind, RelStepOn]
  · rw [← hh, ← hn]
    split
    · simp only [pure, RelStepOn, SameCountOn]
      refine ⟨trivial, trivial, trivial, ⟨LinEqOn.zero _ _ _, ?_, ?_, ?_, ?_⟩⟩
      · intro b hb
        obtain ⟨x, _, rfl⟩ := List.mem_map.1 hb
        exact ⟨by unfold isIntRat; simp, le_refl _⟩
      · intro b hb
        obtain ⟨x, _, rfl⟩ := List.mem_map.1 hb
        exact ⟨by unfold isIntRat; simp, le_refl _⟩
      · exact nodupR_of_fst S.bs _ (by simp [List.map_map, Function.comp_def]) hg.na
      · exact nodupR_of_fst S2.bs _ (by simp [List.map_map, Function.comp_def]) hg.nb
    · split
      · simp [RelStepOn]
      · rename_i lowest _
        rw [loserChoice_init init init' ω rnd lowest hinit]
        cases hlc : loserChoice init' ω rnd lowest with
        | ok ct =>
          simp only [bind, Outcome.bind, pure, RelStepOn]
          have hsub := filter_contains_sub S.hopeful (fun x => x != ct.1)
          have hg' : GoodPair (S.hopeful.filter (fun x => x != ct.1)) S.bs S2.bs := hg.mono hsub
          refine ⟨?_, rfl, rfl, hg'⟩
          rw [hg'.eq.tallies]
        | raised e => simp [bind, Outcome.bind, RelStepOn]
        | oracleMismatch => simp [bind, Outcome.bind, RelStepOn]
        | outOfFuel => simp [bind, Outcome.bind, RelStepOn]

end VK
