/-
  VK.Lemmas.NoFuel — none of the functions a step of the STV count calls can answer `outOfFuel`:
  the only producer of that outcome in the STV model is the base case of `stvLoop`.
-/
import VK.Model.STV

namespace VK

def NoFuel {α} (o : Outcome α) : Prop := o ≠ .outOfFuel

theorem noFuel_ok {α} (a : α) : NoFuel (Outcome.ok a) := by intro h; cases h
theorem noFuel_pure {α} (a : α) : NoFuel (pure a : Outcome α) := by intro h; cases h
theorem noFuel_raised {α} (e : Exn) : NoFuel (Outcome.raised e : Outcome α) := by intro h; cases h
theorem noFuel_mismatch {α} : NoFuel (Outcome.oracleMismatch : Outcome α) := by intro h; cases h

theorem noFuel_bind {α β} (x : Outcome α) (f : α → Outcome β) (hx : NoFuel x) (hf : ∀ a, NoFuel (f a)) :
    NoFuel (x >>= f) := by
  cases x with
  | ok a => exact hf a
  | raised e => exact noFuel_raised e
  | oracleMismatch => exact noFuel_mismatch
  | outOfFuel => exact absurd rfl hx

theorem noFuel_orderBy (pri s : List Cand) : NoFuel (orderBy pri s) := by
  unfold orderBy; simp only; split
  · exact noFuel_ok _
  · exact noFuel_mismatch

theorem noFuel_breakGroup (pri g : List Cand) : NoFuel (breakGroup pri g) := by
  unfold breakGroup; split
  · exact noFuel_ok _
  · exact noFuel_bind _ _ (noFuel_orderBy _ _) (fun _ => noFuel_pure _)

theorem noFuel_breakGroups (pri : List Cand) (r : Ranking) : NoFuel (breakGroups pri r) := by
  induction r with
  | nil => exact noFuel_ok _
  | cons g gs ih =>
    unfold breakGroups
    exact noFuel_bind _ _ (noFuel_breakGroup _ _) (fun _ => noFuel_bind _ _ ih (fun _ => noFuel_pure _))

theorem noFuel_addMissing (p : Profile) : NoFuel (addMissing p) := by
  unfold addMissing; split
  · exact noFuel_raised _
  · exact noFuel_ok _

theorem noFuel_scoreFromRankings (p : Profile) (v : List Rat) : NoFuel (scoreFromRankings p v) := by
  unfold scoreFromRankings; split
  · exact noFuel_raised _
  · exact noFuel_bind _ _ (noFuel_addMissing _) (fun _ => noFuel_pure _)

theorem noFuel_tiebreakSet (pri s : List Cand) (prof : Option Profile) (tb : TB) :
    NoFuel (tiebreakSet pri s prof tb) := by
  unfold tiebreakSet
  split
  · exact noFuel_bind _ _ (noFuel_orderBy _ _) (fun _ => noFuel_pure _)
  · exact noFuel_raised _
  · simp only
    split
    · exact noFuel_bind _ _ (noFuel_scoreFromRankings _ _) (fun _ => noFuel_breakGroups _ _)
    · exact noFuel_bind _ _ (noFuel_scoreFromRankings _ _) (fun _ => noFuel_breakGroups _ _)

theorem noFuel_electLoop (pri : List Cand) (prof : Option Profile) (tb : Option TB) (k : Nat) (acc rest : Ranking) :
    NoFuel (electLoop pri prof tb k acc rest) := by
  induction rest generalizing k acc with
  | nil => unfold electLoop; split; exact noFuel_ok _; exact noFuel_raised _
  | cons g rest ih =>
    unfold electLoop
    split
    · exact noFuel_ok _
    · split
      · exact ih _ _
      · cases tb with
        | none => exact noFuel_raised _
        | some t => exact noFuel_bind _ _ (noFuel_tiebreakSet _ _ _ _) (fun _ => noFuel_pure _)

theorem noFuel_electFromRanking (pri : List Cand) (ranking : Ranking) (m : Nat) (prof : Option Profile)
    (tb : Option TB) : NoFuel (electFromRanking pri ranking m prof tb) := by
  unfold electFromRanking
  split; · exact noFuel_raised _
  split; · exact noFuel_raised _
  exact noFuel_electLoop _ _ _ _ _ _

theorem noFuel_electChoice (cfg : STVCfg) (q : Int) (ω : STVOracle) (rnd : Nat) (S : CState) (prev : RoundState) :
    NoFuel (electChoice cfg q ω rnd S prev) := by
  unfold electChoice
  split
  · exact noFuel_pure _
  · exact noFuel_bind _ _ (noFuel_electFromRanking _ _ _ _ _) (fun _ => noFuel_pure _)

theorem noFuel_loserChoice (init : Profile) (ω : STVOracle) (rnd : Nat) (lowest : List Cand) :
    NoFuel (loserChoice init ω rnd lowest) := by
  unfold loserChoice
  split
  · refine noFuel_bind _ _ (noFuel_tiebreakSet _ _ _ _) (fun t => ?_)
    split
    · exact noFuel_pure _
    · exact noFuel_raised _
  · split
    · exact noFuel_pure _
    · exact noFuel_raised _

theorem noFuel_applyTransfer (cfg : STVCfg) (hop : List Cand) (q : Int) (sample : List (List Cand × Nat))
    (bs : List PBallot) (w : Cand) : NoFuel (applyTransfer cfg hop q sample bs w) := by
  unfold applyTransfer
  simp only
  split
  · exact noFuel_ok _
  · split
    · exact noFuel_raised _
    · exact noFuel_ok _
  · split
    · exact noFuel_raised _
    · split
      · exact noFuel_raised _
      · split
        · exact noFuel_mismatch
        · split
          · exact noFuel_mismatch
          · exact noFuel_ok _

theorem noFuel_applyTransfers (cfg : STVCfg) (hop : List Cand) (q : Int) (sample : Cand → List (List Cand × Nat))
    (ws : List Cand) (bs : List PBallot) : NoFuel (applyTransfers cfg hop q sample ws bs) := by
  induction ws generalizing bs with
  | nil => exact noFuel_ok _
  | cons w rest ih =>
    unfold applyTransfers
    exact noFuel_bind _ _ (noFuel_applyTransfer _ _ _ _ _ _) (fun _ => ih _)

/-- **A step of the count never answers `outOfFuel`.** -/
theorem noFuel_stvStep (cfg : STVCfg) (init : Profile) (q : Int) (ω : STVOracle) (rnd : Nat)
    (S : CState) (prev : RoundState) : NoFuel (stvStep cfg init q ω rnd S prev) := by
  unfold stvStep
  simp only
  split
  · refine noFuel_bind _ _ (noFuel_electChoice _ _ _ _ _ _) (fun gt => ?_)
    exact noFuel_bind _ _ (noFuel_applyTransfers _ _ _ _ _ _) (fun _ => noFuel_pure _)
  · split
    · exact noFuel_pure _
    · split
      · exact noFuel_raised _
      · exact noFuel_bind _ _ (noFuel_loserChoice _ _ _ _) (fun _ => noFuel_pure _)

end VK
