/-
  VK.Lemmas.RandomTransfer — what the whole-ballot (random) surplus transfer does to the weights of
  the pointwise count state, for every value of the sample oracle.
-/
import VK.Lemmas.PSC
import Mathlib.Data.Rat.Floor
import Mathlib.Algebra.Order.Floor.Ring

namespace VK

def totalNeed (need : List (List Cand × Nat)) : Nat := (need.map (·.2)).foldl (· + ·) 0

theorem totalNeed_foldl (l : List Nat) (a : Nat) : l.foldl (· + ·) a = a + l.foldl (· + ·) 0 := by
  induction l generalizing a with
  | nil => simp
  | cons x xs ih => simp only [List.foldl_cons]; rw [ih, ih (0 + x)]; omega

theorem totalNeed_cons (kn : List Cand × Nat) (rest : List (List Cand × Nat)) :
    totalNeed (kn :: rest) = kn.2 + totalNeed rest := by
  unfold totalNeed
  simp only [List.map_cons, List.foldl_cons]
  rw [totalNeed_foldl]; omega

/-- taking units of one class: what is taken leaves the need -/
theorem takeUnits_total (need : List (List Cand × Nat)) (k : List Cand) (avail : Nat) :
    (takeUnits need k avail).1 + totalNeed (takeUnits need k avail).2 = totalNeed need ∧
    (takeUnits need k avail).1 ≤ avail := by
  induction need with
  | nil => simp [takeUnits, totalNeed]
  | cons kn rest ih =>
    obtain ⟨k', n⟩ := kn
    unfold takeUnits
    split
    · simp only [totalNeed_cons]
      constructor
      · have : min n avail ≤ n := Nat.min_le_left _ _
        omega
      · exact Nat.min_le_right _ _
    · simp only [totalNeed_cons]
      obtain ⟨h1, h2⟩ := ih
      exact ⟨by omega, h2⟩

theorem floor_toNat_le (x : Rat) (hx : 0 ≤ x) : ((x.floor.toNat : Nat) : Rat) ≤ x := by
  have h0 : 0 ≤ x.floor := by
    have : 0 ≤ ⌊x⌋ := Int.floor_nonneg.2 hx
    exact this
  have : ((x.floor.toNat : Nat) : Int) = x.floor := Int.toNat_of_nonneg h0
  have h2 : ((x.floor.toNat : Nat) : Rat) = ((x.floor : Int) : Rat) := by exact_mod_cast this
  rw [h2]
  have : ((⌊x⌋ : Int) : Rat) ≤ x := Int.floor_le x
  exact this

/-- everything the random assignment does, in terms of selected weights: ballots not led by the
winner are untouched, nothing gains weight, weights stay non-negative, and the winner's pile ends
up with exactly the units that were assigned. -/
theorem randomAssign_spec (hop : List Cand) (w : Cand) (bs : List PBallot) (need : List (List Cand × Nat))
    (hnn : ∀ b ∈ bs, 0 ≤ b.2) :
    (∀ b ∈ (randomAssign hop w bs need).1, 0 ≤ b.2) ∧
    (∀ pr : List Cand → Bool,
      wsum (fun b => pr b.1 && !decide (topOf hop b.1 = some w)) (randomAssign hop w bs need).1 =
        wsum (fun b => pr b.1 && !decide (topOf hop b.1 = some w)) bs) ∧
    (wsum (fun b => decide (topOf hop b.1 = some w)) (randomAssign hop w bs need).1 + (totalNeed (randomAssign hop w bs need).2 : Rat) = (totalNeed need : Rat)) ∧
    (∀ pr pr2 : List Cand → Bool, (∀ r, pr r = true → pr2 r = true) →
      wsum (fun b => pr b.1 && decide (topOf hop b.1 = some w)) bs -
        wsum (fun b => pr b.1 && decide (topOf hop b.1 = some w)) (randomAssign hop w bs need).1 ≤
      wsum (fun b => pr2 b.1 && decide (topOf hop b.1 = some w)) bs -
        wsum (fun b => pr2 b.1 && decide (topOf hop b.1 = some w)) (randomAssign hop w bs need).1) ∧
    (wsum (fun b => (contRanking hop w b.1).isEmpty && decide (topOf hop b.1 = some w)) (randomAssign hop w bs need).1 = 0) := by
  induction bs generalizing need with
  | nil =>
    simp only [randomAssign]
    refine ⟨by simp, by simp [wsum_nil], by simp [wsum_nil], by intro _ _ _; simp [wsum_nil], by simp [wsum_nil]⟩
  | cons b rest ih =>
    have hb := hnn b (by simp)
    have hrest : ∀ x ∈ rest, 0 ≤ x.2 := fun x hx => hnn x (by simp [hx])
    unfold randomAssign
    by_cases hled : topOf hop b.1 = some w
    · simp only [hled, if_true]
      by_cases hk : (contRanking hop w b.1).isEmpty
      · -- exhausted ballot of the winner: weight 0
        simp only [hk, if_true]
        obtain ⟨i1, i2, i3, i4, i5⟩ := ih need hrest
        refine ⟨?_, ?_, ?_, ?_, ?_⟩
        · intro x hx
          rcases List.mem_cons.1 hx with rfl | hx
          · exact le_refl _
          · exact i1 x hx
        · intro pr
          simp only [wsum_cons, hled, decide_true, Bool.not_true, Bool.and_false, Bool.false_eq_true, if_false]
          rw [i2 pr]
        · simp only [wsum_cons, hled, decide_true, if_true]
          rw [← i3]; ring
        · intro pr pr2 himp
          have := i4 pr pr2 himp
          simp only [wsum_cons, hled, decide_true, Bool.and_true]
          by_cases hp : pr b.1
          · have hp2 := himp _ hp
            simp only [hp, hp2, if_true]; linarith
          · by_cases hp2 : pr2 b.1
            · simp only [hp, hp2, if_true, Bool.false_eq_true, if_false]; linarith
            · simp only [hp, hp2, Bool.false_eq_true, if_false]; linarith
        · simp only [wsum_cons, hled, decide_true, hk, Bool.and_true, if_true]
          rw [i5]; ring
      · simp only [hk, Bool.false_eq_true, if_false]
        obtain ⟨t1, t2⟩ := takeUnits_total need (contRanking hop w b.1) b.2.floor.toNat
        obtain ⟨i1, i2, i3, i4, i5⟩ := ih (takeUnits need (contRanking hop w b.1) b.2.floor.toNat).2 hrest
        have hg_le : (((takeUnits need (contRanking hop w b.1) b.2.floor.toNat).1 : Nat) : Rat) ≤ b.2 :=
          le_trans (by exact_mod_cast t2) (floor_toNat_le b.2 hb)
        have hg_nn : (0 : Rat) ≤ (((takeUnits need (contRanking hop w b.1) b.2.floor.toNat).1 : Nat) : Rat) := by
          positivity
        refine ⟨?_, ?_, ?_, ?_, ?_⟩
        · intro x hx
          rcases List.mem_cons.1 hx with rfl | hx
          · exact hg_nn
          · exact i1 x hx
        · intro pr
          simp only [wsum_cons, hled, decide_true, Bool.not_true, Bool.and_false, Bool.false_eq_true, if_false]
          rw [i2 pr]
        · simp only [wsum_cons, hled, decide_true, if_true]
          have : ((totalNeed need : Nat) : Rat) =
              (((takeUnits need (contRanking hop w b.1) b.2.floor.toNat).1 : Nat) : Rat) +
              ((totalNeed (takeUnits need (contRanking hop w b.1) b.2.floor.toNat).2 : Nat) : Rat) := by
            exact_mod_cast t1.symm
          rw [this, ← i3]; ring
        · intro pr pr2 himp
          have := i4 pr pr2 himp
          simp only [wsum_cons, hled, decide_true, Bool.and_true]
          by_cases hp : pr b.1
          · have hp2 := himp _ hp
            simp only [hp, hp2, if_true]; linarith
          · by_cases hp2 : pr2 b.1
            · simp only [hp, hp2, if_true, Bool.false_eq_true, if_false]; linarith
            · simp only [hp, hp2, Bool.false_eq_true, if_false]; linarith
        · simp only [wsum_cons, hled, decide_true, hk, Bool.and_true, Bool.false_and, Bool.false_eq_true, if_false]
          rw [i5]; ring
    · simp only [hled, if_false]
      obtain ⟨i1, i2, i3, i4, i5⟩ := ih need hrest
      refine ⟨?_, ?_, ?_, ?_, ?_⟩
      · intro x hx
        rcases List.mem_cons.1 hx with rfl | hx
        · exact hb
        · exact i1 x hx
      · intro pr
        simp only [wsum_cons, hled, decide_false, Bool.not_false, Bool.and_true]
        rw [i2 pr]
      · simp only [wsum_cons, hled, decide_false, Bool.false_eq_true, if_false]
        rw [← i3]; ring
      · intro pr pr2 himp
        have := i4 pr pr2 himp
        simp only [wsum_cons, hled, decide_false, Bool.and_false, Bool.false_eq_true, if_false]
        linarith
      · simp only [wsum_cons, hled, decide_false, Bool.and_false, Bool.false_eq_true, if_false]
        rw [i5]; ring

/-! ### one random transfer -/

theorem isIntRat_iff (x : Rat) : isIntRat x = true ↔ ((x.num : Int) : Rat) = x := by
  unfold isIntRat
  simp only [decide_eq_true_eq]
  exact Rat.den_eq_one_iff x

/-- a sum of whole numbers is whole, hence its own floor -/
theorem floor_rsum_int (l : List Rat) (h : ∀ x ∈ l, isIntRat x = true) : ((rsum l).floor : Rat) = rsum l := by
  have hex : ∃ z : Int, (z : Rat) = rsum l := by
    induction l with
    | nil => exact ⟨0, by simp⟩
    | cons x xs ih =>
      obtain ⟨z, hz⟩ := ih (fun y hy => h y (by simp [hy]))
      have hx := (isIntRat_iff x).1 (h x (by simp))
      exact ⟨x.num + z, by push_cast; rw [hx, hz]; simp⟩
  obtain ⟨z, hz⟩ := hex
  rw [← hz]
  have : ⌊(z : Rat)⌋ = z := Int.floor_intCast z
  have h2 : (z : Rat).floor = z := this
  rw [h2]

theorem wsum_split (p led : PBallot → Bool) (bs : List PBallot) :
    wsum p bs = wsum (fun b => p b && !led b) bs + wsum (fun b => p b && led b) bs := by
  induction bs with
  | nil => simp [wsum_nil]
  | cons b rest ih =>
    simp only [wsum_cons, ih]
    by_cases hp : p b <;> by_cases hl : led b <;> simp [hp, hl] <;> ring

/-- what one whole-ballot transfer of winner `w` does (every sample the oracle may report) -/
structure RandomFacts (hop : List Cand) (q : Int) (w : Cand) (bs bs' : List PBallot) : Prop where
  nn : ∀ b ∈ bs', 0 ≤ b.2
  other : ∀ pr : List Cand → Bool,
    wsum (fun b => pr b.1 && !decide (topOf hop b.1 = some w)) bs' =
      wsum (fun b => pr b.1 && !decide (topOf hop b.1 = some w)) bs
  nogain : ∀ pr : List Cand → Bool,
    wsum (fun b => pr b.1 && decide (topOf hop b.1 = some w)) bs' ≤
      wsum (fun b => pr b.1 && decide (topOf hop b.1 = some w)) bs
  ledTotal : wsum (fun b => decide (topOf hop b.1 = some w)) bs' = tally bs hop w - q
  coal : ∀ pr : List Cand → Bool,
    (∀ r, pr r = true → topOf hop r = some w → (contRanking hop w r).isEmpty = false) →
    wsum (fun b => pr b.1 && decide (topOf hop b.1 = some w)) bs - q ≤
      wsum (fun b => pr b.1 && decide (topOf hop b.1 = some w)) bs'

theorem totalNeed_zero (need : List (List Cand × Nat)) (h : need.any (fun kn => kn.2 ≠ 0) = false) :
    totalNeed need = 0 := by
  induction need with
  | nil => rfl
  | cons kn rest ih =>
    simp only [List.any_cons, Bool.or_eq_false_iff, decide_eq_false_iff_not, ne_eq, not_not] at h
    rw [totalNeed_cons, h.1, ih h.2]

theorem applyTransfer_random_facts (cfg : STVCfg) (hop : List Cand) (q : Int) (sample : List (List Cand × Nat))
    (bs bs' : List PBallot) (w : Cand) (hf : cfg.transfer = .random) (hnn : ∀ b ∈ bs, 0 ≤ b.2)
    (h : applyTransfer cfg hop q sample bs w = .ok bs') : RandomFacts hop q w bs bs' := by
  unfold applyTransfer at h
  simp only [hf] at h
  split at h; · cases h
  rename_i hint
  split at h; · cases h
  rename_i hk
  split at h; · cases h
  rename_i htot
  split at h; · cases h
  rename_i hneed
  injection h with h
  obtain ⟨s1, s2, s3, s4, s5⟩ := randomAssign_spec hop w bs sample hnn
  rw [h] at s1 s2 s3 s4 s5
  -- the tally is a whole number
  have hled_int : ∀ x ∈ ((bs.filter (fun b => topOf hop b.1 = some w)).map (·.2)), isIntRat x = true := by
    intro x hx
    obtain ⟨b, hb, rfl⟩ := List.mem_map.1 hx
    have := hint
    simp only [Bool.not_eq_true, List.any_eq_false, Bool.not_eq_true', Bool.not_eq_false] at this
    exact this b hb
  have hfloor : ((tally bs hop w).floor : Rat) = tally bs hop w := floor_rsum_int _ hled_int
  have hneed0 : totalNeed (randomAssign hop w bs sample).2 = 0 := by
    apply totalNeed_zero
    simpa using hneed
  have htotal : (totalNeed sample : Int) = (tally bs hop w).floor - q := by
    simp only [Bool.or_eq_true, decide_eq_true_eq, not_or, ne_eq, not_not] at htot
    exact htot.1
  have hk' : ¬ ((tally bs hop w).floor - q < 0) ∧
      ¬ ((((tally bs hop w).floor - q : Int) : Rat) >
        rsum (((bs.filter (fun b => topOf hop b.1 = some w)).filter (fun b => !(contRanking hop w b.1).isEmpty)).map (·.2))) := by
    simp only [Bool.or_eq_true, decide_eq_true_eq, not_or] at hk
    exact hk
  have hledT : wsum (fun b => decide (topOf hop b.1 = some w)) bs' = tally bs hop w - q := by
    have := s3
    rw [hneed0] at this
    have e : ((totalNeed sample : Nat) : Rat) = tally bs hop w - q := by
      have : ((totalNeed sample : Int) : Rat) = (((tally bs hop w).floor - q : Int) : Rat) := by exact_mod_cast htotal
      push_cast at this
      rw [hfloor] at this
      exact_mod_cast this
    simp only [Nat.cast_zero, add_zero] at this
    rw [this, e]
  have hnogain : ∀ pr : List Cand → Bool,
      wsum (fun b => pr b.1 && decide (topOf hop b.1 = some w)) bs' ≤
        wsum (fun b => pr b.1 && decide (topOf hop b.1 = some w)) bs := by
    intro pr
    have := s4 (fun _ => false) pr (by intro r hr; cases hr)
    simp only [Bool.false_and] at this
    have z : ∀ l : List PBallot, wsum (fun _ => false) l = 0 := by intro l; simp [wsum]
    rw [z, z] at this
    linarith
  refine ⟨s1, s2, hnogain, hledT, ?_⟩
  intro pr htrans
  -- the loss of the selected ballots is at most the loss of all transferable ballots of the pile
  have hloss := s4 pr (fun r => !(contRanking hop w r).isEmpty || !decide (topOf hop r = some w)) (by
    intro r hr
    by_cases hl : topOf hop r = some w
    · simp [htrans r hr hl]
    · simp [hl])
  -- on the pile the second predicate is "transferable"
  have hcongr : ∀ l : List PBallot,
      wsum (fun b => (!(contRanking hop w b.1).isEmpty || !decide (topOf hop b.1 = some w)) &&
        decide (topOf hop b.1 = some w)) l =
      wsum (fun b => !(contRanking hop w b.1).isEmpty && decide (topOf hop b.1 = some w)) l := by
    intro l
    congr 1
    funext b
    by_cases hl : topOf hop b.1 = some w <;> simp [hl]
  rw [hcongr bs, hcongr bs'] at hloss
  -- after the transfer the transferable part of the pile is the whole pile
  have hsplit' := wsum_split (fun b => decide (topOf hop b.1 = some w)) (fun b => (contRanking hop w b.1).isEmpty) bs'
  have hs5 : wsum (fun b => decide (topOf hop b.1 = some w) && (contRanking hop w b.1).isEmpty) bs' = 0 := by
    have : (fun b : PBallot => decide (topOf hop b.1 = some w) && (contRanking hop w b.1).isEmpty) =
        fun b => (contRanking hop w b.1).isEmpty && decide (topOf hop b.1 = some w) := by
      funext b; exact Bool.and_comm _ _
    rw [this]; exact s5
  have htr' : wsum (fun b => !(contRanking hop w b.1).isEmpty && decide (topOf hop b.1 = some w)) bs' =
      tally bs hop w - q := by
    have : (fun b : PBallot => !(contRanking hop w b.1).isEmpty && decide (topOf hop b.1 = some w)) =
        fun b => decide (topOf hop b.1 = some w) && !(contRanking hop w b.1).isEmpty := by
      funext b; exact Bool.and_comm _ _
    rw [this]
    rw [hs5, hledT] at hsplit'
    linarith
  have htr_le : wsum (fun b => !(contRanking hop w b.1).isEmpty && decide (topOf hop b.1 = some w)) bs ≤
      tally bs hop w := by
    rw [tally_eq_wsum]
    apply wsum_le_of_imp _ _ bs hnn
    intro b _ hb
    simp only [Bool.and_eq_true] at hb
    exact hb.2
  rw [htr'] at hloss
  linarith

/-! ### all surplus transfers of a round, for either built-in rule -/

/-- what the proportionality argument needs from the transfers of one round -/
def GoodTransfers (cfg : STVCfg) : Prop :=
  ∀ (hop : List Cand) (q : Int) (sample : Cand → List (List Cand × Nat)) (pr : List Cand → Bool) (inS : Cand → Bool)
    (ws : List Cand) (bs bs' : List PBallot),
    0 < q → (∀ b ∈ bs, 0 ≤ b.2) → ws.Nodup → (∀ w ∈ ws, (q : Rat) ≤ tally bs hop w) →
    (∀ w ∈ ws, inS w = false → wsum (fun b => pr b.1 && decide (topOf hop b.1 = some w)) bs = 0) →
    (∀ w ∈ ws, inS w = true → ∀ r, pr r = true → topOf hop r = some w → (contRanking hop w r).isEmpty = false) →
    applyTransfers cfg hop q sample ws bs = .ok bs' →
    (∀ b ∈ bs', 0 ≤ b.2) ∧
    wsum (fun b => pr b.1) bs - (q : Rat) * ((ws.filter inS).length : Rat) ≤ wsum (fun b => pr b.1) bs' ∧
    active bs' hop = active bs hop - (q : Rat) * (ws.length : Rat)

theorem goodTransfers_fractional (cfg : STVCfg) (hf : cfg.transfer = .fractional) : GoodTransfers cfg := by
  intro hop q sample pr inS ws bs bs' hq hnn hws hge hout _ h
  obtain ⟨h1, h2⟩ := applyTransfers_coalition cfg hop q sample pr inS hf hq ws bs bs' hnn hws hge hout h
  exact ⟨h1, h2, applyTransfers_fractional_active cfg hop q sample ws bs bs' hf h⟩

theorem wsum_congr (p p' : PBallot → Bool) (bs : List PBallot) (h : ∀ b, p b = p' b) : wsum p bs = wsum p' bs := by
  have : p = p' := funext h
  rw [this]

/-- a selection disjoint from the winner's pile is untouched by the transfer -/
theorem RandomFacts.disjoint {hop : List Cand} {q : Int} {w : Cand} {bs bs' : List PBallot}
    (F : RandomFacts hop q w bs bs') (pr : List Cand → Bool) (hd : ∀ r, pr r = true → topOf hop r ≠ some w) :
    wsum (fun b => pr b.1) bs' = wsum (fun b => pr b.1) bs := by
  have e : ∀ l : List PBallot, wsum (fun b => pr b.1) l =
      wsum (fun b => pr b.1 && !decide (topOf hop b.1 = some w)) l := by
    intro l
    apply wsum_congr
    intro b
    by_cases hp : pr b.1
    · have := hd _ hp
      simp [hp, this]
    · simp [hp]
  rw [e bs', e bs]; exact F.other pr

theorem goodTransfers_random (cfg : STVCfg) (hf : cfg.transfer = .random) : GoodTransfers cfg := by
  intro hop q sample pr inS ws bs bs' hq hnn hws hge hout htr h
  have hqr : (0 : Rat) < (q : Rat) := by exact_mod_cast hq
  induction ws generalizing bs with
  | nil =>
    simp only [applyTransfers] at h
    injection h with h; subst h
    exact ⟨hnn, by simp, by simp⟩
  | cons w rest ih =>
    simp only [applyTransfers] at h
    cases h1 : applyTransfer cfg hop q (sample w) bs w with
    | ok bs1 =>
      simp only [h1, bind, Outcome.bind] at h
      have F := applyTransfer_random_facts cfg hop q _ bs bs1 w hf hnn h1
      rw [List.nodup_cons] at hws
      have hge1 : ∀ w' ∈ rest, (q : Rat) ≤ tally bs1 hop w' := by
        intro w' hw'
        have hne : w' ≠ w := fun e => hws.1 (e ▸ hw')
        have := F.disjoint (fun r => decide (topOf hop r = some w')) (by
          intro r hr e
          have hr' : topOf hop r = some w' := by simpa using hr
          rw [hr'] at e; exact hne (Option.some.inj e))
        rw [tally_eq_wsum, this, ← tally_eq_wsum]
        exact hge w' (by simp [hw'])
      have hout1 : ∀ w' ∈ rest, inS w' = false →
          wsum (fun b => pr b.1 && decide (topOf hop b.1 = some w')) bs1 = 0 := by
        intro w' hw' hin
        have hne : w' ≠ w := fun e => hws.1 (e ▸ hw')
        have := F.disjoint (fun r => pr r && decide (topOf hop r = some w')) (by
          intro r hr e
          have hr' : topOf hop r = some w' := by
            simp only [Bool.and_eq_true, decide_eq_true_eq] at hr; exact hr.2
          rw [hr'] at e; exact hne (Option.some.inj e))
        rw [this]; exact hout w' (by simp [hw']) hin
      obtain ⟨hnn', hk', hact'⟩ := ih bs1 F.nn hws.2 hge1 hout1
        (fun w' hw' => htr w' (by simp [hw'])) h
      refine ⟨hnn', ?_, ?_⟩
      · -- coalition weight
        have hs := wsum_split (fun b => pr b.1) (fun b => decide (topOf hop b.1 = some w)) bs
        have hs1 := wsum_split (fun b => pr b.1) (fun b => decide (topOf hop b.1 = some w)) bs1
        have hoth := F.other pr
        by_cases hin : inS w
        · have hlen : (((w :: rest).filter inS).length : Rat) = ((rest.filter inS).length : Rat) + 1 := by
            simp [List.filter_cons, hin]
          have hc := F.coal pr (htr w (by simp) hin)
          rw [hlen]
          linarith
        · have hin' : inS w = false := by simpa using hin
          have h0 := hout w (by simp) hin'
          have hlen : (((w :: rest).filter inS).length : Rat) = ((rest.filter inS).length : Rat) := by
            simp [List.filter_cons, hin']
          have hng := F.nogain pr
          have hnn1 : 0 ≤ wsum (fun b => pr b.1 && decide (topOf hop b.1 = some w)) bs1 := wsum_nonneg _ _ F.nn
          rw [hlen]
          linarith
      · -- active weight
        have hs := wsum_split (isActive hop) (fun b => decide (topOf hop b.1 = some w)) bs
        have hs1 := wsum_split (isActive hop) (fun b => decide (topOf hop b.1 = some w)) bs1
        have hoth := F.other (fun r => (topOf hop r).isSome)
        have hled : ∀ l : List PBallot, wsum (fun b => isActive hop b && decide (topOf hop b.1 = some w)) l =
            wsum (fun b => decide (topOf hop b.1 = some w)) l := by
          intro l
          apply wsum_congr
          intro b
          by_cases hl : topOf hop b.1 = some w <;> simp [isActive, hl]
        rw [hled] at hs hs1
        have ht := F.ledTotal
        rw [← tally_eq_wsum] at hs
        unfold active at hact' ⊢
        have e1 : wsum (fun b => isActive hop b && !decide (topOf hop b.1 = some w)) bs1 =
            wsum (fun b => isActive hop b && !decide (topOf hop b.1 = some w)) bs := hoth
        rw [hact', hs1, hs, ht, e1]
        push_cast [List.length_cons]
        ring
    | raised e => simp [h1, bind, Outcome.bind] at h
    | oracleMismatch => simp [h1, bind, Outcome.bind] at h
    | outOfFuel => simp [h1, bind, Outcome.bind] at h

end VK
