/-
  VK.Lemmas.FpvLink — the initial first-place tallies computed by the scoring utility
  (`firstPlaceVotes`, what the code records for round 0) are the tallies of the initial STV count
  state, for profiles of untied, non-empty rankings over declared candidates.
-/
import VK.Model.STV
import VK.Lemmas.Sum
import VK.Lemmas.STVWeight
import VK.Props.C04

namespace VK

theorem validVector_zeros (n : Nat) : validVector (0 :: List.replicate n 0) = true := by
  induction n with
  | zero => simp [validVector]
  | succ n ih => simp [List.replicate_succ, validVector, ih]

theorem validVector_fpv (n : Nat) : validVector (fpvVector n) = true := by
  unfold fpvVector
  cases n with
  | zero => simp [validVector]
  | succ n => simp [List.replicate_succ, validVector, validVector_zeros]

theorem padVector_fpv (n : Nat) : padVector (fpvVector n) n = fpvVector n := by
  unfold padVector fpvVector
  simp

theorem rsum_zeros (l : List Rat) (h : ∀ x ∈ l, x = 0) : rsum l = 0 := by
  induction l with
  | nil => rfl
  | cons x xs ih =>
    simp only [rsum_cons, h x (by simp), ih (fun y hy => h y (by simp [hy]))]; simp

/-- beyond position 0 the first-place vector hands out nothing -/
theorem alloc_zero (n : Nat) (r : Ranking) (i : Nat) (hi : 1 ≤ i) :
    ∀ sa ∈ positionAlloc (fpvVector n) i r, sa.2 = 0 := by
  induction r generalizing i with
  | nil => simp [positionAlloc]
  | cons s rest ih =>
    intro sa hsa
    simp only [positionAlloc, List.mem_cons] at hsa
    rcases hsa with h | h
    · rw [h]
      simp only
      have : rsum (((fpvVector n).drop i).take s.length) = 0 := by
        apply rsum_zeros
        intro x hx
        have hx' : x ∈ (fpvVector n).drop i := List.mem_of_mem_take hx
        unfold fpvVector at hx'
        obtain ⟨j, rfl⟩ : ∃ j, i = j + 1 := ⟨i - 1, by omega⟩
        simp only [List.drop_succ_cons] at hx'
        have := List.mem_of_mem_drop hx'
        exact (List.mem_replicate.1 this).2
      rw [this]; simp
    · exact ih (i + s.length) (by omega) sa h

/-- a ballot led by the singleton `[c1]` gives its first-place point to `c1` and nothing else -/
theorem ballotPoints_fpv (n : Nat) (c1 c : Cand) (rest : Ranking) :
    ballotPoints (fpvVector n) ([c1] :: rest) c = if c1 = c then 1 else 0 := by
  unfold ballotPoints
  simp only [positionAlloc, List.length_cons, List.length_nil, Nat.zero_add]
  have h0 : rsum (((fpvVector n).drop 0).take 1) / ((1 : Nat) : Rat) = 1 := by
    simp [fpvVector, rsum]
  have hrest : rsum ((((positionAlloc (fpvVector n) 1 rest).filter (fun sa => sa.1.contains c))).map (·.2)) = 0 := by
    apply rsum_zeros
    intro x hx
    obtain ⟨sa, hsa, rfl⟩ := List.mem_map.1 hx
    exact alloc_zero n rest 1 (le_refl _) sa (List.mem_filter.1 hsa).1
  simp only [List.filter_cons]
  by_cases hc : c1 = c
  · subst hc
    simp only [List.contains_cons, beq_self_eq_true, Bool.true_or, if_true, List.map_cons, rsum_cons, hrest]
    rw [h0]; simp
  · have : ([c1].contains c) = false := by simp [hc, eq_comm]
    simp only [this, Bool.false_eq_true, if_false, hrest, hc]

/-- **The link `hfpv`.** For a profile whose ballots are non-empty untied rankings of declared
candidates, `firstPlaceVotes` equals the tallies of the initial count state. -/
theorem fpv_link (p : Profile)
    (hne : ∀ b ∈ p.ballots, b.ranking ≠ [])
    (hsingle : ∀ b ∈ p.ballots, ∀ s ∈ b.ranking, s.length = 1)
    (hcast : ∀ b ∈ p.ballots, ∀ c ∈ b.ranking.flatten, c ∈ p.cands) :
    firstPlaceVotes p = .ok (tallies (stvInitState p).bs p.cands) := by
  have hex : ∃ sc, firstPlaceVotes p = .ok sc := by
    unfold firstPlaceVotes scoreFromRankings
    simp only [validVector_fpv, Bool.not_true, Bool.false_eq_true, if_false]
    unfold addMissing
    have : p.ballots.any (fun b => b.ranking.isEmpty) = false := by
      rw [List.any_eq_false]
      intro b hb
      simpa [List.isEmpty_iff] using hne b hb
    simp [this, bind, Outcome.bind]
  obtain ⟨sc, hsc⟩ := hex
  rw [hsc]
  have hspec := C04_score_spec p (fpvVector p.cands.length) sc hsc
  rw [hspec, padVector_fpv]
  congr 1
  unfold tallies
  apply List.map_congr_left
  intro c _
  congr 1
  rw [tally_eq_wsum]
  unfold stvInitState
  simp only
  -- ballot by ballot
  have key : ∀ bs : List Ballot, (∀ b ∈ bs, b.ranking ≠ []) → (∀ b ∈ bs, ∀ s ∈ b.ranking, s.length = 1) →
      (∀ b ∈ bs, ∀ c ∈ b.ranking.flatten, c ∈ p.cands) →
      rsum (bs.map (fun b => ballotPoints (fpvVector p.cands.length) (addMissingBallot p.cands b).ranking c * b.weight)) =
      wsum (fun b => decide (topOf p.cands b.1 = some c)) (bs.map (fun b => (b.ranking.flatten, b.weight))) := by
    intro bs
    induction bs with
    | nil => intros; simp [wsum_nil]
    | cons b rest ih =>
      intro h1 h2 h3
      simp only [List.map_cons, rsum_cons, wsum_cons]
      rw [ih (fun x hx => h1 x (by simp [hx])) (fun x hx => h2 x (by simp [hx])) (fun x hx => h3 x (by simp [hx]))]
      congr 1
      -- the head ballot
      have hbne := h1 b (by simp)
      cases hr : b.ranking with
      | nil => exact absurd hr hbne
      | cons s tail =>
        have hs1 : s.length = 1 := h2 b (by simp) s (by rw [hr]; simp)
        obtain ⟨c1, rfl⟩ : ∃ c1, s = [c1] := by
          match s, hs1 with
          | [x], _ => exact ⟨x, rfl⟩
        have hc1 : c1 ∈ p.cands := h3 b (by simp) c1 (by rw [hr]; simp)
        have htop : topOf p.cands (([c1] :: tail).flatten) = some c1 := by
          unfold topOf
          simp [List.flatten_cons, List.find?_cons, hc1]
        have hrank : (addMissingBallot p.cands b).ranking = [c1] :: (tail ++
            (if (missingCands p.cands b.ranking).isEmpty then [] else [missingCands p.cands b.ranking])) := by
          unfold addMissingBallot
          simp only [hr]
          split <;> simp
        rw [hrank, ballotPoints_fpv, htop]
        by_cases hcc : c1 = c
        · subst hcc; simp
        · have : ¬ (some c1 = some c) := fun e => hcc (Option.some.inj e)
          simp [hcc, this]
  exact key p.ballots hne hsingle hcast

end VK
