/-
  VK.Lemmas.RenameSTV — the STV count commutes with an injective renaming of the candidates: tallies, the
  profile the count holds, both transfer rules, the choice of winners and of the loser, one step.
-/
import VK.Lemmas.Rename
namespace VK

def renPB (π : Cand → Cand) (b : PBallot) : PBallot := (b.1.map π, b.2)
def renCS (π : Cand → Cand) (S : CState) : CState :=
  { bs := S.bs.map (renPB π), hopeful := S.hopeful.map π, nElected := S.nElected }
def renNeed (π : Cand → Cand) (need : List (List Cand × Nat)) : List (List Cand × Nat) :=
  need.map (fun kn => (kn.1.map π, kn.2))

/-- the renamed oracle: the same priorities and the same kept units, under the new names -/
structure RenOracle (π : Cand → Cand) (ω ω' : STVOracle) : Prop where
  pri : ∀ r, ω'.pri r = (ω.pri r).map π
  sample : ∀ r c, ω'.sample r (π c) = renNeed π (ω.sample r c)

section
variable (π : Cand → Cand) (hπ : Function.Injective π)
include hπ

theorem topOf_ren (h r : List Cand) : topOf (h.map π) (r.map π) = (topOf h r).map π := by
  unfold topOf
  rw [List.find?_map]
  congr 2
  funext c
  simp only [Function.comp_def]; exact contains_map_inj π hπ h c

theorem topOf_ren_eq (h r : List Cand) (w : Cand) :
    decide (topOf (h.map π) (r.map π) = some (π w)) = decide (topOf h r = some w) := by
  rw [topOf_ren π hπ]
  rw [decide_eq_decide]
  cases topOf h r with
  | none => simp
  | some x => simp only [Option.map_some, Option.some.injEq]; exact ⟨fun e => hπ e, fun e => by rw [e]⟩

theorem tally_ren (bs : List PBallot) (h : List Cand) (c : Cand) :
    tally (bs.map (renPB π)) (h.map π) (π c) = tally bs h c := by
  unfold tally
  rw [List.filter_map, List.map_map]
  congr 1
  have : ((fun b : PBallot => decide (topOf (h.map π) b.1 = some (π c))) ∘ renPB π) =
      fun b => decide (topOf h b.1 = some c) := by
    funext b; simp only [Function.comp_def, renPB]; exact topOf_ren_eq π hπ h b.1 c
  rw [this]
  rfl

theorem tallies_ren (bs : List PBallot) (h : List Cand) :
    tallies (bs.map (renPB π)) (h.map π) = renSc π (tallies bs h) := by
  unfold tallies renSc
  rw [List.map_map, List.map_map]
  apply List.map_congr_left; intro c _
  simp only [Function.comp_def, tally_ren π hπ]

def pbBallot (h : List Cand) (b : PBallot) : Ballot :=
  { ranking := (b.1.filter (fun c => h.contains c)).map (fun c => [c]), weight := b.2, scores := [] }

omit hπ in
theorem currentBallots_eq (bs : List PBallot) (h : List Cand) :
    currentBallots bs h = ((bs.map (pbBallot h))).filter (fun b => !b.ranking.isEmpty && decide (0 < b.weight)) := rfl

theorem pbBallot_ren (h : List Cand) (b : PBallot) : pbBallot (h.map π) (renPB π b) = renB π (pbBallot h b) := by
  simp only [pbBallot, renPB, renB, renR, renSc, List.map_nil, filter_contains_map π hπ, List.map_map,
    Function.comp_def, List.map_cons]

theorem currentBallots_ren (bs : List PBallot) (h : List Cand) :
    currentBallots (bs.map (renPB π)) (h.map π) = (currentBallots bs h).map (renB π) := by
  rw [currentBallots_eq, currentBallots_eq]
  have hF : (bs.map (renPB π)).map (pbBallot (h.map π)) = (bs.map (pbBallot h)).map (renB π) := by
    rw [List.map_map, List.map_map]; apply List.map_congr_left; intro b _; exact pbBallot_ren π hπ h b
  have h2 : ((fun b : Ballot => !b.ranking.isEmpty && decide (0 < b.weight)) ∘ renB π) =
      fun b => !b.ranking.isEmpty && decide (0 < b.weight) := by
    funext b; simp [renB, renR]; rfl
  rw [hF, List.filter_map, h2]

theorem currentProfile_ren (S : CState) : currentProfile (renCS π S) = renP π (currentProfile S) := by
  unfold currentProfile renCS renP
  simp only [currentBallots_ren π hπ, condense_ren π hπ]

theorem contRanking_ren (h : List Cand) (w : Cand) (r : List Cand) :
    contRanking (h.map π) (π w) (r.map π) = (contRanking h w r).map π := by
  unfold contRanking
  rw [List.filter_map]; congr 1
  apply List.filter_congr; intro x _
  simp only [Function.comp_def, contains_map_inj π hπ]
  congr 1
  rw [Bool.eq_iff_iff]; simp only [bne_iff_ne, ne_eq]
  exact ⟨fun hne e => hne (by rw [e]), fun hne e => hne (hπ e)⟩

theorem takeUnits_ren (need : List (List Cand × Nat)) (k : List Cand) (avail : Nat) :
    takeUnits (renNeed π need) (k.map π) avail =
      ((takeUnits need k avail).1, renNeed π (takeUnits need k avail).2) := by
  induction need with
  | nil => rfl
  | cons a rest ih =>
    obtain ⟨k', n⟩ := a
    have hc : renNeed π ((k', n) :: rest) = (k'.map π, n) :: renNeed π rest := rfl
    rw [hc]
    simp only [takeUnits]
    by_cases hk : k' = k
    · simp [hk, renNeed]
    · have : ¬ k'.map π = k.map π := fun e => hk (map_inj_list π hπ e)
      simp only [hk, this, if_false, ih]
      rfl

theorem randomAssign_ren (h : List Cand) (w : Cand) (bs : List PBallot) (need : List (List Cand × Nat)) :
    randomAssign (h.map π) (π w) (bs.map (renPB π)) (renNeed π need) =
      (((randomAssign h w bs need).1).map (renPB π), renNeed π (randomAssign h w bs need).2) := by
  induction bs generalizing need with
  | nil => rfl
  | cons b rest ih =>
    simp only [List.map_cons, randomAssign]
    have ht : (topOf (h.map π) (renPB π b).1 = some (π w)) ↔ (topOf h b.1 = some w) := by
      have := topOf_ren_eq π hπ h b.1 w
      rwa [decide_eq_decide] at this
    by_cases hled : topOf h b.1 = some w
    · have hled' := ht.mpr hled
      simp only [hled, hled', if_true]
      have hk : contRanking (h.map π) (π w) (renPB π b).1 = (contRanking h w b.1).map π :=
        contRanking_ren π hπ h w b.1
      rw [hk]
      by_cases he : (contRanking h w b.1).isEmpty
      · have he' : ((contRanking h w b.1).map π).isEmpty = true := by simpa using he
        simp only [he, he', if_true, ih]
        rfl
      · have he' : ¬ ((contRanking h w b.1).map π).isEmpty = true := by simpa using he
        simp only [he, he']
        have hw : (renPB π b).2 = b.2 := rfl
        rw [hw, takeUnits_ren π hπ]
        simp only [ih]
        rfl
    · have hled' : ¬ topOf (h.map π) (renPB π b).1 = some (π w) := fun e => hled (ht.mp e)
      simp only [hled, hled', if_false, ih]
      rfl

theorem led_ren (h : List Cand) (w : Cand) (bs : List PBallot) :
    (bs.map (renPB π)).filter (fun b => decide (topOf (h.map π) b.1 = some (π w))) =
      (bs.filter (fun b => decide (topOf h b.1 = some w))).map (renPB π) := by
  rw [List.filter_map]; congr 1
  apply List.filter_congr; intro b _
  simp only [Function.comp_def, renPB]; exact topOf_ren_eq π hπ h b.1 w

theorem transferable_ren (h : List Cand) (w : Cand) (led : List PBallot) :
    rsum (((led.map (renPB π)).filter (fun b => !(contRanking (h.map π) (π w) b.1).isEmpty)).map (·.2)) =
      rsum ((led.filter (fun b => !(contRanking h w b.1).isEmpty)).map (·.2)) := by
  rw [List.filter_map, List.map_map]
  congr 1
  have : ((fun b : PBallot => !(contRanking (h.map π) (π w) b.1).isEmpty) ∘ renPB π) =
      fun b => !(contRanking h w b.1).isEmpty := by
    funext b
    simp only [Function.comp_def, renPB, contRanking_ren π hπ, List.isEmpty_map]
  rw [this]
  rfl

omit hπ in
theorem need_total_ren (sample : List (List Cand × Nat)) :
    ((renNeed π sample).map (·.2)).foldl (· + ·) 0 = (sample.map (·.2)).foldl (· + ·) 0 := by
  unfold renNeed; rw [List.map_map]; rfl

omit hπ in
theorem need_anyEmpty_ren (sample : List (List Cand × Nat)) :
    (renNeed π sample).any (fun kn => kn.1.isEmpty) = sample.any (fun kn => kn.1.isEmpty) := by
  unfold renNeed; rw [List.any_map]; congr 1; funext kn; simp

omit hπ in
theorem need_anyNonzero_ren (need : List (List Cand × Nat)) :
    (renNeed π need).any (fun kn => decide (kn.2 ≠ 0)) = need.any (fun kn => decide (kn.2 ≠ 0)) := by
  unfold renNeed; rw [List.any_map]; rfl

theorem applyTransfer_ren (cfg : STVCfg) (h : List Cand) (q : Int) (sample : List (List Cand × Nat))
    (bs : List PBallot) (w : Cand) :
    applyTransfer cfg (h.map π) q (renNeed π sample) (bs.map (renPB π)) (π w) =
      (applyTransfer cfg h q sample bs w).map (List.map (renPB π)) := by
  unfold applyTransfer
  simp only [tally_ren π hπ]
  cases cfg.transfer with
  | full => rfl
  | fractional =>
    simp only []
    split
    · rfl
    · simp only [Outcome.map_ok, List.map_map]
      congr 1
      apply List.map_congr_left; intro b _
      simp only [Function.comp_def]
      have ht : (topOf (h.map π) (renPB π b).1 = some (π w)) ↔ (topOf h b.1 = some w) := by
        have := topOf_ren_eq π hπ h b.1 w
        rwa [decide_eq_decide] at this
      by_cases hled : topOf h b.1 = some w
      · simp only [hled, ht.mpr hled, if_true]; rfl
      · have : ¬ topOf (h.map π) (renPB π b).1 = some (π w) := fun e => hled (ht.mp e)
        simp only [hled, this, if_false]
  | random =>
    simp only [led_ren π hπ, transferable_ren π hπ, need_total_ren π, need_anyEmpty_ren π,
      randomAssign_ren π hπ, need_anyNonzero_ren π]
    have hany : ((bs.filter (fun b => decide (topOf h b.1 = some w))).map (renPB π)).any (fun b => !isIntRat b.2) =
        (bs.filter (fun b => decide (topOf h b.1 = some w))).any (fun b => !isIntRat b.2) := by
      rw [List.any_map]; rfl
    rw [hany]
    split
    · rfl
    · split
      · rfl
      · split
        · rfl
        · split <;> rfl

theorem applyTransfers_ren (cfg : STVCfg) (h : List Cand) (q : Int)
    (sample sample' : Cand → List (List Cand × Nat)) (hs : ∀ c, sample' (π c) = renNeed π (sample c))
    (ws : List Cand) (bs : List PBallot) :
    applyTransfers cfg (h.map π) q sample' (ws.map π) (bs.map (renPB π)) =
      (applyTransfers cfg h q sample ws bs).map (List.map (renPB π)) := by
  induction ws generalizing bs with
  | nil => rfl
  | cons w rest ih =>
    simp only [List.map_cons, applyTransfers]
    rw [hs, applyTransfer_ren π hπ]
    cases applyTransfer cfg h q (sample w) bs w with
    | ok bs' => simp only [Outcome.map_ok, Outcome.bind_ok]; exact ih bs'
    | raised e => rfl
    | oracleMismatch => rfl
    | outOfFuel => rfl

def renChoice (π : Cand → Cand) (x : Ranking × List (List Cand × Ranking)) : Ranking × List (List Cand × Ranking) :=
  (renR π x.1, x.2.map (renTb π))

theorem electChoice_ren (cfg : STVCfg) (q : Int) (ω ω' : STVOracle) (hω : RenOracle π ω ω') (rnd : Nat)
    (S : CState) (prev : RoundState) :
    electChoice cfg q ω' rnd (renCS π S) (renRS π prev) = (electChoice cfg q ω rnd S prev).map (renChoice π) := by
  unfold electChoice
  split
  · simp only [Outcome.pure_eq, Outcome.map_ok, renChoice, List.map_nil]
    congr 2
    have h1 : (renRS π prev).remaining = renR π prev.remaining := rfl
    have h2 : (renRS π prev).scores = renSc π prev.scores := rfl
    rw [h1, h2]
    unfold renR
    rw [List.takeWhile_map]
    congr 2
    funext g
    cases g with
    | nil => rfl
    | cons c rest => simp only [Function.comp_def, List.map_cons, lookupScore_ren π hπ]
  · have h1 : (renRS π prev).remaining = renR π prev.remaining := rfl
    have h3 : some (currentProfile (renCS π S)) = (some (currentProfile S)).map (renP π) := by
      rw [currentProfile_ren π hπ]; rfl
    rw [h1, h3, hω.pri, electFromRanking_ren π hπ]
    cases electFromRanking (ω.pri rnd) prev.remaining 1 (some (currentProfile S)) cfg.tiebreak with
    | ok r =>
      simp only [Outcome.map_ok, Outcome.bind_ok, Outcome.pure_eq, renChoice, renER]
      congr 2
      cases r.tiebreak <;> rfl
    | raised e => rfl
    | oracleMismatch => rfl
    | outOfFuel => rfl

def renLoser (π : Cand → Cand) (x : Cand × List (List Cand × Ranking)) : Cand × List (List Cand × Ranking) :=
  (π x.1, x.2.map (renTb π))

theorem loserChoice_ren (init : Profile) (ω ω' : STVOracle) (hω : RenOracle π ω ω') (rnd : Nat) (lowest : List Cand) :
    loserChoice (renP π init) ω' rnd (lowest.map π) = (loserChoice init ω rnd lowest).map (renLoser π) := by
  unfold loserChoice
  simp only [List.length_map]
  split
  · have h3 : some (renP π init) = (some init).map (renP π) := rfl
    rw [h3, hω.pri, tiebreakSet_ren π hπ]
    cases tiebreakSet (ω.pri rnd) lowest (some init) .firstPlace with
    | ok t =>
      simp only [Outcome.map_ok, Outcome.bind_ok]
      have : (renR π t).getLast? = t.getLast?.map (List.map π) := by unfold renR; rw [List.getLast?_map]
      rw [this]
      cases hl : t.getLast? with
      | none => rfl
      | some g =>
        cases g with
        | nil => rfl
        | cons c rest =>
          cases rest with
          | nil => rfl
          | cons d rest' => rfl
    | raised e => rfl
    | oracleMismatch => rfl
    | outOfFuel => rfl
  · cases lowest with
    | nil => rfl
    | cons c rest =>
      cases rest with
      | nil => rfl
      | cons d rest' => rfl

def renStep (π : Cand → Cand) (x : CState × RoundState) : CState × RoundState := (renCS π x.1, renRS π x.2)

omit hπ in
theorem above_isEmpty_ren (sc : List (Cand × Rat)) (q : Int) :
    ((renSc π sc).filter (fun cs => decide ((q : Rat) ≤ cs.2))).isEmpty =
      (sc.filter (fun cs => decide ((q : Rat) ≤ cs.2))).isEmpty := by
  unfold renSc; rw [List.filter_map, List.isEmpty_map]; rfl

theorem hopeful_filter_winners_ren (h winners : List Cand) :
    (h.map π).filter (fun c => !(winners.map π).contains c) = (h.filter (fun c => !winners.contains c)).map π :=
  filter_not_contains_map π hπ h winners

theorem hopeful_filter_loser_ren (h : List Cand) (l : Cand) :
    (h.map π).filter (fun c => c != π l) = (h.filter (fun c => c != l)).map π := by
  rw [List.filter_map]; congr 1
  apply List.filter_congr; intro x _
  simp only [Function.comp_def]
  rw [Bool.eq_iff_iff]; simp only [bne_iff_ne, ne_eq]
  exact ⟨fun hne e => hne (by rw [e]), fun hne e => hne (hπ e)⟩

theorem stvStep_ren (cfg : STVCfg) (init : Profile) (q : Int) (ω ω' : STVOracle) (hω : RenOracle π ω ω') (rnd : Nat)
    (S : CState) (prev : RoundState) :
    stvStep cfg (renP π init) q ω' rnd (renCS π S) (renRS π prev) =
      (stvStep cfg init q ω rnd S prev).map (renStep π) := by
  unfold stvStep
  have h2 : (renRS π prev).scores = renSc π prev.scores := rfl
  have hh : (renCS π S).hopeful = S.hopeful.map π := rfl
  have hb : (renCS π S).bs = S.bs.map (renPB π) := rfl
  have hn : (renCS π S).nElected = S.nElected := rfl
  have hr : (renRS π prev).remaining = renR π prev.remaining := rfl
  simp only [h2, above_isEmpty_ren π]
  split
  · -- elect
    rw [electChoice_ren π hπ cfg q ω ω' hω]
    cases electChoice cfg q ω rnd S prev with
    | ok x =>
      obtain ⟨eg, tbs⟩ := x
      simp only [Outcome.map_ok, Outcome.bind_ok, renChoice]
      rw [hh, hb, flatten_renR π,
        applyTransfers_ren π hπ cfg S.hopeful q (ω.sample rnd) (ω'.sample rnd) (hω.sample rnd)]
      cases applyTransfers cfg S.hopeful q (ω.sample rnd) eg.flatten S.bs with
      | ok bs' =>
        simp only [Outcome.map_ok, Outcome.bind_ok, Outcome.pure_eq, renStep, renCS, renRS,
          hopeful_filter_winners_ren π hπ, tallies_ren π hπ, scoreToRanking_ren π, List.length_map]
        rfl
      | raised e => rfl
      | oracleMismatch => rfl
      | outOfFuel => rfl
    | raised e => rfl
    | oracleMismatch => rfl
    | outOfFuel => rfl
  · rw [hh, hn, List.length_map]
    split
    · simp only [Outcome.pure_eq, Outcome.map_ok, renStep, renCS, renRS, List.map_map, List.map_nil]
      rfl
    · rw [hr]
      have : (renR π prev.remaining).getLast? = prev.remaining.getLast?.map (List.map π) := by
        unfold renR; rw [List.getLast?_map]
      rw [this]
      cases prev.remaining.getLast? with
      | none => rfl
      | some lowest =>
        simp only [Option.map_some]
        rw [loserChoice_ren π hπ init ω ω' hω]
        cases loserChoice init ω rnd lowest with
        | ok x =>
          obtain ⟨loser, tbs⟩ := x
          simp only [Outcome.map_ok, Outcome.bind_ok, Outcome.pure_eq, renLoser, renStep, renCS, renRS,
            hopeful_filter_loser_ren π hπ, tallies_ren π hπ, scoreToRanking_ren π]
          rfl
        | raised e => rfl
        | oracleMismatch => rfl
        | outOfFuel => rfl

end
end VK
