/-
  VK.Lemmas.GenHoare — partial-correctness reasoning for the replay layer `Gen.GenM`
  (`StateT (List Call) (Except String)`): what holds of the value whenever a replay accepts its log.
-/
import VK.Model.Gen
import Batteries.Data.List.Basic

namespace VK
namespace Gen

/-- every value the computation can return (from any log) satisfies `Q` -/
def Ensures {α} (m : GenM α) (Q : α → Prop) : Prop :=
  ∀ (s : List Call) (a : α) (s' : List Call), m.run s = .ok (a, s') → Q a

theorem ensures_pure {α} (a : α) (Q : α → Prop) (h : Q a) : Ensures (pure a : GenM α) Q := by
  intro s x s' hx
  simp only [StateT.run_pure, pure, Except.pure] at hx
  injection hx with hx
  injection hx with h1 _
  rw [← h1]; exact h

theorem ensures_bad {α} (msg : String) (Q : α → Prop) : Ensures (bad msg : GenM α) Q := by
  intro s x s' hx
  simp [bad, throw, throwThe, MonadExceptOf.throw, StateT.run, StateT.lift, bind, Except.bind] at hx

theorem ensures_bind {α β} (m : GenM α) (f : α → GenM β) (P : α → Prop) (Q : β → Prop)
    (hm : Ensures m P) (hf : ∀ a, P a → Ensures (f a) Q) : Ensures (m >>= f) Q := by
  intro s b s' hb
  simp only [StateT.run_bind] at hb
  cases hr : m.run s with
  | error e => rw [hr] at hb; simp [bind, Except.bind] at hb
  | ok as =>
    obtain ⟨a, s1⟩ := as
    rw [hr] at hb
    simp only [bind, Except.bind] at hb
    exact hf a (hm s a s1 hr) s1 b s' hb

theorem ensures_weaken {α} (m : GenM α) (P Q : α → Prop) (hm : Ensures m P) (h : ∀ a, P a → Q a) : Ensures m Q :=
  fun s a s' hx => h a (hm s a s' hx)

theorem ensures_mapM {α β} (f : α → GenM β) (Q : β → Prop) (l : List α) (h : ∀ a ∈ l, Ensures (f a) Q) :
    Ensures (l.mapM f) (fun out => out.length = l.length ∧ ∀ b ∈ out, Q b) := by
  induction l with
  | nil =>
    simp only [List.mapM_nil]
    exact ensures_pure _ _ ⟨rfl, by simp⟩
  | cons x xs ih =>
    simp only [List.mapM_cons]
    refine ensures_bind _ _ Q _ (h x (by simp)) ?_
    intro b hb
    refine ensures_bind _ _ (fun out => out.length = xs.length ∧ ∀ b ∈ out, Q b) _
      (ih (fun a ha => h a (by simp [ha]))) ?_
    intro bs hbs
    refine ensures_pure _ _ ⟨by simp [hbs.1], ?_⟩
    intro y hy
    rcases List.mem_cons.1 hy with rfl | hy
    · exact hb
    · exact hbs.2 y hy

theorem ensures_mapM2 {α β} (f : α → GenM β) (Q : α → β → Prop) (l : List α) (h : ∀ a ∈ l, Ensures (f a) (Q a)) :
    Ensures (l.mapM f) (fun out => List.Forall₂ Q l out) := by
  induction l with
  | nil =>
    simp only [List.mapM_nil]
    exact ensures_pure _ _ List.Forall₂.nil
  | cons x xs ih =>
    simp only [List.mapM_cons]
    refine ensures_bind _ _ (Q x) _ (h x (by simp)) ?_
    intro b hb
    refine ensures_bind _ _ (fun out => List.Forall₂ Q xs out) _ (ih (fun a ha => h a (by simp [ha]))) ?_
    intro bs hbs
    exact ensures_pure _ _ (List.Forall₂.cons hb hbs)

theorem ensures_next (what : String) : Ensures (next what) (fun _ => True) := fun _ _ _ _ => trivial

theorem ensures_ite {α} (c : Prop) [Decidable c] (a b : GenM α) (Q : α → Prop) (ha : c → Ensures a Q) (hb : ¬ c → Ensures b Q) :
    Ensures (if c then a else b) Q := by
  by_cases h : c
  · simp only [h, if_true]; exact ha h
  · simp only [h, if_false]; exact hb h

end Gen
end VK
