/-
  VK.Lemmas.Reorder — listing the declared candidates in another order (C08). The model lists the members of a
  group, and the entries of a score dictionary, in declared order; `reG c'` re-lists a group in the order of `c'`.
  The utility layer commutes with that re-listing: nothing it computes depends on the order except the order inside
  groups and dictionaries, which Python's sets and dicts do not expose.
-/
import VK.Lemmas.Rename
import VK.Lemmas.Ranking
import VK.Props.C10
import VK.Lemmas.PSC
namespace VK

def reG (c' : List Cand) (g : List Cand) : List Cand := c'.filter (fun x => g.contains x)
def reR (c' : List Cand) (r : Ranking) : Ranking := r.map (reG c')
def reSc (c' : List Cand) (sc : List (Cand × Rat)) : List (Cand × Rat) :=
  (reG c' (sc.map (·.1))).map (fun c => (c, lookupScore sc c))
def reTb (c' : List Cand) (t : List Cand × Ranking) : List Cand × Ranking := (reG c' t.1, reR c' t.2)
def reRS (c' : List Cand) (s : RoundState) : RoundState :=
  { round := s.round, remaining := reR c' s.remaining, elected := reR c' s.elected,
    eliminated := reR c' s.eliminated, tiebreaks := s.tiebreaks.map (reTb c'), scores := reSc c' s.scores }

/-- every member is declared in `c'` -/
def SubOf (c' g : List Cand) : Prop := ∀ x ∈ g, x ∈ c'

theorem mem_reG (c' g : List Cand) (x : Cand) : x ∈ reG c' g ↔ x ∈ c' ∧ x ∈ g := by
  simp [reG, List.mem_filter]

theorem mem_reG_sub (c' g : List Cand) (hs : SubOf c' g) (x : Cand) : x ∈ reG c' g ↔ x ∈ g := by
  rw [mem_reG]; exact ⟨fun h => h.2, fun h => ⟨hs x h, h⟩⟩

theorem reG_nodup (c' g : List Cand) (hN : c'.Nodup) : (reG c' g).Nodup := hN.filter _

theorem reG_perm (c' g : List Cand) (hN : c'.Nodup) (hg : g.Nodup) (hs : SubOf c' g) : (reG c' g).Perm g :=
  (List.perm_ext_iff_of_nodup (reG_nodup c' g hN) hg).mpr (mem_reG_sub c' g hs)

theorem reG_length (c' g : List Cand) (hN : c'.Nodup) (hg : g.Nodup) (hs : SubOf c' g) : (reG c' g).length = g.length :=
  (reG_perm c' g hN hg hs).length_eq

theorem contains_reG (c' g : List Cand) (hs : SubOf c' g) (x : Cand) : (reG c' g).contains x = g.contains x := by
  rw [Bool.eq_iff_iff]; simp only [List.contains_iff_mem]; exact mem_reG_sub c' g hs x

theorem reG_nil (c' : List Cand) : reG c' [] = [] := by simp [reG]

theorem reG_singleton (c' : List Cand) (hN : c'.Nodup) (x : Cand) (hx : x ∈ c') : reG c' [x] = [x] := by
  have := reG_perm c' [x] hN (List.nodup_singleton x) (by intro y hy; rw [List.mem_singleton] at hy; rw [hy]; exact hx)
  exact List.perm_singleton.mp this

theorem reG_congr (c' g g' : List Cand) (h : ∀ x, x ∈ g ↔ x ∈ g') : reG c' g = reG c' g' := by
  unfold reG
  apply List.filter_congr; intro x _
  rw [Bool.eq_iff_iff]; simp only [List.contains_iff_mem]; exact h x

theorem reG_filter (c' g : List Cand) (P : Cand → Bool) : reG c' (g.filter P) = (reG c' g).filter P := by
  unfold reG
  rw [List.filter_filter]
  apply List.filter_congr; intro x _
  rw [Bool.eq_iff_iff]
  simp only [List.contains_iff_mem, List.mem_filter, Bool.and_eq_true]
  exact ⟨fun h => ⟨h.2, h.1⟩, fun h => ⟨h.2, h.1⟩⟩

/-- re-listing in the order of a sublist `c'.filter P` agrees with re-listing in the order of `c'` on groups
whose members all satisfy `P` -/
theorem reG_restrict (c' g : List Cand) (P : Cand → Bool) (hP : ∀ x ∈ g, P x = true) :
    reG (c'.filter P) g = reG c' g := by
  unfold reG
  rw [List.filter_filter]
  apply List.filter_congr; intro x _
  rw [Bool.eq_iff_iff]
  simp only [List.contains_iff_mem, Bool.and_eq_true]
  exact ⟨fun h => h.1, fun h => ⟨h, hP x h⟩⟩

theorem reG_isEmpty (c' g : List Cand) (hs : SubOf c' g) : (reG c' g).isEmpty = g.isEmpty := by
  cases g with
  | nil => simp [reG_nil]
  | cons a t =>
    have : a ∈ reG c' (a :: t) := (mem_reG_sub c' _ hs a).mpr List.mem_cons_self
    cases h : reG c' (a :: t) with
    | nil => rw [h] at this; cases this
    | cons _ _ => rfl

theorem flatten_reR_mem (c' : List Cand) (r : Ranking) (hs : ∀ g ∈ r, SubOf c' g) (x : Cand) :
    x ∈ (reR c' r).flatten ↔ x ∈ r.flatten := by
  simp only [reR, List.mem_flatten, List.mem_map]
  constructor
  · rintro ⟨l, ⟨g, hg, rfl⟩, hx⟩
    exact ⟨g, hg, (mem_reG_sub c' g (hs g hg) x).mp hx⟩
  · rintro ⟨g, hg, hx⟩
    exact ⟨reG c' g, ⟨g, hg, rfl⟩, (mem_reG_sub c' g (hs g hg) x).mpr hx⟩

/-! ### score dictionaries -/

theorem keys_reSc (c' : List Cand) (sc : List (Cand × Rat)) : (reSc c' sc).map (·.1) = reG c' (sc.map (·.1)) := by
  unfold reSc; rw [List.map_map]; simp [Function.comp_def]

theorem mem_reSc (c' : List Cand) (sc : List (Cand × Rat)) (hk : (sc.map (·.1)).Nodup) (hs : SubOf c' (sc.map (·.1)))
    (cs : Cand × Rat) : cs ∈ reSc c' sc ↔ cs ∈ sc := by
  unfold reSc
  simp only [List.mem_map]
  constructor
  · rintro ⟨c, hc, rfl⟩
    rw [mem_reG_sub c' _ hs] at hc
    obtain ⟨cs, hcs, rfl⟩ := List.mem_map.mp hc
    rw [lookupScore_of_mem sc hk cs.1 cs.2 hcs]; exact hcs
  · intro h
    refine ⟨cs.1, (mem_reG_sub c' _ hs cs.1).mpr (List.mem_map_of_mem h), ?_⟩
    rw [lookupScore_of_mem sc hk cs.1 cs.2 h]

theorem lookupScore_reSc (c' : List Cand) (sc : List (Cand × Rat)) (c : Cand) (hc : c ∈ sc.map (·.1)) (hc' : c ∈ c') :
    lookupScore (reSc c' sc) c = lookupScore sc c := by
  unfold reSc
  exact lookupScore_map _ (fun c => lookupScore sc c) c ((mem_reG c' _ c).mpr ⟨hc', hc⟩)

theorem distinctDesc_congr (l l' : List Rat) (h : ∀ y, y ∈ l ↔ y ∈ l') : distinctDesc l = distinctDesc l' := by
  apply List.Perm.eq_of_pairwise (le := (· > ·))
  · intro a b _ _ hab hba; exact absurd hab (not_lt.mpr (le_of_lt hba))
  · exact distinctDesc_sorted l
  · exact distinctDesc_sorted l'
  · apply (List.perm_ext_iff_of_nodup (distinctDesc_nodup l) (distinctDesc_nodup l')).mpr
    intro y; rw [mem_distinctDesc, mem_distinctDesc]; exact h y

theorem scoreToRanking_re (c' : List Cand) (sc : List (Cand × Rat)) (hk : (sc.map (·.1)).Nodup)
    (hs : SubOf c' (sc.map (·.1))) (hl : Bool) :
    scoreToRanking (reSc c' sc) hl = reR c' (scoreToRanking sc hl) := by
  unfold scoreToRanking reR
  have hv : distinctDesc ((reSc c' sc).map (·.2)) = distinctDesc (sc.map (·.2)) := by
    apply distinctDesc_congr
    intro y
    simp only [List.mem_map]
    constructor
    · rintro ⟨cs, hcs, rfl⟩; exact ⟨cs, (mem_reSc c' sc hk hs cs).mp hcs, rfl⟩
    · rintro ⟨cs, hcs, rfl⟩; exact ⟨cs, (mem_reSc c' sc hk hs cs).mpr hcs, rfl⟩
  simp only [hv, List.map_map]
  apply List.map_congr_left; intro v _
  simp only [Function.comp_def]
  -- the group of value v
  unfold reSc
  rw [List.filter_map, List.map_map]
  simp only [Function.comp_def, List.map_id']
  unfold reG
  rw [List.filter_filter]
  apply List.filter_congr; intro x _
  rw [Bool.eq_iff_iff]
  simp only [Bool.and_eq_true, decide_eq_true_eq, List.contains_iff_mem, List.mem_map, List.mem_filter]
  constructor
  · rintro ⟨hv', ⟨cs, hcs, rfl⟩⟩
    refine ⟨cs, ⟨hcs, ?_⟩, rfl⟩
    rw [← hv', lookupScore_of_mem sc hk cs.1 cs.2 hcs]
  · rintro ⟨cs, ⟨hcs, hv'⟩, rfl⟩
    refine ⟨?_, ⟨cs, hcs, rfl⟩⟩
    rw [lookupScore_of_mem sc hk cs.1 cs.2 hcs]; exact hv'

theorem reSc_restrict (c' : List Cand) (P : Cand → Bool) (sc : List (Cand × Rat)) (h : ∀ x ∈ sc.map (·.1), P x = true) :
    reSc (c'.filter P) sc = reSc c' sc := by
  unfold reSc; rw [reG_restrict c' _ P h]

/-! ### tie breaking -/

def GoodGroup (c' g : List Cand) : Prop := g.Nodup ∧ SubOf c' g

theorem all_reG (c' g : List Cand) (hs : SubOf c' g) (P : Cand → Bool) : (reG c' g).all P = g.all P := by
  rw [Bool.eq_iff_iff]; simp only [List.all_eq_true]
  exact ⟨fun h x hx => h x ((mem_reG_sub c' g hs x).mpr hx), fun h x hx => h x ((mem_reG_sub c' g hs x).mp hx)⟩

theorem filter_contains_reG (c' g : List Cand) (hs : SubOf c' g) (l : List Cand) :
    l.filter (fun c => (reG c' g).contains c) = l.filter (fun c => g.contains c) := by
  apply List.filter_congr; intro x _; exact contains_reG c' g hs x

theorem orderBy_re (c' : List Cand) (hN : c'.Nodup) (pri g : List Cand) (hg : GoodGroup c' g) :
    orderBy pri (reG c' g) = orderBy pri g := by
  unfold orderBy
  simp only [filter_contains_reG c' g hg.2, reG_length c' g hN hg.1 hg.2, all_reG c' g hg.2]

theorem orderBy_mem (pri s o : List Cand) (h : orderBy pri s = .ok o) : ∀ x ∈ o, x ∈ s := by
  unfold orderBy at h
  simp only [] at h
  split at h
  · injection h with h; subst h
    intro x hx; simpa using (List.mem_filter.mp hx).2
  · cases h

theorem reR_singletons (c' : List Cand) (hN : c'.Nodup) (o : List Cand) (ho : SubOf c' o) :
    reR c' (o.map (fun c => [c])) = o.map (fun c => [c]) := by
  unfold reR; rw [List.map_map]
  apply List.map_congr_left; intro c hc
  exact reG_singleton c' hN c (ho c hc)

theorem breakGroup_re (c' : List Cand) (hN : c'.Nodup) (pri g : List Cand) (hg : GoodGroup c' g) :
    breakGroup pri (reG c' g) = (breakGroup pri g).map (reR c') := by
  unfold breakGroup
  rw [reG_length c' g hN hg.1 hg.2]
  split
  · rfl
  · rw [orderBy_re c' hN pri g hg]
    cases ho : orderBy pri g with
    | ok o =>
      simp only [Outcome.bind_ok, Outcome.pure_eq, Outcome.map_ok]
      rw [reR_singletons c' hN o (fun x hx => hg.2 x (orderBy_mem pri g o ho x hx))]
    | raised e => rfl
    | oracleMismatch => rfl
    | outOfFuel => rfl

theorem breakGroups_re (c' : List Cand) (hN : c'.Nodup) (pri : List Cand) (r : Ranking) (hr : ∀ g ∈ r, GoodGroup c' g) :
    breakGroups pri (reR c' r) = (breakGroups pri r).map (reR c') := by
  induction r with
  | nil => rfl
  | cons g gs ih =>
    have hc : reR c' (g :: gs) = reG c' g :: reR c' gs := rfl
    rw [hc]
    simp only [breakGroups]
    rw [breakGroup_re c' hN pri g (hr g List.mem_cons_self), ih (fun x hx => hr x (List.mem_cons_of_mem _ hx))]
    cases breakGroup pri g with
    | ok a =>
      cases breakGroups pri gs with
      | ok b => simp [reR]
      | raised e => rfl
      | oracleMismatch => rfl
      | outOfFuel => rfl
    | raised e => rfl
    | oracleMismatch => rfl
    | outOfFuel => rfl

theorem lookupScore_filter (sc : List (Cand × Rat)) (P : Cand → Bool) (c : Cand) (hc : P c = true) :
    lookupScore (sc.filter (fun cs => P cs.1)) c = lookupScore sc c := by
  unfold lookupScore
  induction sc with
  | nil => rfl
  | cons a rest ih =>
    by_cases ha : a.1 = c
    · have : P a.1 = true := by rw [ha]; exact hc
      simp [ha, hc]
    · by_cases hp : P a.1 = true
      · simp only [List.filter_cons, hp, if_true, List.find?_cons, ha, decide_false]
        exact ih
      · simp only [List.filter_cons, hp, List.find?_cons, ha, decide_false]
        exact ih

theorem filter_reSc (c' : List Cand) (sc : List (Cand × Rat)) (P : Cand → Bool) :
    (reSc c' sc).filter (fun cs => P cs.1) = reSc c' (sc.filter (fun cs => P cs.1)) := by
  unfold reSc
  rw [List.filter_map]
  have hk : (sc.filter (fun cs => P cs.1)).map (·.1) = (sc.map (·.1)).filter P := by
    rw [List.filter_map]; rfl
  rw [hk, reG_filter]
  have : ((fun cs : Cand × Rat => P cs.1) ∘ fun c => (c, lookupScore sc c)) = P := by funext c; rfl
  rw [this]
  apply List.map_congr_left; intro c hc
  rw [lookupScore_filter sc P c (List.mem_filter.mp hc).2]

theorem scoreToRanking_groups_good (c' : List Cand) (sc : List (Cand × Rat)) (hk : (sc.map (·.1)).Nodup)
    (hs : SubOf c' (sc.map (·.1))) (hl : Bool) : ∀ g ∈ scoreToRanking sc hl, GoodGroup c' g := by
  intro g hg
  unfold scoreToRanking at hg
  simp only [List.mem_map] at hg
  obtain ⟨v, _, rfl⟩ := hg
  have hsub : ((sc.filter (fun cs => decide (cs.2 = v))).map (·.1)).Sublist (sc.map (·.1)) :=
    (List.filter_sublist).map _
  exact ⟨hk.sublist hsub, fun x hx => hs x (hsub.subset hx)⟩

/-- a scored tiebreak on a profile whose scores are the re-listed scores of another -/
theorem tiebreakSet_re (c' : List Cand) (hN : c'.Nodup) (pri s : List Cand) (hs : GoodGroup c' s)
    (p p' : Profile) (tb : TB)
    (hb : bordaScores p' = (bordaScores p).map (reSc c'))
    (hf : firstPlaceVotes p' = (firstPlaceVotes p).map (reSc c'))
    (hk : p.cands.Nodup) (hsub : SubOf c' p.cands) :
    tiebreakSet pri (reG c' s) (some p') tb = (tiebreakSet pri s (some p) tb).map (reR c') := by
  have scored : ∀ (sc : List (Cand × Rat)), sc.map (·.1) = p.cands →
      breakGroups pri (scoreToRanking ((reSc c' sc).filter (fun cs => (reG c' s).contains cs.1))) =
        (breakGroups pri (scoreToRanking (sc.filter (fun cs => s.contains cs.1)))).map (reR c') := by
    intro sc hkeys
    have h1 : (reSc c' sc).filter (fun cs => (reG c' s).contains cs.1) =
        (reSc c' sc).filter (fun cs => s.contains cs.1) := by
      apply List.filter_congr; intro x _; exact contains_reG c' s hs.2 x.1
    rw [h1, filter_reSc]
    have hk' : ((sc.filter (fun cs => s.contains cs.1)).map (·.1)).Nodup := by
      have : ((sc.filter (fun cs => s.contains cs.1)).map (·.1)).Sublist (sc.map (·.1)) := (List.filter_sublist).map _
      rw [hkeys] at this; exact hk.sublist this
    have hs' : SubOf c' ((sc.filter (fun cs => s.contains cs.1)).map (·.1)) := by
      intro x hx
      have : ((sc.filter (fun cs => s.contains cs.1)).map (·.1)).Sublist (sc.map (·.1)) := (List.filter_sublist).map _
      rw [hkeys] at this; exact hsub x (this.subset hx)
    rw [scoreToRanking_re c' _ hk' hs']
    exact breakGroups_re c' hN pri _ (scoreToRanking_groups_good c' _ hk' hs' true)
  cases tb with
  | random =>
    simp only [tiebreakSet]
    rw [orderBy_re c' hN pri s hs]
    cases ho : orderBy pri s with
    | ok o =>
      simp only [Outcome.bind_ok, Outcome.pure_eq, Outcome.map_ok]
      rw [reR_singletons c' hN o (fun x hx => hs.2 x (orderBy_mem pri s o ho x hx))]
    | raised e => rfl
    | oracleMismatch => rfl
    | outOfFuel => rfl
  | borda =>
    simp only [tiebreakSet, if_true]
    rw [hb]
    cases hsc : bordaScores p with
    | ok sc =>
      simp only [Outcome.map_ok, Outcome.bind_ok]
      exact scored sc (scoreFromRankings_keys p _ sc hsc)
    | raised e => rfl
    | oracleMismatch => rfl
    | outOfFuel => rfl
  | firstPlace =>
    simp only [tiebreakSet, reduceCtorEq, if_false]
    rw [hf]
    cases hsc : firstPlaceVotes p with
    | ok sc =>
      simp only [Outcome.map_ok, Outcome.bind_ok]
      exact scored sc (scoreFromRankings_keys p _ sc hsc)
    | raised e => rfl
    | oracleMismatch => rfl
    | outOfFuel => rfl

def reER (c' : List Cand) (r : ElectResult) : ElectResult :=
  { elected := reR c' r.elected, remaining := reR c' r.remaining, tiebreak := r.tiebreak.map (reTb c') }

theorem electLoop_re (c' : List Cand) (hN : c'.Nodup) (pri : List Cand) (p p' : Profile) (tb : Option TB)
    (hb : bordaScores p' = (bordaScores p).map (reSc c'))
    (hf : firstPlaceVotes p' = (firstPlaceVotes p).map (reSc c'))
    (hk : p.cands.Nodup) (hsub : SubOf c' p.cands)
    (k : Nat) (acc r : Ranking) (hr : ∀ g ∈ r, GoodGroup c' g) :
    electLoop pri (some p') tb k (reR c' acc) (reR c' r) = (electLoop pri (some p) tb k acc r).map (reER c') := by
  induction r generalizing k acc with
  | nil =>
    simp only [reR, List.map_nil, electLoop]
    split
    · simp [reER, reR]
    · rfl
  | cons g rest ih =>
    have hc : reR c' (g :: rest) = reG c' g :: reR c' rest := rfl
    have hg := hr g List.mem_cons_self
    rw [hc]
    simp only [electLoop, reG_length c' g hN hg.1 hg.2]
    split
    · simp [reER, reR]
    · split
      · have : reG c' g :: reR c' acc = reR c' (g :: acc) := rfl
        rw [this, ih _ _ (fun x hx => hr x (List.mem_cons_of_mem _ hx))]
      · cases tb with
        | none => rfl
        | some t =>
          simp only []
          rw [tiebreakSet_re c' hN pri g hg p p' t hb hf hk hsub]
          cases tiebreakSet pri g (some p) t with
          | ok broken =>
            simp only [Outcome.map_ok, Outcome.bind_ok, Outcome.pure_eq, reER, reR, reTb, Option.map_some,
              List.map_append, List.map_reverse, List.map_take, List.map_drop]
          | raised e => rfl
          | oracleMismatch => rfl
          | outOfFuel => rfl

theorem length_flatten_reR (c' : List Cand) (hN : c'.Nodup) (r : Ranking) (hr : ∀ g ∈ r, GoodGroup c' g) :
    (reR c' r).flatten.length = r.flatten.length := by
  induction r with
  | nil => rfl
  | cons g rest ih =>
    have hc : reR c' (g :: rest) = reG c' g :: reR c' rest := rfl
    have hg := hr g List.mem_cons_self
    rw [hc, List.flatten_cons, List.flatten_cons, List.length_append, List.length_append,
      reG_length c' g hN hg.1 hg.2, ih (fun x hx => hr x (List.mem_cons_of_mem _ hx))]

theorem electFromRanking_re (c' : List Cand) (hN : c'.Nodup) (pri : List Cand) (p p' : Profile) (tb : Option TB)
    (hb : bordaScores p' = (bordaScores p).map (reSc c'))
    (hf : firstPlaceVotes p' = (firstPlaceVotes p).map (reSc c'))
    (hk : p.cands.Nodup) (hsub : SubOf c' p.cands)
    (m : Nat) (r : Ranking) (hr : ∀ g ∈ r, GoodGroup c' g) :
    electFromRanking pri (reR c' r) m (some p') tb = (electFromRanking pri r m (some p) tb).map (reER c') := by
  unfold electFromRanking
  rw [length_flatten_reR c' hN r hr]
  split
  · rfl
  · split
    · rfl
    · exact electLoop_re c' hN pri p p' tb hb hf hk hsub m [] r hr

end VK
