/-
  VK.Lemmas.Reach — the bounded frontier expansion `reach` computes exactly reachability
  (saturation by cardinality).
-/
import VK.Lemmas.Tiers

namespace VK
open Tiers

theorem iter_succ' {α} (f : α → α) (n : Nat) (x : α) : iter f (n + 1) x = f (iter f n x) := by
  induction n generalizing x with
  | zero => rfl
  | succ k ih => simp only [iter] at ih ⊢; exact ih (f x)

theorem iter_add {α} (f : α → α) (m n : Nat) (x : α) : iter f (m + n) x = iter f m (iter f n x) := by
  induction m with
  | zero => simp [iter]
  | succ k ih => rw [Nat.succ_add, iter_succ', iter_succ', ih]

section
variable (cands : List Cand) (E : Cand → Cand → Bool)

theorem mem_expand (seen : List Cand) (b : Cand) :
    b ∈ expand cands E seen ↔ b ∈ cands ∧ (b ∈ seen ∨ ∃ a ∈ seen, E a b = true) := by
  simp [expand, List.mem_filter, List.any_eq_true]

/-- the k-th frontier -/
def frontier (a : Cand) (k : Nat) : List Cand := iter (expand cands E) k (cands.filter (· = a))

theorem frontier_succ (a : Cand) (k : Nat) :
    frontier cands E a (k + 1) = expand cands E (frontier cands E a k) := iter_succ' _ _ _

theorem frontier_isFilter (a : Cand) (k : Nat) : ∃ p : Cand → Bool, frontier cands E a k = cands.filter p := by
  cases k with
  | zero => exact ⟨fun c => decide (c = a), rfl⟩
  | succ k => rw [frontier_succ]; exact ⟨_, rfl⟩

theorem frontier_subset (a : Cand) (k : Nat) : ∀ x ∈ frontier cands E a k, x ∈ cands := by
  obtain ⟨p, hp⟩ := frontier_isFilter cands E a k
  intro x hx; rw [hp] at hx; exact (List.mem_filter.1 hx).1

theorem frontier_sound (a : Cand) (k : Nat) :
    ∀ b ∈ frontier cands E a k, a ∈ cands ∧ R cands E a b := by
  induction k with
  | zero =>
    intro b hb
    simp only [frontier, iter, List.mem_filter, decide_eq_true_eq] at hb
    obtain ⟨h1, rfl⟩ := hb
    exact ⟨h1, .refl⟩
  | succ k ih =>
    intro b hb
    rw [frontier_succ, mem_expand] at hb
    obtain ⟨hbc, h | ⟨c, hc, hE⟩⟩ := hb
    · exact ih b h
    · obtain ⟨ha, hac⟩ := ih c hc
      exact ⟨ha, hac.tail ⟨frontier_subset cands E a k c hc, hbc, hE⟩⟩

theorem frontier_mono (a : Cand) (k : Nat) :
    ∀ x ∈ frontier cands E a k, x ∈ frontier cands E a (k + 1) := by
  intro x hx
  rw [frontier_succ, mem_expand]
  exact ⟨frontier_subset cands E a k x hx, Or.inl hx⟩

/-- membership-closed at step `k` -/
def Closed (a : Cand) (k : Nat) : Prop := ∀ x ∈ frontier cands E a (k + 1), x ∈ frontier cands E a k

theorem expand_congr (S T : List Cand) (h : ∀ x, x ∈ S ↔ x ∈ T) : expand cands E S = expand cands E T := by
  unfold expand
  apply List.filter_congr
  intro b _
  have h1 : S.contains b = T.contains b := by
    rw [Bool.eq_iff_iff]; simp [h b]
  have h2 : S.any (fun a => E a b) = T.any (fun a => E a b) := by
    rw [Bool.eq_iff_iff]; simp only [List.any_eq_true]
    exact ⟨fun ⟨x, hx, he⟩ => ⟨x, (h x).1 hx, he⟩, fun ⟨x, hx, he⟩ => ⟨x, (h x).2 hx, he⟩⟩
  rw [h1, h2]

theorem closed_stays (a : Cand) (k : Nat) (hc : Closed cands E a k) :
    ∀ j, ∀ x, x ∈ frontier cands E a (k + j) ↔ x ∈ frontier cands E a k := by
  intro j
  induction j with
  | zero => intro x; rfl
  | succ j ih =>
    intro x
    have : frontier cands E a (k + (j + 1)) = expand cands E (frontier cands E a (k + j)) := by
      rw [← Nat.add_assoc, frontier_succ]
    rw [this, expand_congr cands E _ _ ih, ← frontier_succ]
    exact ⟨hc x, frontier_mono cands E a k x⟩

theorem frontier_grows (a : Cand) (k : Nat) (hnc : ¬ Closed cands E a k) :
    (frontier cands E a k).length < (frontier cands E a (k + 1)).length := by
  unfold Closed at hnc
  push Not at hnc
  obtain ⟨x, hx1, hx0⟩ := hnc
  obtain ⟨p, hp⟩ := frontier_isFilter cands E a k
  have hxc : x ∈ cands := frontier_subset cands E a (k + 1) x hx1
  rw [frontier_succ] at hx1 ⊢
  rw [hp] at hx0 hx1 ⊢
  unfold expand at hx1 ⊢
  apply filter_length_lt (a := x) _ hxc
  · exact (List.mem_filter.1 hx1).2
  · by_contra hpx
    have : p x = true := by simpa using hpx
    exact hx0 (List.mem_filter.2 ⟨hxc, this⟩)
  · intro c hcc hc
    have : c ∈ cands.filter p := List.mem_filter.2 ⟨hcc, hc⟩
    simp [this]


/-- some step `j ≤ k` is closed, or the frontier has grown `k` times -/
theorem closed_or_long (a : Cand) (k : Nat) :
    (∃ j, j ≤ k ∧ Closed cands E a j) ∨
      (frontier cands E a 0).length + k ≤ (frontier cands E a k).length := by
  induction k with
  | zero => right; simp
  | succ k ih =>
    rcases ih with ⟨j, hj, hc⟩ | hlen
    · exact Or.inl ⟨j, by omega, hc⟩
    · by_cases hc : Closed cands E a k
      · exact Or.inl ⟨k, by omega, hc⟩
      · right
        have := frontier_grows cands E a k hc
        omega

theorem frontier_length_le (a : Cand) (k : Nat) : (frontier cands E a k).length ≤ cands.length := by
  obtain ⟨p, hp⟩ := frontier_isFilter cands E a k
  rw [hp]; exact List.length_filter_le _ _

/-- after `|cands|` rounds the frontier is closed under the edge relation -/
theorem frontier_final_closed (a : Cand) (ha : a ∈ cands) :
    ∀ x ∈ expand cands E (frontier cands E a cands.length), x ∈ frontier cands E a cands.length := by
  have h0 : 1 ≤ (frontier cands E a 0).length := by
    have : a ∈ frontier cands E a 0 := by
      simp [frontier, iter, ha]
    exact List.length_pos_of_mem this
  rcases closed_or_long cands E a cands.length with ⟨j, hj, hc⟩ | hlen
  · intro x hx
    obtain ⟨d, hd⟩ : ∃ d, cands.length = j + d := ⟨cands.length - j, by omega⟩
    have hst := closed_stays cands E a j hc
    rw [hd] at hx ⊢
    rw [← frontier_succ] at hx
    have : x ∈ frontier cands E a (j + (d + 1)) := by rwa [← Nat.add_assoc]
    exact (hst d x).2 ((hst (d + 1) x).1 this)
  · have := frontier_length_le cands E a cands.length
    omega

/-- **`reach` computes exactly reachability** inside the candidate list. -/
theorem mem_reach (a b : Cand) : b ∈ reach cands E a ↔ a ∈ cands ∧ R cands E a b := by
  show b ∈ frontier cands E a cands.length ↔ _
  constructor
  · exact frontier_sound cands E a cands.length b
  · rintro ⟨ha, hab⟩
    have hclosed := frontier_final_closed cands E a ha
    have hstart : a ∈ frontier cands E a cands.length := by
      have h0 : a ∈ frontier cands E a 0 := by simp [frontier, iter, ha]
      have : ∀ k, a ∈ frontier cands E a k := by
        intro k; induction k with
        | zero => exact h0
        | succ k ih => exact frontier_mono cands E a k a ih
      exact this _
    induction hab with
    | refl => exact hstart
    | @tail c b' _ hcb ih =>
      apply hclosed
      rw [mem_expand]
      exact ⟨hcb.2.1, Or.inr ⟨c, ih, hcb.2.2⟩⟩

open Classical in
/-- as lists: `reach` is the candidate list filtered by reachability -/
theorem reach_eq_filter (a : Cand) (ha : a ∈ cands) :
    reach cands E a = cands.filter (fun b => decide (R cands E a b)) := by
  obtain ⟨p, hp⟩ := frontier_isFilter cands E a cands.length
  show frontier cands E a cands.length = _
  rw [hp]
  apply List.filter_congr
  intro b hb
  have h := mem_reach cands E a b
  have h' : b ∈ frontier cands E a cands.length ↔ a ∈ cands ∧ R cands E a b := h
  rw [hp, List.mem_filter] at h'
  rw [Bool.eq_iff_iff]
  simp only [decide_eq_true_eq]
  constructor
  · intro hpb; exact (h'.1 ⟨hb, hpb⟩).2
  · intro hr; exact (h'.2 ⟨ha, hr⟩).2

theorem reachCount_eq_rc (a : Cand) (ha : a ∈ cands) : reachCount cands E a = rc cands E a := by
  unfold reachCount rc
  rw [reach_eq_filter cands E a ha]

end
end VK
