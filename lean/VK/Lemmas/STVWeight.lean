/-
  VK.Lemmas.STVWeight — round accounting of the STV count: how the *active* weight (weight of the
  ballots that still rank a hopeful candidate — the total of the profile the code holds) changes in
  one step.
-/
import VK.Model.STV
import VK.Lemmas.Sum
import Mathlib.Tactic.FieldSimp
import Mathlib.Tactic.Linarith
import Mathlib.Tactic.Ring

namespace VK

/-- weight of the ballots selected by `p` -/
def wsum (p : PBallot → Bool) (bs : List PBallot) : Rat := rsum ((bs.filter p).map (·.2))

/-- a ballot is active when it still ranks a hopeful candidate -/
def isActive (hopeful : List Cand) (b : PBallot) : Bool := (topOf hopeful b.1).isSome

/-- total weight of the current profile -/
def active (bs : List PBallot) (hopeful : List Cand) : Rat := wsum (isActive hopeful) bs

theorem wsum_nil (p : PBallot → Bool) : wsum p [] = 0 := rfl

theorem wsum_cons (p : PBallot → Bool) (b : PBallot) (bs : List PBallot) :
    wsum p (b :: bs) = (if p b then b.2 else 0) + wsum p bs := by
  unfold wsum
  by_cases h : p b <;> simp [h, List.filter_cons]

theorem tally_eq_wsum (bs : List PBallot) (hopeful : List Cand) (c : Cand) :
    tally bs hopeful c = wsum (fun b => decide (topOf hopeful b.1 = some c)) bs := rfl

/-- scaling the ballots led by `w` by `f` changes the active weight by `(f - 1) · tally w` -/
theorem active_scale_led (bs : List PBallot) (hopeful : List Cand) (w : Cand) (f : Rat) :
    active (bs.map (fun b => if topOf hopeful b.1 = some w then (b.1, b.2 * f) else b)) hopeful =
      active bs hopeful + (f - 1) * tally bs hopeful w := by
  rw [tally_eq_wsum]
  unfold active
  induction bs with
  | nil => simp [wsum_nil]
  | cons b rest ih =>
    simp only [List.map_cons, wsum_cons, ih]
    by_cases hb : topOf hopeful b.1 = some w
    · have hact : isActive hopeful (b.1, b.2 * f) = true := by simp [isActive, hb]
      have hact' : isActive hopeful b = true := by simp [isActive, hb]
      simp only [hb, if_true, hact, hact', decide_true]
      ring
    · simp only [hb, if_false, decide_false]
      by_cases ha : isActive hopeful b <;> simp [ha] <;> ring

/-- the tally of `w` after scaling its own ballots -/
theorem tally_scale_led (bs : List PBallot) (hopeful : List Cand) (w : Cand) (f : Rat) :
    tally (bs.map (fun b => if topOf hopeful b.1 = some w then (b.1, b.2 * f) else b)) hopeful w =
      f * tally bs hopeful w := by
  rw [tally_eq_wsum, tally_eq_wsum]
  induction bs with
  | nil => simp [wsum_nil]
  | cons b rest ih =>
    simp only [List.map_cons, wsum_cons, ih]
    by_cases hb : topOf hopeful b.1 = some w
    · simp only [hb, if_true, decide_true]; ring
    · simp [hb]

/-- **One fractional transfer consumes exactly the threshold**: the winner's `t` votes become
`t − q`, every other ballot is untouched. -/
theorem applyTransfer_fractional_active (cfg : STVCfg) (hopeful : List Cand) (q : Int)
    (sample : List (List Cand × Nat)) (bs bs' : List PBallot) (w : Cand) (hf : cfg.transfer = .fractional)
    (h : applyTransfer cfg hopeful q sample bs w = .ok bs') :
    active bs' hopeful = active bs hopeful - (q : Rat) := by
  unfold applyTransfer at h
  simp only [hf] at h
  split at h
  · cases h
  · rename_i ht
    injection h with h
    subst h
    rw [active_scale_led]
    field_simp
    ring

/-- the full-weight transfer of SequentialRCV leaves every weight as it is -/
theorem applyTransfer_full (cfg : STVCfg) (hopeful : List Cand) (q : Int)
    (sample : List (List Cand × Nat)) (bs bs' : List PBallot) (w : Cand) (hf : cfg.transfer = .full)
    (h : applyTransfer cfg hopeful q sample bs w = .ok bs') : bs' = bs := by
  unfold applyTransfer at h
  simp only [hf] at h
  injection h with h; exact h.symm

/-- **All surplus transfers of a round** (fractional rule): the active weight drops by the
threshold once per elected candidate, whatever the order of the transfers. -/
theorem applyTransfers_fractional_active (cfg : STVCfg) (hopeful : List Cand) (q : Int)
    (sample : Cand → List (List Cand × Nat)) (ws : List Cand) (bs bs' : List PBallot)
    (hf : cfg.transfer = .fractional) (h : applyTransfers cfg hopeful q sample ws bs = .ok bs') :
    active bs' hopeful = active bs hopeful - (q : Rat) * (ws.length : Rat) := by
  induction ws generalizing bs with
  | nil =>
    simp only [applyTransfers] at h
    injection h with h; subst h; simp
  | cons w rest ih =>
    simp only [applyTransfers] at h
    cases h1 : applyTransfer cfg hopeful q (sample w) bs w with
    | ok bs1 =>
      simp only [h1, bind, Outcome.bind] at h
      rw [ih bs1 h, applyTransfer_fractional_active cfg hopeful q _ bs bs1 w hf h1]
      push_cast [List.length_cons]; ring
    | raised e => simp [h1, bind, Outcome.bind] at h
    | oracleMismatch => simp [h1, bind, Outcome.bind] at h
    | outOfFuel => simp [h1, bind, Outcome.bind] at h

theorem topOf_some_of_subset (hop hop' : List Cand) (r : List Cand) (hsub : ∀ c ∈ hop', c ∈ hop)
    (h : (topOf hop' r).isSome) : (topOf hop r).isSome := by
  unfold topOf at h ⊢
  rw [List.find?_isSome] at h ⊢
  obtain ⟨x, hx, hc⟩ := h
  exact ⟨x, hx, by simpa using hsub x (by simpa using hc)⟩

/-- weight of the ballots that were active before candidates left and rank nobody hopeful now -/
def exhausted (bs : List PBallot) (hop hop' : List Cand) : Rat :=
  wsum (fun b => isActive hop b && !isActive hop' b) bs

/-- **Shrinking the hopeful set loses exactly the exhausted ballots.** -/
theorem active_shrink (bs : List PBallot) (hop hop' : List Cand) (hsub : ∀ c ∈ hop', c ∈ hop) :
    active bs hop = active bs hop' + exhausted bs hop hop' := by
  unfold active exhausted
  induction bs with
  | nil => simp [wsum_nil]
  | cons b rest ih =>
    simp only [wsum_cons, ih]
    by_cases h' : isActive hop' b
    · have h : isActive hop b = true := topOf_some_of_subset hop hop' b.1 hsub h'
      simp [h, h']; ring
    · by_cases h : isActive hop b <;> simp [h, h'] <;> ring

theorem wsum_nonneg (p : PBallot → Bool) (bs : List PBallot) (h : ∀ b ∈ bs, 0 ≤ b.2) : 0 ≤ wsum p bs := by
  unfold wsum
  apply rsum_nonneg
  intro x hx
  obtain ⟨b, hb, rfl⟩ := List.mem_map.1 hx
  exact h b (List.mem_filter.1 hb).1

end VK
