/-
  VK.Lemmas.ReorderSTV — the STV count with its hopeful candidates listed in another order: tallies, held profile,
  transfers (fractional and full-weight transfers of distinct winners commute), the choice of winners and of the
  loser, one step.
-/
import VK.Lemmas.ReorderScore
import VK.Lemmas.PSC
namespace VK

def reCS (c' : List Cand) (S : CState) : CState :=
  { bs := S.bs, hopeful := reG c' S.hopeful, nElected := S.nElected }

theorem topOf_re (c' h : List Cand) (hs : SubOf c' h) (r : List Cand) : topOf (reG c' h) r = topOf h r := by
  unfold topOf
  congr 1
  funext c; exact contains_reG c' h hs c

theorem tally_re (c' h : List Cand) (hs : SubOf c' h) (bs : List PBallot) (c : Cand) :
    tally bs (reG c' h) c = tally bs h c := by
  unfold tally
  simp only [topOf_re c' h hs]

theorem tallies_re (c' h : List Cand) (hs : SubOf c' h) (bs : List PBallot) :
    tallies bs (reG c' h) = reSc c' (tallies bs h) := by
  unfold reSc
  rw [tallies_keys]
  unfold tallies
  apply List.map_congr_left; intro c hc
  have hc' : c ∈ h := (mem_reG_sub c' h hs c).mp hc
  rw [tally_re c' h hs, lookupScore_map h (fun c => tally bs h c) c hc']

theorem currentProfile_re (c' : List Cand) (S : CState) (hs : SubOf c' S.hopeful) :
    currentProfile (reCS c' S) = withCands (currentProfile S) (reG c' S.hopeful) := by
  unfold currentProfile reCS withCands currentBallots
  simp only [contains_reG c' S.hopeful hs]

theorem contRanking_re (c' h : List Cand) (hs : SubOf c' h) (w : Cand) (r : List Cand) :
    contRanking (reG c' h) w r = contRanking h w r := by
  unfold contRanking
  simp only [contains_reG c' h hs]

theorem randomAssign_re (c' h : List Cand) (hs : SubOf c' h) (w : Cand) (bs : List PBallot)
    (need : List (List Cand × Nat)) : randomAssign (reG c' h) w bs need = randomAssign h w bs need := by
  induction bs generalizing need with
  | nil => rfl
  | cons b rest ih => simp only [randomAssign, topOf_re c' h hs, contRanking_re c' h hs, ih]

theorem applyTransfer_re (c' h : List Cand) (hs : SubOf c' h) (cfg : STVCfg) (q : Int)
    (sample : List (List Cand × Nat)) (bs : List PBallot) (w : Cand) :
    applyTransfer cfg (reG c' h) q sample bs w = applyTransfer cfg h q sample bs w := by
  unfold applyTransfer
  simp only [tally_re c' h hs, topOf_re c' h hs, contRanking_re c' h hs, randomAssign_re c' h hs]

theorem applyTransfers_re (c' h : List Cand) (hs : SubOf c' h) (cfg : STVCfg) (q : Int)
    (sample : Cand → List (List Cand × Nat)) (ws : List Cand) (bs : List PBallot) :
    applyTransfers cfg (reG c' h) q sample ws bs = applyTransfers cfg h q sample ws bs := by
  induction ws generalizing bs with
  | nil => rfl
  | cons w rest ih => simp only [applyTransfers, applyTransfer_re c' h hs, ih]

/-! ### transfers of distinct winners commute (fractional and full-weight) -/

theorem scaleLed_comm (h : List Cand) (w w' : Cand) (hne : w' ≠ w) (x y : Rat) (bs : List PBallot) :
    scaleLed h w' y (scaleLed h w x bs) = scaleLed h w x (scaleLed h w' y bs) := by
  unfold scaleLed
  rw [List.map_map, List.map_map]
  apply List.map_congr_left; intro b _
  simp only [Function.comp_def]
  by_cases hb : topOf h b.1 = some w
  · have hww : ¬ w = w' := fun e => hne e.symm
    simp [hb, hww]
  · by_cases hb' : topOf h b.1 = some w'
    · simp [hb', hne]
    · simp [hb, hb']

theorem applyTransfer_fractional (cfg : STVCfg) (hf : cfg.transfer = .fractional) (h : List Cand) (q : Int)
    (sample : List (List Cand × Nat)) (bs : List PBallot) (w : Cand) :
    applyTransfer cfg h q sample bs w =
      if tally bs h w = 0 then .raised .zeroDiv
      else .ok (scaleLed h w ((tally bs h w - q) / tally bs h w) bs) := by
  unfold applyTransfer scaleLed
  simp only [hf]

theorem applyTransfer_swap (cfg : STVCfg) (hnr : cfg.transfer ≠ .random) (h : List Cand) (q : Int)
    (sample : Cand → List (List Cand × Nat)) (x y : Cand) (bs : List PBallot) :
    (applyTransfer cfg h q (sample x) bs x >>= fun b1 => applyTransfer cfg h q (sample y) b1 y) =
    (applyTransfer cfg h q (sample y) bs y >>= fun b1 => applyTransfer cfg h q (sample x) b1 x) := by
  by_cases hxy : x = y
  · subst hxy; rfl
  · cases hf : cfg.transfer with
    | random => exact absurd hf hnr
    | full => simp only [applyTransfer, hf, Outcome.bind_ok]
    | fractional =>
      simp only [applyTransfer_fractional cfg hf]
      by_cases hx : tally bs h x = 0
      · by_cases hy : tally bs h y = 0
        · simp [hx, hy]
        · simp only [hx, if_true, Outcome.bind_raised, hy, if_false, Outcome.bind_ok]
          rw [tally_scaleLed_other h y x _ _ hxy, hx]; simp
      · by_cases hy : tally bs h y = 0
        · simp only [hx, if_false, Outcome.bind_ok, hy, if_true, Outcome.bind_raised]
          rw [tally_scaleLed_other h x y _ _ (Ne.symm hxy), hy]; simp
        · simp only [hx, hy, if_false, Outcome.bind_ok]
          rw [tally_scaleLed_other h x y _ _ (Ne.symm hxy), tally_scaleLed_other h y x _ _ hxy]
          simp only [hx, hy, if_false]
          rw [scaleLed_comm h x y (Ne.symm hxy)]

theorem applyTransfers_perm (cfg : STVCfg) (hnr : cfg.transfer ≠ .random) (h : List Cand) (q : Int)
    (sample : Cand → List (List Cand × Nat)) (ws ws' : List Cand) (hp : ws.Perm ws') (bs : List PBallot) :
    applyTransfers cfg h q sample ws bs = applyTransfers cfg h q sample ws' bs := by
  induction hp generalizing bs with
  | nil => rfl
  | cons x _ ih =>
    simp only [applyTransfers]
    cases applyTransfer cfg h q (sample x) bs x with
    | ok b1 => simp only [Outcome.bind_ok]; exact ih b1
    | raised e => rfl
    | oracleMismatch => rfl
    | outOfFuel => rfl
  | swap x y l =>
    simp only [applyTransfers]
    have := applyTransfer_swap cfg hnr h q sample y x bs
    have assoc : ∀ (a b : Cand),
        (applyTransfer cfg h q (sample a) bs a >>= fun b1 =>
          applyTransfer cfg h q (sample b) b1 b >>= fun b2 => applyTransfers cfg h q sample l b2) =
        ((applyTransfer cfg h q (sample a) bs a >>= fun b1 => applyTransfer cfg h q (sample b) b1 b) >>=
          fun b2 => applyTransfers cfg h q sample l b2) := by
      intro a b
      cases applyTransfer cfg h q (sample a) bs a <;> rfl
    rw [assoc y x, assoc x y, this]
  | trans _ _ ih1 ih2 => exact (ih1 bs).trans (ih2 bs)

/-! ### the choice of winners and of the loser -/

structure ReInv (c' : List Cand) (S : CState) (prev : RoundState) : Prop where
  nodup : S.hopeful.Nodup
  sub : SubOf c' S.hopeful
  keys : prev.scores.map (·.1) = S.hopeful
  rem : prev.remaining = scoreToRanking prev.scores

theorem ReInv.groups {c' : List Cand} {S : CState} {prev : RoundState} (h : ReInv c' S prev) :
    ∀ g ∈ prev.remaining, GoodGroup c' g := by
  rw [h.rem]
  exact scoreToRanking_groups_good c' prev.scores (by rw [h.keys]; exact h.nodup) (by rw [h.keys]; exact h.sub) true

theorem group_same_score (sc : List (Cand × Rat)) (hk : (sc.map (·.1)).Nodup) (g : List Cand)
    (hg : g ∈ scoreToRanking sc true) : ∃ v, ∀ c ∈ g, lookupScore sc c = v := by
  unfold scoreToRanking at hg
  simp only [List.mem_map] at hg
  obtain ⟨v, _, rfl⟩ := hg
  refine ⟨v, fun c hc => ?_⟩
  obtain ⟨cs, hcs, rfl⟩ := List.mem_map.mp hc
  have hm := List.mem_filter.mp hcs
  rw [lookupScore_of_mem sc hk cs.1 cs.2 hm.1]
  simpa using hm.2

theorem takeWhile_congr_mem {α} (p q : α → Bool) (l : List α) (h : ∀ x ∈ l, p x = q x) :
    l.takeWhile p = l.takeWhile q := by
  induction l with
  | nil => rfl
  | cons a rest ih =>
    simp only [List.takeWhile_cons, h a List.mem_cons_self]
    rw [ih (fun x hx => h x (List.mem_cons_of_mem _ hx))]

def reChoice (c' : List Cand) (x : Ranking × List (List Cand × Ranking)) : Ranking × List (List Cand × Ranking) :=
  (reR c' x.1, x.2.map (reTb c'))

theorem map_reSc_of_keys (c' : List Cand) (P : Cand → Bool) (o : Outcome (List (Cand × Rat)))
    (hk : ∀ sc, o = .ok sc → ∀ x ∈ sc.map (·.1), P x = true) :
    o.map (reSc (c'.filter P)) = o.map (reSc c') := by
  cases o with
  | ok sc => simp only [Outcome.map_ok]; rw [reSc_restrict c' P sc (hk sc rfl)]
  | raised e => rfl
  | oracleMismatch => rfl
  | outOfFuel => rfl

theorem electChoice_re (c' : List Cand) (hN : c'.Nodup) (cfg : STVCfg) (q : Int) (ω : STVOracle) (rnd : Nat)
    (S : CState) (prev : RoundState) (hI : ReInv c' S prev) :
    electChoice cfg q ω rnd (reCS c' S) (reRS c' prev) = (electChoice cfg q ω rnd S prev).map (reChoice c') := by
  have hkn : (prev.scores.map (·.1)).Nodup := by rw [hI.keys]; exact hI.nodup
  have hks : SubOf c' (prev.scores.map (·.1)) := by rw [hI.keys]; exact hI.sub
  unfold electChoice
  split
  · simp only [Outcome.pure_eq, Outcome.map_ok, reChoice, List.map_nil]
    congr 2
    have h1 : (reRS c' prev).remaining = reR c' prev.remaining := rfl
    have h2 : (reRS c' prev).scores = reSc c' prev.scores := rfl
    rw [h1, h2]
    unfold reR
    rw [List.takeWhile_map]
    congr 1
    apply takeWhile_congr_mem
    intro g hg
    have hgood := hI.groups g hg
    obtain ⟨v, hv⟩ := group_same_score prev.scores hkn g (by rw [← hI.rem]; exact hg)
    simp only [Function.comp_def]
    cases hg0 : g with
    | nil => simp [reG_nil]
    | cons a t =>
      cases hr : reG c' (a :: t) with
      | nil =>
        have : a ∈ reG c' (a :: t) := (mem_reG_sub c' _ (hg0 ▸ hgood.2) a).mpr List.mem_cons_self
        rw [hr] at this; cases this
      | cons a' t' =>
        have ha' : a' ∈ a :: t := by
          have : a' ∈ reG c' (a :: t) := by rw [hr]; exact List.mem_cons_self
          exact (mem_reG c' _ a').mp this |>.2
        have hk' : a' ∈ prev.scores.map (·.1) := by
          rw [hI.keys]
          have := (scoreToRanking_perm prev.scores).subset
            (List.mem_flatten.mpr ⟨g, by rw [← hI.rem]; exact hg, by rw [hg0]; exact ha'⟩)
          rw [hI.keys] at this; exact this
        simp only []
        rw [lookupScore_reSc c' prev.scores a' hk' (hks a' hk'), hv a' (hg0 ▸ ha'), hv a (hg0 ▸ List.mem_cons_self)]
  · have h1 : (reRS c' prev).remaining = reR c' prev.remaining := rfl
    rw [h1, currentProfile_re c' S hI.sub]
    have hperm : (reG c' S.hopeful).Perm (currentProfile S).cands := reG_perm c' S.hopeful hN hI.nodup hI.sub
    have hb : bordaScores (withCands (currentProfile S) (reG c' S.hopeful)) =
        (bordaScores (currentProfile S)).map (reSc c') := by
      rw [bordaScores_re _ _ hperm]
      exact map_reSc_of_keys c' (fun x => S.hopeful.contains x) _ (fun sc hsc x hx => by
        rw [scoreFromRankings_keys _ _ sc hsc] at hx
        have hx' : x ∈ S.hopeful := hx
        simpa using hx')
    have hf : firstPlaceVotes (withCands (currentProfile S) (reG c' S.hopeful)) =
        (firstPlaceVotes (currentProfile S)).map (reSc c') := by
      rw [firstPlaceVotes_re _ _ hperm]
      exact map_reSc_of_keys c' (fun x => S.hopeful.contains x) _ (fun sc hsc x hx => by
        rw [scoreFromRankings_keys _ _ sc hsc] at hx
        have hx' : x ∈ S.hopeful := hx
        simpa using hx')
    rw [electFromRanking_re c' hN (ω.pri rnd) (currentProfile S) _ cfg.tiebreak hb hf hI.nodup hI.sub 1
      prev.remaining hI.groups]
    cases electFromRanking (ω.pri rnd) prev.remaining 1 (some (currentProfile S)) cfg.tiebreak with
    | ok r =>
      simp only [Outcome.map_ok, Outcome.bind_ok, Outcome.pure_eq, reChoice, reER]
      congr 2
      cases r.tiebreak <;> rfl
    | raised e => rfl
    | oracleMismatch => rfl
    | outOfFuel => rfl

theorem reR_of_singletons (c' : List Cand) (hN : c'.Nodup) (t : Ranking) (h1 : ∀ x ∈ t, x.length = 1)
    (h2 : ∀ c ∈ t.flatten, c ∈ c') : reR c' t = t := by
  unfold reR
  conv_rhs => rw [← List.map_id t]
  apply List.map_congr_left; intro g hg
  have hl := h1 g hg
  match g, hl with
  | [c], _ =>
    exact reG_singleton c' hN c (h2 c (List.mem_flatten.mpr ⟨[c], hg, List.mem_singleton_self c⟩))

def reLoser (c' : List Cand) (x : Cand × List (List Cand × Ranking)) : Cand × List (List Cand × Ranking) :=
  (x.1, x.2.map (reTb c'))

theorem loserChoice_re (c' : List Cand) (hN : c'.Nodup) (init : Profile) (hperm : c'.Perm init.cands)
    (hNi : init.cands.Nodup) (ω : STVOracle) (rnd : Nat) (lowest : List Cand) (hg : GoodGroup c' lowest) :
    loserChoice (withCands init c') ω rnd (reG c' lowest) = (loserChoice init ω rnd lowest).map (reLoser c') := by
  have hsub : SubOf c' init.cands := fun x hx => hperm.symm.subset hx
  unfold loserChoice
  rw [reG_length c' lowest hN hg.1 hg.2]
  split
  · rw [tiebreakSet_re c' hN (ω.pri rnd) lowest hg init (withCands init c') .firstPlace
      (bordaScores_re init c' hperm) (firstPlaceVotes_re init c' hperm) hNi hsub]
    cases ht : tiebreakSet (ω.pri rnd) lowest (some init) .firstPlace with
    | ok t =>
      have hspec := tiebreakSet_spec (ω.pri rnd) lowest (some init) .firstPlace t hg.1
        (fun p hp => by
          injection hp with hp; subst hp
          exact ⟨hNi, fun c hc => hperm.subset (hg.2 c hc)⟩) ht
      have hre : reR c' t = t := reR_of_singletons c' hN t hspec.2
        (fun c hc => hg.2 c (hspec.1.subset hc))
      simp only [Outcome.map_ok, Outcome.bind_ok, hre]
      cases hl : t.getLast? with
      | none => rfl
      | some g =>
        match g with
        | [] => rfl
        | [c] => simp only [Outcome.pure_eq, Outcome.map_ok, reLoser, List.map_cons, List.map_nil, reTb, hre]
        | _ :: _ :: _ => rfl
    | raised e => rfl
    | oracleMismatch => rfl
    | outOfFuel => rfl
  · rename_i hlen
    match lowest, hg, hlen with
    | [], _, _ => simp [reG_nil, Outcome.map]
    | [c], hg, _ =>
      rw [reG_singleton c' hN c (hg.2 c (List.mem_singleton_self c))]
      rfl
    | _ :: _ :: _, _, hlen => simp at hlen

/-! ### one step -/

def reStep (c' : List Cand) (x : CState × RoundState) : CState × RoundState := (reCS c' x.1, reRS c' x.2)

theorem above_isEmpty_re (c' : List Cand) (sc : List (Cand × Rat)) (hk : (sc.map (·.1)).Nodup)
    (hs : SubOf c' (sc.map (·.1))) (q : Int) :
    ((reSc c' sc).filter (fun cs => decide ((q : Rat) ≤ cs.2))).isEmpty =
      (sc.filter (fun cs => decide ((q : Rat) ≤ cs.2))).isEmpty := by
  rw [Bool.eq_iff_iff, List.isEmpty_iff, List.isEmpty_iff, List.filter_eq_nil_iff, List.filter_eq_nil_iff]
  exact ⟨fun h cs hcs => h cs ((mem_reSc c' sc hk hs cs).mpr hcs), fun h cs hcs => h cs ((mem_reSc c' sc hk hs cs).mp hcs)⟩

theorem flatten_reR_perm (c' : List Cand) (hN : c'.Nodup) (r : Ranking) (hr : ∀ g ∈ r, GoodGroup c' g) :
    (reR c' r).flatten.Perm r.flatten := by
  induction r with
  | nil => exact List.Perm.refl _
  | cons g rest ih =>
    have hc : reR c' (g :: rest) = reG c' g :: reR c' rest := rfl
    have hg := hr g List.mem_cons_self
    rw [hc, List.flatten_cons, List.flatten_cons]
    exact (reG_perm c' g hN hg.1 hg.2).append (ih (fun x hx => hr x (List.mem_cons_of_mem _ hx)))

theorem stvStep_re (c' : List Cand) (hN : c'.Nodup) (cfg : STVCfg) (hnr : cfg.transfer ≠ .random)
    (init : Profile) (hperm : c'.Perm init.cands) (hNi : init.cands.Nodup) (q : Int) (ω : STVOracle) (rnd : Nat)
    (S : CState) (prev : RoundState) (hI : ReInv c' S prev) :
    stvStep cfg (withCands init c') q ω rnd (reCS c' S) (reRS c' prev) =
      (stvStep cfg init q ω rnd S prev).map (reStep c') := by
  have hkn : (prev.scores.map (·.1)).Nodup := by rw [hI.keys]; exact hI.nodup
  have hks : SubOf c' (prev.scores.map (·.1)) := by rw [hI.keys]; exact hI.sub
  have hremperm : prev.remaining.flatten.Perm S.hopeful := by
    rw [hI.rem, ← hI.keys]; exact scoreToRanking_perm prev.scores
  unfold stvStep
  have h2 : (reRS c' prev).scores = reSc c' prev.scores := rfl
  have hh : (reCS c' S).hopeful = reG c' S.hopeful := rfl
  have hb : (reCS c' S).bs = S.bs := rfl
  have hn : (reCS c' S).nElected = S.nElected := rfl
  have hr : (reRS c' prev).remaining = reR c' prev.remaining := rfl
  simp only [h2, above_isEmpty_re c' prev.scores hkn hks]
  split
  · -- elect
    rw [electChoice_re c' hN cfg q ω rnd S prev hI]
    cases hec : electChoice cfg q ω rnd S prev with
    | ok x =>
      obtain ⟨eg, tbs⟩ := x
      simp only [Outcome.map_ok, Outcome.bind_ok, reChoice]
      have hspec := electChoice_spec cfg q ω rnd S prev eg tbs hI.nodup hremperm hec
      have hgood : ∀ g ∈ eg, GoodGroup c' g := fun g hg =>
        ⟨(List.nodup_flatten.1 hspec.1).1 g hg,
         fun x hx => hI.sub x (hspec.2 x (List.mem_flatten.mpr ⟨g, hg, hx⟩))⟩
      have hwperm := flatten_reR_perm c' hN eg hgood
      rw [hh, hb, applyTransfers_re c' S.hopeful hI.sub,
        applyTransfers_perm cfg hnr S.hopeful q (ω.sample rnd) _ _ hwperm]
      cases applyTransfers cfg S.hopeful q (ω.sample rnd) eg.flatten S.bs with
      | ok bs' =>
        simp only [Outcome.map_ok, Outcome.bind_ok, Outcome.pure_eq, reStep]
        have hcont : ∀ x, (reR c' eg).flatten.contains x = eg.flatten.contains x := by
          intro x; rw [Bool.eq_iff_iff]; simp only [List.contains_iff_mem]; exact hwperm.mem_iff
        have hhop : (reG c' S.hopeful).filter (fun c => !(reR c' eg).flatten.contains c) =
            reG c' (S.hopeful.filter (fun c => !eg.flatten.contains c)) := by
          rw [reG_filter]; apply List.filter_congr; intro x _; rw [hcont]
        have hsub' : SubOf c' (S.hopeful.filter (fun c => !eg.flatten.contains c)) :=
          fun x hx => hI.sub x (List.mem_filter.mp hx).1
        have hnd' : (S.hopeful.filter (fun c => !eg.flatten.contains c)).Nodup := hI.nodup.filter _
        rw [hhop, tallies_re c' _ hsub',
          scoreToRanking_re c' _ (by rw [tallies_keys]; exact hnd') (by rw [tallies_keys]; exact hsub'),
          hn, hwperm.length_eq]
        rfl
      | raised e => rfl
      | oracleMismatch => rfl
      | outOfFuel => rfl
    | raised e => rfl
    | oracleMismatch => rfl
    | outOfFuel => rfl
  · rw [hh, hn, reG_length c' S.hopeful hN hI.nodup hI.sub]
    split
    · simp only [Outcome.pure_eq, Outcome.map_ok, reStep, reCS, reRS, reR, reSc, reG_nil, List.map_nil]
    · rw [hr]
      have : (reR c' prev.remaining).getLast? = prev.remaining.getLast?.map (reG c') := by
        unfold reR; rw [List.getLast?_map]
      rw [this]
      cases hl : prev.remaining.getLast? with
      | none => rfl
      | some lowest =>
        simp only [Option.map_some]
        have hlg : GoodGroup c' lowest := hI.groups lowest (getLast?_mem _ _ hl)
        rw [loserChoice_re c' hN init hperm hNi ω rnd lowest hlg]
        cases hlc : loserChoice init ω rnd lowest with
        | ok x =>
          obtain ⟨loser, tbs⟩ := x
          have hmem : loser ∈ lowest := loserChoice_mem init ω rnd lowest loser tbs hlg.1 hNi
            (fun x hx => hperm.subset (hlg.2 x hx)) hlc
          simp only [Outcome.map_ok, Outcome.bind_ok, Outcome.pure_eq, reLoser, reStep]
          have hsub' : SubOf c' (S.hopeful.filter (fun x => x != loser)) :=
            fun x hx => hI.sub x (List.mem_filter.mp hx).1
          have hnd' : (S.hopeful.filter (fun x => x != loser)).Nodup := hI.nodup.filter _
          rw [← reG_filter, hb, tallies_re c' _ hsub',
            scoreToRanking_re c' _ (by rw [tallies_keys]; exact hnd') (by rw [tallies_keys]; exact hsub')]
          simp only [reCS, reRS, reR, List.map_cons, List.map_nil, reG_singleton c' hN loser (hlg.2 loser hmem)]
        | raised e => rfl
        | oracleMismatch => rfl
        | outOfFuel => rfl

end VK
