/-
  VK.Lemmas.Partition — a duplicate-free list of keys that covers all keys partitions a list.
-/
import Mathlib.Data.List.Perm.Basic
import Mathlib.Data.List.Nodup

namespace VK

theorem flatMap_filter_key_perm {α κ : Type} [DecidableEq κ] (key : α → κ) (l : List α) (vals : List κ)
    (hnd : vals.Nodup) (hcov : ∀ a ∈ l, key a ∈ vals) :
    (vals.flatMap (fun v => l.filter (fun a => key a = v))).Perm l := by
  induction vals generalizing l with
  | nil =>
    have : l = [] := by
      cases l with
      | nil => rfl
      | cons x xs => exact absurd (hcov x (by simp)) (by simp)
    subst this; simp
  | cons v vs ih =>
    rw [List.nodup_cons] at hnd
    let l' := l.filter (fun a => !decide (key a = v))
    have hcov' : ∀ a ∈ l', key a ∈ vs := by
      intro a ha
      have h1 := (List.mem_filter.1 ha)
      have h2 := hcov a h1.1
      rcases List.mem_cons.1 h2 with h | h
      · simp [h] at h1
      · exact h
    have ih' := ih l' hnd.2 hcov'
    have hrest : vs.flatMap (fun u => l.filter (fun a => key a = u)) =
        vs.flatMap (fun u => l'.filter (fun a => key a = u)) := by
      apply List.flatMap_congr
      intro u hu
      have huv : u ≠ v := fun e => hnd.1 (e ▸ hu)
      simp only [l', List.filter_filter]
      apply List.filter_congr
      intro a _
      by_cases h : key a = u
      · have : key a ≠ v := fun e => huv (h.symm.trans e)
        simp [h, huv]
      · simp [h]
    rw [List.flatMap_cons, hrest]
    exact (List.Perm.append_left _ ih').trans (List.filter_append_perm _ l)

end VK
