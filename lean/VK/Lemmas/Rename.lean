/-
  VK.Lemmas.Rename — the utility layer of the model commutes with an injective renaming of the candidates
  (C08, neutrality). Nothing here is specific to a rule: condensing, completing ballots, positional scores,
  score → ranking, tie breaking and `elect_cands_from_set_ranking`.
-/
import VK.Model.STV
import VK.Lemmas.Sum
import Mathlib.Logic.Function.Basic
import Mathlib.Data.List.Basic
namespace VK

/-! ### renaming of the data model -/

def renR (π : Cand → Cand) (r : Ranking) : Ranking := r.map (List.map π)
def renSc (π : Cand → Cand) (sc : List (Cand × Rat)) : List (Cand × Rat) := sc.map (fun cs => (π cs.1, cs.2))
def renB (π : Cand → Cand) (b : Ballot) : Ballot :=
  { ranking := renR π b.ranking, weight := b.weight, scores := renSc π b.scores }
def renP (π : Cand → Cand) (p : Profile) : Profile :=
  { ballots := p.ballots.map (renB π), cands := p.cands.map π }
def renTb (π : Cand → Cand) (t : List Cand × Ranking) : List Cand × Ranking := (t.1.map π, renR π t.2)
def renRS (π : Cand → Cand) (s : RoundState) : RoundState :=
  { round := s.round, remaining := renR π s.remaining, elected := renR π s.elected,
    eliminated := renR π s.eliminated, tiebreaks := s.tiebreaks.map (renTb π), scores := renSc π s.scores }

def Outcome.map {α β} (f : α → β) : Outcome α → Outcome β
  | .ok a => .ok (f a)
  | .raised e => .raised e
  | .oracleMismatch => .oracleMismatch
  | .outOfFuel => .outOfFuel

@[simp] theorem Outcome.map_ok {α β} (f : α → β) (a : α) : (Outcome.ok a).map f = .ok (f a) := rfl
@[simp] theorem Outcome.map_raised {α β} (f : α → β) (e : Exn) : (Outcome.raised e : Outcome α).map f = .raised e := rfl
@[simp] theorem Outcome.map_mismatch {α β} (f : α → β) : (Outcome.oracleMismatch : Outcome α).map f = .oracleMismatch := rfl
@[simp] theorem Outcome.map_fuel {α β} (f : α → β) : (Outcome.outOfFuel : Outcome α).map f = .outOfFuel := rfl

theorem Outcome.map_bind {α β γ} (x : Outcome α) (g : α → Outcome β) (f : β → γ) :
    (x >>= g).map f = x >>= (fun a => (g a).map f) := by cases x <;> rfl

theorem Outcome.bind_map {α β γ} (x : Outcome α) (f : α → β) (g : β → Outcome γ) :
    (x.map f) >>= g = x >>= (fun a => g (f a)) := by cases x <;> rfl

section
variable (π : Cand → Cand) (hπ : Function.Injective π)
include hπ

/-! ### lists -/

theorem mem_map_inj (l : List Cand) (c : Cand) : π c ∈ l.map π ↔ c ∈ l := by
  simp only [List.mem_map]
  constructor
  · rintro ⟨x, hx, e⟩; rw [← hπ e]; exact hx
  · intro h; exact ⟨c, h, rfl⟩

theorem contains_map_inj (l : List Cand) (c : Cand) : (l.map π).contains (π c) = l.contains c := by
  rw [Bool.eq_iff_iff]; simp only [List.contains_iff_mem]; exact mem_map_inj π hπ l c

theorem map_inj_list : Function.Injective (List.map π) := List.map_injective_iff.mpr hπ

theorem renR_inj : Function.Injective (renR π) := List.map_injective_iff.mpr (map_inj_list π hπ)

theorem renSc_inj : Function.Injective (renSc π) := by
  apply List.map_injective_iff.mpr
  rintro ⟨a, x⟩ ⟨b, y⟩ h
  simp only [Prod.mk.injEq] at h
  rw [hπ h.1, h.2]

theorem filter_contains_map (l s : List Cand) :
    (l.map π).filter (fun c => (s.map π).contains c) = (l.filter (fun c => s.contains c)).map π := by
  rw [List.filter_map]; congr 1
  apply List.filter_congr; intro x _
  simp only [Function.comp_def]; exact contains_map_inj π hπ s x

theorem filter_not_contains_map (l s : List Cand) :
    (l.map π).filter (fun c => !(s.map π).contains c) = (l.filter (fun c => !s.contains c)).map π := by
  rw [List.filter_map]; congr 1
  apply List.filter_congr; intro x _
  simp only [Function.comp_def]; rw [contains_map_inj π hπ s x]

theorem filter_eq_map (l : List Cand) (c : Cand) :
    (l.map π).filter (fun x => x = π c) = (l.filter (fun x => x = c)).map π := by
  rw [List.filter_map]; congr 1
  apply List.filter_congr; intro x _
  simp only [Function.comp_def, decide_eq_decide]
  exact ⟨fun e => hπ e, fun e => by rw [e]⟩

/-! ### condensing -/

def renC (π : Cand → Cand) (k : Content) : Content := (renR π k.1, renSc π k.2)

theorem renC_inj : Function.Injective (renC π) := by
  rintro ⟨a, x⟩ ⟨b, y⟩ h
  simp only [renC, Prod.mk.injEq] at h
  rw [renR_inj π hπ h.1, renSc_inj π hπ h.2]

theorem accAdd_ren (k : Content) (w : Rat) (acc : List (Content × Rat)) :
    accAdd (renC π k) w (acc.map (fun kw => (renC π kw.1, kw.2))) =
      (accAdd k w acc).map (fun kw => (renC π kw.1, kw.2)) := by
  induction acc with
  | nil => rfl
  | cons a rest ih =>
    obtain ⟨k', w'⟩ := a
    simp only [List.map_cons, accAdd]
    by_cases h : k' = k
    · simp [h]
    · have : ¬ renC π k' = renC π k := fun e => h (renC_inj π hπ e)
      simp only [h, this, if_false, List.map_cons, ih]

theorem foldl_accAdd_ren (bs : List Ballot) (acc : List (Content × Rat)) :
    (bs.map (renB π)).foldl (fun acc b => accAdd b.content b.weight acc) (acc.map (fun kw => (renC π kw.1, kw.2))) =
      (bs.foldl (fun acc b => accAdd b.content b.weight acc) acc).map (fun kw => (renC π kw.1, kw.2)) := by
  induction bs generalizing acc with
  | nil => rfl
  | cons b rest ih =>
    simp only [List.map_cons, List.foldl_cons]
    have : (renB π b).content = renC π b.content := rfl
    rw [this]
    have hw : (renB π b).weight = b.weight := rfl
    rw [hw, accAdd_ren π hπ, ih]

theorem condense_ren (bs : List Ballot) : condense (bs.map (renB π)) = (condense bs).map (renB π) := by
  unfold condense accumulate
  have := foldl_accAdd_ren π hπ bs []
  simp only [List.map_nil] at this
  rw [this, List.map_map, List.map_map]
  rfl

/-! ### completing ballots and positional scores -/

omit hπ in
theorem flatten_renR (r : Ranking) : (renR π r).flatten = r.flatten.map π := by
  unfold renR
  induction r with
  | nil => rfl
  | cons s rest ih => simp only [List.map_cons, List.flatten_cons, List.map_append, ih]

theorem missingCands_ren (cands : List Cand) (r : Ranking) :
    missingCands (cands.map π) (renR π r) = (missingCands cands r).map π := by
  unfold missingCands
  rw [flatten_renR π]
  exact filter_not_contains_map π hπ cands r.flatten

theorem addMissingBallot_ren (cands : List Cand) (b : Ballot) :
    addMissingBallot (cands.map π) (renB π b) = renB π (addMissingBallot cands b) := by
  unfold addMissingBallot
  have h1 : (renB π b).ranking = renR π b.ranking := rfl
  rw [h1, missingCands_ren π hπ]
  by_cases h : (missingCands cands b.ranking).isEmpty
  · have : ((missingCands cands b.ranking).map π).isEmpty = true := by simpa using h
    simp [h, this, renB, renSc]
  · have : ¬ ((missingCands cands b.ranking).map π).isEmpty = true := by simpa using h
    simp [h, this, renB, renSc, renR]

omit hπ in
theorem any_ranking_empty_ren (bs : List Ballot) :
    (bs.map (renB π)).any (fun b => b.ranking.isEmpty) = bs.any (fun b => b.ranking.isEmpty) := by
  rw [List.any_map]; congr 1; funext b
  simp [renB, renR]

theorem addMissing_ren (p : Profile) : addMissing (renP π p) = (addMissing p).map (renP π) := by
  unfold addMissing
  have h0 : (renP π p).ballots = p.ballots.map (renB π) := rfl
  have h1 : (renP π p).cands = p.cands.map π := rfl
  rw [h0, h1, any_ranking_empty_ren π]
  split
  · rfl
  · simp only [Outcome.map_ok, renP, List.map_map]
    congr 2
    rw [← condense_ren π hπ, List.map_map]
    congr 1
    apply List.map_congr_left; intro b _
    exact addMissingBallot_ren π hπ p.cands b

theorem ballotPoints_ren (v : List Rat) (r : Ranking) (c : Cand) :
    ballotPoints v (renR π r) (π c) = ballotPoints v r c := by
  unfold ballotPoints renR
  have hpa : ∀ (i : Nat) (r : Ranking), positionAlloc v i (r.map (List.map π)) =
      (positionAlloc v i r).map (fun sa => (sa.1.map π, sa.2)) := by
    intro i r
    induction r generalizing i with
    | nil => rfl
    | cons s rest ih => simp [positionAlloc, ih]
  rw [hpa, List.filter_map, List.map_map]
  congr 1
  have : (fun sa : List Cand × Rat => (sa.1.map π, sa.2).1.contains (π c)) = fun sa => sa.1.contains c := by
    funext sa; exact contains_map_inj π hπ sa.1 c
  simp only [Function.comp_def, this]

theorem scoreFromRankings_ren (p : Profile) (v : List Rat) :
    scoreFromRankings (renP π p) v = (scoreFromRankings p v).map (renSc π) := by
  unfold scoreFromRankings
  split
  · rfl
  · have hl : (renP π p).cands.length = p.cands.length := by simp [renP]
    rw [hl, addMissing_ren π hπ]
    cases h : addMissing p with
    | ok p' =>
      simp only [Outcome.map_ok, Outcome.bind_ok, Outcome.pure_eq, renSc, renP, List.map_map]
      congr 1
      apply List.map_congr_left; intro c _
      simp only [Function.comp_def, Prod.mk.injEq, true_and]
      congr 1
      apply List.map_congr_left; intro b _
      show ballotPoints _ (renR π b.ranking) (π c) * b.weight = _
      rw [ballotPoints_ren π hπ]
    | raised e => rfl
    | oracleMismatch => rfl
    | outOfFuel => rfl

theorem firstPlaceVotes_ren (p : Profile) : firstPlaceVotes (renP π p) = (firstPlaceVotes p).map (renSc π) := by
  unfold firstPlaceVotes
  have hl : (renP π p).cands.length = p.cands.length := by simp [renP]
  rw [hl, scoreFromRankings_ren π hπ]

theorem bordaScores_ren (p : Profile) : bordaScores (renP π p) = (bordaScores p).map (renSc π) := by
  unfold bordaScores
  have hl : (renP π p).cands.length = p.cands.length := by simp [renP]
  rw [hl, scoreFromRankings_ren π hπ]

/-! ### score → ranking -/

omit hπ in
theorem scoreToRanking_ren (sc : List (Cand × Rat)) (hl : Bool) :
    scoreToRanking (renSc π sc) hl = renR π (scoreToRanking sc hl) := by
  unfold scoreToRanking renSc renR
  simp only [List.map_map, Function.comp_def, List.filter_map]

theorem lookupScore_ren (sc : List (Cand × Rat)) (c : Cand) : lookupScore (renSc π sc) (π c) = lookupScore sc c := by
  unfold lookupScore renSc
  induction sc with
  | nil => rfl
  | cons a rest ih =>
    simp only [List.map_cons, List.find?_cons]
    by_cases h : a.1 = c
    · simp [h]
    · have : ¬ π a.1 = π c := fun e => h (hπ e)
      simp only [h, this, decide_false]
      exact ih

theorem filter_scores_ren (sc : List (Cand × Rat)) (s : List Cand) :
    (renSc π sc).filter (fun cs => (s.map π).contains cs.1) = renSc π (sc.filter (fun cs => s.contains cs.1)) := by
  unfold renSc
  rw [List.filter_map]; congr 1
  apply List.filter_congr; intro x _
  simp only [Function.comp_def]; exact contains_map_inj π hπ s x.1

/-! ### tie breaking -/

theorem orderBy_ren (pri s : List Cand) :
    orderBy (pri.map π) (s.map π) = (orderBy pri s).map (List.map π) := by
  unfold orderBy
  simp only [filter_contains_map π hπ, List.length_map, List.all_map, Function.comp_def]
  have : (fun c => decide (((pri.map π).filter (fun x => x = π c)).length = 1)) =
      fun c => decide ((pri.filter (fun x => x = c)).length = 1) := by
    funext c; rw [filter_eq_map π hπ, List.length_map]
  simp only [this]
  split <;> rfl

theorem breakGroup_ren (pri g : List Cand) :
    breakGroup (pri.map π) (g.map π) = (breakGroup pri g).map (renR π) := by
  unfold breakGroup
  simp only [List.length_map]
  split
  · rfl
  · rw [orderBy_ren π hπ]
    cases orderBy pri g <;> simp [renR, Outcome.map]

theorem breakGroups_ren (pri : List Cand) (r : Ranking) :
    breakGroups (pri.map π) (renR π r) = (breakGroups pri r).map (renR π) := by
  induction r with
  | nil => rfl
  | cons g gs ih =>
    have : renR π (g :: gs) = g.map π :: renR π gs := rfl
    rw [this]
    simp only [breakGroups]
    rw [breakGroup_ren π hπ, ih]
    cases breakGroup pri g with
    | ok a =>
      cases breakGroups pri gs with
      | ok b => simp [renR]
      | raised e => rfl
      | oracleMismatch => rfl
      | outOfFuel => rfl
    | raised e => rfl
    | oracleMismatch => rfl
    | outOfFuel => rfl

theorem tiebreakSet_ren (pri s : List Cand) (prof : Option Profile) (tb : TB) :
    tiebreakSet (pri.map π) (s.map π) (prof.map (renP π)) tb = (tiebreakSet pri s prof tb).map (renR π) := by
  cases tb with
  | random =>
    simp only [tiebreakSet]
    rw [orderBy_ren π hπ]
    cases orderBy pri s <;> simp [renR, Outcome.map]
  | borda =>
    cases prof with
    | none => rfl
    | some p =>
      simp only [tiebreakSet, Option.map_some, if_true]
      rw [bordaScores_ren π hπ]
      cases bordaScores p with
      | ok sc =>
        simp only [Outcome.map_ok, Outcome.bind_ok]
        rw [filter_scores_ren π hπ, scoreToRanking_ren π, breakGroups_ren π hπ]
      | raised e => rfl
      | oracleMismatch => rfl
      | outOfFuel => rfl
  | firstPlace =>
    cases prof with
    | none => rfl
    | some p =>
      simp only [tiebreakSet, Option.map_some, reduceCtorEq, if_false]
      rw [firstPlaceVotes_ren π hπ]
      cases firstPlaceVotes p with
      | ok sc =>
        simp only [Outcome.map_ok, Outcome.bind_ok]
        rw [filter_scores_ren π hπ, scoreToRanking_ren π, breakGroups_ren π hπ]
      | raised e => rfl
      | oracleMismatch => rfl
      | outOfFuel => rfl

def renER (π : Cand → Cand) (r : ElectResult) : ElectResult :=
  { elected := renR π r.elected, remaining := renR π r.remaining, tiebreak := r.tiebreak.map (renTb π) }

theorem electLoop_ren (pri : List Cand) (prof : Option Profile) (tb : Option TB) (k : Nat) (acc r : Ranking) :
    electLoop (pri.map π) (prof.map (renP π)) tb k (renR π acc) (renR π r) =
      (electLoop pri prof tb k acc r).map (renER π) := by
  induction r generalizing k acc with
  | nil =>
    simp only [renR, List.map_nil, electLoop]
    split
    · simp [renER, renR]
    · rfl
  | cons g rest ih =>
    have hc : renR π (g :: rest) = g.map π :: renR π rest := rfl
    rw [hc]
    simp only [electLoop, List.length_map]
    split
    · simp [renER, renR]
    · split
      · have : g.map π :: renR π acc = renR π (g :: acc) := rfl
        rw [this, ih]
      · cases tb with
        | none => rfl
        | some t =>
          simp only []
          rw [tiebreakSet_ren π hπ]
          cases tiebreakSet pri g prof t with
          | ok broken =>
            simp only [Outcome.map_ok, Outcome.bind_ok, Outcome.pure_eq, renER, renR, renTb, Option.map_some,
              List.map_append, List.map_reverse, List.map_take, List.map_drop]
          | raised e => rfl
          | oracleMismatch => rfl
          | outOfFuel => rfl

theorem electFromRanking_ren (pri : List Cand) (r : Ranking) (m : Nat) (prof : Option Profile) (tb : Option TB) :
    electFromRanking (pri.map π) (renR π r) m (prof.map (renP π)) tb =
      (electFromRanking pri r m prof tb).map (renER π) := by
  unfold electFromRanking
  rw [flatten_renR π, List.length_map]
  split
  · rfl
  · split
    · rfl
    · exact electLoop_ren π hπ pri prof tb m [] r

/-! ### remove_cand -/

theorem scrubRanking_ren (removed : List Cand) (r : Ranking) :
    scrubRanking (removed.map π) (renR π r) = renR π (scrubRanking removed r) := by
  induction r with
  | nil => rfl
  | cons g rest ih =>
    have hc : renR π (g :: rest) = g.map π :: renR π rest := rfl
    have hs : ∀ (rm : List Cand) (x : List Cand) (xs : Ranking), scrubRanking rm (x :: xs) =
        if (x.filter (fun c => !rm.contains c)).isEmpty then scrubRanking rm xs
        else x.filter (fun c => !rm.contains c) :: scrubRanking rm xs := by
      intro rm x xs
      simp only [scrubRanking, List.map_cons, List.filter_cons]
      split <;> simp_all
    rw [hc, hs, hs, filter_not_contains_map π hπ, List.isEmpty_map, ih]
    split <;> rfl

theorem scrubScores_ren (removed : List Cand) (sc : Scores) :
    scrubScores (removed.map π) (renSc π sc) = renSc π (scrubScores removed sc) := by
  unfold scrubScores renSc
  rw [List.filter_map]; congr 1
  apply List.filter_congr; intro x _
  simp only [Function.comp_def, contains_map_inj π hπ]

theorem scrubBallot_ren (removed : List Cand) (b : Ballot) :
    scrubBallot (removed.map π) (renB π b) = renB π (scrubBallot removed b) := by
  unfold scrubBallot
  have h1 : (renB π b).ranking = renR π b.ranking := rfl
  have h2 : (renB π b).scores = renSc π b.scores := rfl
  have h3 : (renB π b).weight = b.weight := rfl
  simp only [h1, h2, h3, scrubRanking_ren π hπ, scrubScores_ren π hπ]
  have e1 : (renR π (scrubRanking removed b.ranking)).isEmpty = (scrubRanking removed b.ranking).isEmpty := by
    simp [renR]
  have e2 : (renSc π (scrubScores removed b.scores)).isEmpty = (scrubScores removed b.scores).isEmpty := by
    simp [renSc]
  rw [e1, e2]
  split <;> rfl

theorem removeCandBallots_ren (removed : List Cand) (bs : List Ballot) (cond leaveZero : Bool) :
    removeCandBallots (removed.map π) (bs.map (renB π)) cond leaveZero =
      (removeCandBallots removed bs cond leaveZero).map (renB π) := by
  unfold removeCandBallots scrubBallots
  have hm : (bs.map (renB π)).map (scrubBallot (removed.map π)) = (bs.map (scrubBallot removed)).map (renB π) := by
    rw [List.map_map, List.map_map]; apply List.map_congr_left; intro b _; exact scrubBallot_ren π hπ removed b
  rw [hm]
  have hf : ((bs.map (scrubBallot removed)).map (renB π)).filter (fun b => decide (0 < b.weight)) =
      ((bs.map (scrubBallot removed)).filter (fun b => decide (0 < b.weight))).map (renB π) := by
    rw [List.filter_map]; rfl
  cases leaveZero <;> cases cond <;> simp only [hf, condense_ren π hπ, if_true, if_false, Bool.false_eq_true]

theorem removeCand_ren (removed : List Cand) (p : Profile) (cond leaveZero : Bool) :
    removeCand (removed.map π) (renP π p) cond leaveZero = renP π (removeCand removed p cond leaveZero) := by
  unfold removeCand
  have h0 : (renP π p).ballots = p.ballots.map (renB π) := rfl
  have h1 : (renP π p).cands = p.cands.map π := rfl
  rw [h0, h1, removeCandBallots_ren π hπ, filter_not_contains_map π hπ]
  rfl

/-! ### scores from score ballots -/

theorem scoreFromBallotScores_ren (p : Profile) :
    scoreFromBallotScores (renP π p) = (scoreFromBallotScores p).map (renSc π) := by
  unfold scoreFromBallotScores
  have h0 : (renP π p).ballots = p.ballots.map (renB π) := rfl
  have h1 : (renP π p).cands = p.cands.map π := rfl
  rw [h0, h1]
  have e1 : (p.ballots.map (renB π)).any (fun b => b.scores.isEmpty) = p.ballots.any (fun b => b.scores.isEmpty) := by
    rw [List.any_map]; congr 1; funext b; simp [renB, renSc]
  have e2 : (p.ballots.map (renB π)).any (fun b => b.scores.any (fun cs => !(p.cands.map π).contains cs.1)) =
      p.ballots.any (fun b => b.scores.any (fun cs => !p.cands.contains cs.1)) := by
    rw [List.any_map]; congr 1; funext b
    simp only [Function.comp_def, renB, renSc, List.any_map, contains_map_inj π hπ]
  rw [e1, e2]
  split
  · rfl
  · split
    · rfl
    · simp only [Outcome.map_ok, renSc, List.map_map]
      congr 1
      apply List.map_congr_left; intro c _
      simp only [Function.comp_def, Prod.mk.injEq, true_and]
      congr 1
      apply List.map_congr_left; intro b _
      have : (renB π b).scores.filter (fun cs => decide (cs.1 = π c)) = renSc π (b.scores.filter (fun cs => decide (cs.1 = c))) := by
        show (renSc π b.scores).filter _ = _
        unfold renSc
        rw [List.filter_map]; congr 1
        apply List.filter_congr; intro x _
        simp only [Function.comp_def, decide_eq_decide]
        exact ⟨fun e => hπ e, fun e => by rw [e]⟩
      rw [this]
      simp only [renSc, List.map_map, Function.comp_def]
      rfl

end
end VK
