/-
  VK.Lemmas.RescoreLin — every positional score of the profile an STV count holds is a weight-linear
  functional of the count state (`lsum`), hence the same for two equivalent ballot lists (`LinEq`).
  Used to extend the representation-invariance theorem of C08 to one-by-one counts with a scored
  ('borda' / 'first_place') tiebreak, which consult the current profile.
-/
import VK.Lemmas.Rescore
import VK.Lemmas.LinEq

namespace VK

/-- points ranking `r` of the count state gives `c` once the profile is re-scored with vector `v'` -/
def curPoints (hop : List Cand) (v' : List Rat) (c : Cand) (r : List Cand) : Rat :=
  let fr := r.filter (fun x => hop.contains x)
  if fr.isEmpty then 0
  else ballotPoints v' (addMissingBallot hop { ranking := fr.map (fun x => [x]), weight := 0, scores := [] }).ranking c

theorem addMissingBallot_ranking (cands : List Cand) (b b' : Ballot) (h : b.ranking = b'.ranking) :
    (addMissingBallot cands b).ranking = (addMissingBallot cands b').ranking := by
  unfold addMissingBallot
  simp only [h]

theorem current_ranking_ne_nil (S : CState) : ∀ b ∈ (currentProfile S).ballots, b.ranking ≠ [] := by
  intro b hb
  obtain ⟨b0, hb0, hr, _⟩ := mem_condense_ranking _ b hb
  unfold currentBallots at hb0
  obtain ⟨_, hf⟩ := List.mem_filter.1 hb0
  simp only [Bool.and_eq_true, Bool.not_eq_true', List.isEmpty_eq_false_iff] at hf
  rw [← hr]; exact hf.1

/-- **Re-scoring the held profile is linear in the count state.** -/
theorem scoreFromRankings_current (S : CState) (v : List Rat) (hnn : ∀ b ∈ S.bs, 0 ≤ b.2) :
    scoreFromRankings (currentProfile S) v =
      if !validVector v then .raised .valueError
      else .ok (S.hopeful.map (fun c => (c, lsum (curPoints S.hopeful (padVector v S.hopeful.length) c) S.bs))) := by
  unfold scoreFromRankings
  split
  · rfl
  · have hne := current_ranking_ne_nil S
    have hany : (currentProfile S).ballots.any (fun b => b.ranking.isEmpty) = false := by
      rw [List.any_eq_false]
      intro b hb
      simpa [List.isEmpty_iff] using hne b hb
    unfold addMissing
    simp only [hany, Bool.false_eq_true, if_false, bind, Outcome.bind, pure]
    congr 1
    show List.map _ S.hopeful = _
    apply List.map_congr_left
    intro c _
    congr 1
    set v' := padVector v S.hopeful.length with hv'
    have hv : padVector v (currentProfile S).cands.length = v' := rfl
    rw [hv]
    -- Σ over condense(map amb (condense cur)) = Σ over map amb (condense cur)
    have h1 := sum_condense (fun k => ballotPoints v' k.1 c)
      ((currentProfile S).ballots.map (addMissingBallot (currentProfile S).cands))
    simp only [Ballot.content] at h1
    rw [h1, List.map_map]
    -- = Σ over condense cur of a function of the content
    have h2 := sum_condense (fun k => ballotPoints v'
      (addMissingBallot S.hopeful { ranking := k.1, weight := 0, scores := [] }).ranking c)
      (currentBallots S.bs S.hopeful)
    simp only [Ballot.content] at h2
    have hstep : ((currentProfile S).ballots.map ((fun b => ballotPoints v' b.ranking c * b.weight) ∘
        addMissingBallot (currentProfile S).cands)) =
        (condense (currentBallots S.bs S.hopeful)).map (fun b => ballotPoints v'
          (addMissingBallot S.hopeful { ranking := b.ranking, weight := 0, scores := [] }).ranking c * b.weight) := by
      apply List.map_congr_left
      intro b _
      simp only [Function.comp]
      have : (addMissingBallot (currentProfile S).cands b).weight = b.weight := rfl
      rw [this]
      congr 1
    rw [hstep, h2]
    -- ballot by ballot over the count state
    unfold currentBallots lsum
    generalize S.bs = bs at hnn
    induction bs with
    | nil => simp
    | cons b rest ih =>
      have hb := hnn b (by simp)
      have ih' := ih (fun x hx => hnn x (by simp [hx]))
      simp only [List.map_cons, List.filter_cons, rsum_cons]
      by_cases hkeep : (!((b.1.filter (fun c => S.hopeful.contains c)).map (fun c => [c])).isEmpty && decide (0 < b.2)) = true
      · simp only [hkeep, if_true, List.map_cons, rsum_cons, ih']
        congr 1
        simp only [Bool.and_eq_true, Bool.not_eq_true', List.isEmpty_eq_false_iff] at hkeep
        have hne' : (b.1.filter (fun c => S.hopeful.contains c)).isEmpty = false := by
          have := hkeep.1
          simpa [List.isEmpty_iff] using this
        unfold curPoints
        simp only [hne', Bool.false_eq_true, if_false]
      · simp only [hkeep, Bool.false_eq_true, if_false, ih']
        simp only [Bool.and_eq_true, Bool.not_eq_true', decide_eq_true_eq, not_and_or] at hkeep
        rcases hkeep with h1 | h1
        · have hnil : (b.1.filter (fun c => S.hopeful.contains c)).isEmpty = true := by
            simpa [List.isEmpty_iff] using h1
          unfold curPoints
          simp only [hnil, if_true, zero_mul, zero_add]
        · have : b.2 = 0 := le_antisymm (not_lt.1 h1) hb
          simp [this]

/-- two equivalent count states hold profiles with the same positional scores, for every vector -/
theorem scoreFromRankings_lineq (S S2 : CState) (v : List Rat) (hh : S.hopeful = S2.hopeful) (hb : LinEq S.bs S2.bs)
    (hnn : ∀ b ∈ S.bs, 0 ≤ b.2) (hnn2 : ∀ b ∈ S2.bs, 0 ≤ b.2) :
    scoreFromRankings (currentProfile S) v = scoreFromRankings (currentProfile S2) v := by
  rw [scoreFromRankings_current S v hnn, scoreFromRankings_current S2 v hnn2, ← hh]
  split
  · rfl
  · congr 1
    apply List.map_congr_left
    intro c _
    rw [hb]

theorem tiebreakSet_lineq (pri s : List Cand) (S S2 : CState) (tb : TB) (hh : S.hopeful = S2.hopeful)
    (hb : LinEq S.bs S2.bs) (hnn : ∀ b ∈ S.bs, 0 ≤ b.2) (hnn2 : ∀ b ∈ S2.bs, 0 ≤ b.2) :
    tiebreakSet pri s (some (currentProfile S)) tb = tiebreakSet pri s (some (currentProfile S2)) tb := by
  have hc : (currentProfile S).cands = (currentProfile S2).cands := hh
  have hf : firstPlaceVotes (currentProfile S) = firstPlaceVotes (currentProfile S2) := by
    unfold firstPlaceVotes
    rw [hc]; exact scoreFromRankings_lineq S S2 _ hh hb hnn hnn2
  have hbo : bordaScores (currentProfile S) = bordaScores (currentProfile S2) := by
    unfold bordaScores
    rw [hc]; exact scoreFromRankings_lineq S S2 _ hh hb hnn hnn2
  unfold tiebreakSet
  cases tb with
  | random => rfl
  | borda => simp only [hbo, hf]
  | firstPlace => simp only [hbo, hf]

theorem electLoop_tb_congr (pri : List Cand) (prof prof' : Option Profile) (tb : Option TB)
    (h : ∀ s t, tiebreakSet pri s prof t = tiebreakSet pri s prof' t) (k : Nat) (acc rest : Ranking) :
    electLoop pri prof tb k acc rest = electLoop pri prof' tb k acc rest := by
  induction rest generalizing k acc with
  | nil => rfl
  | cons g rest ih =>
    unfold electLoop
    split
    · rfl
    · split
      · exact ih _ _
      · cases tb with
        | none => rfl
        | some t => simp only [h g t]

/-- **The choice of winners is the same on equivalent count states**, for every configuration. -/
theorem electChoice_lineq (cfg : STVCfg) (q : Int) (ω : STVOracle) (rnd : Nat) (S S2 : CState) (prev : RoundState)
    (hh : S.hopeful = S2.hopeful) (hb : LinEq S.bs S2.bs) (hnn : ∀ b ∈ S.bs, 0 ≤ b.2) (hnn2 : ∀ b ∈ S2.bs, 0 ≤ b.2) :
    electChoice cfg q ω rnd S prev = electChoice cfg q ω rnd S2 prev := by
  unfold electChoice
  split
  · rfl
  · have : electFromRanking (ω.pri rnd) prev.remaining 1 (some (currentProfile S)) cfg.tiebreak =
        electFromRanking (ω.pri rnd) prev.remaining 1 (some (currentProfile S2)) cfg.tiebreak := by
      unfold electFromRanking
      split; · rfl
      split; · rfl
      exact electLoop_tb_congr _ _ _ _ (fun s t => tiebreakSet_lineq _ s S S2 t hh hb hnn hnn2) _ _ _
    rw [this]

end VK
