/-
  VK.Lemmas.Elect — tie breaking returns a strict order of exactly the tied set;
  `elect_cands_from_set_ranking` fills exactly `m` seats from the top of the ranking.
-/
import VK.Lemmas.Ranking
import VK.Lemmas.Sum

namespace VK

theorem flatten_singletons (o : List Cand) : (o.map (fun c => [c])).flatten = o := by
  induction o with
  | nil => rfl
  | cons x xs ih => simp [ih]

theorem orderBy_perm (pri s o : List Cand) (hs : s.Nodup) (h : orderBy pri s = .ok o) : o.Perm s := by
  simp only [orderBy] at h
  split at h
  · rename_i hc
    injection h with h
    subst h
    simp only [Bool.and_eq_true, decide_eq_true_eq, List.all_eq_true] at hc
    have hcount : ∀ c ∈ s, List.count c pri = 1 := by
      intro c hc'
      have := hc.2 c hc'
      rw [List.count_eq_length_filter]
      convert this using 2
      apply List.filter_congr; intro x _
      by_cases hx : x = c
      · subst hx; simp
      · have : ¬ c = x := fun e => hx e.symm
        simp [hx, this]
    apply (List.perm_ext_iff_of_nodup _ hs).2
    · intro a
      simp only [List.mem_filter, List.contains_iff_mem]
      constructor
      · exact fun h => h.2
      · intro ha
        refine ⟨?_, ha⟩
        have := hcount a ha
        exact List.count_pos_iff.1 (by omega)
    · rw [List.nodup_iff_count_le_one]
      intro a
      by_cases ha : a ∈ s
      · calc List.count a (pri.filter (fun c => s.contains c)) ≤ List.count a pri :=
              (List.filter_sublist).count_le a
          _ = 1 := hcount a ha
      · have : a ∉ pri.filter (fun c => s.contains c) := by
          simp [List.mem_filter, ha]
        rw [List.count_eq_zero_of_not_mem this]; omega
  · cases h

theorem breakGroup_spec (pri g : List Cand) (r : Ranking) (hg : g.Nodup)
    (h : breakGroup pri g = .ok r) :
    r.flatten.Perm g ∧ (g ≠ [] → ∀ s ∈ r, s.length = 1) := by
  unfold breakGroup at h
  split at h
  · injection h with h; subst h
    refine ⟨by simp, ?_⟩
    intro hne s hs
    simp only [List.mem_singleton] at hs; subst hs
    rename_i hl
    have : s.length ≠ 0 := by simpa [List.length_eq_zero_iff] using hne
    omega
  · cases ho : orderBy pri g with
    | ok o =>
      simp only [ho, bind, Outcome.bind, pure] at h
      injection h with h; subst h
      have := orderBy_perm pri g o hg ho
      refine ⟨?_, ?_⟩
      · rw [flatten_singletons]; exact this
      · intro _ s hs
        obtain ⟨c, _, rfl⟩ := List.mem_map.1 hs
        rfl
    | raised e => simp [ho, bind, Outcome.bind] at h
    | oracleMismatch => simp [ho, bind, Outcome.bind] at h
    | outOfFuel => simp [ho, bind, Outcome.bind] at h

theorem breakGroups_spec (pri : List Cand) (gs r : Ranking) (hg : ∀ g ∈ gs, g.Nodup)
    (h : breakGroups pri gs = .ok r) :
    r.flatten.Perm gs.flatten ∧ ((∀ g ∈ gs, g ≠ []) → ∀ s ∈ r, s.length = 1) := by
  induction gs generalizing r with
  | nil => simp [breakGroups] at h; subst h; simp
  | cons g gs ih =>
    unfold breakGroups at h
    cases h1 : breakGroup pri g with
    | ok a =>
      cases h2 : breakGroups pri gs with
      | ok b =>
        simp only [h1, h2, bind, Outcome.bind, pure] at h
        injection h with h; subst h
        have s1 := breakGroup_spec pri g a (hg g (by simp)) h1
        have s2 := ih b (fun x hx => hg x (by simp [hx])) h2
        refine ⟨?_, ?_⟩
        · simp only [List.flatten_append, List.flatten_cons]
          exact s1.1.append s2.1
        · intro hne s hs
          rcases List.mem_append.1 hs with hs | hs
          · exact s1.2 (hne g (by simp)) s hs
          · exact s2.2 (fun x hx => hne x (by simp [hx])) s hs
      | raised e => simp [h1, h2, bind, Outcome.bind] at h
      | oracleMismatch => simp [h1, h2, bind, Outcome.bind] at h
      | outOfFuel => simp [h1, h2, bind, Outcome.bind] at h
    | raised e => simp [h1, bind, Outcome.bind] at h
    | oracleMismatch => simp [h1, bind, Outcome.bind] at h
    | outOfFuel => simp [h1, bind, Outcome.bind] at h

theorem scoreFromRankings_keys (p : Profile) (v : List Rat) (sc : List (Cand × Rat))
    (h : scoreFromRankings p v = .ok sc) : sc.map (·.1) = p.cands := by
  unfold scoreFromRankings at h
  split at h; · cases h
  unfold addMissing at h
  split at h; · cases h
  simp only [bind, Outcome.bind, pure] at h
  injection h with h
  rw [← h]; simp [List.map_map, Function.comp_def]

theorem scoreToRanking_groups_nonempty (sc : List (Cand × Rat)) :
    ∀ g ∈ scoreToRanking sc true, g ≠ [] := by
  rw [scoreToRanking_eq]
  intro g hg
  obtain ⟨v, hv, rfl⟩ := List.mem_map.1 hg
  rw [mem_distinctDesc] at hv
  obtain ⟨cs, hcs, rfl⟩ := List.mem_map.1 hv
  intro e
  have : cs.1 ∈ groupOf sc cs.2 := by
    unfold groupOf
    exact List.mem_map.2 ⟨cs, List.mem_filter.2 ⟨hcs, by simp⟩, rfl⟩
  rw [e] at this; cases this

theorem scoreToRanking_groups_nodup (sc : List (Cand × Rat)) (hk : (sc.map (·.1)).Nodup) :
    ∀ g ∈ scoreToRanking sc true, g.Nodup := by
  have hp := scoreToRanking_perm sc
  have hn : (scoreToRanking sc true).flatten.Nodup := hp.nodup_iff.2 hk
  intro g hg
  exact (List.nodup_flatten.1 hn).1 g hg

/-- **A tiebreak returns a strict order of exactly the tied set**: singletons whose concatenation is
a permutation of the set. (For the scored tiebreaks the set must consist of declared candidates.) -/
theorem tiebreakSet_spec (pri s : List Cand) (prof : Option Profile) (tb : TB) (t : Ranking)
    (hs : s.Nodup)
    (hsub : ∀ p, prof = some p → p.cands.Nodup ∧ ∀ c ∈ s, c ∈ p.cands)
    (h : tiebreakSet pri s prof tb = .ok t) :
    t.flatten.Perm s ∧ ∀ x ∈ t, x.length = 1 := by
  have scored : ∀ (p : Profile) (sc : List (Cand × Rat)), prof = some p → sc.map (·.1) = p.cands →
      breakGroups pri (scoreToRanking (sc.filter (fun cs => s.contains cs.1))) = .ok t →
      t.flatten.Perm s ∧ ∀ x ∈ t, x.length = 1 := by
    intro p sc hp hkeys hb
    obtain ⟨hcn, hcs⟩ := hsub p hp
    set sc' := sc.filter (fun cs => s.contains cs.1) with hsc'
    have hk' : sc'.map (·.1) = p.cands.filter (fun c => s.contains c) := by
      rw [← hkeys, hsc', List.filter_map]; rfl
    have hnd' : (sc'.map (·.1)).Nodup := by rw [hk']; exact hcn.filter _
    have hspec := breakGroups_spec pri _ t (scoreToRanking_groups_nodup sc' hnd') hb
    refine ⟨?_, hspec.2 (scoreToRanking_groups_nonempty sc')⟩
    refine hspec.1.trans ((scoreToRanking_perm sc').trans ?_)
    rw [hk']
    apply (List.perm_ext_iff_of_nodup (hcn.filter _) hs).2
    intro a
    simp only [List.mem_filter, List.contains_iff_mem]
    exact ⟨fun h => h.2, fun h => ⟨hcs a h, h⟩⟩
  unfold tiebreakSet at h
  split at h
  · -- random
    cases ho : orderBy pri s with
    | ok o =>
      simp only [ho, bind, Outcome.bind, pure] at h
      injection h with h; subst h
      have := orderBy_perm pri s o hs ho
      refine ⟨?_, ?_⟩
      · rw [flatten_singletons]; exact this
      · intro x hx; obtain ⟨c, _, rfl⟩ := List.mem_map.1 hx; rfl
    | raised e => simp [ho, bind, Outcome.bind] at h
    | oracleMismatch => simp [ho, bind, Outcome.bind] at h
    | outOfFuel => simp [ho, bind, Outcome.bind] at h
  · cases h
  · rename_i tb' p _
    split at h
    · cases hb : bordaScores p with
      | ok sc =>
        simp only [hb, bind, Outcome.bind] at h
        exact scored p sc rfl (scoreFromRankings_keys p _ sc hb) h
      | raised e => simp [hb, bind, Outcome.bind] at h
      | oracleMismatch => simp [hb, bind, Outcome.bind] at h
      | outOfFuel => simp [hb, bind, Outcome.bind] at h
    · cases hb : firstPlaceVotes p with
      | ok sc =>
        simp only [hb, bind, Outcome.bind] at h
        exact scored p sc rfl (scoreFromRankings_keys p _ sc hb) h
      | raised e => simp [hb, bind, Outcome.bind] at h
      | oracleMismatch => simp [hb, bind, Outcome.bind] at h
      | outOfFuel => simp [hb, bind, Outcome.bind] at h

end VK

namespace VK

theorem singletons_flatten_length (l : Ranking) (h : ∀ x ∈ l, x.length = 1) :
    l.flatten.length = l.length := by
  induction l with
  | nil => rfl
  | cons x xs ih =>
    simp only [List.flatten_cons, List.length_append, List.length_cons]
    rw [ih (fun y hy => h y (by simp [hy])), h x (by simp)]; omega

/-- Complete description of what `elect_cands_from_set_ranking`'s loop returns. -/
theorem electLoop_spec (pri : List Cand) (prof : Option Profile) (tb : Option TB)
    (k : Nat) (acc rest : Ranking) (r : ElectResult)
    (hnd : ∀ g ∈ rest, g.Nodup)
    (hsub : ∀ p, prof = some p → p.cands.Nodup ∧ ∀ g ∈ rest, ∀ c ∈ g, c ∈ p.cands)
    (h : electLoop pri prof tb k acc rest = .ok r) :
    ∃ pre post, rest = pre ++ post ∧
      ((r.tiebreak = none ∧ pre.flatten.length = k ∧ r.elected = acc.reverse ++ pre ∧ r.remaining = post) ∨
       (∃ g post' broken t, post = g :: post' ∧ r.tiebreak = some (g, broken) ∧ tb = some t ∧
          pre.flatten.length < k ∧ k - pre.flatten.length < g.length ∧
          tiebreakSet pri g prof t = .ok broken ∧
          broken.flatten.Perm g ∧ (∀ x ∈ broken, x.length = 1) ∧
          r.elected = acc.reverse ++ pre ++ broken.take (k - pre.flatten.length) ∧
          r.remaining = broken.drop (k - pre.flatten.length) ++ post')) := by
  induction rest generalizing k acc with
  | nil =>
    unfold electLoop at h
    split at h
    · rename_i hk; injection h with h; subst h
      exact ⟨[], [], rfl, Or.inl ⟨rfl, by simp [hk], by simp, rfl⟩⟩
    · cases h
  | cons g rest ih =>
    unfold electLoop at h
    split at h
    · rename_i hk; injection h with h; subst h
      exact ⟨[], g :: rest, rfl, Or.inl ⟨rfl, by simp [hk], by simp, rfl⟩⟩
    · rename_i hk
      split at h
      · rename_i hle
        have hnd' : ∀ x ∈ rest, x.Nodup := fun x hx => hnd x (by simp [hx])
        have hsub' : ∀ p, prof = some p → p.cands.Nodup ∧ ∀ x ∈ rest, ∀ c ∈ x, c ∈ p.cands :=
          fun p hp => ⟨(hsub p hp).1, fun x hx => (hsub p hp).2 x (by simp [hx])⟩
        obtain ⟨pre, post, hrest, hcase⟩ := ih (k - g.length) (g :: acc) hnd' hsub' h
        refine ⟨g :: pre, post, by simp [hrest], ?_⟩
        rcases hcase with ⟨h1, h2, h3, h4⟩ | ⟨g', post', broken, t, h1, h2, h3, h4, h5, h6, h7, h8, h9, h10⟩
        · left
          refine ⟨h1, ?_, ?_, h4⟩
          · simp only [List.flatten_cons, List.length_append]; omega
          · rw [h3]; simp
        · right
          have hl : (g :: pre).flatten.length = g.length + pre.flatten.length := by simp
          refine ⟨g', post', broken, t, h1, h2, h3, ?_, ?_, h6, h7, h8, ?_, ?_⟩
          · rw [hl]; omega
          · rw [hl]; have : k - (g.length + pre.flatten.length) = k - g.length - pre.flatten.length := by omega
            rw [this]; exact h5
          · rw [h9, hl]
            have : k - (g.length + pre.flatten.length) = k - g.length - pre.flatten.length := by omega
            rw [this]; simp
          · rw [h10, hl]
            have : k - (g.length + pre.flatten.length) = k - g.length - pre.flatten.length := by omega
            rw [this]
      · rename_i hgt
        cases tb with
        | none => cases h
        | some t =>
          simp only [] at h
          cases hb : tiebreakSet pri g prof t with
          | ok broken =>
            simp only [hb, bind, Outcome.bind, pure] at h
            injection h with h; subst h
            have hspec := tiebreakSet_spec pri g prof t broken (hnd g (by simp))
              (fun p hp => ⟨(hsub p hp).1, (hsub p hp).2 g (by simp)⟩) hb
            refine ⟨[], g :: rest, rfl, Or.inr ⟨g, rest, broken, t, rfl, rfl, rfl, ?_, ?_, hb, hspec.1, hspec.2, ?_, ?_⟩⟩
            · simp; omega
            · simp; omega
            · simp
            · simp
          | raised e => simp [hb, bind, Outcome.bind] at h
          | oracleMismatch => simp [hb, bind, Outcome.bind] at h
          | outOfFuel => simp [hb, bind, Outcome.bind] at h

/-- **Exactly `m` candidates are elected, and nobody is lost or duplicated.** -/
theorem electFromRanking_count (pri : List Cand) (ranking : Ranking) (m : Nat) (prof : Option Profile)
    (tb : Option TB) (r : ElectResult)
    (hnd : ∀ g ∈ ranking, g.Nodup)
    (hsub : ∀ p, prof = some p → p.cands.Nodup ∧ ∀ g ∈ ranking, ∀ c ∈ g, c ∈ p.cands)
    (h : electFromRanking pri ranking m prof tb = .ok r) :
    r.elected.flatten.length = m ∧
    (r.elected.flatten ++ r.remaining.flatten).Perm ranking.flatten := by
  unfold electFromRanking at h
  split at h; · cases h
  split at h; · cases h
  obtain ⟨pre, post, hrest, hcase⟩ := electLoop_spec pri prof tb m [] ranking r hnd hsub h
  rcases hcase with ⟨_, h2, h3, h4⟩ | ⟨g, post', broken, t, h1, _, _, h4, h5, _, h7, h8, h9, h10⟩
  · constructor
    · rw [h3]; simpa using h2
    · rw [h3, h4, hrest]; simp
  · have hbl : broken.length = g.length := by
      rw [← singletons_flatten_length broken h8]; exact h7.length_eq
    constructor
    · rw [h9]
      simp only [List.reverse_nil, List.nil_append, List.flatten_append, List.length_append]
      rw [singletons_flatten_length _ (fun x hx => h8 x (List.mem_of_mem_take hx))]
      rw [List.length_take]; omega
    · rw [h9, h10, hrest, h1]
      simp only [List.reverse_nil, List.nil_append, List.flatten_append, List.flatten_cons,
        List.append_assoc]
      apply List.Perm.append_left
      rw [← List.append_assoc, ← List.flatten_append, List.take_append_drop]
      exact h7.append_right _

end VK
