/-
  VK.Lemmas.Rescore — re-scoring the profile an STV count holds after a round reproduces the tallies
  recorded for that round: `firstPlaceVotes (currentProfile S) = tallies S.bs S.hopeful`.
-/
import VK.Lemmas.FpvLink
import VK.Lemmas.PSC
import VK.Lemmas.Condense

namespace VK

theorem mem_condense_ranking (bs : List Ballot) (b : Ballot) (hb : b ∈ condense bs) :
    ∃ b0 ∈ bs, b0.ranking = b.ranking ∧ b0.scores = b.scores := by
  have := (mem_condense_content bs b.content).1 (List.mem_map.2 ⟨b, hb, rfl⟩)
  obtain ⟨b0, hb0, hc⟩ := this
  unfold Ballot.content at hc
  exact ⟨b0, hb0, (Prod.mk.inj hc).1, (Prod.mk.inj hc).2⟩

theorem topOf_filter (hop r : List Cand) : topOf hop (r.filter (fun c => hop.contains c)) = topOf hop r := by
  unfold topOf
  rw [List.find?_filter]
  congr 1
  funext a
  cases hop.contains a <;> rfl

theorem singletons_flatten' (l : List Cand) : (l.map (fun c => [c])).flatten = l := by
  induction l with
  | nil => rfl
  | cons x xs ih => simp [ih]

/-- **Re-scoring reproduces the tallies.** -/
theorem fpv_current (S : CState) (hnn : ∀ b ∈ S.bs, 0 ≤ b.2) :
    firstPlaceVotes (currentProfile S) = .ok (tallies S.bs S.hopeful) := by
  -- every ballot of the held profile is a non-empty untied ranking of hopeful candidates
  have hprops : ∀ b ∈ currentBallots S.bs S.hopeful,
      b.ranking ≠ [] ∧ (∀ s ∈ b.ranking, s.length = 1) ∧ (∀ c ∈ b.ranking.flatten, c ∈ S.hopeful) ∧ b.scores = [] := by
    intro b hb
    unfold currentBallots at hb
    obtain ⟨hm, hf⟩ := List.mem_filter.1 hb
    obtain ⟨pb, _, rfl⟩ := List.mem_map.1 hm
    simp only [Bool.and_eq_true, Bool.not_eq_true', List.isEmpty_eq_false_iff, decide_eq_true_eq] at hf
    refine ⟨hf.1, ?_, ?_, rfl⟩
    · intro s hs
      obtain ⟨c, _, rfl⟩ := List.mem_map.1 hs
      rfl
    · intro c hc
      rw [singletons_flatten'] at hc
      simpa using (List.mem_filter.1 hc).2
  have hcond : ∀ b ∈ (currentProfile S).ballots,
      b.ranking ≠ [] ∧ (∀ s ∈ b.ranking, s.length = 1) ∧ (∀ c ∈ b.ranking.flatten, c ∈ S.hopeful) := by
    intro b hb
    obtain ⟨b0, hb0, hr, _⟩ := mem_condense_ranking _ b hb
    obtain ⟨h1, h2, h3, _⟩ := hprops b0 hb0
    rw [← hr]; exact ⟨h1, h2, h3⟩
  have hlink := fpv_link (currentProfile S) (fun b hb => (hcond b hb).1) (fun b hb => (hcond b hb).2.1)
    (fun b hb => (hcond b hb).2.2)
  rw [hlink]
  congr 1
  unfold tallies
  show List.map (fun c => (c, tally (stvInitState (currentProfile S)).bs S.hopeful c)) S.hopeful = _
  apply List.map_congr_left
  intro c _
  congr 1
  -- Σ over the condensed ballots = Σ over the held ballots = Σ over the count state
  rw [tally_eq_wsum, tally_eq_wsum]
  unfold stvInitState currentProfile
  simp only
  have hsum : ∀ l : List Ballot, wsum (fun b => decide (topOf S.hopeful b.1 = some c)) (l.map (fun b => (b.ranking.flatten, b.weight))) =
      rsum (l.map (fun b => (if topOf S.hopeful b.ranking.flatten = some c then (1 : Rat) else 0) * b.weight)) := by
    intro l
    induction l with
    | nil => simp [wsum_nil]
    | cons b rest ih =>
      simp only [List.map_cons, wsum_cons, rsum_cons, ih]
      by_cases h : topOf S.hopeful b.ranking.flatten = some c <;> simp [h]
  rw [hsum]
  have hc := sum_condense (fun k => if topOf S.hopeful k.1.flatten = some c then (1 : Rat) else 0)
    (currentBallots S.bs S.hopeful)
  simp only [Ballot.content] at hc
  refine Eq.trans hc ?_
  -- ballot by ballot over the count state
  unfold currentBallots
  generalize S.bs = bs at hnn
  induction bs with
  | nil => simp [wsum_nil]
  | cons b rest ih =>
    have hb := hnn b (by simp)
    have ih' := ih (fun x hx => hnn x (by simp [hx]))
    simp only [List.map_cons, List.filter_cons, wsum_cons]
    have hflat : ((b.1.filter (fun c => S.hopeful.contains c)).map (fun c => [c])).flatten =
        b.1.filter (fun c => S.hopeful.contains c) := singletons_flatten' _
    by_cases hkeep : (!((b.1.filter (fun c => S.hopeful.contains c)).map (fun c => [c])).isEmpty && decide (0 < b.2)) = true
    · simp only [hkeep, if_true, List.map_cons, rsum_cons, ih', hflat, topOf_filter]
      by_cases h : topOf S.hopeful b.1 = some c <;> simp [h]
    · simp only [hkeep, Bool.false_eq_true, if_false, ih']
      -- a dropped ballot contributes nothing: it ranks no hopeful candidate or has weight 0
      simp only [Bool.and_eq_true, Bool.not_eq_true', decide_eq_true_eq, not_and_or] at hkeep
      rcases hkeep with h1 | h1
      · have hnil : b.1.filter (fun c => S.hopeful.contains c) = [] := by
          simpa [List.isEmpty_iff] using h1
        have : topOf S.hopeful b.1 = none := by
          rw [← topOf_filter, hnil]; rfl
        simp [this]
      · have : b.2 = 0 := le_antisymm (not_lt.1 h1) hb
        by_cases h : topOf S.hopeful b.1 = some c <;> simp [h, this]

end VK
