/-
  VK.Lemmas.RepEq — two ballot lists that represent the same profile: every weight-linear functional of the contents
  agrees (`lin`), the same contents occur (`same`), all weights are positive. Reordering, splitting a ballot into
  identical ballots whose positive weights add up, and merging (condensing) produce such pairs; scoring and
  `remove_cand` respect the relation.
-/
import VK.Props.C08
import VK.Lemmas.Condense
namespace VK

def bsum (g : Content → Rat) (bs : List Ballot) : Rat := rsum (bs.map (fun b => g b.content * b.weight))
def HasContent (bs : List Ballot) (k : Content) : Prop := ∃ b ∈ bs, b.content = k
def PosW (bs : List Ballot) : Prop := ∀ b ∈ bs, 0 < b.weight

structure RepEq (bs bs' : List Ballot) : Prop where
  lin : ∀ g, bsum g bs = bsum g bs'
  same : ∀ k, HasContent bs k ↔ HasContent bs' k
  pos : PosW bs
  pos' : PosW bs'

theorem RepEq.symm {a b : List Ballot} (h : RepEq a b) : RepEq b a :=
  ⟨fun g => (h.lin g).symm, fun k => (h.same k).symm, h.pos', h.pos⟩

theorem RepEq.trans {a b c : List Ballot} (h1 : RepEq a b) (h2 : RepEq b c) : RepEq a c :=
  ⟨fun g => (h1.lin g).trans (h2.lin g), fun k => (h1.same k).trans (h2.same k), h1.pos, h2.pos'⟩

theorem RepEq.of_perm {a b : List Ballot} (h : a.Perm b) (hp : PosW a) : RepEq a b := by
  refine ⟨fun g => ?_, fun k => ?_, hp, fun x hx => hp x (h.symm.subset hx)⟩
  · unfold bsum; rw [rsum_eq_sum, rsum_eq_sum]; exact (h.map _).sum_eq
  · exact ⟨fun ⟨x, hx, e⟩ => ⟨x, h.subset hx, e⟩, fun ⟨x, hx, e⟩ => ⟨x, h.symm.subset hx, e⟩⟩

theorem RepEq.of_split (r : Ranking) (s : Scores) (w1 w2 : Rat) (h1 : 0 < w1) (h2 : 0 < w2) (rest : List Ballot)
    (hp : PosW rest) :
    RepEq (⟨r, w1, s⟩ :: ⟨r, w2, s⟩ :: rest) (⟨r, w1 + w2, s⟩ :: rest) := by
  refine ⟨fun g => ?_, fun k => ?_, ?_, ?_⟩
  · simp only [bsum, List.map_cons, rsum, Ballot.content]; ring
  · constructor
    · rintro ⟨x, hx, e⟩
      rcases List.mem_cons.mp hx with rfl | hx
      · exact ⟨_, List.mem_cons_self, e⟩
      · rcases List.mem_cons.mp hx with rfl | hx
        · exact ⟨_, List.mem_cons_self, e⟩
        · exact ⟨x, List.mem_cons_of_mem _ hx, e⟩
    · rintro ⟨x, hx, e⟩
      rcases List.mem_cons.mp hx with rfl | hx
      · exact ⟨⟨r, w1, s⟩, List.mem_cons_self, e⟩
      · exact ⟨x, List.mem_cons_of_mem _ (List.mem_cons_of_mem _ hx), e⟩
  · intro x hx
    rcases List.mem_cons.mp hx with rfl | hx
    · exact h1
    · rcases List.mem_cons.mp hx with rfl | hx
      · exact h2
      · exact hp x hx
  · intro x hx
    rcases List.mem_cons.mp hx with rfl | hx
    · exact add_pos h1 h2
    · exact hp x hx

/-! ### condensing -/

theorem accAdd_pos (k : Content) (w : Rat) (hw : 0 < w) (acc : List (Content × Rat)) (h : ∀ x ∈ acc, 0 < x.2) :
    ∀ x ∈ accAdd k w acc, 0 < x.2 := by
  induction acc with
  | nil => intro x hx; simp [accAdd] at hx; rw [hx]; exact hw
  | cons a rest ih =>
    intro x hx
    simp only [accAdd] at hx
    split at hx
    · rcases List.mem_cons.mp hx with rfl | hx
      · exact add_pos (h a List.mem_cons_self) hw
      · exact h x (List.mem_cons_of_mem _ hx)
    · rcases List.mem_cons.mp hx with rfl | hx
      · exact h _ List.mem_cons_self
      · exact ih (fun y hy => h y (List.mem_cons_of_mem _ hy)) x hx

theorem foldl_accAdd_pos (bs : List Ballot) (hp : PosW bs) (acc : List (Content × Rat)) (h : ∀ x ∈ acc, 0 < x.2) :
    ∀ x ∈ bs.foldl (fun acc b => accAdd b.content b.weight acc) acc, 0 < x.2 := by
  induction bs generalizing acc with
  | nil => exact h
  | cons b rest ih =>
    simp only [List.foldl_cons]
    exact ih (fun x hx => hp x (List.mem_cons_of_mem _ hx)) _
      (accAdd_pos b.content b.weight (hp b List.mem_cons_self) acc h)

theorem condense_pos (bs : List Ballot) (hp : PosW bs) : PosW (condense bs) := by
  intro b hb
  unfold condense at hb
  obtain ⟨kw, hkw, rfl⟩ := List.mem_map.mp hb
  exact foldl_accAdd_pos bs hp [] (fun x hx => by cases hx) kw hkw

theorem hasContent_condense (bs : List Ballot) (k : Content) : HasContent (condense bs) k ↔ HasContent bs k := by
  have := mem_condense_content bs k
  simp only [List.mem_map] at this
  exact this

theorem bsum_condense (g : Content → Rat) (bs : List Ballot) : bsum g (condense bs) = bsum g bs :=
  sum_condense g bs

theorem RepEq.of_condense (bs : List Ballot) (hp : PosW bs) : RepEq bs (condense bs) :=
  ⟨fun g => (bsum_condense g bs).symm, fun k => (hasContent_condense bs k).symm, hp, condense_pos bs hp⟩

theorem RepEq.condense_both {a b : List Ballot} (h : RepEq a b) : RepEq (condense a) (condense b) :=
  ((RepEq.of_condense a h.pos).symm.trans h).trans (RepEq.of_condense b h.pos')

/-! ### scoring -/

theorem any_of_same {a b : List Ballot} (h : ∀ k, HasContent a k ↔ HasContent b k) (P : Content → Bool) :
    a.any (fun x => P x.content) = b.any (fun x => P x.content) := by
  rw [Bool.eq_iff_iff]; simp only [List.any_eq_true]
  constructor
  · rintro ⟨x, hx, hp⟩
    obtain ⟨y, hy, e⟩ := (h x.content).mp ⟨x, hx, rfl⟩
    exact ⟨y, hy, by rw [e]; exact hp⟩
  · rintro ⟨x, hx, hp⟩
    obtain ⟨y, hy, e⟩ := (h x.content).mpr ⟨x, hx, rfl⟩
    exact ⟨y, hy, by rw [e]; exact hp⟩

theorem all_of_same {a b : List Ballot} (h : ∀ k, HasContent a k ↔ HasContent b k) (P : Content → Bool) :
    a.all (fun x => P x.content) = b.all (fun x => P x.content) := by
  have := any_of_same h (fun k => !P k)
  rw [Bool.eq_iff_iff] at this ⊢
  simp only [List.any_eq_true, List.all_eq_true, Bool.not_eq_true'] at this ⊢
  constructor
  · intro ha x hx
    by_contra hc
    obtain ⟨y, hy, hy'⟩ := this.mpr ⟨x, hx, by simpa using hc⟩
    rw [ha y hy] at hy'; cases hy'
  · intro hb x hx
    by_contra hc
    obtain ⟨y, hy, hy'⟩ := this.mp ⟨x, hx, by simpa using hc⟩
    rw [hb y hy] at hy'; cases hy'

/-- ranking `add_missing_cands` gives a ballot: a function of its ranking -/
def amr (cands : List Cand) (r : Ranking) : Ranking :=
  if (missingCands cands r).isEmpty then r else r ++ [missingCands cands r]

theorem addMissingBallot_ranking_eq (cands : List Cand) (b : Ballot) :
    (addMissingBallot cands b).ranking = amr cands b.ranking := by
  unfold addMissingBallot amr; rfl

theorem scoreFromRankings_rep (cands : List Cand) (a b : List Ballot) (h : RepEq a b) (v : List Rat) :
    scoreFromRankings { ballots := a, cands := cands } v = scoreFromRankings { ballots := b, cands := cands } v := by
  by_cases hv : validVector v = true
  · have hany : a.any (fun x => x.ranking.isEmpty) = b.any (fun x => x.ranking.isEmpty) :=
      any_of_same h.same (fun k => k.1.isEmpty)
    by_cases hr : ∀ x ∈ a, x.ranking ≠ []
    · have hr' : ∀ x ∈ b, x.ranking ≠ [] := by
        intro x hx e
        have : b.any (fun x => x.ranking.isEmpty) = true := List.any_eq_true.mpr ⟨x, hx, by simp [e]⟩
        rw [← hany] at this
        obtain ⟨y, hy, hy'⟩ := List.any_eq_true.mp this
        exact hr y hy (by simpa using hy')
      rw [scoreFromRankings_eq _ v hv (show ∀ x ∈ ({ ballots := a, cands := cands } : Profile).ballots, x.ranking ≠ [] from hr),
        scoreFromRankings_eq _ v hv (show ∀ x ∈ ({ ballots := b, cands := cands } : Profile).ballots, x.ranking ≠ [] from hr')]
      congr 1
      apply List.map_congr_left; intro c _
      simp only [Prod.mk.injEq, true_and, addMissingBallot_ranking_eq]
      exact h.lin (fun k => ballotPoints (padVector v cands.length) (amr cands k.1) c)
    · have ha : a.any (fun x => x.ranking.isEmpty) = true := by
        push Not at hr
        obtain ⟨x, hx, e⟩ := hr
        exact List.any_eq_true.mpr ⟨x, hx, by simp [e]⟩
      have hb : b.any (fun x => x.ranking.isEmpty) = true := by rw [← hany]; exact ha
      simp [scoreFromRankings, addMissing, hv, ha, hb]
  · simp [scoreFromRankings, hv]

theorem scoreFromBallotScores_rep (cands : List Cand) (a b : List Ballot) (h : RepEq a b) :
    scoreFromBallotScores { ballots := a, cands := cands } = scoreFromBallotScores { ballots := b, cands := cands } := by
  unfold scoreFromBallotScores
  have h1 : a.any (fun x => x.scores.isEmpty) = b.any (fun x => x.scores.isEmpty) :=
    any_of_same h.same (fun k => k.2.isEmpty)
  have h2 : a.any (fun x => x.scores.any (fun cs => !cands.contains cs.1)) =
      b.any (fun x => x.scores.any (fun cs => !cands.contains cs.1)) :=
    any_of_same h.same (fun k => k.2.any (fun cs => !cands.contains cs.1))
  simp only [h1, h2]
  split
  · rfl
  · split
    · rfl
    · congr 1
      apply List.map_congr_left; intro c _
      simp only [Prod.mk.injEq, true_and]
      exact h.lin (fun k => rsum ((k.2.filter (fun cs => cs.1 = c)).map (·.2)))

/-! ### remove_cand -/

def scrubC (e : List Cand) (k : Content) : Content := (scrubRanking e k.1, scrubScores e k.2)
def exhaustedC (e : List Cand) (k : Content) : Bool := (scrubRanking e k.1).isEmpty && (scrubScores e k.2).isEmpty

def kept (e : List Cand) (bs : List Ballot) : List Ballot :=
  (bs.map (scrubBallot e)).filter (fun b => decide (0 < b.weight))

theorem removeCandBallots_eq (e : List Cand) (bs : List Ballot) :
    removeCandBallots e bs true false = condense (kept e bs) := by
  unfold removeCandBallots scrubBallots kept; simp

theorem kept_cons_pos (e : List Cand) (b : Ballot) (rest : List Ballot) (hw : 0 < b.weight) :
    kept e (b :: rest) =
      if exhaustedC e b.content then kept e rest
      else ⟨scrubRanking e b.ranking, b.weight, scrubScores e b.scores⟩ :: kept e rest := by
  unfold kept exhaustedC
  simp only [List.map_cons, List.filter_cons, scrubBallot, Ballot.content]
  by_cases h : ((scrubRanking e b.ranking).isEmpty && (scrubScores e b.scores).isEmpty) = true
  · simp [h]
  · simp [h, hw]

theorem bsum_kept (e : List Cand) (g : Content → Rat) (bs : List Ballot) (hp : PosW bs) :
    bsum g (kept e bs) = bsum (fun k => if exhaustedC e k then 0 else g (scrubC e k)) bs := by
  induction bs with
  | nil => rfl
  | cons b rest ih =>
    rw [kept_cons_pos e b rest (hp b List.mem_cons_self)]
    have ih' := ih (fun x hx => hp x (List.mem_cons_of_mem _ hx))
    cases hx : exhaustedC e b.content with
    | true =>
      simp only [if_true]
      rw [ih']
      simp only [bsum, List.map_cons, rsum, hx, if_true, zero_mul, zero_add]
    | false =>
      simp only [Bool.false_eq_true, if_false]
      simp only [bsum, List.map_cons, rsum, hx, Bool.false_eq_true, if_false] at ih' ⊢
      rw [ih']
      rfl

theorem hasContent_kept (e : List Cand) (bs : List Ballot) (hp : PosW bs) (k' : Content) :
    HasContent (kept e bs) k' ↔ ∃ k, HasContent bs k ∧ exhaustedC e k = false ∧ scrubC e k = k' := by
  induction bs with
  | nil => simp [HasContent, kept]
  | cons b rest ih =>
    rw [kept_cons_pos e b rest (hp b List.mem_cons_self)]
    have ih' := ih (fun x hx => hp x (List.mem_cons_of_mem _ hx))
    by_cases hx : exhaustedC e b.content = true
    · simp only [hx, if_true]
      rw [ih']
      constructor
      · rintro ⟨k, ⟨x, hxm, e1⟩, h2, h3⟩
        exact ⟨k, ⟨x, List.mem_cons_of_mem _ hxm, e1⟩, h2, h3⟩
      · rintro ⟨k, ⟨x, hxm, e1⟩, h2, h3⟩
        rcases List.mem_cons.mp hxm with rfl | hxm
        · rw [e1] at hx; rw [hx] at h2; cases h2
        · exact ⟨k, ⟨x, hxm, e1⟩, h2, h3⟩
    · have hx' : exhaustedC e b.content = false := by simpa using hx
      simp only [hx]
      constructor
      · rintro ⟨x, hxm, e1⟩
        rcases List.mem_cons.mp hxm with rfl | hxm
        · exact ⟨b.content, ⟨b, List.mem_cons_self, rfl⟩, hx', e1⟩
        · obtain ⟨k, ⟨y, hy, e2⟩, h2, h3⟩ := ih'.mp ⟨x, hxm, e1⟩
          exact ⟨k, ⟨y, List.mem_cons_of_mem _ hy, e2⟩, h2, h3⟩
      · rintro ⟨k, ⟨x, hxm, e1⟩, h2, h3⟩
        rcases List.mem_cons.mp hxm with rfl | hxm
        · exact ⟨_, List.mem_cons_self, by rw [← h3, ← e1]; rfl⟩
        · obtain ⟨y, hy, e2⟩ := ih'.mpr ⟨k, ⟨x, hxm, e1⟩, h2, h3⟩
          exact ⟨y, List.mem_cons_of_mem _ hy, e2⟩

theorem posW_kept (e : List Cand) (bs : List Ballot) : PosW (kept e bs) := by
  intro b hb
  have := (List.mem_filter.mp hb).2
  simpa using this

theorem RepEq.kept {a b : List Ballot} (h : RepEq a b) (e : List Cand) : RepEq (kept e a) (kept e b) := by
  refine ⟨fun g => ?_, fun k' => ?_, posW_kept e a, posW_kept e b⟩
  · rw [bsum_kept e g a h.pos, bsum_kept e g b h.pos']; exact h.lin _
  · rw [hasContent_kept e a h.pos, hasContent_kept e b h.pos']
    constructor
    · rintro ⟨k, hk, h2, h3⟩; exact ⟨k, (h.same k).mp hk, h2, h3⟩
    · rintro ⟨k, hk, h2, h3⟩; exact ⟨k, (h.same k).mpr hk, h2, h3⟩

/-- **`remove_cand` respects the representation.** -/
theorem RepEq.removeCand {a b : List Ballot} (h : RepEq a b) (e : List Cand) :
    RepEq (removeCandBallots e a true false) (removeCandBallots e b true false) := by
  rw [removeCandBallots_eq, removeCandBallots_eq]
  exact (h.kept e).condense_both

end VK
