/-
  VK.Lemmas.Fill — the code computes head-to-head counts by expanding every short ballot into all
  its completions (`ballot_fill`); this file proves that the result is the declarative share:
  listed beats unlisted, two unlisted candidates split the ballot evenly.
-/
import VK.Model.Pairwise
import VK.Props.C12
import Mathlib.Data.List.Perm.Subperm

namespace VK

/-- what a *complete* ranking gives to "a over b" -/
def cshare (r : List Cand) (a b : Cand) : Rat :=
  match posOf r a, posOf r b with
  | some i, some j => if i < j then 1 else 0
  | some _, none => 1
  | _, _ => 0

theorem posOf_of_mem (r : List Cand) (c : Cand) (h : c ∈ r) :
    posOf r c = some (r.findIdx (· = c)) ∧ r.findIdx (· = c) < r.length := by
  have : r.findIdx (· = c) < r.length := by
    rw [List.findIdx_lt_length]; exact ⟨c, h, by simp⟩
  exact ⟨by simp [posOf, this], this⟩

theorem posOf_of_not_mem (r : List Cand) (c : Cand) (h : c ∉ r) : posOf r c = none := by
  have : ¬ r.findIdx (· = c) < r.length := by
    rw [List.findIdx_lt_length]; simpa using h
  simp [posOf, this]

theorem posOf_append_left (r o : List Cand) (c : Cand) (h : c ∈ r) : posOf (r ++ o) c = posOf r c := by
  obtain ⟨h1, h2⟩ := posOf_of_mem r c h
  obtain ⟨h3, _⟩ := posOf_of_mem (r ++ o) c (List.mem_append_left _ h)
  rw [h1, h3, List.findIdx_append]
  simp [h2]

theorem posOf_append_right (r o : List Cand) (c : Cand) (h : c ∉ r) (ho : c ∈ o) :
    posOf (r ++ o) c = some (r.length + o.findIdx (· = c)) := by
  obtain ⟨h3, _⟩ := posOf_of_mem (r ++ o) c (List.mem_append_right _ ho)
  have hr : ¬ r.findIdx (· = c) < r.length := by
    rw [List.findIdx_lt_length]; simpa using h
  rw [h3, List.findIdx_append]
  simp [hr, Nat.add_comm]

/-- swapping two candidates -/
def swapC (a b c : Cand) : Cand := if c = a then b else if c = b then a else c

theorem swapC_invol (a b c : Cand) : swapC a b (swapC a b c) = c := by
  unfold swapC
  by_cases h1 : c = a
  · subst h1
    by_cases h2 : b = c
    · simp [h2]
    · simp [h2]
  · by_cases h2 : c = b
    · subst h2; simp [h1]
    · simp [h1, h2]

theorem swapC_inj (a b : Cand) : Function.Injective (swapC a b) := by
  intro x y h
  have := congrArg (swapC a b) h
  rwa [swapC_invol, swapC_invol] at this

theorem swapC_eq_a_iff (a b x : Cand) (hab : a ≠ b) : swapC a b x = a ↔ x = b := by
  unfold swapC
  by_cases h1 : x = a
  · subst h1
    simp only [if_true]
    constructor
    · intro h; exact absurd h.symm hab
    · intro h; exact absurd h hab
  · by_cases h2 : x = b
    · simp [h1, h2]
    · simp [h1, h2]

theorem findIdx_map_swap (a b : Cand) (hab : a ≠ b) (o : List Cand) :
    (o.map (swapC a b)).findIdx (· = a) = o.findIdx (· = b) := by
  induction o with
  | nil => rfl
  | cons x xs ih =>
    rw [List.map_cons, List.findIdx_cons, List.findIdx_cons, ih]
    by_cases hx : x = b
    · subst hx
      have := (swapC_eq_a_iff a x x hab).2 rfl
      simp [this]
    · have hx' : ¬ swapC a b x = a := fun h => hx ((swapC_eq_a_iff a b x hab).1 h)
      simp [hx, hx']

theorem findIdx_map_swap' (a b : Cand) (hab : a ≠ b) (o : List Cand) :
    (o.map (swapC a b)).findIdx (· = b) = o.findIdx (· = a) := by
  have h := findIdx_map_swap b a hab.symm o
  have hs : swapC b a = swapC a b := by
    funext c
    unfold swapC
    by_cases h1 : c = a
    · subst h1; simp [hab]
    · by_cases h2 : c = b
      · subst h2; simp [hab.symm]
      · simp [h1, h2]
  rw [hs] at h; exact h

/-- "a comes before b" in an order that lists both -/
def beforeIn (o : List Cand) (a b : Cand) : Rat := if o.findIdx (· = a) < o.findIdx (· = b) then 1 else 0

theorem beforeIn_swap (a b : Cand) (hab : a ≠ b) (o : List Cand) :
    beforeIn (o.map (swapC a b)) a b = beforeIn o b a := by
  unfold beforeIn
  rw [findIdx_map_swap a b hab, findIdx_map_swap' a b hab]

theorem beforeIn_add (o : List Cand) (a b : Cand) (hab : a ≠ b) (ha : a ∈ o) (hb : b ∈ o) :
    beforeIn o a b + beforeIn o b a = 1 := by
  unfold beforeIn
  have hia : o.findIdx (· = a) < o.length := by rw [List.findIdx_lt_length]; exact ⟨a, ha, by simp⟩
  have hib : o.findIdx (· = b) < o.length := by rw [List.findIdx_lt_length]; exact ⟨b, hb, by simp⟩
  have hne : o.findIdx (· = a) ≠ o.findIdx (· = b) := by
    intro e
    have h1 := List.findIdx_getElem (w := hia) (p := (· = a)) (xs := o)
    have h2 := List.findIdx_getElem (w := hib) (p := (· = b)) (xs := o)
    simp only [decide_eq_true_eq] at h1 h2
    have : o[o.findIdx (· = a)] = o[o.findIdx (· = b)] := by simp [e]
    rw [h1, h2] at this; exact hab this
  rcases Nat.lt_or_gt_of_ne hne with h | h
  · have : ¬ o.findIdx (· = b) < o.findIdx (· = a) := by omega
    simp [h, this]
  · have : ¬ o.findIdx (· = a) < o.findIdx (· = b) := by omega
    simp [h, this]

/-- the swap permutes the list of all orders of a set containing both candidates -/
theorem perms_map_swap_perm (miss : List Cand) (a b : Cand) (hm : miss.Nodup) (ha : a ∈ miss) (hb : b ∈ miss) :
    ((perms miss).map (fun o => o.map (swapC a b))).Perm (perms miss) := by
  have hn := perms_nodup miss hm
  have hmapn : ((perms miss).map (fun o => o.map (swapC a b))).Nodup :=
    hn.map (List.map_injective_iff.2 (swapC_inj a b))
  apply (List.perm_ext_iff_of_nodup hmapn hn).2
  have hswapmiss : (miss.map (swapC a b)).Perm miss := by
    apply (List.perm_ext_iff_of_nodup (hm.map (swapC_inj a b)) hm).2
    intro c
    simp only [List.mem_map]
    constructor
    · rintro ⟨x, hx, rfl⟩
      unfold swapC
      by_cases h1 : x = a
      · simp [h1, hb]
      · by_cases h2 : x = b
        · subst h2
          have hne : ¬ x = a := h1
          simp [hne, ha]
        · simp [h1, h2, hx]
    · intro hc
      refine ⟨swapC a b c, ?_, swapC_invol a b c⟩
      unfold swapC
      by_cases h1 : c = a
      · simp [h1, hb]
      · by_cases h2 : c = b
        · subst h2
          have hne : ¬ c = a := h1
          simp [hne, ha]
        · simp [h1, h2, hc]
  intro o
  simp only [List.mem_map]
  constructor
  · rintro ⟨o', ho', rfl⟩
    rw [mem_perms_iff] at ho' ⊢
    exact (ho'.map _).trans hswapmiss
  · intro ho
    refine ⟨o.map (swapC a b), ?_, ?_⟩
    · rw [mem_perms_iff] at ho ⊢
      exact (ho.map _).trans hswapmiss
    · rw [List.map_map]
      have : (swapC a b ∘ swapC a b) = id := by funext c; exact swapC_invol a b c
      rw [this, List.map_id]

/-- **Half of the orders put `a` before `b`.** -/
theorem sum_before_half (miss : List Cand) (a b : Cand) (hab : a ≠ b) (hm : miss.Nodup) (ha : a ∈ miss) (hb : b ∈ miss) :
    2 * rsum ((perms miss).map (fun o => beforeIn o a b)) = ((perms miss).length : Rat) := by
  have hperm := perms_map_swap_perm miss a b hm ha hb
  have h1 : rsum ((perms miss).map (fun o => beforeIn o a b)) =
      rsum (((perms miss).map (fun o => o.map (swapC a b))).map (fun o => beforeIn o a b)) := by
    rw [rsum_eq_sum, rsum_eq_sum]
    exact ((hperm.map _).sum_eq).symm
  have h2 : rsum (((perms miss).map (fun o => o.map (swapC a b))).map (fun o => beforeIn o a b)) =
      rsum ((perms miss).map (fun o => beforeIn o b a)) := by
    rw [List.map_map]
    congr 1
    apply List.map_congr_left
    intro o _
    exact beforeIn_swap a b hab o
  have h3 : rsum ((perms miss).map (fun o => beforeIn o a b)) + rsum ((perms miss).map (fun o => beforeIn o b a)) =
      ((perms miss).length : Rat) := by
    rw [← rsum_map_add]
    have : ∀ o ∈ perms miss, beforeIn o a b + beforeIn o b a = 1 := by
      intro o ho
      have hp := (mem_perms_iff miss o).1 ho
      exact beforeIn_add o a b hab (hp.mem_iff.2 ha) (hp.mem_iff.2 hb)
    rw [List.map_congr_left this]
    simp [rsum_replicate]
  rw [← h2, ← h1] at h3
  linarith

/-! ### one ballot -/

theorem C06_prefShare_cases' (r : List Cand) (a b : Cand) (hab : a ≠ b) :
    (a ∈ r → b ∉ r → prefShare r a b = 1 ∧ prefShare r b a = 0) ∧
    (a ∉ r → b ∉ r → prefShare r a b = 1 / 2) ∧ True := by
  refine ⟨?_, ?_, trivial⟩
  · intro ha hb
    obtain ⟨h1, _⟩ := posOf_of_mem r a ha
    simp [prefShare, h1, posOf_of_not_mem r b hb]
  · intro ha hb
    simp [prefShare, posOf_of_not_mem r a ha, posOf_of_not_mem r b hb]


theorem cshare_append_both_listed (r o : List Cand) (a b : Cand) (ha : a ∈ r) (hb : b ∈ r) :
    cshare (r ++ o) a b = prefShare r a b := by
  unfold cshare prefShare
  rw [posOf_append_left r o a ha, posOf_append_left r o b hb]
  obtain ⟨h1, _⟩ := posOf_of_mem r a ha
  obtain ⟨h2, _⟩ := posOf_of_mem r b hb
  rw [h1, h2]

theorem rsum_const_mul {α} (l : List α) (x : Rat) : rsum (l.map (fun _ => x)) = (l.length : Rat) * x := by
  induction l with
  | nil => simp
  | cons y ys ih => simp only [List.map_cons, rsum_cons, ih, List.length_cons]; push_cast; ring

/-- **One ballot: expanding into all completions gives the declarative share.** -/
theorem fill_one (cands : List Cand) (bl : Ballot) (a b : Cand) (hc : cands.Nodup) (hab : a ≠ b)
    (ha : a ∈ cands) (hb : b ∈ cands)
    (hrn : bl.ranking.flatten.Nodup) (hrs : ∀ c ∈ bl.ranking.flatten, c ∈ cands)
    (hlen : bl.ranking.length = bl.ranking.flatten.length) :
    rsum ((fillBallot cands bl).map (fun rw => cshare rw.1 a b * rw.2)) =
      prefShare bl.ranking.flatten a b * bl.weight := by
  set r := bl.ranking.flatten with hr
  unfold fillBallot
  simp only [← hr]
  by_cases hshort : bl.ranking.length < cands.length
  · simp only [hshort, if_true]
    set miss := cands.filter (fun c => !r.contains c) with hmiss
    have hmn : miss.Nodup := hc.filter _
    have hK : (0 : Rat) < ((perms miss).length : Rat) := by
      rw [perms_length]; exact_mod_cast fact_pos _
    have hKne : ((perms miss).length : Rat) ≠ 0 := ne_of_gt hK
    have hmem_miss : ∀ c, c ∈ miss ↔ c ∈ cands ∧ c ∉ r := by
      intro c; rw [hmiss, List.mem_filter]; simp
    rw [List.map_map]
    by_cases har : a ∈ r <;> by_cases hbr : b ∈ r
    · -- both listed
      have : ∀ o ∈ perms miss, (cshare (r ++ o) a b * (bl.weight / ((perms miss).length : Rat))) =
          prefShare r a b * (bl.weight / ((perms miss).length : Rat)) := by
        intro o _; rw [cshare_append_both_listed r o a b har hbr]
      simp only [Function.comp_def]
      rw [List.map_congr_left this, rsum_const_mul]
      field_simp
    · -- a listed, b not: a wins every completion
      have hbm : b ∈ miss := (hmem_miss b).2 ⟨hb, hbr⟩
      have : ∀ o ∈ perms miss, (cshare (r ++ o) a b * (bl.weight / ((perms miss).length : Rat))) =
          1 * (bl.weight / ((perms miss).length : Rat)) := by
        intro o ho
        have hbo : b ∈ o := ((mem_perms_iff miss o).1 ho).mem_iff.2 hbm
        unfold cshare
        rw [posOf_append_left r o a har, posOf_append_right r o b hbr hbo]
        obtain ⟨h1, h2⟩ := posOf_of_mem r a har
        rw [h1]
        have : r.findIdx (· = a) < r.length + o.findIdx (· = b) := by omega
        simp [this]
      simp only [Function.comp_def]
      rw [List.map_congr_left this, rsum_const_mul]
      have := (C06_prefShare_cases' r a b hab).1 har hbr
      rw [this.1]; field_simp
    · -- b listed, a not
      have ham : a ∈ miss := (hmem_miss a).2 ⟨ha, har⟩
      have : ∀ o ∈ perms miss, (cshare (r ++ o) a b * (bl.weight / ((perms miss).length : Rat))) = 0 := by
        intro o ho
        have hao : a ∈ o := ((mem_perms_iff miss o).1 ho).mem_iff.2 ham
        unfold cshare
        rw [posOf_append_left r o b hbr, posOf_append_right r o a har hao]
        obtain ⟨h1, h2⟩ := posOf_of_mem r b hbr
        rw [h1]
        have : ¬ (r.length + o.findIdx (· = a) < r.findIdx (· = b)) := by omega
        simp [this]
      simp only [Function.comp_def]
      rw [List.map_congr_left this]
      have := (C06_prefShare_cases' r b a hab.symm).1 hbr har
      rw [this.2]; simp [rsum_replicate]
    · -- both unlisted: half of the completions
      have ham : a ∈ miss := (hmem_miss a).2 ⟨ha, har⟩
      have hbm : b ∈ miss := (hmem_miss b).2 ⟨hb, hbr⟩
      have : ∀ o ∈ perms miss, (cshare (r ++ o) a b * (bl.weight / ((perms miss).length : Rat))) =
          beforeIn o a b * (bl.weight / ((perms miss).length : Rat)) := by
        intro o ho
        have hp := (mem_perms_iff miss o).1 ho
        have hao : a ∈ o := hp.mem_iff.2 ham
        have hbo : b ∈ o := hp.mem_iff.2 hbm
        unfold cshare beforeIn
        rw [posOf_append_right r o a har hao, posOf_append_right r o b hbr hbo]
        by_cases hlt : o.findIdx (· = a) < o.findIdx (· = b)
        · have : r.length + o.findIdx (· = a) < r.length + o.findIdx (· = b) := by omega
          simp [hlt, this]
        · have : ¬ (r.length + o.findIdx (· = a) < r.length + o.findIdx (· = b)) := by omega
          simp [hlt, this]
      simp only [Function.comp_def]
      rw [List.map_congr_left this, rsum_map_mul_right]
      have hhalf := sum_before_half miss a b hab hmn ham hbm
      have := (C06_prefShare_cases' r a b hab).2.1 har hbr
      rw [this]
      field_simp
      rw [← hhalf]; ring
  · -- complete ballot: every candidate is listed
    simp only [hshort, if_false, List.map_cons, List.map_nil, rsum_cons, rsum_nil, add_zero]
    have hsub : cands.Subperm r := by
      have h1 : r.Subperm cands := List.subperm_of_subset hrn hrs
      have h2 : cands.length ≤ r.length := by rw [← hlen]; omega
      exact (h1.perm_of_length_le h2).symm.subperm
    have har : a ∈ r := hsub.subset ha
    have hbr : b ∈ r := hsub.subset hb
    have := cshare_append_both_listed r [] a b har hbr
    rw [List.append_nil] at this
    rw [this]

theorem fill_term (r : List Cand) (w : Rat) (a b : Cand) :
    (match posOf r a, posOf r b with
      | some i, some j => if i < j then w else 0
      | some _, none => w
      | _, _ => 0) = cshare r a b * w := by
  unfold cshare
  cases posOf r a with
  | none => simp
  | some i =>
    cases posOf r b with
    | none => simp
    | some j => by_cases h : i < j <;> simp [h]

/-- **`ballot_fill` computes the declarative head-to-head count.** For a profile of untied ranked
ballots over duplicate-free declared candidates and two different declared candidates, counting
"a above b" on the profile in which every short ballot is replaced by all its completions (equal
weights) gives exactly: listed beats unlisted, two unlisted candidates split the ballot evenly. -/
theorem h2hFill_eq_h2h (p : Profile) (a b : Cand) (hc : p.cands.Nodup) (hab : a ≠ b)
    (ha : a ∈ p.cands) (hb : b ∈ p.cands)
    (hrn : ∀ bl ∈ p.ballots, bl.ranking.flatten.Nodup)
    (hrs : ∀ bl ∈ p.ballots, ∀ c ∈ bl.ranking.flatten, c ∈ p.cands)
    (hlen : ∀ bl ∈ p.ballots, bl.ranking.length = bl.ranking.flatten.length) :
    h2hFill p a b = h2hFlat p a b := by
  have hform : h2hFill p a b =
      rsum ((p.ballots.flatMap (fillBallot p.cands)).map (fun rw => cshare rw.1 a b * rw.2)) := by
    unfold h2hFill
    congr 1
    apply List.map_congr_left
    intro rw _
    exact fill_term rw.1 rw.2 a b
  rw [hform]
  unfold h2hFlat
  generalize hbs : p.ballots = bs at hrn hrs hlen
  clear hbs
  induction bs with
  | nil => simp
  | cons bl rest ih =>
    simp only [List.flatMap_cons, List.map_append, rsum_append, List.map_cons, rsum_cons]
    rw [fill_one p.cands bl a b hc hab ha hb (hrn bl (by simp)) (hrs bl (by simp)) (hlen bl (by simp))]
    rw [ih (fun x hx => hrn x (by simp [hx])) (fun x hx => hrs x (by simp [hx])) (fun x hx => hlen x (by simp [hx]))]

end VK
