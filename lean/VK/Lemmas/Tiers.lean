/-
  VK.Lemmas.Tiers — dominating tiers in a semicomplete digraph (abstract part) and the
  correctness of the executable bounded reachability.
-/
import VK.Model.Pairwise
import Mathlib.Logic.Relation
import Mathlib.Data.List.Basic
import Mathlib.Tactic.Linarith

namespace VK
namespace Tiers

/-- edge relation restricted to the candidate list -/
def Edge (cands : List Cand) (E : Cand → Cand → Bool) (a b : Cand) : Prop :=
  a ∈ cands ∧ b ∈ cands ∧ E a b = true

/-- reachability inside the candidate list -/
abbrev R (cands : List Cand) (E : Cand → Cand → Bool) : Cand → Cand → Prop :=
  Relation.ReflTransGen (Edge cands E)

/-- between two different candidates there is an edge in at least one direction -/
def Total (cands : List Cand) (E : Cand → Cand → Bool) : Prop :=
  ∀ a ∈ cands, ∀ b ∈ cands, a ≠ b → E a b = true ∨ E b a = true

theorem comparable {cands : List Cand} {E} (ht : Total cands E) {a b : Cand}
    (ha : a ∈ cands) (hb : b ∈ cands) : R cands E a b ∨ R cands E b a := by
  by_cases h : a = b
  · subst h; exact Or.inl .refl
  · rcases ht a ha b hb h with h1 | h1
    · exact Or.inl (.single ⟨ha, hb, h1⟩)
    · exact Or.inr (.single ⟨hb, ha, h1⟩)

/-- path crossing: if a path goes from outside `P` to inside `P`, some edge crosses. -/
theorem crossing {cands : List Cand} {E} (P : Cand → Prop) {b a : Cand}
    (h : R cands E b a) (hb : ¬ P b) (ha : P a) :
    ∃ x y, R cands E b x ∧ Edge cands E x y ∧ R cands E y a ∧ ¬ P x ∧ P y := by
  induction h using Relation.ReflTransGen.head_induction_on with
  | refl => exact absurd ha hb
  | head hxy hya ih =>
    rename_i x y
    by_cases hy : P y
    · exact ⟨x, y, .refl, hxy, hya, hb, hy⟩
    · obtain ⟨u, v, h1, h2, h3, h4, h5⟩ := ih hy
      exact ⟨u, v, .head hxy h1, h2, h3, h4, h5⟩

theorem filter_length_le {l : List Cand} {p q : Cand → Bool} (hpq : ∀ c ∈ l, p c = true → q c = true) :
    (l.filter p).length ≤ (l.filter q).length := by
  induction l with
  | nil => simp
  | cons x xs ih =>
    have := ih (fun c hc => hpq c (by simp [hc]))
    by_cases h1 : p x = true
    · simp [h1, hpq x (by simp) h1]; omega
    · by_cases h2 : q x = true
      · simp [h1, h2]; omega
      · simp [h1, h2]; omega

theorem filter_length_lt {l : List Cand} {p q : Cand → Bool} (hpq : ∀ c ∈ l, p c = true → q c = true)
    {a : Cand} (ha : a ∈ l) (hq : q a = true) (hp : p a = false) :
    (l.filter p).length < (l.filter q).length := by
  induction l with
  | nil => cases ha
  | cons x xs ih =>
    have hle : (xs.filter p).length ≤ (xs.filter q).length :=
      filter_length_le (fun c hc => hpq c (by simp [hc]))
    rcases List.mem_cons.1 ha with rfl | hmem
    · simp [hq, hp]; omega
    · have := ih (fun c hc => hpq c (by simp [hc])) hmem
      by_cases h1 : p x = true
      · simp [h1, hpq x (by simp) h1]; omega
      · by_cases h2 : q x = true
        · simp [h1, h2]; omega
        · simp [h1, h2]; omega

open Classical in
/-- reach count including self, as a specification -/
noncomputable def rc (cands : List Cand) (E : Cand → Cand → Bool) (a : Cand) : Nat :=
  (cands.filter (fun b => decide (R cands E a b))).length

theorem rc_mono {cands : List Cand} {E} {a b : Cand} (h : R cands E a b) :
    rc cands E b ≤ rc cands E a := by
  unfold rc
  apply List.Sublist.length_le
  apply List.monotone_filter_right
  intro c hc
  simp only [decide_eq_true_eq] at hc ⊢
  exact h.trans hc

theorem rc_strict {cands : List Cand} {E} {a b : Cand} (ha : a ∈ cands)
    (h : R cands E a b) (h' : ¬ R cands E b a) :
    rc cands E b < rc cands E a := by
  unfold rc
  apply filter_length_lt (a := a) _ ha
  · simpa using (Relation.ReflTransGen.refl : R cands E a a)
  · simpa using h'
  · intro c _ hc; simp only [decide_eq_true_eq] at hc ⊢; exact h.trans hc

/-- a strictly larger reach count means a strict head-to-head win -/
theorem beats_of_rc_lt {cands : List Cand} {E} (ht : Total cands E) {a b : Cand}
    (ha : a ∈ cands) (hb : b ∈ cands) (hlt : rc cands E b < rc cands E a) :
    E a b = true ∧ E b a = false := by
  have hne : a ≠ b := by rintro rfl; exact lt_irrefl _ hlt
  have hba : E b a = false := by
    by_contra hc
    have hc' : E b a = true := by simpa using hc
    have := rc_mono (cands := cands) (E := E) (Relation.ReflTransGen.single ⟨hb, ha, hc'⟩)
    omega
  refine ⟨?_, hba⟩
  rcases ht a ha b hb hne with h1 | h1
  · exact h1
  · rw [hba] at h1; cases h1

/-- same count ⇒ mutually reachable -/
theorem mutual_of_rc_eq {cands : List Cand} {E} (ht : Total cands E) {a b : Cand}
    (ha : a ∈ cands) (hb : b ∈ cands) (heq : rc cands E a = rc cands E b) :
    R cands E a b ∧ R cands E b a := by
  rcases comparable ht ha hb with h | h
  · refine ⟨h, ?_⟩
    by_contra hc
    have := rc_strict ha h hc; omega
  · refine ⟨?_, h⟩
    by_contra hc
    have := rc_strict hb h hc; omega

/-- a tier (set of equal reach count) cannot be split into a part `A` that strictly beats the rest:
some member outside `A` has an edge into `A`. -/
theorem tier_unsplittable {cands : List Cand} {E} (ht : Total cands E)
    (A : Cand → Prop) {a b : Cand} (ha : a ∈ cands) (hb : b ∈ cands)
    (heq : rc cands E a = rc cands E b) (hA : A a) (hB : ¬ A b) :
    ∃ x y, x ∈ cands ∧ y ∈ cands ∧ rc cands E x = rc cands E a ∧ rc cands E y = rc cands E a ∧
      ¬ A x ∧ A y ∧ E x y = true := by
  obtain ⟨hab, hba⟩ := mutual_of_rc_eq ht ha hb heq
  obtain ⟨x, y, hbx, hxy, hya, hx, hy⟩ := crossing A hba hB hA
  refine ⟨x, y, hxy.1, hxy.2.1, ?_, ?_, hx, hy, hxy.2.2⟩
  · have h1 := rc_mono hbx
    have h2 := rc_mono (((Relation.ReflTransGen.single hxy).trans hya))
    omega
  · have h1 := rc_mono hya
    have h2 := rc_mono (hbx.trans (Relation.ReflTransGen.single hxy))
    omega

end Tiers
end VK
