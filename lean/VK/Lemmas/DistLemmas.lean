/-
  VK.Lemmas.DistLemmas — probability of a value under bind / weighted / uniform.
-/
import VK.Model.Dist
import VK.Lemmas.Sum
import Mathlib.Tactic.FieldSimp

namespace VK
namespace Dist

theorem prob_mk_cons {α} [DecidableEq α] (a : α) (q : Rat) (l : List (α × Rat)) (x : α) :
    prob ⟨(a, q) :: l⟩ x = (if a = x then q else 0) + prob ⟨l⟩ x := by
  unfold prob
  by_cases h : a = x
  · simp [h]
  · simp [h]

theorem prob_mk_append {α} [DecidableEq α] (l₁ l₂ : List (α × Rat)) (x : α) :
    prob ⟨l₁ ++ l₂⟩ x = prob ⟨l₁⟩ x + prob ⟨l₂⟩ x := by
  unfold prob; simp

theorem prob_scale {α} [DecidableEq α] (l : List (α × Rat)) (c : Rat) (x : α) :
    prob ⟨l.map (fun bq => (bq.1, c * bq.2))⟩ x = c * prob ⟨l⟩ x := by
  induction l with
  | nil => simp [prob]
  | cons e es ih =>
    rw [List.map_cons, prob_mk_cons, ih]
    obtain ⟨a, q⟩ := e
    rw [prob_mk_cons]
    by_cases h : a = x <;> simp [h] <;> ring

/-- total probability: `P(bind d f = x) = Σ_a P(a) · P(f a = x)` -/
theorem prob_bind {α β} [DecidableEq β] (d : Dist α) (f : α → Dist β) (x : β) :
    prob (bind d f) x = rsum (d.supp.map (fun ap => ap.2 * prob (f ap.1) x)) := by
  obtain ⟨l⟩ := d
  unfold bind
  induction l with
  | nil => simp [prob]
  | cons e es ih =>
    simp only [List.flatMap_cons, List.map_cons, rsum_cons]
    rw [prob_mk_append, ih, prob_scale]

theorem prob_pure {α} [DecidableEq α] (a x : α) : prob (pure a) x = if a = x then 1 else 0 := by
  unfold pure; rw [prob_mk_cons]; simp [prob]

theorem prob_uniform {α} [DecidableEq α] (xs : List α) (x : α) :
    prob (uniform xs) x = ((xs.filter (· = x)).length : Rat) * (1 / (xs.length : Rat)) := by
  unfold uniform
  generalize (1 / (xs.length : Rat)) = u
  induction xs with
  | nil => simp [prob]
  | cons a as ih =>
    rw [List.map_cons, prob_mk_cons, ih]
    by_cases h : a = x
    · simp [h]; ring
    · simp [h]


theorem mass_bind {α β} (d : Dist α) (f : α → Dist β) :
    mass (bind d f) = rsum (d.supp.map (fun ap => ap.2 * mass (f ap.1))) := by
  obtain ⟨l⟩ := d
  unfold bind mass
  induction l with
  | nil => simp
  | cons e es ih =>
    simp only [List.flatMap_cons, List.map_append, rsum_append, List.map_cons, rsum_cons, ih]
    congr 1
    simp only [List.map_map, Function.comp_def]
    exact rsum_map_mul_left _ _ _

theorem mass_uniform {α} (xs : List α) (h : xs ≠ []) : mass (uniform xs) = 1 := by
  unfold mass uniform
  simp only [List.map_map, Function.comp_def]
  rw [List.map_const', rsum_replicate]
  have : (xs.length : Rat) ≠ 0 := by
    have : xs.length ≠ 0 := by simpa [List.length_eq_zero_iff] using h
    exact_mod_cast this
  field_simp

theorem mass_weighted {α} (xs : List (α × Rat)) (h : rsum (xs.map (·.2)) ≠ 0) : mass (weighted xs) = 1 := by
  unfold mass weighted
  simp only [List.map_map, Function.comp_def]
  have : (fun aw : α × Rat => aw.2 / rsum (xs.map (·.2))) = fun aw => aw.2 * (rsum (xs.map (·.2)))⁻¹ := by
    funext aw; rw [div_eq_mul_inv]
  rw [this, rsum_map_mul_right]
  exact mul_inv_cancel₀ h

end Dist
end VK
