/-
  VK.Lemmas.Legal — ingredients of "every round is a legal step" (C02): the quota test elects exactly
  the candidates at or above the threshold; the eliminated candidate has a minimal tally; the
  fractional transfers of a round scale exactly the ballots counted for the winners.
-/
import VK.Lemmas.PSC

namespace VK

/-- on a strictly descending list the prefix test `q ≤ ·` selects exactly the entries `≥ q` -/
theorem takeWhile_ge_sorted (l : List Rat) (q : Rat) (hs : l.Pairwise (· > ·)) :
    ∀ v ∈ l, q ≤ v → v ∈ l.takeWhile (fun x => decide (q ≤ x)) := by
  induction l with
  | nil => intro v hv; cases hv
  | cons x xs ih =>
    rw [List.pairwise_cons] at hs
    intro v hv hq
    rcases List.mem_cons.1 hv with h | h
    · subst h; simp [List.takeWhile_cons, hq]
    · have hx : q ≤ x := le_trans hq (le_of_lt (hs.1 v h))
      simp only [List.takeWhile_cons, hx, decide_true, if_true, List.mem_cons]
      exact Or.inr (ih hs.2 v h hq)

theorem takeWhile_map {α β} (f : α → β) (p : β → Bool) (l : List α) :
    (l.map f).takeWhile p = (l.takeWhile (fun a => p (f a))).map f := by
  induction l with
  | nil => rfl
  | cons x xs ih =>
    simp only [List.map_cons, List.takeWhile_cons]
    by_cases h : p (f x) <;> simp [h, ih]

theorem takeWhile_congr_mem {α} (p p' : α → Bool) (l : List α) (h : ∀ x ∈ l, p x = p' x) :
    l.takeWhile p = l.takeWhile p' := by
  induction l with
  | nil => rfl
  | cons x xs ih =>
    simp only [List.takeWhile_cons, h x (by simp)]
    rw [ih (fun y hy => h y (by simp [hy]))]

/-- the group of score `v` passes the quota test exactly when `v ≥ q` (for occurring scores) -/
theorem group_test (sc : List (Cand × Rat)) (q : Rat) (v : Rat) (hk : (sc.map (·.1)).Nodup)
    (hv : v ∈ sc.map (·.2)) :
    (match groupOf sc v with
      | [] => false
      | c :: _ => decide (q ≤ lookupScore sc c)) = decide (q ≤ v) := by
  have hmem : groupOf sc v ∈ scoreToRanking sc := by
    rw [scoreToRanking_eq]
    exact List.mem_map.2 ⟨v, (mem_distinctDesc _ _).2 hv, rfl⟩
  have hne := scoreToRanking_groups_nonempty sc _ hmem
  cases hg : groupOf sc v with
  | nil => exact absurd hg hne
  | cons c rest =>
    simp only
    -- the head carries score v
    have hc : c ∈ groupOf sc v := by rw [hg]; simp
    unfold groupOf at hc
    obtain ⟨cs, hcs, rfl⟩ := List.mem_map.1 hc
    obtain ⟨hm, hv'⟩ := List.mem_filter.1 hcs
    have hv'' : cs.2 = v := by simpa using hv'
    have : lookupScore sc cs.1 = v := by
      obtain ⟨v0, h0⟩ := mem_group_score sc (groupOf sc v) hmem hk
      have hc' : cs.1 ∈ groupOf sc v := by rw [hg]; simp
      have h1 := h0 cs.1 hc'
      have hinj := List.inj_on_of_nodup_map hk h1.1 (by rw [← hv'']; exact hm : (cs.1, v) ∈ sc) rfl
      rw [h1.2]; exact (Prod.mk.inj hinj).2
    rw [this]

/-- **The quota test is exact** (simultaneous mode): the elected candidates are exactly the hopeful
candidates whose tally is at or above the threshold. -/
theorem simultaneous_winners_exact (S : CState) (prev : RoundState) (q : Int) (hl : Linked S prev)
    (hn : S.hopeful.Nodup) (c : Cand) :
    c ∈ (prev.remaining.takeWhile (fun g =>
      match g with
      | [] => false
      | c :: _ => decide ((q : Rat) ≤ lookupScore prev.scores c))).flatten ↔
    (c ∈ S.hopeful ∧ (q : Rat) ≤ tally S.bs S.hopeful c) := by
  constructor
  · intro h
    have := simultaneous_winners_ge S prev q hl hn c h
    exact ⟨this.2, this.1⟩
  · rintro ⟨hc, hq⟩
    have hk : (prev.scores.map (·.1)).Nodup := by rw [hl.1, tallies_keys]; exact hn
    have hpair : (c, tally S.bs S.hopeful c) ∈ prev.scores := by
      rw [hl.1]; unfold tallies; exact List.mem_map.2 ⟨c, hc, rfl⟩
    set v := tally S.bs S.hopeful c with hv
    have hvmem : v ∈ prev.scores.map (·.2) := List.mem_map.2 ⟨(c, v), hpair, rfl⟩
    rw [hl.2, scoreToRanking_eq, takeWhile_map]
    have htest : ∀ u ∈ distinctDesc (prev.scores.map (·.2)),
        (match groupOf prev.scores u with
          | [] => false
          | c :: _ => decide ((q : Rat) ≤ lookupScore prev.scores c)) = decide ((q : Rat) ≤ u) :=
      fun u hu => group_test prev.scores q u hk ((mem_distinctDesc _ _).1 hu)
    have htw : (distinctDesc (prev.scores.map (·.2))).takeWhile (fun a =>
        match groupOf prev.scores a with
        | [] => false
        | c :: _ => decide ((q : Rat) ≤ lookupScore prev.scores c)) =
        (distinctDesc (prev.scores.map (·.2))).takeWhile (fun a => decide ((q : Rat) ≤ a)) := by
      exact takeWhile_congr_mem _ _ _ htest
    rw [htw]
    have hin := takeWhile_ge_sorted _ (q : Rat) (distinctDesc_sorted (prev.scores.map (·.2))) v
      ((mem_distinctDesc _ _).2 hvmem) hq
    refine List.mem_flatten.2 ⟨groupOf prev.scores v, List.mem_map.2 ⟨v, hin, rfl⟩, ?_⟩
    unfold groupOf
    exact List.mem_map.2 ⟨(c, v), List.mem_filter.2 ⟨hpair, by simp⟩, rfl⟩

/-- the last group of `scoreToRanking` carries the minimal score -/
theorem last_group_min (sc : List (Cand × Rat)) (g : List Cand) (h : (scoreToRanking sc).getLast? = some g)
    (hk : (sc.map (·.1)).Nodup) :
    ∃ v0, (∀ c ∈ g, (c, v0) ∈ sc ∧ lookupScore sc c = v0) ∧ ∀ cs ∈ sc, v0 ≤ cs.2 := by
  have hmem : g ∈ scoreToRanking sc := List.mem_of_getLast? h
  obtain ⟨v, hv⟩ := mem_group_score sc g hmem hk
  refine ⟨v, hv, ?_⟩
  rw [scoreToRanking_eq] at h
  have hne := scoreToRanking_groups_nonempty sc g hmem
  obtain ⟨c, hc⟩ := List.exists_mem_of_ne_nil _ hne
  -- g is the group of the last (smallest) distinct value
  rw [List.getLast?_map] at h
  cases hd : (distinctDesc (sc.map (·.2))).getLast? with
  | none => rw [hd] at h; cases h
  | some v' =>
    rw [hd] at h
    simp only [Option.map_some, Option.some.injEq] at h
    have hcv' : c ∈ groupOf sc v' := by rw [h]; exact hc
    unfold groupOf at hcv'
    obtain ⟨cs, hcs, hcs1⟩ := List.mem_map.1 hcv'
    have hcsv : cs.2 = v' := by simpa using (List.mem_filter.1 hcs).2
    have hvv' : v = v' := by
      have h1 := (hv c hc).1
      have h2 : (c, v') ∈ sc := by rw [← hcs1, ← hcsv]; exact (List.mem_filter.1 hcs).1
      exact (Prod.mk.inj (List.inj_on_of_nodup_map hk h1 h2 rfl)).2
    intro cs' hcs'
    rw [hvv']
    have hin : cs'.2 ∈ distinctDesc (sc.map (·.2)) := (mem_distinctDesc _ _).2 (List.mem_map_of_mem hcs')
    have hsorted := distinctDesc_sorted (sc.map (·.2))
    -- the last element of a strictly descending list is below every element
    have key : ∀ (l : List Rat), l.Pairwise (· > ·) → l.getLast? = some v' → ∀ x ∈ l, v' ≤ x := by
      intro l
      induction l with
      | nil => intro _ hl; cases hl
      | cons y ys ih =>
        intro hp hl x hx
        rw [List.pairwise_cons] at hp
        cases ys with
        | nil =>
          simp only [List.getLast?_singleton, Option.some.injEq] at hl
          simp only [List.mem_singleton] at hx
          rw [hx, hl]
        | cons z zs =>
          have hl' : (z :: zs).getLast? = some v' := by simpa [List.getLast?_cons_cons] using hl
          rcases List.mem_cons.1 hx with rfl | hx'
          · exact le_of_lt (hp.1 v' (List.mem_of_getLast? hl'))
          · exact ih hp.2 hl' x hx'
    exact key _ hsorted hd _ hin

/-! ### the fractional transfers of a round, ballot by ballot -/

/-- every ballot counted for a winner is scaled by that winner's transfer value, all others are
left alone -/
def scaleAll (hop : List Cand) (q : Int) (tallyOf : Cand → Rat) (ws : List Cand) (bs : List PBallot) :
    List PBallot :=
  bs.map (fun b =>
    match topOf hop b.1 with
    | some w => if ws.contains w then (b.1, b.2 * ((tallyOf w - q) / tallyOf w)) else b
    | none => b)

theorem scaleLed_topOf (hop : List Cand) (w : Cand) (f : Rat) (b : PBallot) :
    (if topOf hop b.1 = some w then (b.1, b.2 * f) else b).1 = b.1 := by
  split <;> rfl

/-- **Surplus transfers, pointwise.** After the fractional transfers of the (distinct) winners `ws`,
each ballot counted for a winner `w` carries `weight · (tally w − q) / tally w` with the tally of
the beginning of the round; every other ballot is unchanged; no ranking changes. -/
theorem applyTransfers_fractional_pointwise (cfg : STVCfg) (hop : List Cand) (q : Int)
    (sample : Cand → List (List Cand × Nat)) (hf : cfg.transfer = .fractional)
    (ws : List Cand) (bs bs' : List PBallot) (hws : ws.Nodup)
    (h : applyTransfers cfg hop q sample ws bs = .ok bs') :
    bs' = scaleAll hop q (fun w => tally bs hop w) ws bs := by
  induction ws generalizing bs with
  | nil =>
    simp only [applyTransfers] at h
    injection h with h; subst h
    unfold scaleAll
    rw [List.map_congr_left (g := id)]
    · simp
    · intro b _; split <;> simp
  | cons w rest ih =>
    simp only [applyTransfers] at h
    cases h1 : applyTransfer cfg hop q (sample w) bs w with
    | ok bs1 =>
      simp only [h1, bind, Outcome.bind] at h
      obtain ⟨_, hbs1⟩ := applyTransfer_fractional_eq cfg hop q _ bs bs1 w hf h1
      rw [List.nodup_cons] at hws
      rw [ih bs1 hws.2 h, hbs1]
      unfold scaleAll scaleLed
      rw [List.map_map]
      apply List.map_congr_left
      intro b _
      simp only [Function.comp]
      have htop := scaleLed_topOf hop w ((tally bs hop w - q) / tally bs hop w) b
      rw [htop]
      cases ht : topOf hop b.1 with
      | none => simp
      | some w' =>
        by_cases hww : w' = w
        · subst hww
          have hnot : w' ∉ rest := hws.1
          simp [hnot]
        · have hne : ¬ (some w' = some w) := fun e => hww (Option.some.inj e)
          have hcont : (w :: rest).contains w' = rest.contains w' := by
            simp [List.contains_cons, hww]
          have htl : tally (List.map (fun b => if topOf hop b.1 = some w then (b.1, b.2 * ((tally bs hop w - ↑q) / tally bs hop w)) else b) bs) hop w' = tally bs hop w' :=
            tally_scaleLed_other hop w w' _ bs hww
          simp only [hne, if_false, hcont, htl]
    | raised e => simp [h1, bind, Outcome.bind] at h
    | oracleMismatch => simp [h1, bind, Outcome.bind] at h
    | outOfFuel => simp [h1, bind, Outcome.bind] at h

end VK
