/-
  VK.Lemmas.STVRun — invariants of the STV count (`stvStep` / `stvLoop` / `stvRun`), for every
  configuration (quota, transfer rule, simultaneous or one-by-one, tiebreak) and every oracle.
-/
import VK.Model.STV
import VK.Lemmas.Elect
import VK.Lemmas.Ranking
import Mathlib.Data.List.Perm.Basic
import Mathlib.Data.List.Nodup
import Mathlib.Data.List.TakeWhile
import Mathlib.Data.List.Flatten

namespace VK

theorem tallies_keys (bs : List PBallot) (hopeful : List Cand) : (tallies bs hopeful).map (·.1) = hopeful := by
  simp [tallies, List.map_map, Function.comp_def]

/-- candidates recorded as elected / eliminated in a list of rounds -/
def electedIn (recs : List RoundState) : List Cand := (recs.flatMap (·.elected)).flatten
def eliminatedIn (recs : List RoundState) : List Cand := (recs.flatMap (·.eliminated)).flatten

theorem electedIn_cons (r : RoundState) (recs : List RoundState) :
    electedIn (r :: recs) = r.elected.flatten ++ electedIn recs := by
  simp [electedIn]

theorem eliminatedIn_cons (r : RoundState) (recs : List RoundState) :
    eliminatedIn (r :: recs) = r.eliminated.flatten ++ eliminatedIn recs := by
  simp [eliminatedIn]

/-- every recorded round (newest first) partitions the candidates into remaining / elected so far /
eliminated so far -/
def Good (cands : List Cand) : List RoundState → Prop
  | [] => True
  | r :: older => (r.remaining.flatten ++ electedIn (r :: older) ++ eliminatedIn (r :: older)).Perm cands ∧
      Good cands older

/-- what the loop maintains between the count state `S`, the last recorded round `prev` and the
rounds recorded so far (newest first) -/
structure StvInv (cands : List Cand) (S : CState) (prev : RoundState) (recs : List RoundState) : Prop where
  hop_nodup : S.hopeful.Nodup
  rem : prev.remaining.flatten.Perm S.hopeful
  count : S.nElected = (electedIn recs).length
  part : (S.hopeful ++ electedIn recs ++ eliminatedIn recs).Perm cands
  good : Good cands recs

/-- a duplicate-free sub-collection splits a duplicate-free list -/
theorem filter_not_contains_perm (h w : List Cand) (hh : h.Nodup) (hw : w.Nodup) (hsub : ∀ c ∈ w, c ∈ h) :
    (h.filter (fun c => !w.contains c) ++ w).Perm h := by
  have h1 : (h.filter (fun c => !w.contains c) ++ h.filter (fun c => w.contains c)).Perm h := by
    have := List.filter_append_perm (fun c => !w.contains c) h
    simpa [Bool.not_not] using this
  refine List.Perm.trans (List.Perm.append_left _ ?_) h1
  apply (List.perm_ext_iff_of_nodup hw (hh.filter _)).2
  intro a
  simp only [List.mem_filter, List.contains_iff_mem]
  constructor
  · intro ha; exact ⟨hsub a ha, by simpa using ha⟩
  · intro ha; simpa using ha.2

theorem takeWhile_flatten_sublist {α} (p : List α → Bool) (l : List (List α)) :
    (l.takeWhile p).flatten.Sublist l.flatten :=
  (List.takeWhile_sublist p).flatten

/-- the elected groups of a round are duplicate-free hopeful candidates -/
theorem electChoice_spec (cfg : STVCfg) (q : Int) (ω : STVOracle) (rnd : Nat) (S : CState) (prev : RoundState)
    (g : Ranking) (tbs : List (List Cand × Ranking)) (hn : S.hopeful.Nodup)
    (hrem : prev.remaining.flatten.Perm S.hopeful)
    (h : electChoice cfg q ω rnd S prev = .ok (g, tbs)) :
    g.flatten.Nodup ∧ ∀ c ∈ g.flatten, c ∈ S.hopeful := by
  have hrn : prev.remaining.flatten.Nodup := hrem.nodup_iff.2 hn
  unfold electChoice at h
  split at h
  · simp only [pure, Outcome.ok.injEq, Prod.mk.injEq] at h
    obtain ⟨h1, _⟩ := h
    subst h1
    have hs := takeWhile_flatten_sublist (fun g => match g with
      | [] => false
      | c :: _ => decide ((q : Rat) ≤ lookupScore prev.scores c)) prev.remaining
    exact ⟨hs.nodup hrn, fun c hc => hrem.mem_iff.1 (hs.subset hc)⟩
  · cases he : electFromRanking (ω.pri rnd) prev.remaining 1 (some (currentProfile S)) cfg.tiebreak with
    | ok r =>
      simp only [he, bind, Outcome.bind, pure, Outcome.ok.injEq, Prod.mk.injEq] at h
      obtain ⟨h1, _⟩ := h
      subst h1
      have hnd : ∀ x ∈ prev.remaining, x.Nodup := fun x hx => (List.nodup_flatten.1 hrn).1 x hx
      have hsub : ∀ p, some (currentProfile S) = some p → p.cands.Nodup ∧ ∀ x ∈ prev.remaining, ∀ c ∈ x, c ∈ p.cands := by
        intro p hp
        injection hp with hp; subst hp
        refine ⟨hn, fun x hx c hc => ?_⟩
        exact hrem.mem_iff.1 (List.mem_flatten.2 ⟨x, hx, hc⟩)
      obtain ⟨_, hperm⟩ := electFromRanking_count _ _ _ _ _ r hnd hsub he
      have hnn : (r.elected.flatten ++ r.remaining.flatten).Nodup := hperm.nodup_iff.2 hrn
      refine ⟨(List.nodup_append.1 hnn).1, fun c hc => ?_⟩
      exact hrem.mem_iff.1 (hperm.mem_iff.1 (List.mem_append_left _ hc))
    | raised e => simp [he, bind, Outcome.bind] at h
    | oracleMismatch => simp [he, bind, Outcome.bind] at h
    | outOfFuel => simp [he, bind, Outcome.bind] at h

/-- the eliminated candidate is a member of the lowest group -/
theorem loserChoice_mem (init : Profile) (ω : STVOracle) (rnd : Nat) (lowest : List Cand) (c : Cand)
    (tbs : List (List Cand × Ranking)) (hl : lowest.Nodup) (hi : init.cands.Nodup) (hsub : ∀ x ∈ lowest, x ∈ init.cands)
    (h : loserChoice init ω rnd lowest = .ok (c, tbs)) : c ∈ lowest := by
  unfold loserChoice at h
  split at h
  · cases ht : tiebreakSet (ω.pri rnd) lowest (some init) .firstPlace with
    | ok t =>
      simp only [ht, bind, Outcome.bind] at h
      split at h
      · rename_i c' hlast
        simp only [pure, Outcome.ok.injEq, Prod.mk.injEq] at h
        obtain ⟨h1, _⟩ := h
        subst h1
        have hspec := tiebreakSet_spec (ω.pri rnd) lowest (some init) .firstPlace t hl
          (fun p hp => by injection hp with hp; subst hp; exact ⟨hi, hsub⟩) ht
        have : [c'] ∈ t := List.mem_of_getLast? hlast
        exact hspec.1.mem_iff.1 (List.mem_flatten.2 ⟨[c'], this, by simp⟩)
      · cases h
    | raised e => simp [ht, bind, Outcome.bind] at h
    | oracleMismatch => simp [ht, bind, Outcome.bind] at h
    | outOfFuel => simp [ht, bind, Outcome.bind] at h
  · split at h
    · simp only [pure, Outcome.ok.injEq, Prod.mk.injEq] at h
      obtain ⟨h1, _⟩ := h
      subst h1; simp
    · cases h

theorem filter_ne_perm (h : List Cand) (c : Cand) (hh : h.Nodup) (hc : c ∈ h) :
    (h.filter (fun x => x != c) ++ [c]).Perm h := by
  have := filter_not_contains_perm h [c] hh (by simp) (by simpa using hc)
  have e : h.filter (fun x => ![c].contains x) = h.filter (fun x => x != c) := by
    apply List.filter_congr
    intro x _
    by_cases hx : x = c <;> simp [hx]
  rwa [e] at this

theorem getLast?_mem {α} (l : List α) (a : α) (h : l.getLast? = some a) : a ∈ l :=
  List.mem_of_getLast? h

theorem remaining_of_tallies (bs : List PBallot) (hop : List Cand) :
    (scoreToRanking (tallies bs hop)).flatten.Perm hop := by
  have := scoreToRanking_perm (tallies bs hop)
  rwa [tallies_keys] at this

theorem inv_elect (cands : List Cand) (S S' : CState) (prev r : RoundState) (recs : List RoundState)
    (inv : StvInv cands S prev recs) (g : Ranking) (bs' : List PBallot)
    (hgn : g.flatten.Nodup) (hgs : ∀ c ∈ g.flatten, c ∈ S.hopeful)
    (hSh : S'.hopeful = S.hopeful.filter (fun c => !g.flatten.contains c))
    (hSn : S'.nElected = S.nElected + g.flatten.length)
    (hre : r.elected = g) (hrx : r.eliminated = [])
    (hrr : r.remaining = scoreToRanking (tallies bs' S'.hopeful)) :
    StvInv cands S' r (r :: recs) := by
  have hsplit := filter_not_contains_perm S.hopeful g.flatten inv.hop_nodup hgn hgs
  have hrem' : r.remaining.flatten.Perm S'.hopeful := by rw [hrr]; exact remaining_of_tallies _ _
  have hpart : (S'.hopeful ++ electedIn (r :: recs) ++ eliminatedIn (r :: recs)).Perm cands := by
    rw [electedIn_cons, eliminatedIn_cons, hre, hrx, hSh]
    simp only [List.flatten_nil, List.nil_append]
    refine List.Perm.trans ?_ inv.part
    rw [← List.append_assoc (S.hopeful.filter _) g.flatten]
    exact (hsplit.append_right _).append_right _
  refine ⟨by rw [hSh]; exact inv.hop_nodup.filter _, hrem', ?_, hpart, ⟨?_, inv.good⟩⟩
  · rw [electedIn_cons, hre, hSn, inv.count]; simp only [List.length_append]; omega
  · exact ((hrem'.append_right _).append_right _).trans hpart

theorem inv_default (cands : List Cand) (S S' : CState) (prev r : RoundState) (recs : List RoundState)
    (inv : StvInv cands S prev recs)
    (hSh : S'.hopeful = []) (hSn : S'.nElected = S.nElected + S.hopeful.length)
    (hre : r.elected = prev.remaining) (hrx : r.eliminated = []) (hrr : r.remaining = []) :
    StvInv cands S' r (r :: recs) := by
  have hl : prev.remaining.flatten.length = S.hopeful.length := inv.rem.length_eq
  have hpart : (S'.hopeful ++ electedIn (r :: recs) ++ eliminatedIn (r :: recs)).Perm cands := by
    rw [electedIn_cons, eliminatedIn_cons, hre, hrx, hSh]
    simp only [List.flatten_nil, List.nil_append]
    refine List.Perm.trans ?_ inv.part
    exact (inv.rem.append_right _).append_right _
  refine ⟨by rw [hSh]; exact List.nodup_nil, by rw [hrr, hSh]; simp, ?_, hpart, ⟨?_, inv.good⟩⟩
  · rw [electedIn_cons, hre, hSn, inv.count]; simp only [List.length_append]; omega
  · rw [hrr]; rw [hSh] at hpart; simpa using hpart

theorem inv_eliminate (cands : List Cand) (S S' : CState) (prev r : RoundState) (recs : List RoundState)
    (inv : StvInv cands S prev recs) (c : Cand) (bs' : List PBallot) (hc : c ∈ S.hopeful)
    (hSh : S'.hopeful = S.hopeful.filter (fun x => x != c)) (hSn : S'.nElected = S.nElected)
    (hre : r.elected = []) (hrx : r.eliminated = [[c]])
    (hrr : r.remaining = scoreToRanking (tallies bs' S'.hopeful)) :
    StvInv cands S' r (r :: recs) := by
  have hsplit := filter_ne_perm S.hopeful c inv.hop_nodup hc
  have hrem' : r.remaining.flatten.Perm S'.hopeful := by rw [hrr]; exact remaining_of_tallies _ _
  have hpart : (S'.hopeful ++ electedIn (r :: recs) ++ eliminatedIn (r :: recs)).Perm cands := by
    rw [electedIn_cons, eliminatedIn_cons, hre, hrx, hSh]
    simp only [List.flatten_nil, List.nil_append, List.flatten_cons, List.append_nil]
    refine List.Perm.trans ?_ inv.part
    have : (S.hopeful.filter (fun x => x != c) ++ electedIn recs ++ ([c] ++ eliminatedIn recs)).Perm
        ((S.hopeful.filter (fun x => x != c) ++ [c]) ++ electedIn recs ++ eliminatedIn recs) := by
      simp only [List.append_assoc]
      apply List.Perm.append_left
      rw [← List.append_assoc, ← List.append_assoc]
      exact List.perm_append_comm.append_right _
    exact this.trans ((hsplit.append_right _).append_right _)
  refine ⟨by rw [hSh]; exact inv.hop_nodup.filter _, hrem', ?_, hpart, ⟨?_, inv.good⟩⟩
  · rw [electedIn_cons, hre, hSn]; simpa using inv.count
  · exact ((hrem'.append_right _).append_right _).trans hpart

/-- **One step keeps the invariant**, whatever branch is taken and whatever the transfer does;
the hopeful set never grows, and the seat counter moves by exactly the number of candidates the
round records as elected. -/
theorem stvStep_inv (cfg : STVCfg) (init : Profile) (q : Int) (ω : STVOracle) (rnd : Nat)
    (S S' : CState) (prev r : RoundState) (recs : List RoundState)
    (hi : init.cands.Nodup) (hcs : ∀ c ∈ S.hopeful, c ∈ init.cands)
    (inv : StvInv init.cands S prev recs)
    (h : stvStep cfg init q ω rnd S prev = .ok (S', r)) :
    StvInv init.cands S' r (r :: recs) ∧ (∀ c ∈ S'.hopeful, c ∈ S.hopeful) ∧
    S'.nElected = S.nElected + r.elected.flatten.length := by
  unfold stvStep at h
  simp only at h
  split at h
  · -- elect
    cases he : electChoice cfg q ω rnd S prev with
    | ok gt =>
      obtain ⟨g, tbs⟩ := gt
      simp only [he, bind, Outcome.bind] at h
      cases ha : applyTransfers cfg S.hopeful q (ω.sample rnd) g.flatten S.bs with
      | ok bs' =>
        simp only [ha, pure, Outcome.ok.injEq, Prod.mk.injEq] at h
        obtain ⟨h1, h2⟩ := h
        subst h1 h2
        obtain ⟨hgn, hgs⟩ := electChoice_spec cfg q ω rnd S prev g tbs inv.hop_nodup inv.rem he
        exact ⟨inv_elect _ _ _ _ _ _ inv g bs' hgn hgs rfl rfl rfl rfl rfl,
          fun c hc => (List.mem_filter.1 hc).1, rfl⟩
      | raised e => simp [ha] at h
      | oracleMismatch => simp [ha] at h
      | outOfFuel => simp [ha] at h
    | raised e => simp [he, bind, Outcome.bind] at h
    | oracleMismatch => simp [he, bind, Outcome.bind] at h
    | outOfFuel => simp [he, bind, Outcome.bind] at h
  · split at h
    · -- the remaining candidates fill the remaining seats
      simp only [pure, Outcome.ok.injEq, Prod.mk.injEq] at h
      obtain ⟨h1, h2⟩ := h
      subst h1 h2
      refine ⟨inv_default _ _ _ _ _ _ inv rfl rfl rfl rfl rfl, by simp, ?_⟩
      simp only
      rw [inv.rem.length_eq]
    · -- eliminate
      split at h
      · cases h
      · rename_i lowest hlast
        cases hlc : loserChoice init ω rnd lowest with
        | ok ct =>
          obtain ⟨c, tbs⟩ := ct
          simp only [hlc, bind, Outcome.bind, pure, Outcome.ok.injEq, Prod.mk.injEq] at h
          obtain ⟨h1, h2⟩ := h
          subst h1 h2
          have hrn : prev.remaining.flatten.Nodup := inv.rem.nodup_iff.2 inv.hop_nodup
          have hlm : lowest ∈ prev.remaining := List.mem_of_getLast? hlast
          have hln : lowest.Nodup := (List.nodup_flatten.1 hrn).1 lowest hlm
          have hlh : ∀ x ∈ lowest, x ∈ S.hopeful := fun x hx =>
            inv.rem.mem_iff.1 (List.mem_flatten.2 ⟨lowest, hlm, hx⟩)
          have hc : c ∈ S.hopeful :=
            hlh c (loserChoice_mem init ω rnd lowest c tbs hln hi (fun x hx => hcs x (hlh x hx)) hlc)
          exact ⟨inv_eliminate _ _ _ _ _ _ inv c S.bs hc rfl rfl rfl rfl rfl,
            fun x hx => (List.mem_filter.1 hx).1, by simp⟩
        | raised e => simp [hlc, bind, Outcome.bind] at h
        | oracleMismatch => simp [hlc, bind, Outcome.bind] at h
        | outOfFuel => simp [hlc, bind, Outcome.bind] at h

end VK
