/-
  Property C19 — Lp profile distance is a true metric; the ballot graph is complete and exact.
-/
import VK.Model.Metric
import VK.Model.BallotGraph
import VK.Lemmas.Sum
import Mathlib.Analysis.MeanInequalities
import Mathlib.Data.List.Nodup

namespace VK

/-! ### the metric, over the reals, for distributions on a common finite support -/

/-- p-norm distance of two real-valued functions on a finite index set -/
noncomputable def lpDist {ι : Type} (s : Finset ι) (p : ℝ) (f g : ι → ℝ) : ℝ :=
  (∑ i ∈ s, |f i - g i| ^ p) ^ (1 / p)

theorem C19_symm {ι : Type} (s : Finset ι) (p : ℝ) (f g : ι → ℝ) : lpDist s p f g = lpDist s p g f := by
  unfold lpDist
  congr 1
  apply Finset.sum_congr rfl
  intro i _
  rw [abs_sub_comm]

/-- **Zero exactly for equal distributions.** -/
theorem C19_zero_iff {ι : Type} (s : Finset ι) (p : ℝ) (hp : 0 < p) (f g : ι → ℝ) :
    lpDist s p f g = 0 ↔ ∀ i ∈ s, f i = g i := by
  unfold lpDist
  have hnn : 0 ≤ ∑ i ∈ s, |f i - g i| ^ p :=
    Finset.sum_nonneg (fun i _ => Real.rpow_nonneg (abs_nonneg _) p)
  rw [Real.rpow_eq_zero_iff_of_nonneg hnn]
  have hp' : (1 / p) ≠ 0 := by positivity
  simp only [hp', ne_eq, not_false_eq_true, and_true]
  rw [Finset.sum_eq_zero_iff_of_nonneg (fun i _ => Real.rpow_nonneg (abs_nonneg _) p)]
  constructor
  · intro h i hi
    have := h i hi
    rw [Real.rpow_eq_zero_iff_of_nonneg (abs_nonneg _)] at this
    exact sub_eq_zero.1 (abs_eq_zero.1 this.1)
  · intro h i hi
    rw [h i hi, sub_self, abs_zero, Real.zero_rpow (ne_of_gt hp)]

/-- **Triangle inequality** for every `p ≥ 1` (Minkowski). -/
theorem C19_triangle {ι : Type} (s : Finset ι) (p : ℝ) (hp : 1 ≤ p) (f g h : ι → ℝ) :
    lpDist s p f h ≤ lpDist s p f g + lpDist s p g h := by
  unfold lpDist
  have := Real.Lp_add_le s (fun i => f i - g i) (fun i => g i - h i) hp
  simpa using this

/-- **Triangle inequality for the maximum ('inf')**: any bound on the two legs bounds the third side. -/
theorem C19_inf_triangle {ι : Type} (s : Finset ι) (f g h : ι → ℝ) (M₁ M₂ : ℝ)
    (h₁ : ∀ i ∈ s, |f i - g i| ≤ M₁) (h₂ : ∀ i ∈ s, |g i - h i| ≤ M₂) :
    ∀ i ∈ s, |f i - h i| ≤ M₁ + M₂ := by
  intro i hi
  calc |f i - h i| = |(f i - g i) + (g i - h i)| := by ring_nf
    _ ≤ |f i - g i| + |g i - h i| := abs_add_le _ _
    _ ≤ M₁ + M₂ := add_le_add (h₁ i hi) (h₂ i hi)

/-! ### the executable distribution -/

theorem rankWt_scale (bs : List Ballot) (c : Rat) (r : Ranking) :
    rankWt (bs.map (fun b => { b with weight := c * b.weight })) r = c * rankWt bs r := by
  unfold rankWt
  induction bs with
  | nil => simp
  | cons b bs ih =>
    by_cases h : b.ranking = r
    · simp only [List.map_cons, List.filter_cons, h, decide_true, if_true, rsum_cons] at ih ⊢
      rw [ih]; ring
    · simp only [List.map_cons, List.filter_cons, h, decide_false] at ih ⊢
      simpa using ih

theorem totalWeight_scale (bs : List Ballot) (c : Rat) :
    totalWeight (bs.map (fun b => { b with weight := c * b.weight })) = c * totalWeight bs := by
  unfold totalWeight
  induction bs with
  | nil => simp
  | cons b bs ih => simp only [List.map_cons, rsum_cons] at ih ⊢; rw [ih]; ring

/-- **Rescaling all weights leaves every share unchanged.** -/
theorem C19_share_scale_invariant (bs : List Ballot) (c : Rat) (hc : c ≠ 0) (r : Ranking) :
    share (bs.map (fun b => { b with weight := c * b.weight })) r = share bs r := by
  unfold share
  rw [rankWt_scale, totalWeight_scale]
  by_cases ht : totalWeight bs = 0
  · simp [ht]
  · field_simp

theorem rankWt_perm {bs bs' : List Ballot} (h : bs.Perm bs') (r : Ranking) : rankWt bs r = rankWt bs' r := by
  unfold rankWt
  rw [rsum_eq_sum, rsum_eq_sum]
  exact ((h.filter _).map _).sum_eq

/-- **Reordering the ballots leaves every share unchanged.** -/
theorem C19_share_perm_invariant {bs bs' : List Ballot} (h : bs.Perm bs') (r : Ranking) :
    share bs r = share bs' r := by
  unfold share totalWeight
  rw [rankWt_perm h, rsum_eq_sum, rsum_eq_sum, (h.map _).sum_eq]

/-! ### the ballot graph specification, for every `n` -/

theorem mem_cands1n (n x : Nat) : x ∈ (List.range n).map (· + 1) ↔ 1 ≤ x ∧ x ≤ n := by
  simp only [List.mem_map, List.mem_range]
  constructor
  · rintro ⟨a, ha, rfl⟩; omega
  · rintro ⟨h1, h2⟩; exact ⟨x - 1, by omega, by omega⟩

/-- **`seqs n k` is exactly the duplicate-free sequences of length `k` over `1..n`.** -/
theorem C19_seqs_spec (n k : Nat) (s : List Nat) :
    s ∈ seqs n k ↔ s.length = k ∧ s.Nodup ∧ ∀ x ∈ s, 1 ≤ x ∧ x ≤ n := by
  induction k generalizing s with
  | zero =>
    simp only [seqs, List.mem_singleton]
    constructor
    · rintro rfl; simp
    · rintro ⟨h, _⟩; exact List.length_eq_zero_iff.1 h
  | succ k ih =>
    simp only [seqs, List.mem_flatMap, List.mem_filterMap]
    constructor
    · rintro ⟨t, ht, c, hc, hsome⟩
      have hcn := (mem_cands1n n c).1 hc
      obtain ⟨hl, hnd, hr⟩ := (ih t).1 ht
      split at hsome
      · cases hsome
      · rename_i hnot
        injection hsome with hsome; subst hsome
        have hct : c ∉ t := by simpa using hnot
        refine ⟨by simp [hl], ?_, ?_⟩
        · rw [List.nodup_append]
          refine ⟨hnd, by simp, ?_⟩
          intro a ha b hb
          simp only [List.mem_singleton] at hb; subst hb
          intro e; subst e; exact hct ha
        · intro x hx
          rcases List.mem_append.1 hx with hx | hx
          · exact hr x hx
          · simp only [List.mem_singleton] at hx; subst hx; exact hcn
    · rintro ⟨hl, hnd, hr⟩
      rcases List.eq_nil_or_concat s with rfl | ⟨t, c, rfl⟩
      · simp at hl
      · rw [List.concat_eq_append] at hl hnd hr ⊢
        rw [List.nodup_append] at hnd
        have hct : c ∉ t := fun hc => hnd.2.2 c hc c (by simp) rfl
        refine ⟨t, (ih t).2 ⟨by simpa using hl, hnd.1, fun x hx => hr x (by simp [hx])⟩, c,
          (mem_cands1n n c).2 (hr c (by simp)), ?_⟩
        simp [hct]

/-- **Nodes**: exactly the rankings of length 1..n except length n−1. -/
theorem C19_nodes (n : Nat) (l : List Nat) :
    l ∈ specNodes n ↔ l.Nodup ∧ (∀ x ∈ l, 1 ≤ x ∧ x ≤ n) ∧ 1 ≤ l.length ∧ l.length ≤ n ∧ l.length + 1 ≠ n := by
  simp only [specNodes, List.mem_flatMap]
  constructor
  · rintro ⟨k, hk, hl⟩
    have hkn := (mem_cands1n n k).1 hk
    split at hl
    · cases hl
    · rename_i hne
      obtain ⟨h1, h2, h3⟩ := (C19_seqs_spec n k l).1 hl
      exact ⟨h2, h3, by omega, by omega, by omega⟩
  · rintro ⟨h1, h2, h3, h4, h5⟩
    refine ⟨l.length, (mem_cands1n n _).2 ⟨h3, h4⟩, ?_⟩
    simp only [h5, if_false]
    exact (C19_seqs_spec n l.length l).2 ⟨rfl, h1, h2⟩

/-- **Edges**: exactly the pairs of adjacent nodes (each unordered pair once, smaller node first). -/
theorem C19_edges (n : Nat) (u v : List Nat) :
    (u, v) ∈ specEdges n ↔ u ∈ specNodes n ∧ v ∈ specNodes n ∧ lexLt u v = true ∧ adj n u v = true := by
  simp only [specEdges, List.mem_flatMap, List.mem_map, List.mem_filter, Bool.and_eq_true]
  constructor
  · rintro ⟨a, ha, b, ⟨hb, hlt, hadj⟩, heq⟩
    injection heq with h1 h2; subst h1; subst h2
    exact ⟨ha, hb, hlt, hadj⟩
  · rintro ⟨hu, hv, hlt, hadj⟩
    exact ⟨u, hu, v, ⟨hv, hlt, hadj⟩, rfl⟩

/-- swapping two adjacent entries is an involution, so the swap adjacency is symmetric -/
theorem swapAt_involutive (u : List Nat) (i : Nat) : swapAt (swapAt u i) i = u := by
  induction u generalizing i with
  | nil => cases i <;> rfl
  | cons a rest ih =>
    cases i with
    | zero => cases rest with
      | nil => rfl
      | cons b rest' => rfl
    | succ j =>
      cases rest with
      | nil => rfl
      | cons b rest' => simp only [swapAt]; rw [ih]

theorem swapAt_length (u : List Nat) (i : Nat) : (swapAt u i).length = u.length := by
  induction u generalizing i with
  | nil => cases i <;> rfl
  | cons a rest ih =>
    cases i with
    | zero => cases rest <;> rfl
    | succ j => cases rest with
      | nil => rfl
      | cons b rest' => simp only [swapAt, List.length_cons]; rw [ih]; rfl

theorem anySwap_symm (u v : List Nat) (hl : u.length = v.length) :
    (List.range (u.length - 1)).any (fun i => swapAt u i == v) =
    (List.range (v.length - 1)).any (fun i => swapAt v i == u) := by
  rw [Bool.eq_iff_iff]
  simp only [List.any_eq_true, List.mem_range, beq_iff_eq]
  constructor
  · rintro ⟨i, hi, rfl⟩
    exact ⟨i, by rw [swapAt_length]; exact hi, swapAt_involutive u i⟩
  · rintro ⟨i, hi, rfl⟩
    exact ⟨i, by rw [swapAt_length]; exact hi, swapAt_involutive v i⟩

/-- **Adjacency is symmetric.** -/
theorem C19_adj_symm (n : Nat) (u v : List Nat) : adj n u v = adj n v u := by
  have hswap : isAdjSwap u v = isAdjSwap v u := by
    unfold isAdjSwap
    by_cases hl : u.length = v.length
    · have hbne : (u != v) = (v != u) := by
        rw [Bool.eq_iff_iff]; simp only [bne_iff_ne, ne_eq]; exact ⟨fun h e => h e.symm, fun h e => h e.symm⟩
      rw [anySwap_symm u v hl, hbne]
      simp [hl]
    · have hl' : ¬ v.length = u.length := fun e => hl e.symm
      simp [hl, hl']
  unfold adj
  rw [hswap]
  cases isAdjSwap v u <;> simp [Bool.or_comm, Bool.or_left_comm]

/-- **A ballot of length n−1 is completed by its one missing candidate and becomes a node.** -/
theorem C19_fix_short (n : Nat) (b : List Nat) (hnd : b.Nodup) (hr : ∀ x ∈ b, 1 ≤ x ∧ x ≤ n)
    (hl : b.length + 1 = n) :
    (fixShort n b).take b.length = b ∧ (∀ x ∈ fixShort n b, 1 ≤ x ∧ x ≤ n) ∧ (fixShort n b).Nodup := by
  unfold fixShort
  simp only [hl, if_true]
  refine ⟨by simp, ?_, ?_⟩
  · intro x hx
    rcases List.mem_append.1 hx with hx | hx
    · exact hr x hx
    · exact (mem_cands1n n x).1 (List.mem_filter.1 hx).1
  · rw [List.nodup_append]
    refine ⟨hnd, ?_, ?_⟩
    · apply List.Nodup.filter
      exact (List.nodup_range).map (fun a b h => by simpa using h)
    · intro a ha c hc
      have := (List.mem_filter.1 hc).2
      intro e; subst e
      simp [ha] at this

/-- non-vacuity -/
example : specNodes 3 = [[1], [2], [3], [1, 2, 3], [1, 3, 2], [2, 1, 3], [2, 3, 1], [3, 1, 2], [3, 2, 1]] ∧
    (specEdges 3).length = 12 ∧ fixShort 3 [3, 1] = [3, 1, 2] := by decide +kernel

end VK
