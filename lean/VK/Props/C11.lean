/-
  Property C11 — ballot and profile values condense / compare by content.
  (Immutability and float→Fraction conversion are pydantic/stdlib behaviour, observed by Python-side
  monitors; they are not theorems.)
-/
import VK.Lemmas.Condense
import Mathlib.Algebra.BigOperators.Group.List.Lemmas

namespace VK

/-- Condensed ballots are pairwise distinct in (ranking, scores). -/
theorem C11_condense_distinct (bs : List Ballot) : ((condense bs).map Ballot.content).Nodup :=
  condense_contents_nodup bs

/-- Every content carries exactly the summed weight it had before. -/
theorem C11_condense_wt (bs : List Ballot) (k : Content) : wt (condense bs) k = wt bs k :=
  wt_condense bs k

/-- The total weight is unchanged. -/
theorem C11_condense_total (bs : List Ballot) : totalWeight (condense bs) = totalWeight bs :=
  totalWeight_condense bs

theorem wt_perm {bs bs' : List Ballot} (h : bs.Perm bs') (k : Content) : wt bs k = wt bs' k := by
  unfold wt
  rw [rsum_eq_sum, rsum_eq_sum]
  exact ((h.filter _).map _).sum_eq

/-- Independent of ballot order (as a weight map). -/
theorem C11_condense_perm_invariant {bs bs' : List Ballot} (h : bs.Perm bs') (k : Content) :
    wt (condense bs) k = wt (condense bs') k := by
  rw [wt_condense, wt_condense, wt_perm h]

theorem foldl_accAdd_fresh (bs : List Ballot) (acc : List (Content × Rat))
    (hnd : (bs.map Ballot.content).Nodup)
    (hdisj : ∀ b ∈ bs, b.content ∉ acc.map (·.1)) :
    bs.foldl (fun acc b => accAdd b.content b.weight acc) acc =
      acc ++ bs.map (fun b => (b.content, b.weight)) := by
  induction bs generalizing acc with
  | nil => simp
  | cons b bs ih =>
    have hb : b.content ∉ acc.map (·.1) := hdisj b (by simp)
    have hfresh : accAdd b.content b.weight acc = acc ++ [(b.content, b.weight)] := by
      clear ih hdisj hnd
      induction acc with
      | nil => simp [accAdd]
      | cons x xs ihx =>
        have hx : x.1 ≠ b.content := by
          intro e; exact hb (by simp [e])
        have hxs : b.content ∉ xs.map (·.1) := by
          intro e; exact hb (by simp [e])
        simp [accAdd, hx, ihx hxs]
    simp only [List.foldl_cons, hfresh]
    rw [List.map_cons, List.nodup_cons] at hnd
    rw [ih _ hnd.2]
    · simp
    · intro b' hb'
      simp only [List.map_append, List.map_cons, List.map_nil, List.mem_append, List.mem_singleton,
        not_or]
      refine ⟨hdisj b' (by simp [hb']), ?_⟩
      intro e
      exact hnd.1 (e ▸ List.mem_map_of_mem hb')

/-- Condensing again changes nothing. -/
theorem C11_condense_idem (bs : List Ballot) : condense (condense bs) = condense bs := by
  have hnd := condense_contents_nodup bs
  have := foldl_accAdd_fresh (condense bs) [] hnd (by simp)
  unfold condense accumulate at this ⊢
  rw [this]
  simp [List.map_map, Function.comp_def, Ballot.content]

theorem wt_zero_of_not_mem (bs : List Ballot) (k : Content) (h : ¬ ∃ b ∈ bs, b.content = k) :
    wt bs k = 0 := by
  unfold wt
  have : bs.filter (fun b => decide (b.content = k)) = [] := by
    rw [List.filter_eq_nil_iff]
    intro b hb hk
    exact h ⟨b, hb, by simpa using hk⟩
  simp [this]

theorem mem_contents (bs : List Ballot) (k : Content) : k ∈ contents bs ↔ ∃ b ∈ bs, b.content = k := by
  have := foldl_accAdd_mem_keys bs [] k
  simpa [contents, accumulate] using this

/-- **Two profiles compare equal exactly when they assign the same total weight to every content.** -/
theorem C11_eq_iff (p q : Profile) :
    profEq p q = true ↔ ∀ k, wt p.ballots k = wt q.ballots k := by
  unfold profEq
  simp only [Bool.and_eq_true, List.all_eq_true, decide_eq_true_eq]
  constructor
  · rintro ⟨h1, h2⟩ k
    by_cases hp : k ∈ contents p.ballots
    · exact h1 k hp
    · by_cases hq : k ∈ contents q.ballots
      · exact h2 k hq
      · rw [mem_contents] at hp hq
        rw [wt_zero_of_not_mem _ _ hp, wt_zero_of_not_mem _ _ hq]
  · intro h
    exact ⟨fun k _ => h k, fun k _ => h k⟩

theorem wt_append (a b : List Ballot) (k : Content) : wt (a ++ b) k = wt a k + wt b k := by
  unfold wt; simp

/-- **Adding profiles adds the weights of every content.** -/
theorem C11_add (p q : Profile) (k : Content) :
    wt (profAdd p q).ballots k = wt p.ballots k + wt q.ballots k := by
  simp [profAdd, wt_append]

theorem hasDup_iff (l : List Cand) : hasDup l = true ↔ ¬ l.Nodup := by
  induction l with
  | nil => simp [hasDup]
  | cons x xs ih =>
    simp only [hasDup, Bool.or_eq_true, List.contains_iff_mem, ih, List.nodup_cons, not_and]
    constructor
    · rintro (h | h)
      · intro hn; exact absurd h hn
      · intro _; exact h
    · intro h
      by_cases hx : x ∈ xs
      · exact Or.inl hx
      · exact Or.inr (h hx)

/-- **A candidate list with duplicates is rejected (ValueError); one without is kept as given.** -/
theorem C11_dup_candidates_rejected (bs : List Ballot) (cands : List Cand) :
    (¬ cands.Nodup → mkProfile bs cands = .raised .valueError) ∧
    (cands.Nodup → cands ≠ [] → mkProfile bs cands = .ok { ballots := bs, cands := cands }) := by
  constructor
  · intro h
    have := (hasDup_iff cands).2 h
    simp [mkProfile, this]
  · intro h hne
    have : hasDup cands = false := by
      cases hd : hasDup cands with
      | false => rfl
      | true => exact absurd h ((hasDup_iff cands).1 hd)
    have hne' : cands.isEmpty = false := by
      cases cands with
      | nil => exact absurd rfl hne
      | cons _ _ => rfl
    simp [mkProfile, this, hne']

/-- non-vacuity: the F-C11 witness — an unscored and a scored ballot with the same ranking stay apart -/
example : condense [{ ranking := [[0]], weight := 1 }, { ranking := [[0]], weight := 2, scores := [(0, 1)] },
                    { ranking := [[0]], weight := 4 }]
    = [{ ranking := [[0]], weight := 5 }, { ranking := [[0]], weight := 2, scores := [(0, 1)] }] := by
  decide +kernel

end VK
