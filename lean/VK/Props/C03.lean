/-
  Property C03 — surplus transfers and STV rounds conserve votes.
-/
import VK.Model.Transfers
import VK.Lemmas.STVWeight
import VK.Lemmas.STVRun
import VK.Lemmas.RandomTransfer
import VK.Lemmas.Condense
import Mathlib.Tactic.FieldSimp
import Mathlib.Algebra.Order.Field.Basic

namespace VK

theorem removeWinner_not_mem (w : Cand) (r : Ranking) : w ∉ (removeWinner w r).flatten := by
  unfold removeWinner
  simp only [List.mem_flatten, List.mem_filter, List.mem_map, not_exists, not_and]
  rintro s ⟨⟨t, _, rfl⟩, _⟩ hw
  simp at hw

/-- erasing the winner keeps all other candidates in their original relative order -/
theorem removeWinner_flatten (w : Cand) (r : Ranking) :
    (removeWinner w r).flatten = r.flatten.filter (fun c => c != w) := by
  unfold removeWinner
  induction r with
  | nil => simp
  | cons s rest ih =>
    simp only [List.map_cons, List.flatten_cons, List.filter_append]
    by_cases h : (s.filter (fun c => c != w)).isEmpty = true
    · have : s.filter (fun c => c != w) = [] := by simpa using h
      simp [this, ih]
    · simp [h, ih]

/-- **C03 (no winner).** No ballot returned by the fractional rule mentions the winner. -/
theorem C03_no_winner (w : Cand) (fpv : Rat) (bs : List Ballot) (q : Int) (out : List Ballot)
    (h : fractionalTransfer w fpv bs q = .ok out) : ∀ b ∈ out, w ∉ b.ranking.flatten := by
  unfold fractionalTransfer at h
  split at h; · cases h
  split at h; · cases h
  injection h with h
  intro b hb
  have hc : b.content ∈ out.map Ballot.content := List.mem_map_of_mem hb
  rw [← h, mem_condense_content] at hc
  obtain ⟨b', hb', hcont⟩ := hc
  simp only [List.mem_filter, List.mem_map] at hb'
  obtain ⟨⟨b0, _, rfl⟩, _⟩ := hb'
  have : b.ranking = removeWinner w b0.ranking := by
    have := congrArg Prod.fst hcont
    simpa [Ballot.content] using this.symm
  rw [this]
  exact removeWinner_not_mem w _

/-- **C03 (order).** Every returned ranking is an input ranking with the winner erased: the other
candidates keep their relative order. -/
theorem C03_order (w : Cand) (fpv : Rat) (bs : List Ballot) (q : Int) (out : List Ballot)
    (h : fractionalTransfer w fpv bs q = .ok out) :
    ∀ b ∈ out, ∃ b0 ∈ bs, b.ranking = removeWinner w b0.ranking ∧
      b.ranking.flatten = b0.ranking.flatten.filter (fun c => c != w) := by
  unfold fractionalTransfer at h
  split at h; · cases h
  split at h; · cases h
  injection h with h
  intro b hb
  have hc : b.content ∈ out.map Ballot.content := List.mem_map_of_mem hb
  rw [← h, mem_condense_content] at hc
  obtain ⟨b', hb', hcont⟩ := hc
  simp only [List.mem_filter, List.mem_map] at hb'
  obtain ⟨⟨b0, hb0, rfl⟩, _⟩ := hb'
  have hr : b.ranking = removeWinner w b0.ranking := by
    have := congrArg Prod.fst hcont
    simpa [Ballot.content] using this.symm
  exact ⟨b0, hb0, hr, by rw [hr, removeWinner_flatten]⟩

/-- the transfer value lies in `[0, 1)` whenever `0 < q ≤ t` -/
theorem C03_transfer_value_bounds (t q : Rat) (hq : 0 < q) (hqt : q ≤ t) :
    0 ≤ (t - q) / t ∧ (t - q) / t < 1 := by
  have ht : 0 < t := lt_of_lt_of_le hq hqt
  constructor
  · apply div_nonneg <;> linarith
  · rw [div_lt_one ht]; linarith

/-- a ballot of weight `w ≤ t` led by the winner loses at most `q` -/
theorem C03_loss_le_quota (w t q : Rat) (ht : 0 < t) (hw : w ≤ t) (hq : 0 ≤ q) :
    w - q ≤ w * ((t - q) / t) := by
  have : w * ((t - q) / t) = w - q * (w / t) := by field_simp
  rw [this]
  have h1 : w / t ≤ 1 := by rw [div_le_one ht]; exact hw
  nlinarith [mul_le_mul_of_nonneg_left h1 hq]

theorem frac_weight_aux (w : Cand) (f : Ballot → Rat) (bs : List Ballot) (k : Ranking) (hk : k ≠ [])
    (hpos : ∀ b ∈ bs, 0 < f b) :
    wt ((bs.map (fun b => ({ ranking := removeWinner w b.ranking, weight := f b, scores := [] } : Ballot))).filter
        (fun b => !b.ranking.isEmpty && decide (0 < b.weight))) (k, []) =
      rsum ((bs.filter (fun b => removeWinner w b.ranking = k)).map f) := by
  induction bs with
  | nil => simp [wt]
  | cons b bs ih =>
    have hb : 0 < f b := hpos b (by simp)
    have ih' := ih (fun x hx => hpos x (by simp [hx]))
    unfold wt at ih' ⊢
    by_cases hr : removeWinner w b.ranking = k
    · have hne : k.isEmpty = false := by
        cases k with
        | nil => exact absurd rfl hk
        | cons _ _ => rfl
      simp only [List.map_cons, List.filter_cons, hb, hr, hne, Ballot.content, Bool.not_false,
        decide_true, Bool.and_self, if_true, rsum_cons] at ih' ⊢
      rw [← ih']
    · by_cases hkeep : (!(removeWinner w b.ranking).isEmpty && decide (0 < f b)) = true
      · have hc : ¬ ((removeWinner w b.ranking, ([] : Scores)) = (k, [])) := by
          intro e; exact hr (congrArg Prod.fst e)
        simp only [List.map_cons, List.filter_cons, hkeep, if_true, Ballot.content, hc, hr,
          decide_false] at ih' ⊢
        simpa [Ballot.content] using ih'
      · simp only [List.map_cons, List.filter_cons, hkeep, hr, decide_false] at ih' ⊢
        simpa [Ballot.content] using ih'

/-- **C03 (fractional weight).** For every continuing ranking `k`, the output carries exactly
`(t-q)/t` times the weight of the winner-led input ballots that map to `k` plus the full weight of
the other input ballots that map to `k` — provided those weights are positive so that nothing is
dropped as a zero-weight ballot. -/
theorem C03_frac_weight (w : Cand) (fpv : Rat) (bs : List Ballot) (q : Int) (out : List Ballot)
    (h : fractionalTransfer w fpv bs q = .ok out) (k : Ranking) (hk : k ≠ [])
    (hpos : ∀ b ∈ bs, 0 < (if ledBy w b then b.weight * ((fpv - q) / fpv) else b.weight)) :
    wt out (k, []) =
      rsum ((bs.filter (fun b => removeWinner w b.ranking = k)).map
        (fun b => if ledBy w b then b.weight * ((fpv - q) / fpv) else b.weight)) := by
  unfold fractionalTransfer at h
  split at h; · cases h
  split at h; · cases h
  injection h with h
  rw [← h, wt_condense]
  exact frac_weight_aux w _ bs k hk hpos

/-- non-vacuity: A>B weight 3 and A>B weight 1 with tally 4, quota 2: B receives 4·(2/4) = 2 -/
example : fractionalTransfer 0 4 [{ ranking := [[0], [1]], weight := 3 }, { ranking := [[0], [1]], weight := 1 }] 2
    = .ok [{ ranking := [[1]], weight := 2 }] := by decide +kernel

/-! ### round accounting of the STV count (pointwise state = the profile the code holds) -/

/-- the tallies recorded for a round add up to the active weight: every ballot that still ranks a
hopeful candidate is counted for exactly one of them -/
theorem tallies_sum_active (bs : List PBallot) (hop : List Cand) (hn : hop.Nodup) :
    rsum ((tallies bs hop).map (·.2)) = active bs hop := by
  unfold tallies active
  simp only [List.map_map, Function.comp_def]
  induction bs with
  | nil => simp [tally, wsum_nil, rsum_replicate]
  | cons b rest ih =>
    have hsplit : (fun c => tally (b :: rest) hop c) =
        fun c => (if topOf hop b.1 = some c then b.2 else 0) + tally rest hop c := by
      funext c
      rw [tally_eq_wsum, wsum_cons, ← tally_eq_wsum]
      by_cases h : topOf hop b.1 = some c <;> simp [h]
    rw [hsplit, rsum_map_add, ih, wsum_cons]
    congr 1
    -- exactly one hopeful candidate is the ballot's top, if it has one
    cases htop : topOf hop b.1 with
    | none => simp [isActive, htop, rsum_replicate]
    | some c0 =>
      have hc0 : c0 ∈ hop := by
        unfold topOf at htop
        have := List.find?_some htop
        simpa using this
      simp only [isActive, htop, Option.isSome_some, if_true, Option.some.injEq]
      clear ih hsplit htop
      induction hop with
      | nil => simp at hc0
      | cons x xs ihx =>
        rw [List.nodup_cons] at hn
        simp only [List.map_cons, rsum_cons]
        by_cases hx : c0 = x
        · subst hx
          have : ∀ c ∈ xs, (if c0 = c then b.2 else 0) = 0 := by
            intro c hc
            have : c0 ≠ c := fun e => hn.1 (e ▸ hc)
            simp [this]
          rw [List.map_congr_left this]; simp [rsum_replicate]
        · have hc0' : c0 ∈ xs := by
            rcases List.mem_cons.1 hc0 with h | h
            · exact absurd h hx
            · exact h
          rw [ihx hn.2 hc0']; simp [hx]

/-- **Round accounting (fractional rule).** In every step of the count either the remaining
candidates fill the remaining seats (the profile becomes empty), or the total weight of the next
profile plus the weight of the ballots left with no surviving choice equals the previous total
minus one threshold for each candidate elected in the round — nothing else is lost or created.
An elimination round (no one elected) consumes nothing. -/
theorem C03_step_accounting (cfg : STVCfg) (init : Profile) (q : Int) (ω : STVOracle) (rnd : Nat)
    (S S' : CState) (prev r : RoundState) (hf : cfg.transfer = .fractional)
    (h : stvStep cfg init q ω rnd S prev = .ok (S', r)) :
    (S'.hopeful = [] ∧ r.remaining = [] ∧ r.scores = [] ∧ r.elected = prev.remaining) ∨
    (active S'.bs S'.hopeful + exhausted S'.bs S.hopeful S'.hopeful =
        active S.bs S.hopeful - (q : Rat) * (r.elected.flatten.length : Rat) ∧
      r.scores = tallies S'.bs S'.hopeful ∧ (r.elected = [] ∨ r.eliminated = [])) := by
  unfold stvStep at h
  simp only at h
  split at h
  · cases he : electChoice cfg q ω rnd S prev with
    | ok gt =>
      obtain ⟨g, tbs⟩ := gt
      simp only [he, bind, Outcome.bind] at h
      cases ha : applyTransfers cfg S.hopeful q (ω.sample rnd) g.flatten S.bs with
      | ok bs' =>
        simp only [ha, pure, Outcome.ok.injEq, Prod.mk.injEq] at h
        obtain ⟨h1, h2⟩ := h
        subst h1 h2
        right
        refine ⟨?_, rfl, Or.inr rfl⟩
        have h3 := applyTransfers_fractional_active cfg S.hopeful q _ g.flatten S.bs bs' hf ha
        have h4 := active_shrink bs' S.hopeful (S.hopeful.filter (fun c => !g.flatten.contains c))
          (fun c hc => (List.mem_filter.1 hc).1)
        simp only
        rw [← h4, h3]
      | raised e => simp [ha] at h
      | oracleMismatch => simp [ha] at h
      | outOfFuel => simp [ha] at h
    | raised e => simp [he, bind, Outcome.bind] at h
    | oracleMismatch => simp [he, bind, Outcome.bind] at h
    | outOfFuel => simp [he, bind, Outcome.bind] at h
  · split at h
    · simp only [pure, Outcome.ok.injEq, Prod.mk.injEq] at h
      obtain ⟨h1, h2⟩ := h
      subst h1 h2
      exact Or.inl ⟨rfl, rfl, rfl, rfl⟩
    · split at h
      · cases h
      · rename_i lowest hlast
        cases hlc : loserChoice init ω rnd lowest with
        | ok ct =>
          obtain ⟨c, tbs⟩ := ct
          simp only [hlc, bind, Outcome.bind, pure, Outcome.ok.injEq, Prod.mk.injEq] at h
          obtain ⟨h1, h2⟩ := h
          subst h1 h2
          right
          refine ⟨?_, rfl, Or.inl rfl⟩
          have h4 := active_shrink S.bs S.hopeful (S.hopeful.filter (fun x => x != c))
            (fun x hx => (List.mem_filter.1 hx).1)
          simp only [List.flatten_nil, List.length_nil]
          rw [← h4]; push_cast; ring
        | raised e => simp [hlc, bind, Outcome.bind] at h
        | oracleMismatch => simp [hlc, bind, Outcome.bind] at h
        | outOfFuel => simp [hlc, bind, Outcome.bind] at h

/-- **The total never increases** (fractional rule, non-negative threshold, non-negative weights
after the step): from one round to the next the profile's total weight can only drop. -/
theorem C03_total_nonincreasing (cfg : STVCfg) (init : Profile) (q : Int) (ω : STVOracle) (rnd : Nat)
    (S S' : CState) (prev r : RoundState) (hf : cfg.transfer = .fractional) (hq : 0 ≤ q)
    (hS : ∀ b ∈ S.bs, 0 ≤ b.2) (hS' : ∀ b ∈ S'.bs, 0 ≤ b.2)
    (h : stvStep cfg init q ω rnd S prev = .ok (S', r)) :
    active S'.bs S'.hopeful ≤ active S.bs S.hopeful := by
  rcases C03_step_accounting cfg init q ω rnd S S' prev r hf h with ⟨h1, _⟩ | ⟨h1, _⟩
  · rw [h1]
    have h0 : active S'.bs [] = 0 := by
      unfold active wsum
      have : S'.bs.filter (isActive []) = [] := by
        rw [List.filter_eq_nil_iff]; intro b _; simp [isActive, topOf]
      rw [this]; rfl
    rw [h0]
    exact wsum_nonneg _ _ hS
  · have hex : 0 ≤ exhausted S'.bs S.hopeful S'.hopeful := wsum_nonneg _ _ hS'
    have hqk : 0 ≤ (q : Rat) * (r.elected.flatten.length : Rat) :=
      mul_nonneg (by exact_mod_cast hq) (by positivity)
    linarith

/-- SequentialRCV (full-weight transfer): a surplus transfer changes no ballot weight at all -/
theorem C03_full_transfer_keeps_weights (cfg : STVCfg) (hopeful : List Cand) (q : Int)
    (sample : List (List Cand × Nat)) (bs bs' : List PBallot) (w : Cand) (hf : cfg.transfer = .full)
    (h : applyTransfer cfg hopeful q sample bs w = .ok bs') : bs' = bs :=
  applyTransfer_full cfg hopeful q sample bs bs' w hf h


/-! ### the random (whole-ballot) rule -/

/-- **One random transfer, for every sample the oracle may report.** Ballots not counted for the
winner are untouched, no ballot gains weight, weights stay non-negative, and the winner's pile
keeps exactly `tally − threshold` (whole) votes; ballots that still rank a hopeful candidate lose at
most one threshold in total. -/
theorem C03_random_transfer (cfg : STVCfg) (hop : List Cand) (q : Int) (sample : List (List Cand × Nat))
    (bs bs' : List PBallot) (w : Cand) (hf : cfg.transfer = .random) (hnn : ∀ b ∈ bs, 0 ≤ b.2)
    (h : applyTransfer cfg hop q sample bs w = .ok bs') : RandomFacts hop q w bs bs' :=
  applyTransfer_random_facts cfg hop q sample bs bs' w hf hnn h

/-- **Round accounting for either built-in transfer rule**: in an election round the next total plus
the exhausted weight is the previous total minus one threshold per elected candidate. -/
theorem C03_step_accounting_both (cfg : STVCfg) (init : Profile) (q : Int) (ω : STVOracle) (rnd : Nat)
    (S S' : CState) (prev r : RoundState) (recs : List RoundState)
    (hf : cfg.transfer = .fractional ∨ cfg.transfer = .random) (hq : 0 < q)
    (hi : init.cands.Nodup) (hcs : ∀ c ∈ S.hopeful, c ∈ init.cands)
    (inv : StvInv init.cands S prev recs) (hl : Linked S prev) (hnn : ∀ b ∈ S.bs, 0 ≤ b.2)
    (h : stvStep cfg init q ω rnd S prev = .ok (S', r)) :
    (S'.hopeful = [] ∧ r.remaining = [] ∧ r.elected = prev.remaining) ∨
    (active S'.bs S'.hopeful + exhausted S'.bs S.hopeful S'.hopeful =
        active S.bs S.hopeful - (q : Rat) * (r.elected.flatten.length : Rat) ∧ (∀ b ∈ S'.bs, 0 ≤ b.2)) := by
  have hT : GoodTransfers cfg := hf.elim (goodTransfers_fractional cfg) (goodTransfers_random cfg)
  obtain ⟨_, hsub', _⟩ := stvStep_inv cfg init q ω rnd S S' prev r recs hi hcs inv h
  rcases stvStep_cases cfg init q ω rnd S S' prev r h with
    ⟨g, tbs, bs', habove, he, ha, hSb, hSh, _, hre, _, _⟩ |
    ⟨_, hSh, _, _, _, _, hre, _, hrr⟩ |
    ⟨_, lowest, c, tbs, _, _, hSb, hSh, _, hre, _⟩
  · right
    obtain ⟨hWn, _⟩ := electChoice_spec cfg q ω rnd S prev g tbs inv.hop_nodup inv.rem he
    have hge := electChoice_ge cfg q ω rnd S prev g tbs hl inv.hop_nodup habove he
    obtain ⟨hnn', _, hact⟩ := hT S.hopeful q (ω.sample rnd) (fun _ => false) (fun _ => false) g.flatten S.bs bs'
      hq hnn hWn hge (by intro w _ _; simp [wsum]) (by intro w _ h; cases h) ha
    have h4 := active_shrink bs' S.hopeful S'.hopeful hsub'
    rw [hSb, hre]
    exact ⟨by rw [← h4, hact], hnn'⟩
  · exact Or.inl ⟨hSh, hrr, hre⟩
  · right
    have h4 := active_shrink S.bs S.hopeful S'.hopeful hsub'
    rw [hSb, hre]
    refine ⟨?_, hnn⟩
    simp only [List.flatten_nil, List.length_nil]
    rw [← h4]; push_cast; ring


end VK
