/-
  Property C03 — surplus transfers and STV rounds conserve votes.
-/
import VK.Model.Transfers
import VK.Lemmas.Condense
import Mathlib.Tactic.FieldSimp
import Mathlib.Algebra.Order.Field.Basic

namespace VK

theorem removeWinner_not_mem (w : Cand) (r : Ranking) : w ∉ (removeWinner w r).flatten := by
  unfold removeWinner
  simp only [List.mem_flatten, List.mem_filter, List.mem_map, not_exists, not_and]
  rintro s ⟨⟨t, _, rfl⟩, _⟩ hw
  simp at hw

/-- erasing the winner keeps all other candidates in their original relative order -/
theorem removeWinner_flatten (w : Cand) (r : Ranking) :
    (removeWinner w r).flatten = r.flatten.filter (fun c => c != w) := by
  unfold removeWinner
  induction r with
  | nil => simp
  | cons s rest ih =>
    simp only [List.map_cons, List.flatten_cons, List.filter_append]
    by_cases h : (s.filter (fun c => c != w)).isEmpty = true
    · have : s.filter (fun c => c != w) = [] := by simpa using h
      simp [this, ih]
    · simp [h, ih]

/-- **C03 (no winner).** No ballot returned by the fractional rule mentions the winner. -/
theorem C03_no_winner (w : Cand) (fpv : Rat) (bs : List Ballot) (q : Int) (out : List Ballot)
    (h : fractionalTransfer w fpv bs q = .ok out) : ∀ b ∈ out, w ∉ b.ranking.flatten := by
  unfold fractionalTransfer at h
  split at h; · cases h
  split at h; · cases h
  injection h with h
  intro b hb
  have hc : b.content ∈ out.map Ballot.content := List.mem_map_of_mem hb
  rw [← h, mem_condense_content] at hc
  obtain ⟨b', hb', hcont⟩ := hc
  simp only [List.mem_filter, List.mem_map] at hb'
  obtain ⟨⟨b0, _, rfl⟩, _⟩ := hb'
  have : b.ranking = removeWinner w b0.ranking := by
    have := congrArg Prod.fst hcont
    simpa [Ballot.content] using this.symm
  rw [this]
  exact removeWinner_not_mem w _

/-- **C03 (order).** Every returned ranking is an input ranking with the winner erased: the other
candidates keep their relative order. -/
theorem C03_order (w : Cand) (fpv : Rat) (bs : List Ballot) (q : Int) (out : List Ballot)
    (h : fractionalTransfer w fpv bs q = .ok out) :
    ∀ b ∈ out, ∃ b0 ∈ bs, b.ranking = removeWinner w b0.ranking ∧
      b.ranking.flatten = b0.ranking.flatten.filter (fun c => c != w) := by
  unfold fractionalTransfer at h
  split at h; · cases h
  split at h; · cases h
  injection h with h
  intro b hb
  have hc : b.content ∈ out.map Ballot.content := List.mem_map_of_mem hb
  rw [← h, mem_condense_content] at hc
  obtain ⟨b', hb', hcont⟩ := hc
  simp only [List.mem_filter, List.mem_map] at hb'
  obtain ⟨⟨b0, hb0, rfl⟩, _⟩ := hb'
  have hr : b.ranking = removeWinner w b0.ranking := by
    have := congrArg Prod.fst hcont
    simpa [Ballot.content] using this.symm
  exact ⟨b0, hb0, hr, by rw [hr, removeWinner_flatten]⟩

/-- the transfer value lies in `[0, 1)` whenever `0 < q ≤ t` -/
theorem C03_transfer_value_bounds (t q : Rat) (hq : 0 < q) (hqt : q ≤ t) :
    0 ≤ (t - q) / t ∧ (t - q) / t < 1 := by
  have ht : 0 < t := lt_of_lt_of_le hq hqt
  constructor
  · apply div_nonneg <;> linarith
  · rw [div_lt_one ht]; linarith

/-- a ballot of weight `w ≤ t` led by the winner loses at most `q` -/
theorem C03_loss_le_quota (w t q : Rat) (ht : 0 < t) (hw : w ≤ t) (hq : 0 ≤ q) :
    w - q ≤ w * ((t - q) / t) := by
  have : w * ((t - q) / t) = w - q * (w / t) := by field_simp
  rw [this]
  have h1 : w / t ≤ 1 := by rw [div_le_one ht]; exact hw
  nlinarith [mul_le_mul_of_nonneg_left h1 hq]

theorem frac_weight_aux (w : Cand) (f : Ballot → Rat) (bs : List Ballot) (k : Ranking) (hk : k ≠ [])
    (hpos : ∀ b ∈ bs, 0 < f b) :
    wt ((bs.map (fun b => ({ ranking := removeWinner w b.ranking, weight := f b, scores := [] } : Ballot))).filter
        (fun b => !b.ranking.isEmpty && decide (0 < b.weight))) (k, []) =
      rsum ((bs.filter (fun b => removeWinner w b.ranking = k)).map f) := by
  induction bs with
  | nil => simp [wt]
  | cons b bs ih =>
    have hb : 0 < f b := hpos b (by simp)
    have ih' := ih (fun x hx => hpos x (by simp [hx]))
    unfold wt at ih' ⊢
    by_cases hr : removeWinner w b.ranking = k
    · have hne : k.isEmpty = false := by
        cases k with
        | nil => exact absurd rfl hk
        | cons _ _ => rfl
      simp only [List.map_cons, List.filter_cons, hb, hr, hne, Ballot.content, Bool.not_false,
        decide_true, Bool.and_self, if_true, rsum_cons] at ih' ⊢
      rw [← ih']
    · by_cases hkeep : (!(removeWinner w b.ranking).isEmpty && decide (0 < f b)) = true
      · have hc : ¬ ((removeWinner w b.ranking, ([] : Scores)) = (k, [])) := by
          intro e; exact hr (congrArg Prod.fst e)
        simp only [List.map_cons, List.filter_cons, hkeep, if_true, Ballot.content, hc, hr,
          decide_false] at ih' ⊢
        simpa [Ballot.content] using ih'
      · simp only [List.map_cons, List.filter_cons, hkeep, hr, decide_false] at ih' ⊢
        simpa [Ballot.content] using ih'

/-- **C03 (fractional weight).** For every continuing ranking `k`, the output carries exactly
`(t-q)/t` times the weight of the winner-led input ballots that map to `k` plus the full weight of
the other input ballots that map to `k` — provided those weights are positive so that nothing is
dropped as a zero-weight ballot. -/
theorem C03_frac_weight (w : Cand) (fpv : Rat) (bs : List Ballot) (q : Int) (out : List Ballot)
    (h : fractionalTransfer w fpv bs q = .ok out) (k : Ranking) (hk : k ≠ [])
    (hpos : ∀ b ∈ bs, 0 < (if ledBy w b then b.weight * ((fpv - q) / fpv) else b.weight)) :
    wt out (k, []) =
      rsum ((bs.filter (fun b => removeWinner w b.ranking = k)).map
        (fun b => if ledBy w b then b.weight * ((fpv - q) / fpv) else b.weight)) := by
  unfold fractionalTransfer at h
  split at h; · cases h
  split at h; · cases h
  injection h with h
  rw [← h, wt_condense]
  exact frac_weight_aux w _ bs k hk hpos

/-- non-vacuity: A>B weight 3 and A>B weight 1 with tally 4, quota 2: B receives 4·(2/4) = 2 -/
example : fractionalTransfer 0 4 [{ ranking := [[0], [1]], weight := 3 }, { ranking := [[0], [1]], weight := 1 }] 2
    = .ok [{ ranking := [[1]], weight := 2 }] := by decide +kernel

end VK
