/-
  Property C18 — the positive path of `load_scottish`: what an ACCEPTED file is turned into.
  String-to-number conversion and the csv module stay modelled by contract (`String.toNat!`, rows as `csv.reader`
  yields them); the theorem is about which rows become what, and that no non-blank row is dropped.
-/
import VK.Model.Loaders
import Mathlib.Data.List.Basic
namespace VK

/-- the non-blank rows with their empty cells removed: what the parser works on -/
def scotData (rows : List (List String)) : List (List String) :=
  (rows.map (fun r => r.filter (· ≠ ""))).filter (fun r => !r.isEmpty)

def scotBallotOf (l : List String) : List Nat × Nat := ((l.drop 1).map String.toNat!, (l.headD "0").toNat!)

theorem split_three (data : List (List String)) (n : Nat) (h : n + 2 ≤ data.length) :
    ∃ last, data = data.take 1 ++ (data.drop 1).take (data.length - (n + 1) - 1) ++
        (data.drop (data.length - (n + 1))).dropLast ++ [last] ∧ data.getLast? = some last ∧
      ((data.drop (data.length - (n + 1))).dropLast).length = n := by
  have hne : data.drop (data.length - (n + 1)) ≠ [] := by
    intro e
    have := congrArg List.length e
    simp only [List.length_drop, List.length_nil] at this
    omega
  refine ⟨(data.drop (data.length - (n + 1))).getLast hne, ?_, ?_, ?_⟩
  · have h1 : (data.drop (data.length - (n + 1))).dropLast ++ [(data.drop (data.length - (n + 1))).getLast hne] =
        data.drop (data.length - (n + 1)) := List.dropLast_append_getLast hne
    rw [List.append_assoc, h1]
    have h2 : (data.drop 1).take (data.length - (n + 1) - 1) ++ data.drop (data.length - (n + 1)) = data.drop 1 := by
      have : data.drop (data.length - (n + 1)) = (data.drop 1).drop (data.length - (n + 1) - 1) := by
        rw [List.drop_drop]; congr 1; omega
      rw [this, List.take_append_drop]
    rw [List.append_assoc, h2, List.take_append_drop]
  · rw [List.getLast?_eq_some_getLast (by intro e; rw [e] at h; simp at h)]
    congr 1
    rw [List.getLast_drop]
  · rw [List.length_dropLast, List.length_drop]; omega

/-- **C18 (Scottish format, accepted files).** If the parser accepts a file then: the first non-blank row is
(candidates n, seats), exactly n rows are candidate rows, the non-blank rows are - in this order and with nothing
left over - the header, the ballot rows, the n candidate rows and the ward row; seats, ward, names and parties are
read off those rows; every ballot row becomes one ballot with its leading number as multiplicity and its other
entries, in order, as candidate numbers, all of them digit strings and all within 1..n. -/
theorem C18_scot_accepts (rows : List (List String)) (r : ScotResult) (h : parseScottish rows = .ok r) :
    ∃ (a b : String) (rest ballotLines candLines : List (List String)) (wardRow : List String),
      scotData rows = [a, b] :: rest ∧
      scotData rows = [a, b] :: ballotLines ++ candLines ++ [wardRow] ∧
      candLines.length = a.toNat! ∧
      r.seats = b.toNat! ∧
      r.ward = (match wardRow with | w :: _ => w | [] => "") ∧
      r.cands = candLines.map (fun l => l.getD 1 "") ∧ r.cands.length = a.toNat! ∧
      r.parties = candLines.map (fun l => l.getD 2 "") ∧
      (∀ l ∈ candLines, 3 ≤ l.length) ∧
      r.ballots = ballotLines.map scotBallotOf ∧
      (∀ l ∈ ballotLines, ∀ x ∈ l, isDigits x = true) ∧
      (∀ bl ∈ r.ballots, ∀ x ∈ bl.1, 1 ≤ x ∧ x ≤ r.cands.length) := by
  unfold parseScottish at h
  have hd : (rows.map (fun r => r.filter (· ≠ ""))).filter (fun r => !r.isEmpty) = scotData rows := rfl
  simp only [hd] at h
  cases hdata : scotData rows with
  | nil => rw [hdata] at h; simp at h
  | cons first rest =>
    rw [hdata] at h
    rcases first with _ | ⟨a, _ | ⟨b, _ | ⟨c, t⟩⟩⟩
    · simp at h
    · simp at h
    · have h2 : ¬ ([a, b] : List String).length ≠ 2 := by simp
      simp only [] at h
      rw [if_neg h2] at h
      split at h
      · simp at h
      · split at h
        · simp at h
        · split at h
          · simp at h
          · rename_i hlen
            split at h
            · simp at h
            · rename_i hc1
              split at h
              · simp at h
              · rename_i hc2
                split at h
                · simp at h
                · rename_i hb1
                  split at h
                  · simp at h
                  · rename_i hb2
                    have hlen' : a.toNat! + 2 ≤ ([a, b] :: rest).length := by omega
                    obtain ⟨last, hsplit, hlast, hcl⟩ := split_three ([a, b] :: rest) a.toNat! hlen'
                    injection h with h
                    subst h
                    refine ⟨a, b, rest, _, _, last, rfl, ?_, hcl, rfl, ?_, rfl, ?_, rfl, ?_, rfl, ?_, ?_⟩
                    · exact hsplit
                    · simp only [hlast]; cases last <;> rfl
                    · simp only [List.length_map]; exact hcl
                    · intro l hl
                      rw [Bool.not_eq_true, List.any_eq_false] at hc2
                      have := hc2 l hl
                      simp only [decide_eq_true_eq] at this
                      omega
                    · intro l hl x hx
                      rw [Bool.not_eq_true, List.any_eq_false] at hb1
                      have h1 := hb1 l hl
                      rw [Bool.not_eq_true, List.any_eq_false] at h1
                      have h2 := h1 x hx
                      simpa using h2
                    · intro bl hbl x hx
                      simp only [List.mem_map] at hbl
                      obtain ⟨l, hl, rfl⟩ := hbl
                      simp only [scotBallotOf, List.mem_map] at hx
                      obtain ⟨s, hs, rfl⟩ := hx
                      rw [Bool.not_eq_true, List.any_eq_false] at hb2
                      have h1 := hb2 l hl
                      rw [Bool.not_eq_true, List.any_eq_false] at h1
                      have h2 := h1 s hs
                      simp only [Bool.or_eq_true, decide_eq_true_eq, not_or] at h2
                      simp only [List.length_map, hcl]
                      omega
    · simp at h

/-- Non-vacuity. `String.toNat!`, `String.all` and `splitOn` do not reduce in the kernel, so acceptance of a concrete
file cannot be a `decide`d example; the compiled driver evaluates `parseScottish` on every well-formed file the
correspondence check writes (several hundred per run, all accepted), and `#eval parseScottish scotDemo` answers
`ok { seats := 1, ward := "Ward 1", cands := ["Ann", "Bob"], parties := ["X", "Y"], ballots := [([1, 2], 3), ([2], 2)] }`. -/
def scotDemo : List (List String) :=
  [["2", "1"], ["3", "1", "2"], [], ["2", "2"], ["Candidate 1", "Ann", "X"], ["Candidate 2", "Bob", "Y"], ["Ward 1"]]


end VK
