/-
  Property C06 — pairwise comparison, dominating tiers and Condorcet consistency.
-/
import VK.Lemmas.Fill
import VK.Lemmas.Reach
import VK.Lemmas.Elect
import VK.Model.Rules
import Mathlib.Tactic.Ring

namespace VK
open Tiers

/-- margins are antisymmetric -/
theorem C06_margin_antisymm (p : Profile) (a b : Cand) : margin p a b = - margin p b a := by
  unfold margin; ring

theorem posOf_some {r : List Cand} {c : Cand} {i : Nat} (h : posOf r c = some i) :
    i < r.length ∧ r[i]? = some c := by
  simp only [posOf] at h
  split at h
  · rename_i hlt
    injection h with h; subst h
    refine ⟨hlt, ?_⟩
    rw [List.getElem?_eq_getElem hlt]
    have := List.findIdx_getElem (w := hlt)
    simpa using this
  · cases h

/-- **Head-to-head shares follow the documented rule**: a listed candidate beats an unlisted one,
two unlisted candidates split evenly, and two different candidates always share exactly the
ballot between them. -/
theorem C06_prefShare_cases (r : List Cand) (a b : Cand) (hab : a ≠ b) :
    (a ∈ r → b ∉ r → prefShare r a b = 1 ∧ prefShare r b a = 0) ∧
    (a ∉ r → b ∉ r → prefShare r a b = 1 / 2) ∧
    prefShare r a b + prefShare r b a = 1 := by
  have hnone : ∀ c, c ∉ r → posOf r c = none := by
    intro c hc
    have : ¬ List.findIdx (fun x => decide (x = c)) r < r.length := by
      rw [List.findIdx_lt_length]; simpa using hc
    simp [posOf, this]
  have hsome : ∀ c, c ∈ r → ∃ i, posOf r c = some i := by
    intro c hc
    have : List.findIdx (fun x => decide (x = c)) r < r.length := by
      rw [List.findIdx_lt_length]; exact ⟨c, hc, by simp⟩
    exact ⟨List.findIdx (fun x => decide (x = c)) r, by simp [posOf, this]⟩
  refine ⟨?_, ?_, ?_⟩
  · intro ha hb
    obtain ⟨i, hi⟩ := hsome a ha
    simp [prefShare, hi, hnone b hb]
  · intro ha hb
    simp [prefShare, hnone a ha, hnone b hb]
  · by_cases ha : a ∈ r <;> by_cases hb : b ∈ r
    · obtain ⟨i, hi⟩ := hsome a ha
      obtain ⟨j, hj⟩ := hsome b hb
      have hne : i ≠ j := by
        intro e; subst e
        have h1 := (posOf_some hi).2
        have h2 := (posOf_some hj).2
        rw [h1] at h2; exact hab (Option.some.inj h2)
      simp only [prefShare, hi, hj]
      rcases Nat.lt_or_gt_of_ne hne with h | h
      · have : ¬ j < i := by omega
        simp [h, this]
      · have : ¬ i < j := by omega
        simp [h, this]
    · obtain ⟨i, hi⟩ := hsome a ha
      simp [prefShare, hi, hnone b hb]
    · obtain ⟨j, hj⟩ := hsome b hb
      simp [prefShare, hj, hnone a ha]
    · simp [prefShare, hnone a ha, hnone b hb]; norm_num

/-- the beats-or-ties digraph is semicomplete -/
theorem edge_total (p : Profile) (cands : List Cand) : Total cands (edge p) := by
  intro a _ b _ hne
  unfold edge
  have h := C06_margin_antisymm p a b
  by_cases h0 : 0 ≤ margin p a b
  · left; simp [hne, h0]
  · right
    have : 0 ≤ margin p b a := by linarith
    have hne' : b ≠ a := fun e => hne e.symm
    simp [hne', this]

/-- **The bounded expansion computes reachability.** -/
theorem C06_reach_correct (p : Profile) (a b : Cand) :
    b ∈ reach (graphCands p) (edge p) a ↔
      a ∈ graphCands p ∧ Relation.ReflTransGen (Edge (graphCands p) (edge p)) a b :=
  mem_reach _ _ a b

/-- **The tiers partition the candidates.** -/
theorem C06_tiers_partition (p : Profile) : (dominatingTiers p).flatten.Perm (graphCands p) := by
  unfold dominatingTiers tiersOf
  have := scoreToRanking_perm ((graphCands p).map (fun c => (c, ((reachCount (graphCands p) (edge p) c : Nat) : Rat))))
  simpa [List.map_map, Function.comp_def] using this

/-- the tiers are the classes of equal reach count, listed by strictly decreasing count -/
theorem tiers_eq (cands : List Cand) (E : Cand → Cand → Bool) :
    ∃ vals : List Rat, vals.Pairwise (· > ·) ∧
      tiersOf cands E = vals.map (fun v => cands.filter (fun c => ((reachCount cands E c : Nat) : Rat) = v)) := by
  unfold tiersOf
  rw [scoreToRanking_eq]
  refine ⟨distinctDesc ((cands.map (fun c => (c, ((reachCount cands E c : Nat) : Rat)))).map (·.2)),
    distinctDesc_sorted _, ?_⟩
  apply List.map_congr_left
  intro v _
  unfold groupOf
  rw [List.filter_map, List.map_map]
  simp [Function.comp_def]

/-- **Every member of a higher tier strictly beats every member of every lower tier.** -/
theorem C06_beats_lower_tier (p : Profile) :
    (dominatingTiers p).Pairwise (fun t u => ∀ a ∈ t, ∀ b ∈ u, 0 < margin p a b) := by
  obtain ⟨vals, hv, heq⟩ := tiers_eq (graphCands p) (edge p)
  unfold dominatingTiers
  rw [heq, List.pairwise_map]
  refine hv.imp ?_
  intro v u hvu a ha b hb
  simp only [List.mem_filter, decide_eq_true_eq] at ha hb
  have hlt : reachCount (graphCands p) (edge p) b < reachCount (graphCands p) (edge p) a := by
    have : ((reachCount (graphCands p) (edge p) b : Nat) : Rat) < ((reachCount (graphCands p) (edge p) a : Nat) : Rat) := by
      rw [ha.2, hb.2]; exact hvu
    exact_mod_cast this
  rw [reachCount_eq_rc _ _ a ha.1, reachCount_eq_rc _ _ b hb.1] at hlt
  obtain ⟨_, h2⟩ := beats_of_rc_lt (edge_total p _) ha.1 hb.1 hlt
  have hne : b ≠ a := by rintro rfl; exact lt_irrefl _ hlt
  have h3 : ¬ (0 ≤ margin p b a) := by
    intro hge
    have : edge p b a = true := by simp [edge, hne, hge]
    rw [this] at h2; cases h2
  rw [C06_margin_antisymm]; linarith

/-- members of a tier are candidates, all with the same reach count, and a candidate with that
reach count is in the tier -/
theorem tier_members (p : Profile) (t : List Cand) (ht : t ∈ dominatingTiers p) :
    ∃ k : Rat, ∀ a, a ∈ t ↔ a ∈ graphCands p ∧ ((reachCount (graphCands p) (edge p) a : Nat) : Rat) = k := by
  obtain ⟨vals, _, heq⟩ := tiers_eq (graphCands p) (edge p)
  unfold dominatingTiers at ht
  rw [heq] at ht
  obtain ⟨v, _, rfl⟩ := List.mem_map.1 ht
  exact ⟨v, fun a => by simp [List.mem_filter]⟩

theorem tier_rc_eq (p : Profile) (t : List Cand) (ht : t ∈ dominatingTiers p) (a b : Cand)
    (ha : a ∈ t) (hb : b ∈ t) :
    a ∈ graphCands p ∧ b ∈ graphCands p ∧ rc (graphCands p) (edge p) a = rc (graphCands p) (edge p) b := by
  obtain ⟨k, hk⟩ := tier_members p t ht
  have h1 := (hk a).1 ha
  have h2 := (hk b).1 hb
  refine ⟨h1.1, h2.1, ?_⟩
  rw [← reachCount_eq_rc _ _ a h1.1, ← reachCount_eq_rc _ _ b h2.1]
  have : ((reachCount (graphCands p) (edge p) a : Nat) : Rat) = ((reachCount (graphCands p) (edge p) b : Nat) : Rat) := by
    rw [h1.2, h2.2]
  exact_mod_cast this

/-- **No tier can be split** into a part `A` and a rest such that every member of `A` strictly
beats every member of the rest: some member outside `A` ties or beats a member of `A`. -/
theorem C06_tier_unsplittable (p : Profile) (t : List Cand) (ht : t ∈ dominatingTiers p)
    (A : Cand → Prop) (a b : Cand) (ha : a ∈ t) (hb : b ∈ t) (hA : A a) (hB : ¬ A b) :
    ∃ x ∈ t, ∃ y ∈ t, ¬ A x ∧ A y ∧ 0 ≤ margin p x y := by
  obtain ⟨hac, hbc, hrc⟩ := tier_rc_eq p t ht a b ha hb
  obtain ⟨x, y, hx, hy, hrx, hry, hnx, hay, hE⟩ :=
    tier_unsplittable (edge_total p _) A hac hbc hrc hA hB
  obtain ⟨k, hk⟩ := tier_members p t ht
  have hka := ((hk a).1 ha).2
  have inT : ∀ z, z ∈ graphCands p → rc (graphCands p) (edge p) z = rc (graphCands p) (edge p) a → z ∈ t := by
    intro z hz hrz
    refine (hk z).2 ⟨hz, ?_⟩
    rw [← hka]
    rw [← reachCount_eq_rc _ _ z hz, ← reachCount_eq_rc _ _ a hac] at hrz
    exact_mod_cast hrz
  refine ⟨x, inT x hx hrx, y, inT y hy hry, hnx, hay, ?_⟩
  unfold edge at hE
  simp only [Bool.and_eq_true, decide_eq_true_eq] at hE
  exact hE.2

/-- the first tier has the largest reach count -/
theorem top_tier_max (p : Profile) (top : List Cand) (rest : Ranking)
    (h : dominatingTiers p = top :: rest) (x : Cand) (hx : x ∈ top) (d : Cand) (hd : d ∈ graphCands p) :
    rc (graphCands p) (edge p) d ≤ rc (graphCands p) (edge p) x := by
  obtain ⟨vals, hv, heq⟩ := tiers_eq (graphCands p) (edge p)
  have hxc : x ∈ graphCands p := by
    obtain ⟨k, hk⟩ := tier_members p top (by rw [h]; simp)
    exact ((hk x).1 hx).1
  unfold dominatingTiers at h
  rw [heq] at h
  cases vals with
  | nil => simp at h
  | cons v vs =>
    simp only [List.map_cons, List.cons.injEq] at h
    rw [← h.1] at hx
    have hxv := (List.mem_filter.1 hx).2
    simp only [decide_eq_true_eq] at hxv
    -- d lies in some tier with value u ∈ v :: vs
    have hdmem : d ∈ (tiersOf (graphCands p) (edge p)).flatten :=
      (C06_tiers_partition p).symm.subset hd
    rw [heq] at hdmem
    obtain ⟨g, hg, hdg⟩ := List.mem_flatten.1 hdmem
    obtain ⟨u, hu, rfl⟩ := List.mem_map.1 hg
    have hdu := (List.mem_filter.1 hdg).2
    simp only [decide_eq_true_eq] at hdu
    have hle : u ≤ v := by
      rcases List.mem_cons.1 hu with rfl | hu'
      · exact le_refl _
      · exact le_of_lt ((List.pairwise_cons.1 hv).1 u hu')
    rw [← reachCount_eq_rc _ _ d hd, ← reachCount_eq_rc _ _ x hxc]
    have : ((reachCount (graphCands p) (edge p) d : Nat) : Rat) ≤ ((reachCount (graphCands p) (edge p) x : Nat) : Rat) := by
      rw [hdu, hxv]; exact hle
    exact_mod_cast this

/-- **The top tier is the Smith set**: it is dominating, and it is contained in every non-empty
dominating set. -/
theorem C06_top_tier_smith (p : Profile) (top : List Cand) (rest : Ranking)
    (h : dominatingTiers p = top :: rest) :
    (∀ a ∈ top, ∀ b ∈ graphCands p, b ∉ top → 0 < margin p a b) ∧
    (∀ D : Cand → Prop, (∃ d ∈ graphCands p, D d) →
      (∀ a ∈ graphCands p, ∀ b ∈ graphCands p, D a → ¬ D b → 0 < margin p a b) →
      ∀ x ∈ top, D x) := by
  constructor
  · intro a ha b hb hnb
    have hbm : b ∈ (dominatingTiers p).flatten := (C06_tiers_partition p).symm.subset hb
    rw [h, List.flatten_cons, List.mem_append] at hbm
    rcases hbm with hbt | hbr
    · exact absurd hbt hnb
    · obtain ⟨u, hu, hbu⟩ := List.mem_flatten.1 hbr
      have hp := C06_beats_lower_tier p
      rw [h, List.pairwise_cons] at hp
      exact hp.1 u hu a ha b hbu
  · intro D ⟨d, hd, hDd⟩ hdom x hx
    by_contra hnx
    have hxc : x ∈ graphCands p := by
      obtain ⟨k, hk⟩ := tier_members p top (by rw [h]; simp)
      exact ((hk x).1 hx).1
    have hmax := top_tier_max p top rest h x hx d hd
    have hxd : R (graphCands p) (edge p) x d := by
      rcases comparable (edge_total p _) hxc hd with h1 | h1
      · exact h1
      · by_contra hc
        have := rc_strict hd h1 hc
        omega
    obtain ⟨u, v, _, huv, _, hnu, hDv⟩ := crossing D hxd hnx hDd
    have hpos := hdom v huv.2.1 u huv.1 hDv hnu
    have hE := huv.2.2
    unfold edge at hE
    simp only [Bool.and_eq_true, decide_eq_true_eq] at hE
    rw [C06_margin_antisymm] at hpos
    linarith [hE.2]

/-- **The top tier is a single candidate exactly when a Condorcet winner exists** (and it is that
candidate). -/
theorem C06_condorcet_iff (p : Profile) (hnd : (graphCands p).Nodup) (c : Cand) :
    (∃ rest, dominatingTiers p = [c] :: rest) ↔
      c ∈ graphCands p ∧ ∀ d ∈ graphCands p, d ≠ c → 0 < margin p c d := by
  constructor
  · rintro ⟨rest, h⟩
    have hc : c ∈ graphCands p := by
      obtain ⟨k, hk⟩ := tier_members p [c] (by rw [h]; simp)
      exact ((hk c).1 (by simp)).1
    refine ⟨hc, fun d hd hne => ?_⟩
    exact (C06_top_tier_smith p [c] rest h).1 c (by simp) d hd (by simpa using hne)
  · rintro ⟨hc, hwin⟩
    have hne : (dominatingTiers p).flatten ≠ [] := by
      intro e
      have := (C06_tiers_partition p).symm.subset hc
      rw [e] at this; cases this
    cases htiers : dominatingTiers p with
    | nil => rw [htiers] at hne; simp at hne
    | cons top rest =>
      refine ⟨rest, ?_⟩
      have hall : ∀ x ∈ top, x = c := by
        apply (C06_top_tier_smith p top rest htiers).2 (fun z => z = c) ⟨c, hc, rfl⟩
        intro a _ b hb ha hnb
        subst ha
        exact hwin b hb hnb
      have htop_ne : top ≠ [] := by
        unfold dominatingTiers tiersOf at htiers
        exact scoreToRanking_groups_nonempty _ top (by rw [htiers]; simp)
      have htop_nd : top.Nodup := by
        have hfl : (dominatingTiers p).flatten.Nodup := (C06_tiers_partition p).nodup_iff.2 hnd
        rw [htiers] at hfl
        exact (List.nodup_flatten.1 hfl).1 top (by simp)
      cases top with
      | nil => exact absurd rfl htop_ne
      | cons x xs =>
        have hx := hall x (by simp)
        subst hx
        cases xs with
        | nil => rfl
        | cons y ys =>
          have hy := hall y (by simp)
          subst hy
          rw [List.nodup_cons] at htop_nd
          exact absurd (by simp) htop_nd.1

/-- **DominatingSets elects exactly the top tier.** -/
theorem C06_dominating_sets_elects_top (p : Profile) (st : States) (h : dominatingSetsRun p = .ok st) :
    ∃ top rest, dominatingTiers p = top :: rest ∧ electedOf st = top ∧ st.length = 2 := by
  unfold dominatingSetsRun at h
  split at h; · cases h
  split at h
  · cases h
  · rename_i t rest heq
    injection h with h; subst h
    exact ⟨t, rest, heq, by simp [electedOf, initialState], rfl⟩

/-! ### tied positions -/

theorem posOfR_none {r : Ranking} {c : Cand} (h : ∀ s ∈ r, c ∉ s) : posOfR r c = none := by
  have : ¬ List.findIdx (fun s => s.contains c) r < r.length := by
    rw [List.findIdx_lt_length]
    rintro ⟨s, hs, hc⟩
    exact h s hs (by simpa using hc)
  unfold posOfR
  simp only [this, if_false]

theorem posOfR_some_iff {r : Ranking} {c : Cand} {i : Nat} (h : posOfR r c = some i) :
    ∃ s, r[i]? = some s ∧ c ∈ s ∧ ∀ j, j < i → ∀ t, r[j]? = some t → c ∉ t := by
  simp only [posOfR] at h
  split at h
  · rename_i hlt
    injection h with h; subst h
    refine ⟨r[List.findIdx (fun s => s.contains c) r], List.getElem?_eq_getElem hlt, ?_, ?_⟩
    · have := List.findIdx_getElem (w := hlt)
      simpa using this
    · intro j hj t ht
      have hjl : j < r.length := lt_trans hj hlt
      have := List.not_of_lt_findIdx hj
      rw [List.getElem?_eq_getElem hjl] at ht
      injection ht with ht
      subst ht
      simpa using this
  · cases h

theorem posOfR_of_mem {r : Ranking} {c : Cand} (h : ∃ s ∈ r, c ∈ s) : ∃ i, posOfR r c = some i := by
  have : List.findIdx (fun s => s.contains c) r < r.length := by
    rw [List.findIdx_lt_length]
    obtain ⟨s, hs, hc⟩ := h
    exact ⟨s, hs, by simpa using hc⟩
  refine ⟨List.findIdx (fun s => s.contains c) r, ?_⟩
  unfold posOfR
  simp only [this, if_true]

/-- **Head-to-head shares, tied positions included**: a listed candidate beats an unlisted one, two
unlisted candidates split the ballot evenly, so do two candidates tied in one position, and two
candidates always share exactly the ballot between them. -/
theorem C06_prefShareR_cases (r : Ranking) (a b : Cand) :
    ((∃ s ∈ r, a ∈ s) → (∀ s ∈ r, b ∉ s) → prefShareR r a b = 1 ∧ prefShareR r b a = 0) ∧
    ((∀ s ∈ r, a ∉ s) → (∀ s ∈ r, b ∉ s) → prefShareR r a b = 1 / 2) ∧
    (∀ i, posOfR r a = some i → posOfR r b = some i → prefShareR r a b = 1 / 2) ∧
    prefShareR r a b + prefShareR r b a = 1 := by
  refine ⟨?_, ?_, ?_, ?_⟩
  · intro ha hb
    obtain ⟨i, hi⟩ := posOfR_of_mem ha
    simp [prefShareR, hi, posOfR_none hb]
  · intro ha hb
    simp [prefShareR, posOfR_none ha, posOfR_none hb]
  · intro i hi hj
    simp [prefShareR, hi, hj]
  · unfold prefShareR
    cases hi : posOfR r a <;> cases hj : posOfR r b <;> simp only
    · norm_num
    · norm_num
    · norm_num
    · rename_i i j
      rcases Nat.lt_trichotomy i j with h | h | h
      · have : ¬ j < i := by omega
        simp [h, this]
      · subst h; simp; norm_num
      · have : ¬ i < j := by omega
        simp [h, this]

/-- an untied ranking is the list of singletons of its flattening -/
theorem untied_eq_singletons (r : Ranking) (h : ∀ s ∈ r, s.length = 1) : r = r.flatten.map (fun c => [c]) := by
  induction r with
  | nil => rfl
  | cons s rest ih =>
    have hs : s.length = 1 := h s (by simp)
    obtain ⟨c, rfl⟩ : ∃ c, s = [c] := by
      match s, hs with
      | [x], _ => exact ⟨x, rfl⟩
    have := ih (fun t ht => h t (by simp [ht]))
    simp only [List.flatten_cons, List.singleton_append, List.map_cons]
    rw [← this]

theorem posOfR_untied (r : Ranking) (h : ∀ s ∈ r, s.length = 1) (c : Cand) :
    posOfR r c = posOf r.flatten c := by
  have hr := untied_eq_singletons r h
  generalize r.flatten = l at hr
  subst hr
  clear h
  unfold posOfR posOf
  have : List.findIdx (fun s => s.contains c) (l.map (fun c => [c])) = List.findIdx (fun x => decide (x = c)) l := by
    induction l with
    | nil => rfl
    | cons x xs ih =>
      simp only [List.map_cons, List.findIdx_cons, List.contains_cons, List.contains_nil, Bool.or_false]
      rw [ih]
      by_cases hx : x = c
      · subst hx; simp
      · have : (c == x) = false := by simpa using fun e => hx e.symm
        simp [hx, this]
  simp only [this, List.length_map]

/-- for untied rankings and two different candidates the general share is the flat one -/
theorem prefShareR_untied (r : Ranking) (h : ∀ s ∈ r, s.length = 1) (hnd : r.flatten.Nodup) (a b : Cand) (hab : a ≠ b) :
    prefShareR r a b = prefShare r.flatten a b := by
  unfold prefShareR prefShare
  rw [posOfR_untied r h a, posOfR_untied r h b]
  cases hi : posOf r.flatten a <;> cases hj : posOf r.flatten b <;> simp only
  rename_i i j
  have hne : i ≠ j := by
    intro e; subst e
    have h1 := (posOf_some hi).2
    have h2 := (posOf_some hj).2
    rw [h1] at h2; exact hab (Option.some.inj h2)
  rcases Nat.lt_or_gt_of_ne hne with hlt | hlt
  · simp [hlt]
  · have : ¬ i < j := by omega
    simp [hlt, this]

theorem h2h_eq_flat (p : Profile) (a b : Cand) (hab : a ≠ b)
    (hun : ∀ bl ∈ p.ballots, ∀ s ∈ bl.ranking, s.length = 1)
    (hrn : ∀ bl ∈ p.ballots, bl.ranking.flatten.Nodup) : h2h p a b = h2hFlat p a b := by
  unfold h2h h2hFlat
  congr 1
  apply List.map_congr_left
  intro bl hbl
  rw [prefShareR_untied bl.ranking (hun bl hbl) (hrn bl hbl) a b hab]

/-- **The recorded margins are the documented ones.** The code's head-to-head count on the profile
in which every short ballot is replaced by all its completions (`ballot_fill`) equals the
declarative count (listed beats unlisted, two unlisted candidates split evenly) — for every profile
of untied ranked ballots over duplicate-free declared candidates. -/
theorem C06_fill_correct (p : Profile) (a b : Cand) (hc : p.cands.Nodup) (hab : a ≠ b)
    (ha : a ∈ p.cands) (hb : b ∈ p.cands)
    (hrn : ∀ bl ∈ p.ballots, bl.ranking.flatten.Nodup)
    (hrs : ∀ bl ∈ p.ballots, ∀ c ∈ bl.ranking.flatten, c ∈ p.cands)
    (hun : ∀ bl ∈ p.ballots, ∀ s ∈ bl.ranking, s.length = 1) :
    h2hFill p a b = h2h p a b := by
  rw [h2h_eq_flat p a b hab hun hrn]
  refine h2hFill_eq_h2h p a b hc hab ha hb hrn hrs ?_
  intro bl hbl
  have := untied_eq_singletons bl.ranking (hun bl hbl)
  conv_lhs => rw [this]
  rw [List.length_map]

end VK
