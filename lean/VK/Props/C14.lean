/-
  Property C14 — ballot generators return well-formed profiles of exactly the requested size.

  The theorems are about the pure builders of `VK.Model.Gen` (the functions the replay layer
  assembles profiles with) and hold for every number of ballots, candidates and blocs, and for
  every recorded draw that meets the primitive's contract (duplicate-free for `replace=False`,
  members of the population). The replay layer `Gen.run` *checks* those contracts on every recorded
  call, so a run it accepts satisfies the hypotheses.
-/
import VK.Model.Gen
import VK.Lemmas.Condense
import VK.Lemmas.Sum
import Mathlib.Data.List.Perm.Basic
import Mathlib.Data.List.Nodup
import Mathlib.Tactic.Linarith
import Mathlib.Tactic.Ring

namespace VK
open Gen

/-! ### counting a pool of unit ballots -/

/-- **Total size.** Counting a pool of `N` unit ballots gives total weight exactly `N`. -/
theorem C14_pool_total (bs : List Ballot) (h : ∀ b ∈ bs, b.weight = 1) :
    totalWeight (condense bs) = (bs.length : Rat) := by
  rw [totalWeight_condense]
  unfold totalWeight
  induction bs with
  | nil => simp
  | cons b bs ih =>
    have hb := h b (by simp)
    have := ih (fun x hx => h x (by simp [hx]))
    simp only [List.map_cons, rsum_cons, List.length_cons, hb, this]
    push_cast; ring

/-- every weight of a ballot list is a positive whole number -/
def PosInt (acc : List (Content × Rat)) : Prop := ∀ kw ∈ acc, ∃ n : Nat, 0 < n ∧ kw.2 = (n : Rat)

theorem accAdd_posInt (k : Content) (acc : List (Content × Rat)) (h : PosInt acc) : PosInt (accAdd k 1 acc) := by
  induction acc with
  | nil =>
    intro kw hkw
    simp only [accAdd, List.mem_singleton] at hkw
    exact ⟨1, by omega, by rw [hkw]; simp⟩
  | cons e rest ih =>
    obtain ⟨k', w'⟩ := e
    unfold accAdd
    split
    · intro kw hkw
      rcases List.mem_cons.1 hkw with rfl | hm
      · obtain ⟨n, hn, hw⟩ := h (k', w') (by simp)
        refine ⟨n + 1, by omega, ?_⟩
        simp only at hw ⊢
        rw [hw]; push_cast; ring
      · exact h kw (by simp [hm])
    · intro kw hkw
      rcases List.mem_cons.1 hkw with rfl | hm
      · exact h _ (by simp)
      · exact ih (fun x hx => h x (by simp [hx])) kw hm

theorem foldl_accAdd_posInt (bs : List Ballot) (hw : ∀ b ∈ bs, b.weight = 1) (acc : List (Content × Rat))
    (h : PosInt acc) : PosInt (bs.foldl (fun acc b => accAdd b.content b.weight acc) acc) := by
  induction bs generalizing acc with
  | nil => simpa using h
  | cons b bs ih =>
    simp only [List.foldl_cons]
    apply ih (fun x hx => hw x (by simp [hx]))
    rw [hw b (by simp)]
    exact accAdd_posInt _ _ h

/-- **Whole positive weights.** Every ballot of the counted pool has a positive whole-number weight. -/
theorem C14_pool_weights_pos_int (bs : List Ballot) (h : ∀ b ∈ bs, b.weight = 1) :
    ∀ b ∈ condense bs, ∃ n : Nat, 0 < n ∧ b.weight = (n : Rat) := by
  intro b hb
  unfold condense at hb
  obtain ⟨kw, hkw, rfl⟩ := List.mem_map.1 hb
  exact foldl_accAdd_posInt bs h [] (fun _ hx => by simp at hx) kw hkw

/-! ### per-bloc profiles add up to the aggregate -/

theorem wt_append' (a b : List Ballot) (k : Content) : wt (a ++ b) k = wt a k + wt b k := by
  unfold wt; simp

/-- **By-bloc profiles add up.** The aggregate (count of all ballots) gives every content the sum
of the weights the per-bloc profiles give it. -/
theorem C14_sum_profiles_wt (bb : List (List Ballot)) (k : Content) :
    wt (condense bb.flatten) k = rsum (bb.map (fun bs => wt (condense bs) k)) := by
  rw [wt_condense]
  induction bb with
  | nil => simp [wt]
  | cons bs rest ih =>
    simp only [List.flatten_cons, List.map_cons, rsum_cons, wt_append', ih, wt_condense]

theorem totalWeight_append (a b : List Ballot) : totalWeight (a ++ b) = totalWeight a + totalWeight b := by
  unfold totalWeight; simp

/-- the aggregate's total weight is the sum of the bloc sizes -/
theorem C14_sum_profiles_total (bb : List (List Ballot)) :
    totalWeight (condense bb.flatten) = rsum (bb.map (fun bs => totalWeight (condense bs))) := by
  rw [totalWeight_condense]
  induction bb with
  | nil => simp [totalWeight]
  | cons bs rest ih =>
    simp only [List.flatten_cons, List.map_cons, rsum_cons, totalWeight_append, ih, totalWeight_condense]

/-! ### ranked ballots built from draws -/

theorem singletons_flatten (l : List Cand) : (singletons l).flatten = l := by
  unfold singletons
  induction l with
  | nil => rfl
  | cons x xs ih => simp [ih]

theorem mem_insertSorted (c x : Cand) (l : List Cand) : x ∈ insertSorted c l ↔ x = c ∨ x ∈ l := by
  induction l with
  | nil => simp [insertSorted]
  | cons y ys ih =>
    unfold insertSorted
    split
    · simp
    · split
      · rename_i _ h; subst h; simp
      · simp only [List.mem_cons, ih]; tauto

theorem mem_sortCands (x : Cand) (l : List Cand) : x ∈ sortCands l ↔ x ∈ l := by
  unfold sortCands
  induction l with
  | nil => simp
  | cons y ys ih => simp only [List.foldr_cons, mem_insertSorted, ih, List.mem_cons]

/-- `insertSorted` keeps a strictly increasing list strictly increasing -/
theorem insertSorted_sorted (c : Cand) (l : List Cand) (h : l.Pairwise (· < ·)) :
    (insertSorted c l).Pairwise (· < ·) := by
  induction l with
  | nil => simp [insertSorted]
  | cons y ys ih =>
    rw [List.pairwise_cons] at h
    by_cases h1 : c < y
    · simp only [insertSorted, h1, if_true]
      rw [List.pairwise_cons]
      refine ⟨?_, List.pairwise_cons.2 h⟩
      intro a ha
      rcases List.mem_cons.1 ha with rfl | ha
      · exact h1
      · exact Nat.lt_trans h1 (h.1 a ha)
    · by_cases h2 : c = y
      · simp only [insertSorted, h1, h2, if_true, if_false]
        subst h2
        simp only [Nat.lt_irrefl, if_false, if_true]
        exact List.pairwise_cons.2 h
      · simp only [insertSorted, h1, h2, if_false]
        rw [List.pairwise_cons]
        refine ⟨?_, ih h.2⟩
        intro a ha
        rcases (mem_insertSorted c a ys).1 ha with rfl | ha
        · exact Nat.lt_of_le_of_ne (Nat.le_of_not_lt h1) (fun e => h2 e.symm)
        · exact h.1 a ha

theorem sortCands_sorted (l : List Cand) : (sortCands l).Pairwise (· < ·) := by
  unfold sortCands
  induction l with
  | nil => simp
  | cons y ys ih => simpa using insertSorted_sorted y _ ih

theorem sortCands_nodup (l : List Cand) : (sortCands l).Nodup :=
  (sortCands_sorted l).imp (fun h => Nat.ne_of_lt h)

theorem insertSorted_length_of_not_mem (c : Cand) (l : List Cand) (h : c ∉ l) :
    (insertSorted c l).length = l.length + 1 := by
  induction l with
  | nil => simp [insertSorted]
  | cons y ys ih =>
    unfold insertSorted
    have hy : c ≠ y := fun e => h (by simp [e])
    have hys : c ∉ ys := fun e => h (by simp [e])
    split
    · simp
    · simp only [hy, if_false, List.length_cons, ih hys]

theorem sortCands_length (l : List Cand) (h : l.Nodup) : (sortCands l).length = l.length := by
  unfold sortCands
  induction l with
  | nil => simp
  | cons y ys ih =>
    rw [List.nodup_cons] at h
    simp only [List.foldr_cons, List.length_cons]
    have : y ∉ List.foldr insertSorted [] ys := fun hm => h.1 ((mem_sortCands y ys).1 hm)
    rw [insertSorted_length_of_not_mem _ _ this, ih h.2]

/-- candidates listed on a ballot built from a draw and a tied group -/
theorem plBallot_flatten_mem (draw tied : List Cand) (x : Cand) :
    x ∈ (plBallot draw tied).ranking.flatten ↔ x ∈ draw ∨ x ∈ tied := by
  unfold plBallot
  simp only [List.flatten_append, List.mem_append, singletons_flatten]
  by_cases ht : tied.isEmpty
  · have : tied = [] := List.isEmpty_iff.1 ht
    simp [this]
  · simp [ht, mem_sortCands]

/-- **No candidate twice, only declared candidates.** A ballot built from a duplicate-free draw and
a duplicate-free tied group disjoint from it lists no candidate twice, and only candidates of the
draw's population and of the tied group. -/
theorem C14_pl_ballot_wellformed (draw tied cands : List Cand) (hd : draw.Nodup)
    (hdisj : ∀ c ∈ draw, c ∉ tied) (hdc : ∀ c ∈ draw, c ∈ cands) (htc : ∀ c ∈ tied, c ∈ cands) :
    (plBallot draw tied).ranking.flatten.Nodup ∧ ∀ c ∈ (plBallot draw tied).ranking.flatten, c ∈ cands := by
  constructor
  · unfold plBallot
    simp only [List.flatten_append, singletons_flatten]
    by_cases ht : tied.isEmpty
    · simp [ht, hd]
    · simp only [ht, Bool.false_eq_true, if_false, List.flatten_cons, List.flatten_nil, List.append_nil]
      rw [List.nodup_append]
      refine ⟨hd, sortCands_nodup tied, ?_⟩
      intro a ha b hb hab
      subst hab
      exact hdisj a ha ((mem_sortCands a tied).1 hb)
  · intro c hc
    rcases (plBallot_flatten_mem draw tied c).1 hc with h | h
    · exact hdc c h
    · exact htc c h

/-- **Complete rankings.** When the draw is an order of all supported candidates and the tied group
is the set of zero-support candidates, the ballot lists exactly the declared candidates, the
supported ones one per position, the zero-support ones as a single final group. -/
theorem C14_pl_ballot_complete (draw zeros cands : List Cand)
    (hcover : ∀ c, c ∈ cands ↔ c ∈ draw ∨ c ∈ zeros) :
    (∀ c, c ∈ (plBallot draw zeros).ranking.flatten ↔ c ∈ cands) ∧
    (plBallot draw zeros).ranking.take draw.length = singletons draw ∧
    (plBallot draw zeros).ranking.drop draw.length = (if zeros.isEmpty then [] else [sortCands zeros]) := by
  refine ⟨fun c => by rw [plBallot_flatten_mem, hcover], ?_, ?_⟩
  · unfold plBallot
    have : (singletons draw).length = draw.length := by simp [singletons]
    simp only
    rw [← this, List.take_left']
    rfl
  · unfold plBallot
    have : (singletons draw).length = draw.length := by simp [singletons]
    simp only
    rw [← this, List.drop_left']
    rfl

/-- **Short Plackett–Luce length.** With `k = min L |supported|` drawn candidates and `L - |supported|`
tied zero-support candidates the ballot lists exactly `L` candidates. -/
theorem C14_short_pl_length (draw tied : List Cand) (L nz : Nat) (ht : tied.Nodup)
    (hd : draw.length = min L nz) (htl : tied.length = L - nz) :
    (plBallot draw tied).ranking.flatten.length = L := by
  unfold plBallot
  simp only [List.flatten_append, singletons_flatten, List.length_append]
  by_cases he : tied.isEmpty
  · have : tied = [] := List.isEmpty_iff.1 he
    subst this
    simp at htl ⊢
    omega
  · simp only [he, Bool.false_eq_true, if_false, List.flatten_cons, List.flatten_nil, List.append_nil,
      sortCands_length tied ht]
    omega

/-! ### cumulative ballots -/

theorem countOf_cons (c x : Cand) (l : List Cand) :
    countOf c (x :: l) = (if x = c then 1 else 0) + countOf c l := by
  unfold countOf
  by_cases h : x = c
  · simp [h]; omega
  · simp [h]

/-- Σ over a duplicate-free list that contains every element of `l` of the multiplicities is `|l|` -/
theorem sum_countOf (keys l : List Cand) (hk : keys.Nodup) (hl : ∀ x ∈ l, x ∈ keys) :
    rsum (keys.map (fun c => ((countOf c l : Nat) : Rat))) = (l.length : Rat) := by
  induction l with
  | nil => simp [countOf, rsum_replicate]
  | cons x xs ih =>
    have hx : x ∈ keys := hl x (by simp)
    have := ih (fun y hy => hl y (by simp [hy]))
    have hsplit : rsum (keys.map (fun c => ((countOf c (x :: xs) : Nat) : Rat))) =
        rsum (keys.map (fun c => (if x = c then (1 : Rat) else 0))) + rsum (keys.map (fun c => ((countOf c xs : Nat) : Rat))) := by
      rw [← rsum_map_add]
      congr 1
      apply List.map_congr_left
      intro c _
      rw [countOf_cons]
      by_cases h : x = c <;> simp [h]
    rw [hsplit, this]
    have hone : rsum (keys.map (fun c => (if x = c then (1 : Rat) else 0))) = 1 := by
      clear hsplit this ih hl
      induction keys with
      | nil => simp at hx
      | cons k ks ihk =>
        rw [List.nodup_cons] at hk
        simp only [List.map_cons, rsum_cons]
        by_cases hkx : x = k
        · subst hkx
          have : rsum (ks.map (fun c => (if x = c then (1 : Rat) else 0))) = 0 := by
            have : ∀ c ∈ ks, (if x = c then (1 : Rat) else 0) = 0 := by
              intro c hc
              have : x ≠ c := fun e => hk.1 (e ▸ hc)
              simp [this]
            rw [List.map_congr_left this]; simp [rsum_replicate]
          rw [this]; simp
        · have hx' : x ∈ ks := by
            rcases List.mem_cons.1 hx with h | h
            · exact absurd h hkx
            · exact h
          rw [ihk hk.2 hx']; simp [hkx]
    rw [hone]; push_cast [List.length_cons]; ring

/-- **Cumulative points.** A cumulative ballot distributes exactly as many points as draws were made,
in whole positive amounts, on drawn candidates only. -/
theorem C14_cumulative_points (draw : List Cand) :
    rsum ((cumulativeBallot draw).scores.map (·.2)) = (draw.length : Rat) ∧
    (∀ cs ∈ (cumulativeBallot draw).scores, cs.1 ∈ draw ∧ ∃ n : Nat, 0 < n ∧ cs.2 = (n : Rat)) ∧
    (cumulativeBallot draw).ranking = [] := by
  refine ⟨?_, ?_, rfl⟩
  · unfold cumulativeBallot
    simp only [List.map_map, Function.comp_def]
    exact sum_countOf (sortCands draw) draw (sortCands_nodup draw) (fun x hx => (mem_sortCands x draw).2 hx)
  · intro cs hcs
    unfold cumulativeBallot at hcs
    simp only [List.mem_map] at hcs
    obtain ⟨c, hc, rfl⟩ := hcs
    have hcd : c ∈ draw := (mem_sortCands c draw).1 hc
    refine ⟨hcd, countOf c draw, ?_, rfl⟩
    unfold countOf
    exact List.length_pos_of_mem (List.mem_filter.2 ⟨hcd, by simp⟩)

/-! ### filling a slate pattern -/

theorem popAt_flatten_perm (orders : List (List Cand)) (s : Nat) (c : Cand) (rest : List Cand)
    (h : orders[s]? = some (c :: rest)) : (c :: (popAt orders s).flatten).Perm orders.flatten := by
  induction orders generalizing s with
  | nil => simp at h
  | cons l ls ih =>
    cases s with
    | zero =>
      simp only [List.getElem?_cons_zero, Option.some.injEq] at h
      subst h
      simp [popAt]
    | succ s =>
      simp only [List.getElem?_cons_succ] at h
      simp only [popAt, List.flatten_cons]
      have := ih s h
      calc (c :: (l ++ (popAt ls s).flatten)).Perm (l ++ c :: (popAt ls s).flatten) := List.perm_middle.symm
        _ |>.Perm (l ++ ls.flatten) := List.Perm.append_left l this

/-- **Filled patterns.** Filling a slate pattern with the per-slate orders uses each candidate of
those orders at most once: the result together with what is left over is a rearrangement of the
orders, so it has no repeated candidate when the slates are disjoint and duplicate-free, lists only
candidates of the orders, and has one candidate per pattern entry. -/
theorem C14_fill_wellformed (ty : List Nat) (orders : List (List Cand)) (r : List Cand)
    (h : fillPattern ty orders = some r) :
    r.length = ty.length ∧ ∃ left : List Cand, (r ++ left).Perm orders.flatten := by
  induction ty generalizing orders r with
  | nil =>
    simp only [fillPattern, Option.some.injEq] at h
    subst h
    exact ⟨rfl, orders.flatten, by simp⟩
  | cons s rest ih =>
    unfold fillPattern at h
    split at h
    · rename_i c tl hget
      cases hrec : fillPattern rest (popAt orders s) with
      | none => simp [hrec] at h
      | some r' =>
        simp only [hrec, Option.map_some, Option.some.injEq] at h
        subst h
        obtain ⟨hl, left, hp⟩ := ih _ _ hrec
        refine ⟨by simp [hl], left, ?_⟩
        have := popAt_flatten_perm orders s c tl hget
        exact (List.Perm.cons c hp).trans this
    · cases h

/-- consequence: duplicate-free disjoint slates give a duplicate-free ballot -/
theorem C14_fill_nodup (ty : List Nat) (orders : List (List Cand)) (r : List Cand)
    (h : fillPattern ty orders = some r) (hn : orders.flatten.Nodup) : r.Nodup := by
  obtain ⟨_, left, hp⟩ := C14_fill_wellformed ty orders r h
  exact (List.nodup_append.1 (hp.nodup_iff.2 hn)).1

/-! ### spatial ballots -/

theorem insertByDist_perm (c : Cand) (d : Rat) (l : List (Cand × Rat)) :
    (insertByDist c d l).Perm ((c, d) :: l) := by
  induction l with
  | nil => simp [insertByDist]
  | cons e rest ih =>
    obtain ⟨c', d'⟩ := e
    unfold insertByDist
    split
    · exact List.Perm.refl _
    · exact (List.Perm.cons _ ih).trans (List.Perm.swap _ _ _)

/-- **Spatial ballots are complete.** The distance sort rearranges the candidates: every candidate
is ranked exactly once. -/
theorem C14_sort_perm (cds : List (Cand × Rat)) : (sortByDist cds).Perm cds := by
  unfold sortByDist
  induction cds with
  | nil => simp
  | cons e rest ih =>
    simp only [List.foldr_cons]
    exact (insertByDist_perm e.1 e.2 _).trans (List.Perm.cons _ ih)

/-! ### Huntington–Hill specification -/

def seatsOf (vs : List (Rat × Nat)) : Nat := sumNat (vs.map (·.2))

theorem sumNat_foldl (l : List Nat) (a : Nat) : l.foldl (· + ·) a = a + sumNat l := by
  unfold sumNat
  induction l generalizing a with
  | nil => simp
  | cons x xs ih => simp only [List.foldl_cons]; rw [ih, ih (0 + x)]; omega

theorem sumNat_cons (x : Nat) (l : List Nat) : sumNat (x :: l) = x + sumNat l := by
  show List.foldl (· + ·) (0 + x) l = _
  rw [sumNat_foldl]; omega

theorem seatsOf_bumpAt (vs : List (Rat × Nat)) (i : Nat) (h : i < vs.length) :
    seatsOf (bumpAt vs i) = seatsOf vs + 1 := by
  induction vs generalizing i with
  | nil => simp at h
  | cons e rest ih =>
    obtain ⟨v, s⟩ := e
    cases i with
    | zero => simp only [bumpAt, seatsOf, List.map_cons, sumNat_cons]; omega
    | succ i =>
      have := ih i (by simpa using h)
      simp only [bumpAt, seatsOf, List.map_cons, sumNat_cons] at this ⊢
      omega

theorem bumpAt_length (vs : List (Rat × Nat)) (i : Nat) : (bumpAt vs i).length = vs.length := by
  induction vs generalizing i with
  | nil => rfl
  | cons e rest ih => obtain ⟨v, s⟩ := e; cases i <;> simp [bumpAt, ih]

theorem bumpAt_weights (vs : List (Rat × Nat)) (i : Nat) : (bumpAt vs i).map (·.1) = vs.map (·.1) := by
  induction vs generalizing i with
  | nil => rfl
  | cons e rest ih => obtain ⟨v, s⟩ := e; cases i <;> simp [bumpAt, ih]

/-- the picked index is a party of the list -/
theorem hhPick_lt (vs : List (Rat × Nat)) (i : Nat) (t : Bool) (h : hhPick vs = some (i, t)) : i < vs.length := by
  unfold hhPick at h
  simp only at h
  split at h
  · cases h
  · rename_i i0 rest hidx
    simp only [Option.some.injEq, Prod.mk.injEq] at h
    have hmem : ∀ j ∈ i0 :: rest, j < vs.length := by
      intro j hj
      rw [← hidx] at hj
      exact List.mem_range.1 (List.mem_filter.1 hj).1
    -- the fold returns one of the indices
    have key : ∀ (l : List Nat) (b : Nat), b < vs.length → (∀ j ∈ l, j < vs.length) →
        (l.foldl (fun b i =>
          match vs[b]?, vs[i]? with
          | some (vb, sb), some (vi, si) => if hhBetter vi si vb sb then i else b
          | _, _ => b) b) < vs.length := by
      intro l
      induction l with
      | nil => intro b hb _; simpa using hb
      | cons x xs ihx =>
        intro b hb hl
        simp only [List.foldl_cons]
        apply ihx
        · split
          · split
            · exact hl x (by simp)
            · exact hb
          · exact hb
        · intro j hj; exact hl j (by simp [hj])
    rw [← h.1]
    exact key rest i0 (hmem i0 (by simp)) (fun j hj => hmem j (by simp [hj]))

theorem hhPick_isSome (vs : List (Rat × Nat)) (h : ∃ e ∈ vs, (0 : Rat) < e.1) : (hhPick vs).isSome := by
  obtain ⟨e, he, hpos⟩ := h
  obtain ⟨i, hi, hget⟩ := List.getElem_of_mem he
  unfold hhPick
  simp only
  have : i ∈ (List.range vs.length).filter (fun i => match vs[i]? with | some (v, _) => decide (0 < v) | none => false) := by
    rw [List.mem_filter]
    refine ⟨List.mem_range.2 hi, ?_⟩
    rw [List.getElem?_eq_getElem hi, hget]
    obtain ⟨v, s⟩ := e
    simpa using hpos
  have hne := List.ne_nil_of_mem this
  split
  · rename_i hnil; exact absurd hnil hne
  · simp

/-- `hhLoop` hands out exactly `n` more seats while some party has positive weight -/
theorem hhLoop_seats (n : Nat) (vs : List (Rat × Nat)) (tie : Bool) (h : ∃ e ∈ vs, (0 : Rat) < e.1) :
    seatsOf (hhLoop n vs tie).1 = seatsOf vs + n := by
  induction n generalizing vs tie with
  | zero => simp [hhLoop]
  | succ n ih =>
    unfold hhLoop
    have hs := hhPick_isSome vs h
    cases hp : hhPick vs with
    | none => rw [hp] at hs; simp at hs
    | some it =>
      obtain ⟨i, t⟩ := it
      simp only
      have hlt := hhPick_lt vs i t hp
      have hpos' : ∃ e ∈ bumpAt vs i, (0 : Rat) < e.1 := by
        obtain ⟨e, he, hpos⟩ := h
        have : e.1 ∈ (bumpAt vs i).map (·.1) := by
          rw [bumpAt_weights]; exact List.mem_map.2 ⟨e, he, rfl⟩
        obtain ⟨e', he', heq⟩ := List.mem_map.1 this
        exact ⟨e', he', by rw [heq]; exact hpos⟩
      rw [ih _ _ hpos', seatsOf_bumpAt vs i hlt]
      omega

theorem sumNat_map_zero (props : List Rat) :
    sumNat ((props.map (fun v => ((v, 0) : Rat × Nat))).map (·.2)) = 0 := by
  induction props with
  | nil => rfl
  | cons x xs ih => simp only [List.map_cons, sumNat_cons, ih]

/-- **Huntington–Hill hands out exactly `N` seats** (when some proportion is positive). -/
theorem C14_hh_total (props : List Rat) (n : Nat) (h : ∃ v ∈ props, (0 : Rat) < v) :
    sumNat (huntingtonHill props n).1 = n := by
  unfold huntingtonHill
  simp only
  have h' : ∃ e ∈ props.map (fun v => (v, 0)), (0 : Rat) < e.1 := by
    obtain ⟨v, hv, hpos⟩ := h
    exact ⟨(v, 0), List.mem_map.2 ⟨v, hv, rfl⟩, hpos⟩
  have := hhLoop_seats n (props.map (fun v => (v, 0))) false h'
  unfold seatsOf at this
  rw [this, sumNat_map_zero]
  omega

/-! ### non-vacuity -/

example : (plBallot [2, 0] [3, 1]).ranking = [[2], [0], [1, 3]] := by decide
example : fillPattern [0, 1, 0] [[5, 6], [7]] = some [5, 7, 6] := by decide
example : (cumulativeBallot [1, 1, 0]).scores = [(0, 1), (1, 2)] := by decide +kernel
example : huntingtonHill [3, 1] 4 = ([3, 1], false) := by decide +kernel
example : (sortByDist [(0, 2), (1, 1), (2, 2)]).map (·.1) = [1, 0, 2] := by decide +kernel

end VK
