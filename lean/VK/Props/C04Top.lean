/-
  Property C04 (second part) — Plurality, SNTV, Borda (and every rule that elects through
  `elect_cands_from_set_ranking`, in particular the score rules of C05) elect m candidates none of
  whom has a lower score than any non-elected candidate; candidates of equal score are reported as
  one tied group, groups in strictly descending score order.
-/
import VK.Props.C04
import VK.Lemmas.PSC
import VK.Model.Rules

namespace VK

/-- groups of `scoreToRanking` are the equal-score classes in strictly descending order -/
theorem scoreToRanking_descending (sc : List (Cand × Rat)) (hk : (sc.map (·.1)).Nodup) :
    (scoreToRanking sc).Pairwise (fun g g' => ∀ a ∈ g, ∀ b ∈ g', lookupScore sc b < lookupScore sc a) := by
  rw [scoreToRanking_eq]
  have hs := distinctDesc_sorted (sc.map (·.2))
  have hmem : ∀ v ∈ distinctDesc (sc.map (·.2)), ∀ c ∈ groupOf sc v, lookupScore sc c = v := by
    intro v hv c hc
    have hg : groupOf sc v ∈ scoreToRanking sc := by
      rw [scoreToRanking_eq]; exact List.mem_map.2 ⟨v, hv, rfl⟩
    obtain ⟨v0, h0⟩ := mem_group_score sc (groupOf sc v) hg hk
    have h1 := h0 c hc
    unfold groupOf at hc
    obtain ⟨cs, hcs, hc1⟩ := List.mem_map.1 hc
    have hv' : cs.2 = v := by simpa using (List.mem_filter.1 hcs).2
    have hp : (c, v) ∈ sc := by rw [← hc1, ← hv']; exact (List.mem_filter.1 hcs).1
    have := (Prod.mk.inj (List.inj_on_of_nodup_map hk h1.1 hp rfl)).2
    rw [h1.2, this]
  rw [List.pairwise_map]
  refine List.Pairwise.imp_of_mem ?_ hs
  intro v v' hv hv' hgt a ha b hb
  rw [hmem v hv a ha, hmem v' hv' b hb]
  exact hgt

/-- members of one group have the same score -/
theorem scoreToRanking_group_equal (sc : List (Cand × Rat)) (hk : (sc.map (·.1)).Nodup) (g : List Cand)
    (hg : g ∈ scoreToRanking sc) : ∀ a ∈ g, ∀ b ∈ g, lookupScore sc a = lookupScore sc b := by
  obtain ⟨v, hv⟩ := mem_group_score sc g hg hk
  intro a ha b hb
  rw [(hv a ha).2, (hv b hb).2]

/-- **Top m.** Whoever `elect_cands_from_set_ranking` elects from the ranking of a score table has a
score at least as high as everybody it leaves, exactly `m` are elected, and the elected and
remaining candidates together are all the scored candidates. -/
theorem C04_elect_top (pri : List Cand) (sc : List (Cand × Rat)) (m : Nat) (prof : Option Profile)
    (tb : Option TB) (r : ElectResult) (hk : (sc.map (·.1)).Nodup)
    (hsub : ∀ p, prof = some p → p.cands.Nodup ∧ ∀ g ∈ scoreToRanking sc, ∀ c ∈ g, c ∈ p.cands)
    (h : electFromRanking pri (scoreToRanking sc) m prof tb = .ok r) :
    r.elected.flatten.length = m ∧
    (r.elected.flatten ++ r.remaining.flatten).Perm (sc.map (·.1)) ∧
    ∀ e ∈ r.elected.flatten, ∀ l ∈ r.remaining.flatten, lookupScore sc l ≤ lookupScore sc e := by
  have hnd : ∀ g ∈ scoreToRanking sc, g.Nodup := scoreToRanking_groups_nodup sc hk
  obtain ⟨hcount, hperm⟩ := electFromRanking_count pri _ m prof tb r hnd hsub h
  refine ⟨hcount, hperm.trans (scoreToRanking_perm sc), ?_⟩
  have hdesc := scoreToRanking_descending sc hk
  unfold electFromRanking at h
  split at h; · cases h
  split at h; · cases h
  obtain ⟨pre, post, hrest, hcase⟩ := electLoop_spec pri prof tb m [] _ r hnd hsub h
  rw [hrest] at hdesc
  have hcross : ∀ g ∈ pre, ∀ g' ∈ post, ∀ a ∈ g, ∀ b ∈ g', lookupScore sc b < lookupScore sc a :=
    fun g hg g' hg' => (List.pairwise_append.1 hdesc).2.2 g hg g' hg'
  rcases hcase with ⟨_, _, h3, h4⟩ | ⟨g, post', broken, t, h1, _, _, _, _, _, h7, _, h9, h10⟩
  · intro e he l hl
    rw [h3] at he
    rw [h4] at hl
    simp only [List.reverse_nil, List.nil_append] at he
    obtain ⟨ge, hge, hee⟩ := List.mem_flatten.1 he
    obtain ⟨gl, hgl, hll⟩ := List.mem_flatten.1 hl
    exact le_of_lt (hcross ge hge gl hgl e hee l hll)
  · have hgpost : g ∈ post := by rw [h1]; simp
    have hgmem : g ∈ scoreToRanking sc := by rw [hrest]; exact List.mem_append_right _ hgpost
    have hpost_sorted := (List.pairwise_append.1 hdesc).2.1
    rw [h1, List.pairwise_cons] at hpost_sorted
    have hbroken_mem : ∀ x ∈ broken.flatten, x ∈ g := fun x hx => h7.mem_iff.1 hx
    intro e he l hl
    rw [h9] at he
    rw [h10] at hl
    simp only [List.reverse_nil, List.nil_append, List.flatten_append, List.mem_append] at he hl
    rcases he with he | he
    · -- e in a whole group before the tie
      obtain ⟨ge, hge, hee⟩ := List.mem_flatten.1 he
      rcases hl with hl | hl
      · have hlg : l ∈ g := hbroken_mem l (by
          obtain ⟨x, hx, hlx⟩ := List.mem_flatten.1 hl
          exact List.mem_flatten.2 ⟨x, List.mem_of_mem_drop hx, hlx⟩)
        exact le_of_lt (hcross ge hge g hgpost e hee l hlg)
      · obtain ⟨gl, hgl, hll⟩ := List.mem_flatten.1 hl
        have : gl ∈ post := by rw [h1]; exact List.mem_cons_of_mem _ hgl
        exact le_of_lt (hcross ge hge gl this e hee l hll)
    · -- e is one of the tied candidates that got a seat
      have heg : e ∈ g := hbroken_mem e (by
        obtain ⟨x, hx, hex⟩ := List.mem_flatten.1 he
        exact List.mem_flatten.2 ⟨x, List.mem_of_mem_take hx, hex⟩)
      rcases hl with hl | hl
      · have hlg : l ∈ g := hbroken_mem l (by
          obtain ⟨x, hx, hlx⟩ := List.mem_flatten.1 hl
          exact List.mem_flatten.2 ⟨x, List.mem_of_mem_drop hx, hlx⟩)
        exact le_of_eq (scoreToRanking_group_equal sc hk g hgmem l hlg e heg)
      · obtain ⟨gl, hgl, hll⟩ := List.mem_flatten.1 hl
        exact le_of_lt (hpost_sorted.1 gl hgl e heg l hll)

/-- Plurality / SNTV / Borda: the winners have the top scores of the round-0 tally -/
theorem C04_topM_winners_have_top_scores (p : Profile) (m : Nat) (tb : Option TB) (pri : List Cand)
    (score : Profile → Outcome (List (Cand × Rat))) (st : States) (hc : p.cands.Nodup)
    (hkeys : ∀ sc, score p = .ok sc → sc.map (·.1) = p.cands)
    (h : topMRun p m tb pri score = .ok st) :
    ∃ sc0 s1, score p = .ok sc0 ∧ st.getLast? = some s1 ∧
      ∀ e ∈ s1.elected.flatten, ∀ l ∈ s1.remaining.flatten, lookupScore sc0 l ≤ lookupScore sc0 e := by
  unfold topMRun at h
  cases h0 : score p with
  | ok sc0 =>
    simp only [h0, bind, Outcome.bind] at h
    cases h1 : electFromRanking pri (initialState p.cands (some sc0)).remaining m (some p) tb with
    | ok r =>
      simp only [h1] at h
      cases h2 : score (removeCand r.elected.flatten p) with
      | ok sc1 =>
        simp only [h2, pure] at h; injection h with h
        subst h
        have hk := hkeys sc0 h0
        have hperm0 := scoreToRanking_perm sc0
        rw [hk] at hperm0
        have hsub : ∀ q, some p = some q → q.cands.Nodup ∧ ∀ g ∈ scoreToRanking sc0, ∀ c ∈ g, c ∈ q.cands := by
          intro q hq; injection hq with hq; subst hq
          exact ⟨hc, fun g hg c hcg => hperm0.mem_iff.1 (List.mem_flatten.2 ⟨g, hg, hcg⟩)⟩
        have := C04_elect_top pri sc0 m (some p) tb r (by rw [hk]; exact hc) hsub (by simpa [initialState] using h1)
        exact ⟨sc0, _, rfl, rfl, this.2.2⟩
      | raised e => simp [h2] at h
      | oracleMismatch => simp [h2] at h
      | outOfFuel => simp [h2] at h
    | raised e => simp [h1] at h
    | oracleMismatch => simp [h1] at h
    | outOfFuel => simp [h1] at h
  | raised e => simp [h0, bind, Outcome.bind] at h
  | oracleMismatch => simp [h0, bind, Outcome.bind] at h
  | outOfFuel => simp [h0, bind, Outcome.bind] at h

end VK
