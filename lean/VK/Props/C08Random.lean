/-
  C08 for the STV family under the RANDOM (whole-ballot) transfer: two profiles of untied ranked ballots
  with whole non-negative weights over the same candidates that give every ranking the same total
  weight (a reordering, a split of a ballot into identical ballots with whole weights, a merge) have,
  under the same tiebreak and sample oracle, the same threshold and exactly the same rounds, or fail in
  the same way. The sample oracle names how many votes of each continuing ranking are kept, so it does
  not see the representation either.
-/
import VK.Props.C08
import VK.Lemmas.LinEqOn

namespace VK

theorem stvLoop_random_on (cfg : STVCfg) (init init' : Profile) (q : Int) (ω : STVOracle)
    (hr : cfg.transfer = .random) (hcfg : ProfileFreeChoice cfg)
    (hinit : firstPlaceVotes init = firstPlaceVotes init')
    (fuel : Nat) (S S2 : CState) (prev : RoundState) (acc acc2 : List (RoundState × CState))
    (hS : SameCountOn S S2) (hacc : acc.map (·.1) = acc2.map (·.1)) :
    RelTrace (stvLoop cfg init q ω fuel S prev acc) (stvLoop cfg init' q ω fuel S2 prev acc2) := by
  induction fuel generalizing S S2 prev acc acc2 with
  | zero =>
    unfold stvLoop
    rw [← hS.2.1]
    split
    · simp only [RelTrace, List.map_reverse, hacc]
    · simp [RelTrace]
  | succ fuel ih =>
    unfold stvLoop
    rw [← hS.2.1]
    split
    · simp only [RelTrace, List.map_reverse, hacc]
    · have hstep := stvStep_random_on cfg init init' q ω (prev.round + 1) S S2 prev hr hcfg hinit hS
      cases h1 : stvStep cfg init q ω (prev.round + 1) S prev <;>
        cases h2 : stvStep cfg init' q ω (prev.round + 1) S2 prev <;>
        rw [h1, h2] at hstep <;> simp only [RelStepOn] at hstep <;> simp only [bind, Outcome.bind, RelTrace]
      · rename_i x y
        obtain ⟨hrr, hS'⟩ := hstep
        obtain ⟨S', r⟩ := x
        obtain ⟨S2', r2⟩ := y
        simp only at hrr hS'
        subst hrr
        exact ih S' S2' r _ _ hS' (by simp [hacc])
      · exact hstep

/-- **C08 for the STV family under the random transfer (anonymity and representation independence).** -/
theorem C08_stv_representation_invariant_random (cfg : STVCfg) (p p' : Profile) (ω : STVOracle)
    (hr : cfg.transfer = .random) (hcfg : ProfileFreeChoice cfg) (hc : p.cands = p'.cands)
    (hle : LinEq (stvInitState p).bs (stvInitState p').bs)
    (hint : ∀ b ∈ p.ballots, isIntRat b.weight = true ∧ 0 ≤ b.weight)
    (hint' : ∀ b ∈ p'.ballots, isIntRat b.weight = true ∧ 0 ≤ b.weight)
    (hnd : ∀ b ∈ p.ballots, b.ranking.flatten.Nodup) (hnd' : ∀ b ∈ p'.ballots, b.ranking.flatten.Nodup)
    (hne : ∀ b ∈ p.ballots, b.ranking ≠ []) (hsingle : ∀ b ∈ p.ballots, ∀ s ∈ b.ranking, s.length = 1)
    (hcast : ∀ b ∈ p.ballots, ∀ c ∈ b.ranking.flatten, c ∈ p.cands)
    (hne' : ∀ b ∈ p'.ballots, b.ranking ≠ []) (hsingle' : ∀ b ∈ p'.ballots, ∀ s ∈ b.ranking, s.length = 1)
    (hcast' : ∀ b ∈ p'.ballots, ∀ c ∈ b.ranking.flatten, c ∈ p'.cands) :
    RelResult (stvRun cfg p ω) (stvRun cfg p' ω) := by
  refine stv_invariant_of_loop cfg p p' ω hc ?_ hle hne hsingle hcast hne' hsingle' hcast'
  intro hinit
  have hS0 : SameCountOn (stvInitState p) (stvInitState p') := by
    refine ⟨by simp [stvInitState, hc], rfl, ⟨hle.on _, ?_, ?_, ?_, ?_⟩⟩
    · intro x hx
      simp only [stvInitState, List.mem_map] at hx
      obtain ⟨b, hb, rfl⟩ := hx
      exact hint b hb
    · intro x hx
      simp only [stvInitState, List.mem_map] at hx
      obtain ⟨b, hb, rfl⟩ := hx
      exact hint' b hb
    · intro x hx
      simp only [stvInitState, List.mem_map] at hx
      obtain ⟨b, hb, rfl⟩ := hx
      exact hnd b hb
    · intro x hx
      simp only [stvInitState, List.mem_map] at hx
      obtain ⟨b, hb, rfl⟩ := hx
      exact hnd' b hb
  exact stvLoop_random_on cfg p p' (threshold cfg.quota cfg.m p.total) ω hr hcfg hinit (p.cands.length + 2)
    (stvInitState p) (stvInitState p') _ _ _ hS0 (by simp)

/-- non-vacuity: A>B x2, B x1 against the same votes with the first ballot split 1 + 1 — every hypothesis of
the theorem is met (whole weights, no repeated candidate, untied, declared candidates), one seat, random transfer -/
example : RelResult
    (stvRun { m := 1, transfer := .random }
      { ballots := [⟨[[0], [1]], 1 + 1, []⟩, ⟨[[1]], 1, []⟩], cands := [0, 1] } {})
    (stvRun { m := 1, transfer := .random }
      { ballots := [⟨[[0], [1]], 1, []⟩, ⟨[[0], [1]], 1, []⟩, ⟨[[1]], 1, []⟩], cands := [0, 1] } {}) := by
  apply C08_stv_representation_invariant_random
  · rfl
  · left; rfl
  · rfl
  · exact C08_stv_ballot_split [0, 1] [[0], [1]] 1 1 [⟨[[1]], 1, []⟩]
  all_goals decide +kernel

end VK
