/-
  VK.Props.C08NeutralRules — C08, neutrality of the single-round rules (Plurality, SNTV, Borda, the six score-ballot
  classes) and of the composites built from them (TopTwo, Alaska).
-/
import VK.Props.C08Neutral
namespace VK

def renStates (π : Cand → Cand) (st : States) : States := st.map (renRS π)

theorem rankingValid_ren (π : Cand → Cand) (p : Profile) : rankingValid (renP π p) = rankingValid p := by
  unfold rankingValid renP
  simp only [List.all_map]
  congr 1; funext b
  simp [renB, renR]

section
variable (π : Cand → Cand) (hπ : Function.Injective π)
include hπ

theorem topMRun_ren (p : Profile) (m : Nat) (tb : Option TB) (pri : List Cand)
    (score : Profile → Outcome (List (Cand × Rat)))
    (hscore : ∀ q, score (renP π q) = (score q).map (renSc π)) :
    topMRun (renP π p) m tb (pri.map π) score = (topMRun p m tb pri score).map (renStates π) := by
  unfold topMRun
  rw [hscore]
  cases score p with
  | ok sc0 =>
    simp only [Outcome.map_ok, Outcome.bind_ok]
    have hc : (renP π p).cands = p.cands.map π := rfl
    rw [hc, initialState_ren]
    have hr : (renRS π (initialState p.cands (some sc0))).remaining = renR π (initialState p.cands (some sc0)).remaining := rfl
    have hp : some (renP π p) = (some p).map (renP π) := rfl
    rw [hr, hp, electFromRanking_ren π hπ]
    cases electFromRanking pri (initialState p.cands (some sc0)).remaining m (some p) tb with
    | ok r =>
      simp only [Outcome.map_ok, Outcome.bind_ok]
      have he : (renER π r).elected.flatten = r.elected.flatten.map π := flatten_renR π r.elected
      rw [he, removeCand_ren π hπ, hscore]
      cases score (removeCand r.elected.flatten p) with
      | ok sc1 =>
        simp only [Outcome.map_ok, Outcome.bind_ok, Outcome.pure_eq, renStates, List.map_cons, List.map_nil]
        congr 2
        simp only [renRS, renER, renR, List.map_nil]
        congr 1
        cases r.tiebreak <;> rfl
      | raised e => rfl
      | oracleMismatch => rfl
      | outOfFuel => rfl
    | raised e => rfl
    | oracleMismatch => rfl
    | outOfFuel => rfl
  | raised e => rfl
  | oracleMismatch => rfl
  | outOfFuel => rfl

/-- **C08 (neutrality, Plurality / SNTV).** -/
theorem C08_plurality_neutral (p : Profile) (m : Nat) (tb : Option TB) (pri : List Cand) :
    pluralityRun (renP π p) m tb (pri.map π) = (pluralityRun p m tb pri).map (renStates π) := by
  unfold pluralityRun
  rw [rankingValid_ren]
  split
  · rfl
  · exact topMRun_ren π hπ p m tb pri _ (firstPlaceVotes_ren π hπ)

theorem C08_sntv_neutral (p : Profile) (m : Nat) (tb : Option TB) (pri : List Cand) :
    sntvRun (renP π p) m tb (pri.map π) = (sntvRun p m tb pri).map (renStates π) :=
  C08_plurality_neutral π hπ p m tb pri

/-- **C08 (neutrality, Borda with any score vector).** -/
theorem C08_borda_neutral (p : Profile) (m : Nat) (v : Option (List Rat)) (tb : Option TB) (pri : List Cand) :
    bordaRun (renP π p) m v tb (pri.map π) = (bordaRun p m v tb pri).map (renStates π) := by
  unfold bordaRun
  have hl : (renP π p).cands.length = p.cands.length := by simp [renP]
  rw [rankingValid_ren, hl]
  have key : ∀ vec : List Rat,
      (if !validVector vec then Outcome.raised .valueError
       else if !rankingValid p then .raised .typeError
       else topMRun (renP π p) m tb (pri.map π) (fun q => scoreFromRankings q vec)) =
      (if !validVector vec then Outcome.raised .valueError
       else if !rankingValid p then .raised .typeError
       else topMRun p m tb pri (fun q => scoreFromRankings q vec)).map (renStates π) := by
    intro vec
    split
    · rfl
    · split
      · rfl
      · exact topMRun_ren π hπ p m tb pri _ (fun q => scoreFromRankings_ren π hπ q vec)
  exact key _

omit hπ in
theorem ratingBallotOk_ren (L : Rat) (k : Option Rat) (b : Ballot) :
    ratingBallotOk L k (renB π b) = ratingBallotOk L k b := by
  unfold ratingBallotOk
  have h2 : (renB π b).scores = renSc π b.scores := rfl
  rw [h2]
  have e1 : (renSc π b.scores).isEmpty = b.scores.isEmpty := by simp [renSc]
  have e2 : ∀ P : Rat → Bool, (renSc π b.scores).all (fun cs => P cs.2) = b.scores.all (fun cs => P cs.2) := by
    intro P; unfold renSc; rw [List.all_map]; rfl
  have e3 : (renSc π b.scores).map (·.2) = b.scores.map (·.2) := by unfold renSc; rw [List.map_map]; rfl
  rw [e1, e2 (fun x => decide (x ≤ L)), e2 (fun x => decide (0 ≤ x)), e3]

/-- **C08 (neutrality, the score-ballot classes).** -/
theorem C08_rating_neutral (p : Profile) (m : Int) (L : Rat) (k : Option Rat) (tb : Option TB) (pri : List Cand) :
    generalRatingRun (renP π p) m L k tb (pri.map π) = (generalRatingRun p m L k tb pri).map (renStates π) := by
  unfold generalRatingRun
  have hb : (renP π p).ballots.all (ratingBallotOk L (effectiveBudget k)) =
      p.ballots.all (ratingBallotOk L (effectiveBudget k)) := by
    unfold renP; simp only [List.all_map]; congr 1; funext b
    exact ratingBallotOk_ren π L _ b
  rw [hb]
  split
  · rfl
  · split
    · rfl
    · exact topMRun_ren π hπ p m.toNat tb pri _ (scoreFromBallotScores_ren π hπ)

theorem C08_scorerule_neutral (rule : ScoreRule) (p : Profile) (m : Int) (L : Rat) (k : Option Rat) (tb : Option TB)
    (pri : List Cand) :
    scoreRuleRun rule (renP π p) m L k tb (pri.map π) = (scoreRuleRun rule p m L k tb pri).map (renStates π) := by
  cases rule <;> simp only [scoreRuleRun]
  · exact C08_rating_neutral π hπ p m L k tb pri
  · exact C08_rating_neutral π hπ p m L none tb pri
  · have key : ∀ kk : Rat,
        (if (m : Rat) < kk then Outcome.raised .valueError
         else generalRatingRun (renP π p) m kk (some kk) tb (pri.map π)) =
        (if (m : Rat) < kk then Outcome.raised .valueError
         else generalRatingRun p m kk (some kk) tb pri).map (renStates π) := by
      intro kk
      split
      · rfl
      · exact C08_rating_neutral π hπ p m _ _ tb pri
    exact key _
  · exact C08_rating_neutral π hπ p m _ _ tb pri
  · exact C08_rating_neutral π hπ p m 1 none tb pri
  · exact C08_rating_neutral π hπ p m 1 _ tb pri

/-! ### composites -/

def renStage (π : Cand → Cand) (x : RoundState × RoundState × Profile) : RoundState × RoundState × Profile :=
  (renRS π x.1, renRS π x.2.1, renP π x.2.2)

theorem finalistStage_ren (p : Profile) (k : Nat) (tb : Option TB) (pri : List Cand) :
    finalistStage (renP π p) k tb (pri.map π) = (finalistStage p k tb pri).map (renStage π) := by
  unfold finalistStage
  rw [firstPlaceVotes_ren π hπ]
  cases firstPlaceVotes p with
  | ok sc0 =>
    simp only [Outcome.map_ok, Outcome.bind_ok]
    rw [C08_plurality_neutral π hπ]
    cases pluralityRun p k tb pri with
    | ok pl =>
      simp only [Outcome.map_ok, Outcome.bind_ok, renStates]
      match pl with
      | [] => rfl
      | [_] => rfl
      | [s0, s1] =>
        simp only [List.map_cons, List.map_nil]
        have hrem : (renRS π s1).remaining.flatten = s1.remaining.flatten.map π := flatten_renR π s1.remaining
        rw [hrem, removeCand_ren π hπ, firstPlaceVotes_ren π hπ]
        cases firstPlaceVotes (removeCand s1.remaining.flatten p) with
        | ok sc1 =>
          simp only [Outcome.map_ok, Outcome.bind_ok, Outcome.pure_eq, renStage]
          have hc : (renP π p).cands = p.cands.map π := rfl
          rw [hc, initialState_ren]
          rfl
        | raised e => rfl
        | oracleMismatch => rfl
        | outOfFuel => rfl
      | _ :: _ :: _ :: _ => rfl
    | raised e => rfl
    | oracleMismatch => rfl
    | outOfFuel => rfl
  | raised e => rfl
  | oracleMismatch => rfl
  | outOfFuel => rfl

/-- **C08 (neutrality, TopTwo).** -/
theorem C08_toptwo_neutral (p : Profile) (tb : Option TB) (pri : Nat → List Cand) :
    topTwoRun (renP π p) tb (fun r => (pri r).map π) = (topTwoRun p tb pri).map (renStates π) := by
  unfold topTwoRun
  rw [rankingValid_ren]
  split
  · rfl
  · simp only []
    rw [finalistStage_ren π hπ]
    cases finalistStage p 2 tb (pri 1) with
    | ok x =>
      obtain ⟨st0, st1, p1⟩ := x
      simp only [Outcome.map_ok, Outcome.bind_ok, renStage]
      rw [C08_plurality_neutral π hπ]
      cases pluralityRun p1 1 tb (pri 2) with
      | ok pl =>
        simp only [Outcome.map_ok, Outcome.bind_ok, renStates]
        match pl with
        | [] => rfl
        | [_] => rfl
        | [s0, s] => rfl
        | _ :: _ :: _ :: _ => rfl
      | raised e => rfl
      | oracleMismatch => rfl
      | outOfFuel => rfl
    | raised e => rfl
    | oracleMismatch => rfl
    | outOfFuel => rfl

/-- **C08 (neutrality, Alaska).** -/
theorem C08_alaska_neutral (p : Profile) (m1 m2 : Int) (cfg : STVCfg) (ω ω' : STVOracle) (hω : RenOracle π ω ω')
    (quotaOk : Bool) :
    alaskaRun (renP π p) m1 m2 cfg ω' quotaOk = (alaskaRun p m1 m2 cfg ω quotaOk).map (renStates π) := by
  unfold alaskaRun
  rw [rankingValid_ren]
  split
  · rfl
  · split
    · rfl
    · simp only []
      rw [hω.pri, finalistStage_ren π hπ]
      cases finalistStage p m1.toNat cfg.tiebreak (ω.pri 1) with
      | ok x =>
        obtain ⟨st0, st1, p1⟩ := x
        simp only [Outcome.map_ok, Outcome.bind_ok, renStage]
        have hω2 : RenOracle π { pri := fun r => ω.pri (r + 1), sample := fun r => ω.sample (r + 1) }
            { pri := fun r => ω'.pri (r + 1), sample := fun r => ω'.sample (r + 1) } :=
          ⟨fun r => hω.pri (r + 1), fun r c => hω.sample (r + 1) c⟩
        rw [C08_stv_neutral π hπ _ p1 _ _ hω2]
        cases stvRun { cfg with m := m2.toNat } p1
            { pri := fun r => ω.pri (r + 1), sample := fun r => ω.sample (r + 1) } quotaOk with
        | ok res =>
          simp only [Outcome.map_ok, Outcome.bind_ok, Outcome.pure_eq, renStates, List.map_cons]
          congr 3
          simp only [STVResult.states, renResult, renTrace, List.map_map, List.map_drop, Function.comp_def]
          rfl
        | raised e => rfl
        | oracleMismatch => rfl
        | outOfFuel => rfl
      | raised e => rfl
      | oracleMismatch => rfl
      | outOfFuel => rfl

end
end VK
