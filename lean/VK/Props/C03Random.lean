/-
  C03, the random rule as a function (`random_transfer` called directly, Model/Transfers.lean): for every
  ballot list and EVERY sample the model accepts from the oracle, the returned ballots never mention
  the winner, every returned ranking is an input ranking with the winner erased, the sample is a
  sub-collection of the winner's transferable unit ballots (no continuing ranking is taken more often
  than the winner's ballots offer it) and its size is exactly floor(tally) - threshold.
-/
import VK.Props.C03
import VK.Lemmas.Rescore

namespace VK

theorem foldl_add_pos_mem (l : List Nat) (h : 0 < l.foldl (· + ·) 0) : ∃ x ∈ l, 0 < x := by
  have key : ∀ (l : List Nat) (a : Nat), a < l.foldl (· + ·) a → ∃ x ∈ l, 0 < x := by
    intro l
    induction l with
    | nil => intro a h; simp at h
    | cons x xs ih =>
      intro a h
      simp only [List.foldl_cons] at h
      by_cases hx : 0 < x
      · exact ⟨x, by simp, hx⟩
      · have hx0 : x = 0 := by omega
        subst hx0
        obtain ⟨y, hy, hpos⟩ := ih a (by simpa using h)
        exact ⟨y, by simp [hy], hpos⟩
  exact key l 0 h

/-- what an accepted call of the random rule guarantees -/
theorem C03_random_direct (w : Cand) (fpv : Rat) (bs : List Ballot) (q : Int) (keep : List (Ranking × Nat))
    (out : List Ballot) (h : randomTransfer w fpv bs q keep = .ok out) :
    (∀ b ∈ out, w ∉ b.ranking.flatten) ∧
    (∀ b ∈ out, ∃ b0 ∈ bs, b.ranking = removeWinner w b0.ranking ∧
        b.ranking.flatten = b0.ranking.flatten.filter (fun c => c != w)) ∧
    (((keep.map (·.2)).foldl (· + ·) 0 : Nat) : Int) = fpv.floor - q ∧
    (∀ kn ∈ keep, kn.2 ≤ classUnits w bs kn.1 ∧ kn.1 ≠ []) ∧
    (∀ b ∈ bs, b.weight.den = 1) := by
  unfold randomTransfer at h
  split at h; · cases h
  rename_i hvalid
  simp +zetaHave only [] at h
  split at h; · cases h
  split at h; · cases h
  rename_i horacle
  injection h with h
  have horacle' : ((decide (((List.foldl (fun x1 x2 => x1 + x2) 0 (List.map (fun x => x.2) keep) : Nat) : Int) ≠ fpv.floor - q) ||
      keep.any fun kn => List.isEmpty kn.1 || decide (kn.2 > classUnits w bs kn.1)) ||
      decide ((List.map (fun x => x.1) keep).eraseDups.length ≠ keep.length)) = false := by
    simpa using horacle
  rw [Bool.or_eq_false_iff, Bool.or_eq_false_iff] at horacle'
  obtain ⟨⟨htotal0, hany⟩, _⟩ := horacle'
  have htotal : ((List.foldl (fun x1 x2 => x1 + x2) 0 (List.map (fun x => x.2) keep) : Nat) : Int) = fpv.floor - q := by
    simpa using htotal0
  have hkeep : ∀ kn ∈ keep, kn.2 ≤ classUnits w bs kn.1 ∧ kn.1 ≠ [] := by
    intro kn hkn
    have := List.any_eq_false.1 hany kn hkn
    simp only [Bool.or_eq_true, not_or, Bool.not_eq_true, decide_eq_false_iff_not, not_lt, List.isEmpty_eq_false_iff,
      gt_iff_lt] at this
    exact ⟨this.2, this.1⟩
  -- every returned ranking comes from an input ballot
  have hsrc : ∀ b ∈ out, ∃ b0 ∈ bs, b.ranking = removeWinner w b0.ranking := by
    intro b hb
    rw [← h] at hb
    obtain ⟨b1, hb1, hr, _⟩ := mem_condense_ranking _ b hb
    obtain ⟨hb1m, hb1p⟩ := List.mem_filter.1 hb1
    simp only [Bool.and_eq_true, Bool.not_eq_true', decide_eq_true_eq] at hb1p
    rcases List.mem_append.1 hb1m with ho | hk
    · obtain ⟨b0, hb0, rfl⟩ := List.mem_map.1 ho
      exact ⟨b0, (List.mem_filter.1 hb0).1, hr.symm⟩
    · obtain ⟨kn, hkn, rfl⟩ := List.mem_map.1 hk
      have hpos : 0 < kn.2 := by
        have := hb1p.2
        simp only at this
        exact_mod_cast this
      have hcu : 0 < classUnits w bs kn.1 := lt_of_lt_of_le hpos (hkeep kn hkn).1
      unfold classUnits at hcu
      obtain ⟨x, hx, _⟩ := foldl_add_pos_mem _ hcu
      obtain ⟨b0, hb0, _⟩ := List.mem_map.1 hx
      obtain ⟨hb0m, hb0p⟩ := List.mem_filter.1 hb0
      simp only [Bool.and_eq_true, beq_iff_eq] at hb0p
      exact ⟨b0, hb0m, by rw [← hr]; exact hb0p.2.symm⟩
  refine ⟨?_, ?_, ?_, hkeep, ?_⟩
  · intro b hb
    obtain ⟨b0, _, hr⟩ := hsrc b hb
    rw [hr]; exact removeWinner_not_mem w _
  · intro b hb
    obtain ⟨b0, hb0, hr⟩ := hsrc b hb
    exact ⟨b0, hb0, hr, by rw [hr, removeWinner_flatten]⟩
  · exact htotal
  · intro b hb
    simp only [Bool.or_eq_true, not_or, Bool.not_eq_true] at hvalid
    have := List.any_eq_false.1 hvalid.1 b hb
    simpa using this

end VK
