/-
  Property C18 — cast-vote-record loading keeps every vote (table level).
  pandas' CSV reader / groupby and the csv module are modelled by their contract: the model starts
  from the parsed table; the harness writes real files and loads them with the implementation.
-/
import VK.Model.Loaders
import VK.Lemmas.Sum
import Mathlib.Data.List.Nodup
import Mathlib.Data.List.Count
import VK.Lemmas.Partition
import Mathlib.Algebra.BigOperators.Group.List.Basic
import Mathlib.Algebra.BigOperators.Ring.Finset

namespace VK

theorem mem_distinctPatterns (l : List (List Cell)) (p : List Cell) : p ∈ distinctPatterns l ↔ p ∈ l := by
  induction l with
  | nil => simp [distinctPatterns]
  | cons x xs ih =>
    simp only [distinctPatterns, List.mem_cons, List.mem_filter, ih, decide_eq_true_eq]
    constructor
    · rintro (h | ⟨h, _⟩)
      · exact Or.inl h
      · exact Or.inr h
    · rintro (h | h)
      · exact Or.inl h
      · by_cases e : p = x
        · exact Or.inl e
        · exact Or.inr ⟨h, e⟩

theorem distinctPatterns_nodup (l : List (List Cell)) : (distinctPatterns l).Nodup := by
  induction l with
  | nil => simp [distinctPatterns]
  | cons x xs ih =>
    simp only [distinctPatterns, List.nodup_cons, List.mem_filter, decide_eq_true_eq, not_and, not_not]
    exact ⟨fun _ => trivial |> fun _ => by simp, ih.filter _⟩

/-- **One ballot per distinct row pattern of the selected columns, in column order.** -/
theorem C18_groups (cfg : CsvCfg) (ncols : Nat) (rows : List (List Cell)) (ids : List Cell)
    (weights : List Rat) (bs : List CsvBallot) (h : loadTable cfg ncols rows ids weights = .ok bs) :
    (bs.map (·.pattern)).Nodup ∧
    (∀ p, p ∈ bs.map (·.pattern) ↔ ∃ row ∈ rows, p = (selectCols cfg ncols).map (cellAt row)) := by
  unfold loadTable at h
  split at h; · cases h
  split at h; · cases h
  split at h; · cases h
  injection h with h
  subst h
  simp only [List.map_map, Function.comp_def, List.map_id']
  refine ⟨distinctPatterns_nodup _, ?_⟩
  intro p
  rw [mem_distinctPatterns]
  simp only [List.mem_map, patternOf]
  constructor
  · rintro ⟨row, hr, rfl⟩; exact ⟨row, hr, rfl⟩
  · rintro ⟨row, hr, rfl⟩; exact ⟨row, hr, rfl⟩

/-- the rows of a table are partitioned by their distinct patterns -/
theorem rows_partition (cols : List Nat) (rows : List (List Cell)) :
    ((distinctPatterns (rows.map (patternOf cols))).flatMap
      (fun p => rows.filter (fun r => patternOf cols r = p))).Perm rows :=
  flatMap_filter_key_perm (patternOf cols) rows _ (distinctPatterns_nodup _)
    (fun r hr => (mem_distinctPatterns _ _).2 (List.mem_map_of_mem hr))

/-- **Weights are multiplicities** (no weight column): each ballot weighs the number of rows with
its pattern. -/
theorem C18_weights_count (cfg : CsvCfg) (ncols : Nat) (rows : List (List Cell)) (ids : List Cell)
    (weights : List Rat) (bs : List CsvBallot) (hw : cfg.weightCol = none)
    (hlen : ids.length = rows.length ∧ weights.length = rows.length)
    (h : loadTable cfg ncols rows ids weights = .ok bs) :
    ∀ b ∈ bs, b.weight =
      ((rows.filter (fun r => (selectCols cfg ncols).map (cellAt r) = b.pattern)).length : Rat) := by
  unfold loadTable at h
  split at h; · cases h
  split at h; · cases h
  split at h; · cases h
  injection h with h
  subst h
  intro b hb
  obtain ⟨p, _, rfl⟩ := List.mem_map.1 hb
  simp only [hw, Option.isSome_none, Bool.false_eq_true, if_false]
  congr 1
  -- filtering the zipped rows is filtering the rows
  have hz : ∀ (rs : List (List Cell)) (ts : List (Cell × Rat)), ts.length = rs.length →
      ((rs.zip ts).filter (fun t => decide (patternOf (selectCols cfg ncols) t.1 = p))).length =
      (rs.filter (fun r => decide (patternOf (selectCols cfg ncols) r = p))).length := by
    intro rs
    induction rs with
    | nil => intro ts _; simp
    | cons r rs ih =>
      intro ts hts
      cases ts with
      | nil => simp at hts
      | cons t ts =>
        simp only [List.zip_cons_cons, List.filter_cons]
        have := ih ts (by simpa using hts)
        by_cases hp : patternOf (selectCols cfg ncols) r = p
        · simp [hp, this]
        · simp [hp, this]
  have hzl : (ids.zip weights).length = rows.length := by simp [hlen.1, hlen.2]
  exact hz rows (ids.zip weights) hzl

/-- **The total weight equals the number of rows** (no weight column). -/
theorem C18_total (cfg : CsvCfg) (ncols : Nat) (rows : List (List Cell)) (ids : List Cell)
    (weights : List Rat) (bs : List CsvBallot) (hw : cfg.weightCol = none)
    (hlen : ids.length = rows.length ∧ weights.length = rows.length)
    (h : loadTable cfg ncols rows ids weights = .ok bs) :
    rsum (bs.map (·.weight)) = (rows.length : Rat) := by
  have hwts := C18_weights_count cfg ncols rows ids weights bs hw hlen h
  have hg := C18_groups cfg ncols rows ids weights bs h
  have hpat : bs.map (·.pattern) = distinctPatterns (rows.map (patternOf (selectCols cfg ncols))) := by
    unfold loadTable at h
    split at h; · cases h
    split at h; · cases h
    split at h; · cases h
    injection h with h
    subst h
    simp [List.map_map, Function.comp_def]
  have h1 : bs.map (·.weight) = (bs.map (·.pattern)).map
      (fun p => ((rows.filter (fun r => patternOf (selectCols cfg ncols) r = p)).length : Rat)) := by
    rw [List.map_map]
    apply List.map_congr_left
    intro b hb
    have := hwts b hb
    simp only [patternOf, Function.comp_def]
    exact this
  rw [h1, hpat, rsum_eq_sum]
  have hperm := rows_partition (selectCols cfg ncols) rows
  have hl := hperm.length_eq
  rw [List.length_flatMap] at hl
  have : ((distinctPatterns (rows.map (patternOf (selectCols cfg ncols)))).map
      (fun p => ((rows.filter (fun r => patternOf (selectCols cfg ncols) r = p)).length : Rat))).sum =
      (((distinctPatterns (rows.map (patternOf (selectCols cfg ncols)))).map
      (fun p => (rows.filter (fun r => patternOf (selectCols cfg ncols) r = p)).length)).sum : Nat) := by
    rw [Nat.cast_list_sum, List.map_map]; rfl
  rw [this]
  exact_mod_cast hl

/-- grouping values by a key whose values all lie in a duplicate-free list of keys loses nothing -/
theorem sum_by_key_gen {β κ} [DecidableEq κ] (keys : List κ) (hn : keys.Nodup) (bs : List β) (key : β → κ) (w : β → Rat)
    (hk : ∀ b ∈ bs, key b ∈ keys) :
    rsum (keys.map (fun v => rsum ((bs.filter (fun b => key b = v)).map w))) = rsum (bs.map w) := by
  induction bs with
  | nil => simp [rsum_replicate]
  | cons b rest ih =>
    have ih' := ih (fun b' hb' => hk b' (by simp [hb']))
    have hsplit : ∀ v, rsum (((b :: rest).filter (fun b => key b = v)).map w) =
        (if key b = v then w b else 0) + rsum ((rest.filter (fun b => key b = v)).map w) := by
      intro v
      by_cases h : key b = v
      · simp [h, List.filter_cons]
      · simp [h, List.filter_cons]
    simp only [hsplit]
    rw [rsum_map_add, ih', List.map_cons, rsum_cons]
    congr 1
    have hb := hk b (by simp)
    clear ih ih' hsplit hk
    induction keys with
    | nil => simp at hb
    | cons v vs ihv =>
      rw [List.nodup_cons] at hn
      simp only [List.map_cons, rsum_cons]
      rcases List.mem_cons.1 hb with h | h
      · have : ∀ v' ∈ vs, (if key b = v' then w b else 0) = 0 := by
          intro v' hv'
          have : key b ≠ v' := fun e => hn.1 (h ▸ e ▸ hv')
          simp [this]
        rw [List.map_congr_left this]
        simp [h, rsum_replicate]
      · have hne : key b ≠ v := fun e => hn.1 (e ▸ h)
        simp only [hne, if_false, zero_add]
        exact ihv hn.2 h

/-- **With a weight column the total weight is the sum of the column**: every row's weight is counted
exactly once, on the ballot of its pattern. -/
theorem C18_total_weighted (cfg : CsvCfg) (ncols : Nat) (rows : List (List Cell)) (ids : List Cell)
    (weights : List Rat) (bs : List CsvBallot) (hw : cfg.weightCol.isSome = true)
    (hlen : ids.length = rows.length ∧ weights.length = rows.length)
    (h : loadTable cfg ncols rows ids weights = .ok bs) :
    rsum (bs.map (·.weight)) = rsum weights := by
  unfold loadTable at h
  split at h; · cases h
  split at h; · cases h
  split at h; · cases h
  injection h with h
  subst h
  simp only [List.map_map, Function.comp_def, hw, if_true]
  set cols := selectCols cfg ncols
  set tagged := rows.zip (ids.zip weights)
  have hkeys : ∀ t ∈ tagged, patternOf cols t.1 ∈ distinctPatterns (rows.map (patternOf cols)) := by
    intro t ht
    rw [mem_distinctPatterns]
    exact List.mem_map_of_mem (List.of_mem_zip ht).1
  have := sum_by_key_gen (distinctPatterns (rows.map (patternOf cols))) (distinctPatterns_nodup _) tagged
    (fun t => patternOf cols t.1) (fun t => t.2.2) hkeys
  rw [this]
  -- the weights of the zipped rows are the weight column
  have : tagged.map (fun t => t.2.2) = weights := by
    have h1 : tagged.map (·.2) = ids.zip weights := by
      apply List.map_snd_zip
      simp [hlen.1, hlen.2]
    have h2 : (ids.zip weights).map (·.2) = weights := by
      apply List.map_snd_zip
      simp [hlen.1, hlen.2]
    rw [← h2, ← h1, List.map_map]
    rfl
  rw [this]

/-- **Documented rejections**: empty data, a blank voter id, a duplicated voter id. -/
theorem C18_errors (cfg : CsvCfg) (ncols : Nat) (rows : List (List Cell)) (ids : List Cell) (weights : List Rat) :
    (rows = [] → loadTable cfg ncols rows ids weights = .raised .emptyData) ∧
    (rows ≠ [] → cfg.idCol.isSome = true → (∃ x ∈ ids, x = none) →
      loadTable cfg ncols rows ids weights = .raised .valueError) ∧
    (rows ≠ [] → cfg.idCol.isSome = true → (∀ x ∈ ids, x ≠ none) → ¬ (ids.filterMap id).Nodup →
      loadTable cfg ncols rows ids weights = .raised .dataError) := by
  refine ⟨?_, ?_, ?_⟩
  · intro h; subst h; simp [loadTable]
  · intro hne hid ⟨x, hx, hxn⟩
    have h1 : rows.isEmpty = false := by cases rows with
      | nil => exact absurd rfl hne
      | cons _ _ => rfl
    have h2 : ids.any (·.isNone) = true := by
      rw [List.any_eq_true]; exact ⟨x, hx, by simp [hxn]⟩
    simp [loadTable, h1, hid, h2]
  · intro hne hid hall hdup
    have h1 : rows.isEmpty = false := by cases rows with
      | nil => exact absurd rfl hne
      | cons _ _ => rfl
    have h2 : ids.any (·.isNone) = false := by
      rw [List.any_eq_false]; intro x hx
      have := hall x hx
      cases x with
      | none => exact absurd rfl this
      | some _ => simp
    have h3 : hasDup (ids.filterMap id) = true := by
      -- hasDup ↔ ¬ Nodup
      have key : ∀ l : List Cand, hasDup l = true ↔ ¬ l.Nodup := by
        intro l
        induction l with
        | nil => simp [hasDup]
        | cons x xs ih =>
          simp only [hasDup, Bool.or_eq_true, List.contains_iff_mem, ih, List.nodup_cons, not_and]
          constructor
          · rintro (h | h)
            · intro hn; exact absurd h hn
            · intro _; exact h
          · intro h
            by_cases hx : x ∈ xs
            · exact Or.inl hx
            · exact Or.inr (h hx)
      exact (key _).2 hdup
    have h3' : hasDup (List.filterMap (fun x => x) ids) = true := h3
    simp [loadTable, h1, hid, h2, h3']

/-- **Scottish format: inconsistent metadata is rejected** — a first row that is not
(candidates, seats). -/
theorem C18_scot_rejects (rows : List (List String)) (first : List String) (rest : List (List String))
    (hdata : (rows.map (fun r => r.filter (· ≠ ""))).filter (fun r => !r.isEmpty) = first :: rest)
    (hlen : first.length ≠ 2) : parseScottish rows = .raised .dataError := by
  unfold parseScottish
  simp only [hdata]
  simp [hlen]

end VK
