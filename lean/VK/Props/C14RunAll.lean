/-
  C14, end to end, for the remaining bloc generators of the model (`Gen.runBT`, `runBTmcmc`, `runAC`, `runCambridge`,
  `runSlatePL`, `runSlateBT`): whatever log the replay accepts, the pool has exactly `N` unit ballots — so the
  profile `Gen.run` returns has total weight `N`, positive whole weights, and is the sum of the bloc profiles.
-/
import VK.Props.C14Run

namespace VK
namespace Gen

/-- pool of unit ballots of the right size -/
def UnitPool (cnt : Nat) (o : List Ballot) : Prop := o.length = cnt ∧ ∀ b ∈ o, b.weight = 1

theorem expectChoiceIdx_spec (n : Nat) (p : Option (List Rat)) (size : Nat) (what : String) :
    Ensures (expectChoiceIdx n p size what) (fun res => res.length = size) := by
  unfold expectChoiceIdx
  refine ensures_bind _ _ (fun _ => True) _ (ensures_next what) ?_
  intro c _
  cases c with
  | choiceIdx n' p' size' res =>
    cases size' with
    | none => exact ensures_bad _ _
    | some size' =>
      simp only
      refine ensures_ite _ _ _ _ (fun _ => ensures_bad _ _) (fun _ => ?_)
      refine ensures_ite _ _ _ _ (fun _ => ensures_bad _ _) (fun _ => ?_)
      refine ensures_ite _ _ _ _ (fun _ => ensures_bad _ _) (fun h3 => ?_)
      simp only [Bool.or_eq_true, decide_eq_true_eq, not_or, Decidable.not_not] at h3
      cases p with
      | none =>
        cases p' with
        | none => exact ensures_pure _ _ h3.1
        | some _ => exact ensures_bad _ _
      | some e =>
        cases p' with
        | none => exact ensures_bad _ _
        | some g =>
          simp only
          refine ensures_ite _ _ _ _ (fun _ => ensures_bad _ _) (fun _ => ?_)
          refine ensures_ite _ _ _ _ (fun _ => ensures_bad _ _) (fun _ => ?_)
          exact ensures_pure _ _ h3.1
  | _ => exact ensures_bad _ _

theorem ensures_any {α} (m : GenM α) : Ensures m (fun _ => True) := fun _ _ _ _ => trivial

/-- per-bloc pools of the apportioned sizes make a pool of `N` unit ballots -/
theorem pools_total (P : Params) (counts : List Nat) (hc : counts.length = P.props.length ∧ sumNat counts = P.N)
    (hnb : P.nb = P.props.length) (out : List (List Ballot))
    (ho : List.Forall₂ (fun (bc : Nat × Nat) (o : List Ballot) => UnitPool bc.2 o) ((List.range P.nb).zip counts) out) :
    out.flatten.length = P.N ∧ ∀ b ∈ out.flatten, b.weight = 1 := by
  have := blocs_total P.nb counts out (fun b => b.weight = 1) (by rw [hc.1, hnb]) ho
  refine ⟨by rw [this.1, hc.2], ?_⟩
  intro b hb
  obtain ⟨o, ho', hbo⟩ := List.mem_flatten.1 hb
  exact this.2 o ho' b hbo

/-- name Bradley–Terry, exact table -/
theorem C14_runBT (P : Params) (hnb : P.nb = P.props.length) :
    Ensures (runBT P) (fun bb => bb.flatten.length = P.N ∧ ∀ b ∈ bb.flatten, b.weight = 1) := by
  unfold runBT
  refine ensures_bind _ _ _ _ (expectApportion_spec P.props P.N) ?_
  intro counts hc
  refine ensures_weaken _ _ _ (forBlocs_spec P counts _ (fun _ cnt o => UnitPool cnt o) ?_)
    (fun out ho => pools_total P counts hc hnb out ho)
  intro b cnt
  refine ensures_bind _ _ (fun _ => True) _ (ensures_any _) ?_
  intro iv _
  simp only
  refine ensures_ite _ _ _ _ (fun _ => ensures_bad _ _) (fun _ => ?_)
  refine ensures_bind _ _ _ _ (expectChoiceIdx_spec _ _ cnt _) ?_
  intro idx hidx
  refine ensures_weaken _ _ _ (ensures_mapM _ (fun b => b.weight = 1) idx ?_) (fun o ho => ⟨by rw [ho.1, hidx], ho.2⟩)
  intro i _
  split
  · exact ensures_pure _ _ rfl
  · exact ensures_bad _ _

theorem btmcmc_loop_spec (b : Nat) (iv : Interval) (l : List (List Nat)) :
    ∀ (cur : List Cand) (i : Nat), Ensures (runBTmcmc.loop b iv cur l i) (UnitPool l.length) := by
  induction l with
  | nil =>
    intro cur i
    unfold runBTmcmc.loop
    exact ensures_pure _ _ ⟨rfl, by simp⟩
  | cons x rest ih =>
    intro cur i
    match x with
    | [] => unfold runBTmcmc.loop; exact ensures_bad _ _
    | [j] =>
      unfold runBTmcmc.loop
      refine ensures_bind _ _ (fun _ => True) _ (ensures_any _) ?_
      intro u _
      split
      · rename_i nxt _
        refine ensures_bind _ _ _ _ (ih nxt (i + 1)) ?_
        intro tl htl
        refine ensures_pure _ _ ⟨by simp [htl.1], ?_⟩
        intro y hy
        rcases List.mem_cons.1 hy with rfl | hy
        · rfl
        · exact htl.2 y hy
      · exact ensures_bad _ _
    | _ :: _ :: _ => unfold runBTmcmc.loop; exact ensures_bad _ _

/-- name Bradley–Terry, MCMC -/
theorem C14_runBTmcmc (P : Params) (hnb : P.nb = P.props.length) :
    Ensures (runBTmcmc P) (fun bb => bb.flatten.length = P.N ∧ ∀ b ∈ bb.flatten, b.weight = 1) := by
  unfold runBTmcmc
  refine ensures_bind _ _ _ _ (expectApportion_spec P.props P.N) ?_
  intro counts hc
  refine ensures_weaken _ _ _ (forBlocs_spec P counts _ (fun _ cnt o => UnitPool cnt o) ?_)
    (fun out ho => pools_total P counts hc hnb out ho)
  intro b cnt
  refine ensures_bind _ _ (fun _ => True) _ (ensures_any _) ?_
  intro iv _
  simp only
  refine ensures_ite _ _ _ _ (fun _ => ensures_bad _ _) (fun _ => ?_)
  refine ensures_bind _ _ (fun _ => True) _ (ensures_next _) ?_
  intro c _
  cases c with
  | choices pop w k res =>
    cases w with
    | some _ => exact ensures_bad _ _
    | none =>
      simp only
      refine ensures_ite _ _ _ _ (fun _ => ensures_bad _ _) (fun h => ?_)
      simp only [Bool.or_eq_true, decide_eq_true_eq, not_or, Decidable.not_not] at h
      have := btmcmc_loop_spec b iv res ((P.seeds[b]?).getD []) 0
      rw [h.2] at this
      exact this
  | _ => exact ensures_bad _ _

theorem fillBallot_spec (P : Params) (b : Nat) (ivs : List Interval) (zeros : List Cand) (ty : List Nat) (what : String) :
    Ensures (fillBallot P b ivs zeros ty what) (fun x => x.weight = 1) := by
  unfold fillBallot
  refine ensures_bind _ _ (fun _ => True) _ (ensures_any _) ?_
  intro orders _
  split
  · exact ensures_pure _ _ rfl
  · exact ensures_bad _ _

theorem fill_all (P : Params) (b cnt : Nat) (ivs : List Interval) (zeros : List Cand) (types : List (List Nat)) (what : String)
    (h : types.length = cnt) :
    Ensures (types.mapM (fun ty => fillBallot P b ivs zeros ty what)) (UnitPool cnt) :=
  ensures_weaken _ _ _ (ensures_mapM _ (fun x => x.weight = 1) types (fun ty _ => fillBallot_spec P b ivs zeros ty what))
    (fun o ho => ⟨by rw [ho.1, h], ho.2⟩)

theorem sampleTypes_spec (sizes slates : List Nat) (values : List Rat) (per : Nat) (cnt : Nat) :
    ∀ flips, Ensures (sampleTypes sizes slates values per cnt flips) (fun tys => tys.length = cnt) := by
  induction cnt with
  | zero => intro flips; unfold sampleTypes; exact ensures_pure _ _ rfl
  | succ n ih =>
    intro flips
    unfold sampleTypes
    refine ensures_bind _ _ (fun _ => True) _ (ensures_any _) ?_
    intro ty _
    refine ensures_bind _ _ _ _ (ih _) ?_
    intro rest hr
    exact ensures_pure _ _ (by simp [hr])

/-- slate Plackett–Luce -/
theorem C14_runSlatePL (P : Params) (hnb : P.nb = P.props.length) :
    Ensures (runSlatePL P) (fun bb => bb.flatten.length = P.N ∧ ∀ b ∈ bb.flatten, b.weight = 1) := by
  unfold runSlatePL
  refine ensures_bind _ _ _ _ (expectApportion_spec P.props P.N) ?_
  intro counts hc
  refine ensures_weaken _ _ _ (forBlocs_spec P counts _ (fun _ cnt o => UnitPool cnt o) ?_)
    (fun out ho => pools_total P counts hc hnb out ho)
  intro b cnt
  refine ensures_bind _ _ (fun _ => True) _ (ensures_any _) ?_
  intro ivs _
  refine ensures_bind _ _ (fun _ => True) _ (ensures_any _) ?_
  intro flips _
  refine ensures_bind _ _ _ _ (sampleTypes_spec _ _ _ _ cnt flips) ?_
  intro types ht
  exact fill_all P b cnt ivs _ types _ ht

theorem slatebt_loop_spec (b : Nat) (c : Rat) (l : List Nat) :
    ∀ (cur : List Nat) (i : Nat), Ensures (runSlateBT.loop b c cur l i) (fun tys => tys.length = l.length) := by
  induction l with
  | nil => intro cur i; unfold runSlateBT.loop; exact ensures_pure _ _ rfl
  | cons j rest ih =>
    intro cur i
    unfold runSlateBT.loop
    refine ensures_bind _ _ (fun _ => True) _ (ensures_any _) ?_
    intro u _
    split
    · refine ensures_bind _ _ _ _ (ih _ (i + 1)) ?_
      intro tl htl
      exact ensures_pure _ _ (by simp [htl])
    · exact ensures_bad _ _

/-- slate Bradley–Terry, exact table or MCMC -/
theorem C14_runSlateBT (P : Params) (mcmc : Bool) (hnb : P.nb = P.props.length) :
    Ensures (runSlateBT P mcmc) (fun bb => bb.flatten.length = P.N ∧ ∀ b ∈ bb.flatten, b.weight = 1) := by
  unfold runSlateBT
  refine ensures_bind _ _ _ _ (expectApportion_spec P.props P.N) ?_
  intro counts hc
  refine ensures_weaken _ _ _ (forBlocs_spec P counts _ (fun _ cnt o => UnitPool cnt o) ?_)
    (fun out ho => pools_total P counts hc hnb out ho)
  intro b cnt
  refine ensures_bind _ _ (fun _ => True) _ (ensures_any _) ?_
  intro ivs _
  simp only
  cases mcmc with
  | true =>
    simp only [if_true]
    refine ensures_bind _ _ _ _ (expectChoiceIdx_spec _ _ cnt _) ?_
    intro js hjs
    have := slatebt_loop_spec b ((((P.cohesion[b]?).getD [])[b]?).getD 0) js
      ((List.range P.nb).flatMap (fun s => List.replicate (((ivs.map (·.interval.length))[s]?).getD 0) s)) 0
    rw [hjs] at this
    refine ensures_bind _ _ _ _ this ?_
    intro types ht
    exact fill_all P b cnt ivs _ types _ ht
  | false =>
    simp only [Bool.false_eq_true, if_false]
    refine ensures_ite _ _ _ _ (fun _ => ?_) (fun _ => ?_)
    · exact ensures_bind _ _ (fun _ => False) _ (ensures_bad _ _) (fun _ hf => hf.elim)
    · refine ensures_bind _ _ _ _ (expectChoiceIdx_spec _ _ cnt _) ?_
      intro idx hidx
      refine ensures_bind _ _ (fun (tys : List (List Nat)) => tys.length = cnt) _ ?_ ?_
      · exact ensures_weaken _ _ _ (ensures_mapM _ (fun _ => True) idx (fun _ _ => ensures_any _)) (fun o ho => by rw [ho.1, hidx])
      · intro types ht
        exact fill_all P b cnt ivs _ types _ ht

/-! ### the two-bloc generators (bloc-first / cross-over split) -/

theorem pools_flatten {α} (g : α → Nat) (l : List α) (out : List (List Ballot))
    (h : List.Forall₂ (fun a o => UnitPool (g a) o) l out) :
    out.flatten.length = sumNat (l.map g) ∧ ∀ b ∈ out.flatten, b.weight = 1 := by
  induction h with
  | nil => simp [sumNat]
  | cons hx _ ih =>
    refine ⟨by simp only [List.flatten_cons, List.length_append, List.map_cons, sumNat_cons, ih.1, hx.1], ?_⟩
    intro b hb
    simp only [List.flatten_cons, List.mem_append] at hb
    rcases hb with hb | hb
    · exact hx.2 b hb
    · exact ih.2 b hb

theorem pair_sum (nb : Nat) : ∀ counts : List Nat, counts.length = 2 * nb →
    sumNat ((List.range nb).map (fun b => (counts[2 * b]?).getD 0 + (counts[2 * b + 1]?).getD 0)) = sumNat counts := by
  induction nb with
  | zero =>
    intro counts h
    have : counts = [] := List.length_eq_zero_iff.1 (by omega)
    subst this
    simp [sumNat]
  | succ n ih =>
    intro counts h
    match counts, h with
    | a :: b :: rest, h =>
      have hr : rest.length = 2 * n := by simp at h; omega
      rw [List.range_succ_eq_map, List.map_cons, List.map_map, sumNat_cons, sumNat_cons, sumNat_cons]
      have : ((fun b_1 => ((a :: b :: rest)[2 * b_1]?).getD 0 + ((a :: b :: rest)[2 * b_1 + 1]?).getD 0) ∘ Nat.succ)
          = (fun b => (rest[2 * b]?).getD 0 + (rest[2 * b + 1]?).getD 0) := by
        funext k
        have h1 : 2 * (k + 1) = (2 * k + 1) + 1 := by omega
        have h2 : 2 * (k + 1) + 1 = (2 * k + 1 + 1) + 1 := by omega
        simp only [Function.comp, Nat.succ_eq_add_one, h1, h2, List.getElem?_cons_succ]
      rw [this, ih rest hr]
      simp
      omega

theorem crossProps_length (P : Params) : (crossProps P).length = 2 * P.nb := by
  unfold crossProps
  have : ∀ l : List Nat, (l.flatMap (fun b =>
      [(((P.cohesion[b]?).getD [])[b]?).getD 0 * (P.props[b]?).getD 0,
       (1 - (((P.cohesion[b]?).getD [])[b]?).getD 0) * (P.props[b]?).getD 0])).length = 2 * l.length := by
    intro l
    induction l with
    | nil => simp
    | cons x xs ih => simp only [List.flatMap_cons, List.length_append, ih, List.length_cons, List.length_nil]; omega
  simpa using this (List.range P.nb)

/-- AlternatingCrossover -/
theorem C14_runAC (P : Params) :
    Ensures (runAC P) (fun bb => bb.flatten.length = P.N ∧ ∀ b ∈ bb.flatten, b.weight = 1) := by
  unfold runAC
  refine ensures_bind _ _ _ _ (expectApportion_spec (crossProps P) P.N) ?_
  intro counts hc
  refine ensures_weaken _ _ _ (ensures_mapM2 _
    (fun b o => UnitPool ((counts[2 * b]?).getD 0 + (counts[2 * b + 1]?).getD 0) o) (List.range P.nb) ?_) ?_
  · intro b _
    refine ensures_bind _ _ (fun _ => True) _ (ensures_any _) ?_
    intro own _
    refine ensures_bind _ _ (fun _ => True) _ (ensures_any _) ?_
    intro other _
    refine ensures_weaken _ _ _ (repeatM_spec _ _ (fun x => x.weight = 1) ?_) (fun o ho => ⟨by rw [ho.1]; omega, ho.2⟩)
    intro i
    refine ensures_bind _ _ (fun _ => True) _ (ensures_any _) ?_
    intro bc _
    refine ensures_bind _ _ (fun _ => True) _ (ensures_any _) ?_
    intro oc _
    refine ensures_pure _ _ ?_
    split <;> rfl
  · intro out ho
    have := pools_flatten _ _ out ho
    rw [pair_sum P.nb counts (by rw [hc.1, crossProps_length]), hc.2] at this
    exact this

theorem expectTypes_spec (pool : Option (List (List Nat × Rat))) (k : Nat) (what : String) :
    Ensures (expectTypes pool k what) (fun res => res.length = k) := by
  unfold expectTypes
  refine ensures_bind _ _ (fun _ => True) _ (ensures_next what) ?_
  intro c _
  cases c with
  | choices pop w k' res =>
    cases w with
    | none => exact ensures_bad _ _
    | some w =>
      simp only
      refine ensures_ite _ _ _ _ (fun _ => ensures_bad _ _) (fun h => ?_)
      simp only [Bool.or_eq_true, decide_eq_true_eq, not_or, Decidable.not_not] at h
      cases pool with
      | none => exact ensures_pure _ _ h.2
      | some pl =>
        simp only
        refine ensures_ite _ _ _ _ (fun _ => ensures_bad _ _) (fun _ => ?_)
        refine ensures_ite _ _ _ _ (fun _ => ensures_pure _ _ h.2) (fun _ => ensures_bad _ _)
  | _ => exact ensures_bad _ _

/-- CambridgeSampler -/
theorem C14_runCambridge (P : Params) :
    Ensures (runCambridge P) (fun bb => bb.flatten.length = P.N ∧ ∀ b ∈ bb.flatten, b.weight = 1) := by
  unfold runCambridge
  refine ensures_bind _ _ _ _ (expectApportion_spec (crossProps P) P.N) ?_
  intro counts hc
  refine ensures_weaken _ _ _ (ensures_mapM2 _
    (fun b o => UnitPool ((counts[2 * b]?).getD 0 + (counts[2 * b + 1]?).getD 0) o) (List.range P.nb) ?_) ?_
  · intro b _
    refine ensures_bind _ _ (fun _ => True) _ (ensures_any _) ?_
    intro ownIv _
    refine ensures_bind _ _ (fun _ => True) _ (ensures_any _) ?_
    intro oppIv _
    refine ensures_bind _ _ (fun _ => True) _ (ensures_any _) ?_
    intro comb _
    refine ensures_bind _ _ _ _ (expectTypes_spec _ ((counts[2 * b]?).getD 0) _) ?_
    intro t1 h1
    refine ensures_bind _ _ _ _ (expectTypes_spec _ ((counts[2 * b + 1]?).getD 0) _) ?_
    intro t2 h2
    refine ensures_weaken _ _ _ (ensures_mapM _ (fun x => x.weight = 1) (t1 ++ t2) ?_)
      (fun o ho => ⟨by rw [ho.1, List.length_append, h1, h2], ho.2⟩)
    intro ty _
    refine ensures_bind _ _ (fun _ => True) _ (ensures_any _) ?_
    intro pl _
    exact ensures_pure _ _ rfl
  · intro out ho
    have := pools_flatten _ _ out ho
    rw [pair_sum P.nb counts (by rw [hc.1, crossProps_length]), hc.2] at this
    exact this

/-- **Every bloc generator, end to end.** For each of the ten bloc-based generator kinds of the model:
whatever log of primitive calls `Gen.run` accepts, the profile it returns has total weight exactly `N`,
positive whole-number weights, and its total is the sum of the per-bloc profiles' totals. -/
theorem C14_run_all_bloc_kinds (P : Params) (log : List Call) (out : GenOut)
    (hk : P.kind ∈ ["pl", "short_pl", "cumulative", "bt", "bt_mcmc", "ac", "cambridge", "slate_pl", "slate_bt", "slate_bt_mcmc"])
    (hnb : P.nb = P.props.length) (h : run P log = .ok out) :
    totalWeight out.agg = P.N ∧ (∀ b ∈ out.agg, ∃ n : Nat, 0 < n ∧ b.weight = (n : Rat)) ∧
      totalWeight out.agg = rsum (out.byBloc.map totalWeight) := by
  simp only [List.mem_cons, List.not_mem_nil, or_false] at hk
  rcases hk with hk | hk | hk | hk | hk | hk | hk | hk | hk | hk
  · exact C14_run_pl P log out (Or.inl hk) hnb h
  · exact C14_run_pl P log out (Or.inr hk) hnb h
  · exact C14_run_cumulative P log out hk hnb h
  · refine run_of_wrap P log out (runBT P) _ ?_ (wrapBlocs_total P.N _ (C14_runBT P hnb)) h
    unfold run wrapBlocs
    simp only [hk]
    simp [List.contains, List.elem]
    rfl
  · refine run_of_wrap P log out (runBTmcmc P) _ ?_ (wrapBlocs_total P.N _ (C14_runBTmcmc P hnb)) h
    unfold run wrapBlocs
    simp only [hk]
    simp [List.contains, List.elem]
    rfl
  · refine run_of_wrap P log out (runAC P) _ ?_ (wrapBlocs_total P.N _ (C14_runAC P)) h
    unfold run wrapBlocs
    simp only [hk]
    simp [List.contains, List.elem]
    rfl
  · refine run_of_wrap P log out (runCambridge P) _ ?_ (wrapBlocs_total P.N _ (C14_runCambridge P)) h
    unfold run wrapBlocs
    simp only [hk]
    simp [List.contains, List.elem]
    rfl
  · refine run_of_wrap P log out (runSlatePL P) _ ?_ (wrapBlocs_total P.N _ (C14_runSlatePL P hnb)) h
    unfold run wrapBlocs
    simp only [hk]
    simp [List.contains, List.elem]
    rfl
  · refine run_of_wrap P log out (runSlateBT P false) _ ?_ (wrapBlocs_total P.N _ (C14_runSlateBT P false hnb)) h
    unfold run wrapBlocs
    simp only [hk]
    simp [List.contains, List.elem]
    rfl
  · refine run_of_wrap P log out (runSlateBT P true) _ ?_ (wrapBlocs_total P.N _ (C14_runSlateBT P true hnb)) h
    unfold run wrapBlocs
    simp only [hk]
    simp [List.contains, List.elem]
    rfl

/-- BallotSimplex kinds (point, ImpartialCulture, ImpartialAnonymousCulture): `N` unit ballots -/
theorem C14_runSimplex (P : Params) : Ensures (runSimplex P) (UnitPool P.N) := by
  unfold runSimplex
  simp only
  have tail : ∀ probs : List Rat, Ensures (do
      let idx ← expectChoiceIdx (permsLex P.cands.length P.cands).length (some probs) P.N "ranking draw"
      idx.mapM (fun i => match (permsLex P.cands.length P.cands)[i]? with
        | some r => pure (plBallot r [])
        | none => bad "index") : GenM (List Ballot)) (UnitPool P.N) := by
    intro probs
    refine ensures_bind _ _ _ _ (expectChoiceIdx_spec _ _ P.N _) ?_
    intro idx hidx
    refine ensures_weaken _ _ _ (ensures_mapM _ (fun b => b.weight = 1) idx ?_) (fun o ho => ⟨by rw [ho.1, hidx], ho.2⟩)
    intro i _
    split
    · exact ensures_pure _ _ rfl
    · exact ensures_bad _ _
  refine ensures_ite _ _ _ _ (fun _ => ?_) (fun _ => ?_)
  · exact ensures_bind _ _ (fun _ => True) _ (ensures_any _) (fun probs _ => tail probs)
  · refine ensures_ite _ _ _ _ (fun _ => ?_) (fun _ => ?_)
    · exact ensures_bind _ _ (fun _ => True) _ (ensures_any _) (fun probs _ => tail probs)
    · refine ensures_ite _ _ _ _ (fun _ => ?_) (fun _ => ?_)
      · exact ensures_bind _ _ (fun _ => False) _ (ensures_bad _ _) (fun _ hf => hf.elim)
      · exact ensures_bind _ _ (fun _ => True) _ (ensures_any _) (fun probs _ => tail probs)

/-- the profile `Gen.run` returns for the simplex kinds has total weight `N` and whole positive weights -/
theorem C14_run_simplex (P : Params) (log : List Call) (out : GenOut) (hk : P.kind ∈ ["point", "ic", "iac"])
    (h : run P log = .ok out) :
    totalWeight out.agg = P.N ∧ ∀ b ∈ out.agg, ∃ n : Nat, 0 < n ∧ b.weight = (n : Rat) := by
  have key : Ensures (do
      let bs ← runSimplex P
      let o : GenOut := { byBloc := [], agg := condense bs }
      match (← get) with
      | [] => pure o
      | c :: _ => bad s!"unexpected extra call {c.name}" : GenM GenOut)
      (fun out => totalWeight out.agg = P.N ∧ ∀ b ∈ out.agg, ∃ n : Nat, 0 < n ∧ b.weight = (n : Rat)) := by
    refine ensures_bind _ _ _ _ (C14_runSimplex P) ?_
    intro bs hbs
    refine ensures_get_tail _ _ ⟨?_, C14_pool_weights_pos_int _ hbs.2⟩
    simp only
    rw [C14_pool_total _ hbs.2, hbs.1]
  simp only [List.mem_cons, List.not_mem_nil, or_false] at hk
  unfold run at h
  rcases hk with hk | hk | hk <;>
  · simp only [hk] at h
    split at h
    · rename_i o s' hr
      injection h with h
      subst h
      refine key log o s' ?_
      rw [← hr]
      simp [List.contains, List.elem]
      rfl
    · cases h

end Gen
end VK
