/-
  VK.Props.C08Neutral — C08, neutrality of the STV family: renaming the candidates by an injective map renames
  every round's elected / eliminated / remaining groups, tiebreak records and tallies by the same map and changes
  nothing else (threshold, round numbers, weights, exceptions), for every configuration and every oracle value.
-/
import VK.Lemmas.RenameSTV
import VK.Model.Rules
namespace VK

def renTrace (π : Cand → Cand) (tr : List (RoundState × CState)) : List (RoundState × CState) :=
  tr.map (fun x => (renRS π x.1, renCS π x.2))

def renResult (π : Cand → Cand) (res : STVResult) : STVResult :=
  { threshold := res.threshold, trace := renTrace π res.trace }

theorem stvLoop_ren (π : Cand → Cand) (hπ : Function.Injective π) (cfg : STVCfg) (init : Profile) (q : Int)
    (ω ω' : STVOracle) (hω : RenOracle π ω ω') (fuel : Nat) (S : CState) (prev : RoundState)
    (acc : List (RoundState × CState)) :
    stvLoop cfg (renP π init) q ω' fuel (renCS π S) (renRS π prev) (renTrace π acc) =
      (stvLoop cfg init q ω fuel S prev acc).map (renTrace π) := by
  induction fuel generalizing S prev acc with
  | zero =>
    simp only [stvLoop]
    have : (renCS π S).nElected = S.nElected := rfl
    rw [this]
    split
    · simp [renTrace]
    · rfl
  | succ n ih =>
    simp only [stvLoop]
    have hn : (renCS π S).nElected = S.nElected := rfl
    have hr : (renRS π prev).round = prev.round := rfl
    rw [hn, hr]
    split
    · simp [renTrace]
    · rw [stvStep_ren π hπ cfg init q ω ω' hω]
      cases stvStep cfg init q ω (prev.round + 1) S prev with
      | ok x =>
        obtain ⟨S', r⟩ := x
        simp only [Outcome.map_ok, Outcome.bind_ok, renStep]
        exact ih S' r ((r, S') :: acc)
      | raised e => rfl
      | oracleMismatch => rfl
      | outOfFuel => rfl

theorem stvValidProfile_ren (π : Cand → Cand) (p : Profile) : stvValidProfile (renP π p) = stvValidProfile p := by
  unfold stvValidProfile renP
  simp only [List.all_map]
  congr 1; funext b
  simp [renB, renR, List.all_map, Function.comp_def]

theorem total_ren (π : Cand → Cand) (p : Profile) : (renP π p).total = p.total := by
  unfold Profile.total totalWeight renP
  simp only [List.map_map]; rfl

theorem stvInitState_ren (π : Cand → Cand) (p : Profile) : stvInitState (renP π p) = renCS π (stvInitState p) := by
  unfold stvInitState renCS renP
  simp only [List.map_map]
  congr 1
  apply List.map_congr_left; intro b _
  simp only [Function.comp_def, renPB, renB, flatten_renR]

theorem initialState_ren (π : Cand → Cand) (cands : List Cand) (sc : List (Cand × Rat)) :
    initialState (cands.map π) (some (renSc π sc)) = renRS π (initialState cands (some sc)) := by
  simp only [initialState, renRS, scoreToRanking_ren, renR, List.map_nil]

/-- **C08 (neutrality, STV family).** For every configuration (quota, transfer rule, simultaneous or one by one,
tiebreak), every profile and every oracle value: running the count on the renamed profile with the renamed oracle
gives exactly the renamed run - same threshold, same number of rounds, each round's groups, tiebreak records and
tallies renamed, the profile held after each round renamed - or the same exception. -/
theorem C08_stv_neutral (π : Cand → Cand) (hπ : Function.Injective π) (cfg : STVCfg) (p : Profile)
    (ω ω' : STVOracle) (hω : RenOracle π ω ω') (quotaOk : Bool) :
    stvRun cfg (renP π p) ω' quotaOk = (stvRun cfg p ω quotaOk).map (renResult π) := by
  unfold stvRun
  rw [stvValidProfile_ren, total_ren]
  have hl : (renP π p).cands.length = p.cands.length := by simp [renP]
  rw [hl]
  split
  · rfl
  · split
    · rfl
    · split
      · rfl
      · rw [firstPlaceVotes_ren π hπ]
        cases firstPlaceVotes p with
        | ok sc0 =>
          simp only [Outcome.map_ok, Outcome.bind_ok]
          have hc : (renP π p).cands = p.cands.map π := rfl
          rw [hc, stvInitState_ren, initialState_ren]
          have hacc : [(renRS π (initialState p.cands (some sc0)), renCS π (stvInitState p))] =
              renTrace π [(initialState p.cands (some sc0), stvInitState p)] := rfl
          rw [hacc, stvLoop_ren π hπ cfg p _ ω ω' hω]
          cases stvLoop cfg p (threshold cfg.quota cfg.m p.total) ω (p.cands.length + 2) (stvInitState p)
              (initialState p.cands (some sc0)) [(initialState p.cands (some sc0), stvInitState p)] with
          | ok tr => rfl
          | raised e => rfl
          | oracleMismatch => rfl
          | outOfFuel => rfl
        | raised e => rfl
        | oracleMismatch => rfl
        | outOfFuel => rfl

/-- the recorded states of the renamed run are the renamed states -/
theorem C08_stv_neutral_states (π : Cand → Cand) (hπ : Function.Injective π) (cfg : STVCfg) (p : Profile)
    (ω ω' : STVOracle) (hω : RenOracle π ω ω') (res : STVResult) (h : stvRun cfg p ω = .ok res) :
    ∃ res', stvRun cfg (renP π p) ω' = .ok res' ∧ res'.states = res.states.map (renRS π) ∧
      res'.threshold = res.threshold ∧ res'.profiles = res.profiles.map (renP π) := by
  refine ⟨renResult π res, ?_, ?_, rfl, ?_⟩
  · rw [C08_stv_neutral π hπ cfg p ω ω' hω, h]; rfl
  · simp [STVResult.states, renResult, renTrace, List.map_map, Function.comp_def]
  · simp only [STVResult.profiles, renResult, renTrace, List.map_map, Function.comp_def]
    apply List.map_congr_left; intro x _
    exact currentProfile_ren π hπ x.2

theorem C08_irv_neutral (π : Cand → Cand) (hπ : Function.Injective π) (p : Profile) (quota : Quota) (tb : Option TB)
    (ω ω' : STVOracle) (hω : RenOracle π ω ω') (quotaOk : Bool) :
    irvRun (renP π p) quota tb ω' quotaOk = (irvRun p quota tb ω quotaOk).map (renResult π) :=
  C08_stv_neutral π hπ _ p ω ω' hω quotaOk

theorem C08_seqrcv_neutral (π : Cand → Cand) (hπ : Function.Injective π) (cfg : STVCfg) (p : Profile)
    (ω ω' : STVOracle) (hω : RenOracle π ω ω') (quotaOk : Bool) :
    seqRCVRun cfg (renP π p) ω' quotaOk = (seqRCVRun cfg p ω quotaOk).map (renResult π) :=
  C08_stv_neutral π hπ _ p ω ω' hω quotaOk

/-- every oracle has a renamed oracle when the renaming has a left inverse (any permutation of the indices has) -/
theorem renOracle_exists (π σ : Cand → Cand) (hσ : ∀ c, σ (π c) = c) (ω : STVOracle) :
    RenOracle π ω { pri := fun r => (ω.pri r).map π, sample := fun r c => renNeed π (ω.sample r (σ c)) } :=
  ⟨fun _ => rfl, fun r c => by simp only [hσ]⟩

end VK

namespace VK
/-- non-vacuity: a renaming that is not monotone (0 ↔ 2), a three-candidate count that finishes with a transfer and
an elimination, and the instance of the theorem for it -/
def swap02 (c : Cand) : Cand := if c = 0 then 2 else if c = 2 then 0 else c

theorem swap02_invol (c : Nat) : swap02 (swap02 c) = c := by
  show (if (if c = 0 then 2 else if c = 2 then 0 else c) = 0 then 2
        else if (if c = 0 then 2 else if c = 2 then 0 else c) = 2 then 0
        else (if c = 0 then 2 else if c = 2 then 0 else c)) = c
  split_ifs <;> first | omega | simp_all

theorem swap02_inj : Function.Injective swap02 := fun a b h => by
  have := congrArg swap02 h
  rwa [swap02_invol, swap02_invol] at this

def neutralDemo : Profile :=
  { ballots := [⟨[[0], [1]], 4, []⟩, ⟨[[1], [2]], 3, []⟩, ⟨[[2], [1]], 2, []⟩], cands := [0, 1, 2] }

example : (stvRun { m := 1 } neutralDemo {}).isOk = true := by decide +kernel
example : ((stvRun { m := 1 } neutralDemo {}).map (fun r => r.states.length)) = .ok 3 := by decide +kernel
example : stvRun { m := 1 } (renP swap02 neutralDemo) {} = (stvRun { m := 1 } neutralDemo {}).map (renResult swap02) :=
  C08_stv_neutral swap02 swap02_inj _ _ {} {} ⟨fun _ => rfl, fun _ _ => rfl⟩ true
end VK
