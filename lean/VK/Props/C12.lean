/-
  Property C12 — ballot-editing utilities preserve order and lose no votes except exhausted ones.
-/
import VK.Model.Clean
import VK.Lemmas.Condense
import Mathlib.Tactic.FieldSimp

namespace VK

theorem filter_positions_flatten (p : Cand → Bool) (r : Ranking) :
    ((r.map (fun s => s.filter p)).filter (fun s => !s.isEmpty)).flatten = r.flatten.filter p := by
  induction r with
  | nil => simp
  | cons s rest ih =>
    simp only [List.map_cons, List.flatten_cons, List.filter_append]
    by_cases h : (s.filter p).isEmpty = true
    · have h' : s.filter p = [] := by simpa using h
      rw [List.filter_cons]
      simp only [h, Bool.not_true, Bool.false_eq_true, if_false]
      rw [ih, h', List.nil_append]
    · rw [List.filter_cons]
      simp only [h, Bool.not_false, if_true, List.flatten_cons]
      rw [ih]

/-- scrubbing filters every position in place: the surviving candidates keep order and grouping -/
theorem C12_order (removed : List Cand) (r : Ranking) :
    (scrubRanking removed r).flatten = r.flatten.filter (fun c => !removed.contains c) :=
  filter_positions_flatten _ r

/-- every position of the result is a non-empty sub-position of an input position -/
theorem scrubRanking_positions (removed : List Cand) (r : Ranking) :
    ∀ s ∈ scrubRanking removed r, s ≠ [] ∧ ∃ s0 ∈ r, s = s0.filter (fun c => !removed.contains c) := by
  intro s hs
  unfold scrubRanking at hs
  simp only [List.mem_filter, List.mem_map] at hs
  obtain ⟨⟨s0, hs0, rfl⟩, hne⟩ := hs
  exact ⟨by simpa using hne, s0, hs0, rfl⟩

/-- **No removed candidate appears** in any ranking or score dictionary of the result. -/
theorem C12_removed_absent (removed : List Cand) (bs : List Ballot) (lz : Bool) :
    ∀ b ∈ scrubBallots removed bs lz, ∀ c ∈ removed,
      c ∉ b.ranking.flatten ∧ c ∉ b.scores.map (·.1) := by
  intro b hb c hc
  have hb' : b ∈ bs.map (scrubBallot removed) := by
    unfold scrubBallots at hb
    split at hb
    · exact hb
    · exact (List.mem_filter.1 hb).1
  obtain ⟨b0, _, rfl⟩ := List.mem_map.1 hb'
  unfold scrubBallot
  simp only []
  split
  · simp
  · constructor
    · simp only [C12_order, List.mem_filter, not_and]
      intro _; simp [hc]
    · simp only [scrubScores, List.mem_map, List.mem_filter, not_exists, not_and]
      rintro x ⟨_, hx⟩ rfl
      simp [hc] at hx

/-- content a ballot maps to under `remove_cand` (`none` = exhausted) -/
def scrubContent (removed : List Cand) (b : Ballot) : Option Content :=
  let r := scrubRanking removed b.ranking
  let s := scrubScores removed b.scores
  if r.isEmpty && s.isEmpty then none else some (r, s)

theorem wt_scrub_aux (removed : List Cand) (bs : List Ballot) (k : Content)
    (hpos : ∀ b ∈ bs, 0 < b.weight) :
    wt ((bs.map (scrubBallot removed)).filter (fun b => decide (0 < b.weight))) k =
      rsum ((bs.filter (fun b => scrubContent removed b = some k)).map (·.weight)) := by
  induction bs with
  | nil => simp [wt]
  | cons b bs ih =>
    have hb : 0 < b.weight := hpos b (by simp)
    have ih' := ih (fun x hx => hpos x (by simp [hx]))
    unfold wt at ih' ⊢
    by_cases he : (scrubRanking removed b.ranking).isEmpty && (scrubScores removed b.scores).isEmpty
    · have hsc : scrubContent removed b = none := by simp [scrubContent, he]
      have hsb : scrubBallot removed b = { ranking := [], scores := [], weight := 0 } := by
        simp [scrubBallot, he]
      simp only [List.map_cons, List.filter_cons, hsb, hsc]
      simpa using ih'
    · have hsc : scrubContent removed b = some (scrubRanking removed b.ranking, scrubScores removed b.scores) := by
        simp [scrubContent, he]
      have hsb : scrubBallot removed b =
          { ranking := scrubRanking removed b.ranking, scores := scrubScores removed b.scores, weight := b.weight } := by
        simp [scrubBallot, he]
      simp only [List.map_cons, List.filter_cons, hsb, hsc, hb, decide_true, if_true, Ballot.content]
      by_cases hkk : (scrubRanking removed b.ranking, scrubScores removed b.scores) = k
      · simp only [hkk, decide_true, if_true, List.map_cons, rsum_cons]
        rw [← ih']
        simp [Ballot.content]
      · have : ¬ (some (scrubRanking removed b.ranking, scrubScores removed b.scores) = some k) := by
          intro e; exact hkk (Option.some.inj e)
        simp only [hkk, this, decide_false]
        simpa [Ballot.content] using ih'

/-- **Weight per resulting content.** With positive input weights, every non-empty content `k` of
the result of `remove_cand` (condensed or not; an exhausted ballot maps to no content) carries exactly the summed weight of the input
ballots that map to it. -/
theorem C12_weight (removed : List Cand) (bs : List Ballot) (cond : Bool) (k : Content)
    (hpos : ∀ b ∈ bs, 0 < b.weight) :
    wt (removeCandBallots removed bs cond false) k =
      rsum ((bs.filter (fun b => scrubContent removed b = some k)).map (·.weight)) := by
  unfold removeCandBallots scrubBallots
  cases cond
  · simpa using wt_scrub_aux removed bs k hpos
  · simp only [if_true]
    rw [wt_condense]
    simpa using wt_scrub_aux removed bs k hpos

theorem total_scrub_aux (removed : List Cand) (bs : List Ballot) (hpos : ∀ b ∈ bs, 0 < b.weight) :
    totalWeight ((bs.map (scrubBallot removed)).filter (fun b => decide (0 < b.weight))) =
      totalWeight bs - rsum ((bs.filter (fun b => scrubContent removed b = none)).map (·.weight)) := by
  induction bs with
  | nil => simp [totalWeight]
  | cons b bs ih =>
    have hb : 0 < b.weight := hpos b (by simp)
    have ih' := ih (fun x hx => hpos x (by simp [hx]))
    unfold totalWeight at ih' ⊢
    by_cases he : (scrubRanking removed b.ranking).isEmpty && (scrubScores removed b.scores).isEmpty
    · have hsc : scrubContent removed b = none := by simp [scrubContent, he]
      have hsb : scrubBallot removed b = { ranking := [], scores := [], weight := 0 } := by
        simp [scrubBallot, he]
      simp only [List.map_cons, List.filter_cons, hsb, hsc, decide_true, if_true, rsum_cons]
      simp only [lt_self_iff_false, decide_false]
      simp only [Bool.false_eq_true, if_false]
      rw [ih']; ring
    · have hsc : ¬ (scrubContent removed b = none) := by simp [scrubContent, he]
      have hsb : scrubBallot removed b =
          { ranking := scrubRanking removed b.ranking, scores := scrubScores removed b.scores, weight := b.weight } := by
        simp [scrubBallot, he]
      simp only [List.map_cons, List.filter_cons, hsb, hsc, hb, decide_true, decide_false, if_true,
        rsum_cons]
      simp only [Bool.false_eq_true, if_false]
      rw [ih']; ring

/-- **Weight disappears only with ballots that end up empty.** -/
theorem C12_lost_only_empty (removed : List Cand) (bs : List Ballot) (cond : Bool)
    (hpos : ∀ b ∈ bs, 0 < b.weight) :
    totalWeight (removeCandBallots removed bs cond false) =
      totalWeight bs - rsum ((bs.filter (fun b => scrubContent removed b = none)).map (·.weight)) := by
  unfold removeCandBallots scrubBallots
  cases cond
  · simpa using total_scrub_aux removed bs hpos
  · simp only [if_true]
    rw [totalWeight_condense]
    simpa using total_scrub_aux removed bs hpos

/-- **add_missing_cands**: the ballot keeps its ranking and weight and gains exactly one last
position holding the declared candidates it does not list (nothing when it lists them all). -/
theorem C12_add_missing (cands : List Cand) (b : Ballot) :
    (addMissingBallot cands b).weight = b.weight ∧
    ((∀ c ∈ cands, c ∈ b.ranking.flatten) → (addMissingBallot cands b).ranking = b.ranking) ∧
    ((∃ c ∈ cands, c ∉ b.ranking.flatten) →
      (addMissingBallot cands b).ranking = b.ranking ++ [cands.filter (fun c => !b.ranking.flatten.contains c)]) := by
  unfold addMissingBallot missingCands
  refine ⟨rfl, ?_, ?_⟩
  · intro h
    have : cands.filter (fun c => !b.ranking.flatten.contains c) = [] := by
      rw [List.filter_eq_nil_iff]; intro c hc; simp [h c hc]
    simp only [this, List.isEmpty_nil, if_true]
  · rintro ⟨c, hc, hnot⟩
    have : (cands.filter (fun c => !b.ranking.flatten.contains c)).isEmpty = false := by
      rw [List.isEmpty_eq_false_iff]
      intro e
      have := (List.filter_eq_nil_iff.1 e) c hc
      simp [hnot] at this
    simp only [this, Bool.false_eq_true, if_false]

theorem insertEverywhere_length (x : Cand) (l : List Cand) :
    (insertEverywhere x l).length = l.length + 1 := by
  induction l with
  | nil => rfl
  | cons y ys ih => simp [insertEverywhere, ih]

theorem perms_length (l : List Cand) : (perms l).length = fact l.length := by
  induction l with
  | nil => rfl
  | cons x xs ih =>
    have : ∀ (L : List (List Cand)), (∀ o ∈ L, o.length = xs.length) →
        (L.flatMap (insertEverywhere x)).length = (xs.length + 1) * L.length := by
      intro L hL
      induction L with
      | nil => simp
      | cons o os iho =>
        simp only [List.flatMap_cons, List.length_append, insertEverywhere_length, List.length_cons]
        rw [iho (fun o' ho' => hL o' (by simp [ho'])), hL o (by simp)]
        ring
    have hlen : ∀ o ∈ perms xs, o.length = xs.length := by
      clear this ih
      induction xs with
      | nil => intro o ho; simp [perms] at ho; simp [ho]
      | cons y ys ihy =>
        intro o ho
        simp only [perms, List.mem_flatMap] at ho
        obtain ⟨o', ho', hin⟩ := ho
        have h1 := ihy o' ho'
        have : ∀ (z : Cand) (l o : List Cand), o ∈ insertEverywhere z l → o.length = l.length + 1 := by
          intro z l
          induction l with
          | nil => intro o ho; simp [insertEverywhere] at ho; simp [ho]
          | cons a as iha =>
            intro o ho
            simp only [insertEverywhere, List.mem_cons, List.mem_map] at ho
            rcases ho with rfl | ⟨o2, ho2, rfl⟩
            · simp
            · simp [iha o2 ho2]
        rw [this y o' o hin, h1]; simp
    simp only [perms, List.length_cons, fact]
    rw [this _ hlen, ih]

/-- the number of linear orders of a ranking is the product of the factorials of its tie sizes -/
theorem C12_expand_count (r : Ranking) : (linearise r).length = tieDivisor r := by
  have key : ∀ (r : Ranking) (acc : Nat),
      (r.map (fun s => fact s.length)).foldl (· * ·) acc = acc * (linearise r).length := by
    intro r
    induction r with
    | nil => intro acc; simp [linearise]
    | cons s rest ih =>
      intro acc
      have hl : (linearise (s :: rest)).length = fact s.length * (linearise rest).length := by
        simp only [linearise]
        have : ∀ (L : List (List Cand)),
            (L.flatMap (fun o => (linearise rest).map (o ++ ·))).length = L.length * (linearise rest).length := by
          intro L
          induction L with
          | nil => simp
          | cons o os iho => simp [iho]; ring
        rw [this, perms_length]
      simp only [List.map_cons, List.foldl_cons]
      rw [ih, hl]; ring
  unfold tieDivisor
  rw [key r 1]; simp

/-! ### "every linear order consistent with the ballot, each exactly once" -/

theorem mem_insertEverywhere (x : Cand) (l o : List Cand) :
    o ∈ insertEverywhere x l ↔ ∃ a b, l = a ++ b ∧ o = a ++ x :: b := by
  induction l generalizing o with
  | nil =>
    simp only [insertEverywhere, List.mem_singleton]
    constructor
    · intro h; exact ⟨[], [], rfl, by simp [h]⟩
    · rintro ⟨a, b, hab, ho⟩
      have : a = [] ∧ b = [] := by simpa using hab.symm
      rw [ho, this.1, this.2]; rfl
  | cons y ys ih =>
    simp only [insertEverywhere, List.mem_cons, List.mem_map]
    constructor
    · rintro (h | ⟨o', ho', rfl⟩)
      · exact ⟨[], y :: ys, rfl, by simp [h]⟩
      · obtain ⟨a, b, hab, rfl⟩ := (ih o').1 ho'
        exact ⟨y :: a, b, by simp [hab], by simp⟩
    · rintro ⟨a, b, hab, ho⟩
      cases a with
      | nil =>
        left
        simp only [List.nil_append] at hab ho
        rw [ho, ← hab]
      | cons a0 as =>
        right
        simp only [List.cons_append, List.cons.injEq] at hab
        refine ⟨as ++ x :: b, (ih _).2 ⟨as, b, hab.2, rfl⟩, ?_⟩
        rw [ho, hab.1]; simp

/-- **Completeness and soundness of the enumeration**: the listed orders are exactly the
rearrangements of the tied group -/
theorem mem_perms_iff (l o : List Cand) : o ∈ perms l ↔ o.Perm l := by
  induction l generalizing o with
  | nil => simp [perms]
  | cons x xs ih =>
    simp only [perms, List.mem_flatMap]
    constructor
    · rintro ⟨p, hp, ho⟩
      obtain ⟨a, b, hab, rfl⟩ := (mem_insertEverywhere x p o).1 ho
      have hpx := (ih p).1 hp
      rw [hab] at hpx
      exact (List.perm_middle).trans (List.Perm.cons x hpx)
    · intro ho
      have hx : x ∈ o := ho.mem_iff.2 (by simp)
      obtain ⟨a, b, rfl⟩ := List.append_of_mem hx
      have : (a ++ b).Perm xs := by
        have h1 : (x :: (a ++ b)).Perm (x :: xs) := (List.perm_middle.symm).trans ho
        exact List.Perm.cons_inv h1
      exact ⟨a ++ b, (ih _).2 this, (mem_insertEverywhere x _ _).2 ⟨a, b, rfl, rfl⟩⟩

theorem insertEverywhere_nodup (x : Cand) (l : List Cand) (hx : x ∉ l) : (insertEverywhere x l).Nodup := by
  induction l with
  | nil => simp [insertEverywhere]
  | cons y ys ih =>
    have hxy : x ≠ y := fun e => hx (by simp [e])
    have hxys : x ∉ ys := fun e => hx (by simp [e])
    simp only [insertEverywhere, List.nodup_cons, List.mem_map, not_exists, not_and]
    refine ⟨?_, ?_⟩
    · intro o _ heq
      have := List.head_eq_of_cons_eq heq
      exact hxy this.symm
    · exact (ih hxys).map (fun a b hab => List.tail_eq_of_cons_eq hab)

theorem erase_of_mem_insertEverywhere (x : Cand) (l o : List Cand) (hx : x ∉ l) (ho : o ∈ insertEverywhere x l) :
    o.erase x = l := by
  obtain ⟨a, b, rfl, rfl⟩ := (mem_insertEverywhere x l o).1 ho
  have hxa : x ∉ a := fun e => hx (List.mem_append_left _ e)
  rw [List.erase_append_right _ hxa]
  simp

/-- **Each order exactly once** (for a duplicate-free tied group) -/
theorem perms_nodup (l : List Cand) (h : l.Nodup) : (perms l).Nodup := by
  induction l with
  | nil => simp [perms]
  | cons x xs ih =>
    rw [List.nodup_cons] at h
    have hps := ih h.2
    have hnot : ∀ p ∈ perms xs, x ∉ p := fun p hp hxp => h.1 (((mem_perms_iff xs p).1 hp).mem_iff.1 hxp)
    simp only [perms]
    rw [List.nodup_flatMap]
    refine ⟨fun p hp => insertEverywhere_nodup x p (hnot p hp), ?_⟩
    refine List.Pairwise.imp_of_mem ?_ hps
    intro p p' hp hp' hne
    intro o ho ho'
    exact hne ((erase_of_mem_insertEverywhere x p o (hnot p hp) ho).symm.trans
      (erase_of_mem_insertEverywhere x p' o (hnot p' hp') ho'))

/-- the linear orders consistent with a ranking: one rearrangement of every position, in order -/
theorem mem_linearise_iff (r : Ranking) (o : List Cand) :
    o ∈ linearise r ↔ ∃ parts : List (List Cand), o = parts.flatten ∧ List.Forall₂ (fun part s => part.Perm s) parts r := by
  induction r generalizing o with
  | nil =>
    simp only [linearise, List.mem_singleton]
    constructor
    · intro h; exact ⟨[], by simp [h], List.Forall₂.nil⟩
    · rintro ⟨parts, ho, hf⟩
      cases hf; simpa using ho
  | cons s rest ih =>
    simp only [linearise, List.mem_flatMap, List.mem_map]
    constructor
    · rintro ⟨o1, ho1, o2, ho2, rfl⟩
      obtain ⟨parts, rfl, hf⟩ := (ih o2).1 ho2
      exact ⟨o1 :: parts, by simp, List.Forall₂.cons ((mem_perms_iff s o1).1 ho1) hf⟩
    · rintro ⟨parts, ho, hf⟩
      cases hf with
      | cons h1 h2 =>
        rename_i p1 ps
        exact ⟨p1, (mem_perms_iff s p1).2 h1, ps.flatten, (ih _).2 ⟨ps, rfl, h2⟩, by simp [ho]⟩

/-- **Every consistent linear order exactly once**: for a ranking whose positions are duplicate-free
the expansion lists no order twice -/
theorem linearise_nodup (r : Ranking) (h : ∀ s ∈ r, s.Nodup) : (linearise r).Nodup := by
  induction r with
  | nil => simp [linearise]
  | cons s rest ih =>
    have hs := perms_nodup s (h s (by simp))
    have hrest := ih (fun t ht => h t (by simp [ht]))
    simp only [linearise]
    rw [List.nodup_flatMap]
    refine ⟨?_, ?_⟩
    · intro o1 _
      exact hrest.map (fun a b hab => List.append_cancel_left hab)
    · refine List.Pairwise.imp_of_mem ?_ hs
      intro o1 o1' ho1 ho1' hne
      intro o ho ho'
      obtain ⟨t, _, rfl⟩ := List.mem_map.1 ho
      obtain ⟨t', _, heq⟩ := List.mem_map.1 ho'
      -- both prefixes are rearrangements of `s`, so they have the same length and must coincide
      have hl : o1.length = o1'.length := by
        rw [((mem_perms_iff s o1).1 ho1).length_eq, ((mem_perms_iff s o1').1 ho1').length_eq]
      exact hne (List.append_inj_left heq.symm hl)

theorem fact_pos (n : Nat) : 0 < fact n := by
  induction n with
  | zero => simp [fact]
  | succ k ih => simp only [fact]; exact Nat.mul_pos (Nat.succ_pos k) ih

/-- **Expanding ties keeps the weight**: the expanded ballots have equal weight and add up to the
original ballot's weight. -/
theorem C12_expand_total (b : Ballot) (out : List Ballot) (h : expandTied b = .ok out) :
    totalWeight out = b.weight ∧ ∀ x ∈ out, x.weight = b.weight / (out.length : Rat) := by
  unfold expandTied at h
  split at h; · cases h
  split at h
  · injection h with h; subst h; simp [totalWeight]
  · injection h with h; subst h
    have hcount := C12_expand_count b.ranking
    have hpos : (0 : Rat) < (tieDivisor b.ranking : Rat) := by
      rw [← hcount]
      have : 0 < (linearise b.ranking).length := by
        rw [hcount]
        unfold tieDivisor
        have : ∀ (l : List Nat) (acc : Nat), 0 < acc → (∀ x ∈ l, 0 < x) → 0 < l.foldl (· * ·) acc := by
          intro l
          induction l with
          | nil => intro acc h _; simpa
          | cons x xs ih => intro acc h hx; exact ih _ (Nat.mul_pos h (hx x (by simp))) (fun y hy => hx y (by simp [hy]))
        apply this _ 1 (by decide)
        intro x hx
        obtain ⟨s, _, rfl⟩ := List.mem_map.1 hx
        exact fact_pos _
      exact_mod_cast this
    constructor
    · simp only [totalWeight, List.map_map, Function.comp_def]
      rw [show (fun (_ : List Cand) => b.weight / (tieDivisor b.ranking : Rat)) = fun _ => b.weight / (tieDivisor b.ranking : Rat) from rfl]
      have : rsum ((linearise b.ranking).map (fun _ => b.weight / (tieDivisor b.ranking : Rat))) =
          ((linearise b.ranking).length : Rat) * (b.weight / (tieDivisor b.ranking : Rat)) := by
        rw [List.map_const', rsum_replicate]
      rw [this, hcount]
      field_simp
    · intro x hx
      obtain ⟨o, _, rfl⟩ := List.mem_map.1 hx
      simp [hcount]

/-- non-vacuity: a ballot {A,B} > C of weight 3 expands to A>B>C and B>A>C with weight 3/2 each -/
example : expandTied { ranking := [[0, 1], [2]], weight := 3 } =
    .ok [{ ranking := [[0], [1], [2]], weight := 3 / 2 }, { ranking := [[1], [0], [2]], weight := 3 / 2 }] := by
  decide +kernel

end VK
