/-
  Property C08 — outcomes are neutral, anonymous and independent of representation.
  The model is name-free (candidates are indices into the declared tuple), so renaming candidates
  while keeping the declared order is *the same model input*; what needs proof is invariance under
  ballot permutation / merging / splitting and equivariance under a renaming of the indices.
  Hash-seed independence cannot be exhibited by a model; it is carried by the multi-interpreter replay.
-/
import VK.Lemmas.LinEq
import VK.Lemmas.Condense
import VK.Model.Pairwise
import Mathlib.Algebra.BigOperators.Group.List.Lemmas

namespace VK

/-- closed form of `score_profile_from_rankings` on valid input -/
theorem scoreFromRankings_eq (p : Profile) (v : List Rat) (hv : validVector v = true)
    (hr : ∀ b ∈ p.ballots, b.ranking ≠ []) :
    scoreFromRankings p v = .ok (p.cands.map (fun c => (c, rsum (p.ballots.map (fun b =>
      ballotPoints (padVector v p.cands.length) (addMissingBallot p.cands b).ranking c * b.weight))))) := by
  have hany : p.ballots.any (fun b => b.ranking.isEmpty) = false := by
    rw [List.any_eq_false]; intro b hb; simpa using hr b hb
  unfold scoreFromRankings addMissing
  simp only [hv, Bool.not_true, Bool.false_eq_true, if_false, hany, bind, Outcome.bind, pure]
  congr 1
  apply List.map_congr_left
  intro c _
  congr 1
  have := sum_condense (fun k => ballotPoints (padVector v p.cands.length) k.1 c)
    (p.ballots.map (addMissingBallot p.cands))
  simp only [Ballot.content, List.map_map, Function.comp_def] at this
  simpa [addMissingBallot] using this

/-- **Anonymity: reordering the ballots does not change any positional score.** -/
theorem C08_scores_perm_invariant (cands : List Cand) (bs bs' : List Ballot) (v : List Rat)
    (hperm : bs.Perm bs') (hv : validVector v = true) (hr : ∀ b ∈ bs, b.ranking ≠ []) :
    scoreFromRankings { ballots := bs, cands := cands } v = scoreFromRankings { ballots := bs', cands := cands } v := by
  have hr' : ∀ b ∈ bs', b.ranking ≠ [] := fun b hb => hr b (hperm.symm.subset hb)
  rw [scoreFromRankings_eq _ v hv hr, scoreFromRankings_eq _ v hv hr']
  congr 1
  apply List.map_congr_left
  intro c _
  congr 1
  simp only
  rw [rsum_eq_sum, rsum_eq_sum]
  exact (hperm.map _).sum_eq

/-- **Merging identical ballots (condensing) does not change any positional score.** -/
theorem C08_scores_condense_invariant (cands : List Cand) (bs : List Ballot) (v : List Rat)
    (hv : validVector v = true) (hr : ∀ b ∈ bs, b.ranking ≠ []) :
    scoreFromRankings { ballots := condense bs, cands := cands } v =
      scoreFromRankings { ballots := bs, cands := cands } v := by
  have hr' : ∀ b ∈ condense bs, b.ranking ≠ [] := by
    intro b hb
    have : b.content ∈ (condense bs).map Ballot.content := List.mem_map_of_mem hb
    rw [mem_condense_content] at this
    obtain ⟨b0, hb0, hc⟩ := this
    have : b.ranking = b0.ranking := by
      have := congrArg Prod.fst hc; simpa [Ballot.content] using this.symm
    rw [this]; exact hr b0 hb0
  rw [scoreFromRankings_eq _ v hv hr', scoreFromRankings_eq _ v hv hr]
  congr 1
  apply List.map_congr_left
  intro c _
  congr 1
  simp only
  have := sum_condense (fun k => ballotPoints (padVector v cands.length)
    (addMissingBallot cands { ranking := k.1, scores := k.2 }).ranking c) bs
  simpa [Ballot.content, addMissingBallot] using this

/-- **Splitting a ballot into identical ballots whose weights add up does not change any
positional score.** -/
theorem C08_scores_split_invariant (cands : List Cand) (b : Ballot) (w₁ w₂ : Rat) (rest : List Ballot)
    (v : List Rat) (hv : validVector v = true) (hw : w₁ + w₂ = b.weight)
    (hr : ∀ x ∈ b :: rest, x.ranking ≠ []) :
    scoreFromRankings { ballots := { b with weight := w₁ } :: { b with weight := w₂ } :: rest, cands := cands } v =
      scoreFromRankings { ballots := b :: rest, cands := cands } v := by
  have hr' : ∀ x ∈ ({ b with weight := w₁ } : Ballot) :: { b with weight := w₂ } :: rest, x.ranking ≠ [] := by
    intro x hx
    rcases List.mem_cons.1 hx with rfl | hx
    · exact hr b (by simp)
    · rcases List.mem_cons.1 hx with rfl | hx
      · exact hr b (by simp)
      · exact hr x (by simp [hx])
  rw [scoreFromRankings_eq _ v hv hr', scoreFromRankings_eq _ v hv hr]
  congr 1
  apply List.map_congr_left
  intro c _
  congr 1
  simp only [List.map_cons, rsum_cons, addMissingBallot]
  rw [← hw]; ring

/-! ### equivariance under renaming of candidate indices -/

theorem positionAlloc_map (π : Cand → Cand) (v : List Rat) (i : Nat) (r : Ranking) :
    positionAlloc v i (r.map (List.map π)) = (positionAlloc v i r).map (fun sa => (sa.1.map π, sa.2)) := by
  induction r generalizing i with
  | nil => rfl
  | cons s rest ih => simp [positionAlloc, ih]

/-- **Neutrality of the points a ballot hands out**: renaming the candidates by an injective map
renames the recipients and changes nothing else. -/
theorem C08_points_equivariant (π : Cand → Cand) (hπ : Function.Injective π) (v : List Rat) (r : Ranking)
    (c : Cand) : ballotPoints v (r.map (List.map π)) (π c) = ballotPoints v r c := by
  unfold ballotPoints
  rw [positionAlloc_map]
  rw [List.filter_map, List.map_map]
  congr 1
  have : (fun sa : List Cand × Rat => (sa.1.map π, sa.2).1.contains (π c)) = fun sa => sa.1.contains c := by
    funext sa
    rw [Bool.eq_iff_iff]
    simp only [List.contains_iff_mem, List.mem_map]
    constructor
    · rintro ⟨x, hx, hxc⟩; rw [← hπ hxc]; exact hx
    · intro h; exact ⟨c, h, rfl⟩
  simp only [Function.comp_def, this]

theorem posOf_map (π : Cand → Cand) (hπ : Function.Injective π) (r : List Cand) (c : Cand) :
    posOf (r.map π) (π c) = posOf r c := by
  simp only [posOf, List.length_map]
  have : List.findIdx (fun x => decide (x = π c)) (r.map π) = List.findIdx (fun x => decide (x = c)) r := by
    induction r with
    | nil => rfl
    | cons x xs ih =>
      simp only [List.map_cons, List.findIdx_cons]
      by_cases h : x = c
      · simp [h]
      · have : ¬ π x = π c := fun e => h (hπ e)
        simp [h, this, ih]
  rw [this]

theorem posOfR_map (π : Cand → Cand) (hπ : Function.Injective π) (r : Ranking) (c : Cand) :
    posOfR (r.map (List.map π)) (π c) = posOfR r c := by
  simp only [posOfR, List.length_map]
  have : List.findIdx (fun s => s.contains (π c)) (r.map (List.map π)) = List.findIdx (fun s => s.contains c) r := by
    induction r with
    | nil => rfl
    | cons s rest ih =>
      have hs : (s.map π).contains (π c) = s.contains c := by
        rw [Bool.eq_iff_iff]
        simp only [List.contains_iff_mem, List.mem_map]
        constructor
        · rintro ⟨x, hx, hxe⟩
          rw [← hπ hxe]; exact hx
        · intro hx; exact ⟨c, hx, rfl⟩
      simp only [List.map_cons, List.findIdx_cons, hs, ih]
  rw [this]

/-- **Head-to-head margins are equivariant under renaming** (tied positions included). -/
theorem C08_margin_equivariant (π : Cand → Cand) (hπ : Function.Injective π) (p : Profile) (a b : Cand) :
    margin { ballots := p.ballots.map (fun bl => { bl with ranking := bl.ranking.map (List.map π) }),
             cands := p.cands.map π } (π a) (π b) = margin p a b := by
  unfold margin h2h
  simp only [List.map_map, Function.comp_def]
  have key : ∀ (r : Ranking) (x y : Cand),
      prefShareR (r.map (List.map π)) (π x) (π y) = prefShareR r x y := by
    intro r x y
    unfold prefShareR
    rw [posOfR_map π hπ, posOfR_map π hπ]
  simp only [key]

/-- **Head-to-head margins do not depend on the order of the ballots.** -/
theorem C08_margin_perm_invariant (cands : List Cand) (bs bs' : List Ballot) (hperm : bs.Perm bs') (a b : Cand) :
    margin { ballots := bs, cands := cands } a b = margin { ballots := bs', cands := cands } a b := by
  unfold margin h2h
  simp only [rsum_eq_sum]
  rw [(hperm.map _).sum_eq, (hperm.map _).sum_eq]

/-! ### the STV family: ballot order, splitting and merging do not change any round -/

/-- loop outcomes that record the same rounds -/
def RelTrace : Outcome (List (RoundState × CState)) → Outcome (List (RoundState × CState)) → Prop
  | .ok a, .ok b => a.map (·.1) = b.map (·.1)
  | .raised e, .raised e' => e = e'
  | .oracleMismatch, .oracleMismatch => True
  | .outOfFuel, .outOfFuel => True
  | _, _ => False

theorem stvLoop_lineq (cfg : STVCfg) (init init' : Profile) (q : Int) (ω : STVOracle)
    (hnr : cfg.transfer ≠ .random) (hcfg : ProfileFreeChoice cfg)
    (hinit : firstPlaceVotes init = firstPlaceVotes init')
    (fuel : Nat) (S S2 : CState) (prev : RoundState) (acc acc2 : List (RoundState × CState))
    (hS : SameCount S S2) (hacc : acc.map (·.1) = acc2.map (·.1)) :
    RelTrace (stvLoop cfg init q ω fuel S prev acc) (stvLoop cfg init' q ω fuel S2 prev acc2) := by
  induction fuel generalizing S S2 prev acc acc2 with
  | zero =>
    unfold stvLoop
    rw [← hS.2.1]
    split
    · simp only [RelTrace, List.map_reverse, hacc]
    · simp [RelTrace]
  | succ fuel ih =>
    unfold stvLoop
    rw [← hS.2.1]
    split
    · simp only [RelTrace, List.map_reverse, hacc]
    · have hstep := stvStep_lineq cfg init init' q ω (prev.round + 1) S S2 prev hnr hcfg hinit hS
      cases h1 : stvStep cfg init q ω (prev.round + 1) S prev with
      | ok a =>
        cases h2 : stvStep cfg init' q ω (prev.round + 1) S2 prev with
        | ok b =>
          rw [h1, h2] at hstep
          obtain ⟨hr, hS'⟩ := hstep
          obtain ⟨S', r⟩ := a
          obtain ⟨S2', r2⟩ := b
          simp only at hr hS'
          subst hr
          simp only [bind, Outcome.bind]
          exact ih S' S2' r _ _ hS' (by simp [hacc])
        | raised e => rw [h1, h2] at hstep; exact absurd hstep (by simp [RelStep])
        | oracleMismatch => rw [h1, h2] at hstep; exact absurd hstep (by simp [RelStep])
        | outOfFuel => rw [h1, h2] at hstep; exact absurd hstep (by simp [RelStep])
      | raised e =>
        cases h2 : stvStep cfg init' q ω (prev.round + 1) S2 prev with
        | raised e' => rw [h1, h2] at hstep; simpa [bind, Outcome.bind, RelTrace, RelStep] using hstep
        | ok b => rw [h1, h2] at hstep; exact absurd hstep (by simp [RelStep])
        | oracleMismatch => rw [h1, h2] at hstep; exact absurd hstep (by simp [RelStep])
        | outOfFuel => rw [h1, h2] at hstep; exact absurd hstep (by simp [RelStep])
      | oracleMismatch =>
        cases h2 : stvStep cfg init' q ω (prev.round + 1) S2 prev with
        | oracleMismatch => simp [bind, Outcome.bind, RelTrace]
        | ok b => rw [h1, h2] at hstep; exact absurd hstep (by simp [RelStep])
        | raised e => rw [h1, h2] at hstep; exact absurd hstep (by simp [RelStep])
        | outOfFuel => rw [h1, h2] at hstep; exact absurd hstep (by simp [RelStep])
      | outOfFuel =>
        cases h2 : stvStep cfg init' q ω (prev.round + 1) S2 prev with
        | outOfFuel => simp [bind, Outcome.bind, RelTrace]
        | ok b => rw [h1, h2] at hstep; exact absurd hstep (by simp [RelStep])
        | raised e => rw [h1, h2] at hstep; exact absurd hstep (by simp [RelStep])
        | oracleMismatch => rw [h1, h2] at hstep; exact absurd hstep (by simp [RelStep])

/-- results that report the same threshold and the same rounds (or fail in the same way) -/
def RelResult : Outcome STVResult → Outcome STVResult → Prop
  | .ok a, .ok b => a.threshold = b.threshold ∧ a.states = b.states
  | .raised e, .raised e' => e = e'
  | .oracleMismatch, .oracleMismatch => True
  | .outOfFuel, .outOfFuel => True
  | _, _ => False

theorem total_eq_lsum (p : Profile) : p.total = lsum (fun _ => 1) (stvInitState p).bs := by
  unfold Profile.total totalWeight lsum stvInitState
  simp [List.map_map, Function.comp_def]

/-- the run-level relation follows from the loop-level relation on the initial states -/
theorem stv_invariant_of_loop (cfg : STVCfg) (p p' : Profile) (ω : STVOracle)
    (hc : p.cands = p'.cands)
    (hloopAll : firstPlaceVotes p = firstPlaceVotes p' →
      RelTrace (stvLoop cfg p (threshold cfg.quota cfg.m p.total) ω (p.cands.length + 2) (stvInitState p)
          (initialState p.cands (some (tallies (stvInitState p').bs p'.cands)))
          [(initialState p.cands (some (tallies (stvInitState p').bs p'.cands)), stvInitState p)])
        (stvLoop cfg p' (threshold cfg.quota cfg.m p.total) ω (p.cands.length + 2) (stvInitState p')
          (initialState p.cands (some (tallies (stvInitState p').bs p'.cands)))
          [(initialState p.cands (some (tallies (stvInitState p').bs p'.cands)), stvInitState p')]))
    (hle : LinEq (stvInitState p).bs (stvInitState p').bs)
    (hne : ∀ b ∈ p.ballots, b.ranking ≠ []) (hsingle : ∀ b ∈ p.ballots, ∀ s ∈ b.ranking, s.length = 1)
    (hcast : ∀ b ∈ p.ballots, ∀ c ∈ b.ranking.flatten, c ∈ p.cands)
    (hne' : ∀ b ∈ p'.ballots, b.ranking ≠ []) (hsingle' : ∀ b ∈ p'.ballots, ∀ s ∈ b.ranking, s.length = 1)
    (hcast' : ∀ b ∈ p'.ballots, ∀ c ∈ b.ranking.flatten, c ∈ p'.cands) :
    RelResult (stvRun cfg p ω) (stvRun cfg p' ω) := by
  have hf := fpv_link p hne hsingle hcast
  have hf' := fpv_link p' hne' hsingle' hcast'
  have hsc : tallies (stvInitState p).bs p.cands = tallies (stvInitState p').bs p'.cands := by
    rw [← hc]; exact hle.tallies p.cands
  have hinit : firstPlaceVotes p = firstPlaceVotes p' := by rw [hf, hf', hsc]
  have htot : p.total = p'.total := by rw [total_eq_lsum, total_eq_lsum]; exact hle _
  have hv : stvValidProfile p = true := by
    unfold stvValidProfile
    rw [List.all_eq_true]
    intro b hb
    simp only [Bool.and_eq_true, Bool.not_eq_true', List.isEmpty_eq_false_iff, List.all_eq_true, decide_eq_true_eq]
    exact ⟨hne b hb, fun s hs => le_of_eq (hsingle b hb s hs)⟩
  have hv' : stvValidProfile p' = true := by
    unfold stvValidProfile
    rw [List.all_eq_true]
    intro b hb
    simp only [Bool.and_eq_true, Bool.not_eq_true', List.isEmpty_eq_false_iff, List.all_eq_true, decide_eq_true_eq]
    exact ⟨hne' b hb, fun s hs => le_of_eq (hsingle' b hb s hs)⟩
  unfold stvRun
  simp only [hv, hv', Bool.not_true, Bool.false_eq_true, if_false, ← hc]
  split
  · simp [RelResult]
  · simp only [hf, hf', bind, Outcome.bind, ← htot, hsc]
    have hloop := hloopAll hinit
    rw [← hc] at hloop ⊢
    cases h1 : stvLoop cfg p (threshold cfg.quota cfg.m p.total) ω (p.cands.length + 2) (stvInitState p)
        (initialState p.cands (some (tallies (stvInitState p').bs p.cands)))
        [(initialState p.cands (some (tallies (stvInitState p').bs p.cands)), stvInitState p)] with
    | ok a =>
      cases h2 : stvLoop cfg p' (threshold cfg.quota cfg.m p.total) ω (p.cands.length + 2) (stvInitState p')
          (initialState p.cands (some (tallies (stvInitState p').bs p.cands)))
          [(initialState p.cands (some (tallies (stvInitState p').bs p.cands)), stvInitState p')] with
      | ok b =>
        rw [h1, h2] at hloop
        simp only [pure, RelResult, STVResult.states]
        first
          | exact ⟨rfl, hloop⟩
          | exact ⟨trivial, hloop⟩
          | exact hloop
      | raised e => rw [h1, h2] at hloop; exact absurd hloop (by simp [RelTrace])
      | oracleMismatch => rw [h1, h2] at hloop; exact absurd hloop (by simp [RelTrace])
      | outOfFuel => rw [h1, h2] at hloop; exact absurd hloop (by simp [RelTrace])
    | raised e =>
      cases h2 : stvLoop cfg p' (threshold cfg.quota cfg.m p.total) ω (p.cands.length + 2) (stvInitState p')
          (initialState p.cands (some (tallies (stvInitState p').bs p.cands)))
          [(initialState p.cands (some (tallies (stvInitState p').bs p.cands)), stvInitState p')] with
      | raised e' => rw [h1, h2] at hloop; simpa [RelResult, RelTrace] using hloop
      | ok b => rw [h1, h2] at hloop; exact absurd hloop (by simp [RelTrace])
      | oracleMismatch => rw [h1, h2] at hloop; exact absurd hloop (by simp [RelTrace])
      | outOfFuel => rw [h1, h2] at hloop; exact absurd hloop (by simp [RelTrace])
    | oracleMismatch =>
      cases h2 : stvLoop cfg p' (threshold cfg.quota cfg.m p.total) ω (p.cands.length + 2) (stvInitState p')
          (initialState p.cands (some (tallies (stvInitState p').bs p.cands)))
          [(initialState p.cands (some (tallies (stvInitState p').bs p.cands)), stvInitState p')] with
      | oracleMismatch => simp [RelResult]
      | ok b => rw [h1, h2] at hloop; exact absurd hloop (by simp [RelTrace])
      | raised e => rw [h1, h2] at hloop; exact absurd hloop (by simp [RelTrace])
      | outOfFuel => rw [h1, h2] at hloop; exact absurd hloop (by simp [RelTrace])
    | outOfFuel =>
      cases h2 : stvLoop cfg p' (threshold cfg.quota cfg.m p.total) ω (p.cands.length + 2) (stvInitState p')
          (initialState p.cands (some (tallies (stvInitState p').bs p.cands)))
          [(initialState p.cands (some (tallies (stvInitState p').bs p.cands)), stvInitState p')] with
      | outOfFuel => simp [RelResult]
      | ok b => rw [h1, h2] at hloop; exact absurd hloop (by simp [RelTrace])
      | raised e => rw [h1, h2] at hloop; exact absurd hloop (by simp [RelTrace])
      | oracleMismatch => rw [h1, h2] at hloop; exact absurd hloop (by simp [RelTrace])

/-- **C08 for the STV family (anonymity and representation independence).** Two profiles of untied
ranked ballots over the same candidates that give every ranking the same total weight — one is a
reordering of the other's ballots, or splits a ballot into identical ballots whose weights add up, or
merges identical ballots — have, under the same tiebreak oracle, the same threshold and exactly the
same rounds (elected, eliminated, remaining groups, tallies, recorded tiebreaks), or fail in the
same way. Holds for the fractional and the full-weight transfer, for simultaneous election with
any tiebreak and for one-by-one election with tiebreak `None` or `random`. -/
theorem C08_stv_representation_invariant (cfg : STVCfg) (p p' : Profile) (ω : STVOracle)
    (hnr : cfg.transfer ≠ .random) (hcfg : ProfileFreeChoice cfg) (hc : p.cands = p'.cands)
    (hle : LinEq (stvInitState p).bs (stvInitState p').bs)
    (hne : ∀ b ∈ p.ballots, b.ranking ≠ []) (hsingle : ∀ b ∈ p.ballots, ∀ s ∈ b.ranking, s.length = 1)
    (hcast : ∀ b ∈ p.ballots, ∀ c ∈ b.ranking.flatten, c ∈ p.cands)
    (hne' : ∀ b ∈ p'.ballots, b.ranking ≠ []) (hsingle' : ∀ b ∈ p'.ballots, ∀ s ∈ b.ranking, s.length = 1)
    (hcast' : ∀ b ∈ p'.ballots, ∀ c ∈ b.ranking.flatten, c ∈ p'.cands) :
    RelResult (stvRun cfg p ω) (stvRun cfg p' ω) := by
  refine stv_invariant_of_loop cfg p p' ω hc ?_ hle hne hsingle hcast hne' hsingle' hcast'
  intro hinit
  have hS0 : SameCount (stvInitState p) (stvInitState p') := ⟨by simp [stvInitState, hc], rfl, hle⟩
  exact stvLoop_lineq cfg p p' (threshold cfg.quota cfg.m p.total) ω hnr hcfg hinit (p.cands.length + 2)
    (stvInitState p) (stvInitState p') _ _ _ hS0 (by simp)

/-- reordering the ballots is a special case -/
theorem C08_stv_ballot_order (p : Profile) (bs' : List Ballot) (h : p.ballots.Perm bs') :
    LinEq (stvInitState p).bs (stvInitState { p with ballots := bs' }).bs := by
  unfold stvInitState
  exact LinEq.of_perm (h.map _)

/-- splitting one ballot into two identical ballots whose weights add up is a special case -/
theorem C08_stv_ballot_split (cands : List Cand) (r : Ranking) (w1 w2 : Rat) (rest : List Ballot) :
    LinEq (stvInitState { ballots := { ranking := r, weight := w1 + w2, scores := [] } :: rest, cands := cands }).bs
      (stvInitState { ballots := { ranking := r, weight := w1, scores := [] } ::
        { ranking := r, weight := w2, scores := [] } :: rest, cands := cands }).bs := by
  unfold stvInitState
  simp only [List.map_cons]
  exact LinEq.of_split _ _ _ _


end VK
