/-
  VK.Props.C08RepAlaska — C08, ballot representation for the STV family stated with `RepEq` (a bridge to the
  `LinEq` theorems) and for Alaska (fractional transfer, Droop quota, every mode and tiebreak): equivalent
  representations of a profile of untied ranked ballots over declared candidates give the same rounds.
-/
import VK.Props.C08Rep
import VK.Props.C08Scored
namespace VK

/-- untied ranked ballots over the declared candidates, no score dictionaries -/
def RankedWF (cands : List Cand) (bs : List Ballot) : Prop :=
  ∀ b ∈ bs, b.ranking ≠ [] ∧ (∀ s ∈ b.ranking, s.length = 1) ∧ (∀ x ∈ b.ranking.flatten, x ∈ cands) ∧ b.scores = []

theorem rankedWF_of_same {cands : List Cand} {a b : List Ballot} (h : ∀ k, HasContent a k ↔ HasContent b k)
    (ha : RankedWF cands a) : RankedWF cands b := by
  intro x hx
  obtain ⟨y, hy, e⟩ := (h x.content).mpr ⟨x, hx, rfl⟩
  have hr : y.ranking = x.ranking := congrArg Prod.fst e
  have hs : y.scores = x.scores := congrArg Prod.snd e
  have := ha y hy
  rw [hr, hs] at this
  exact this

theorem linEq_of_repEq (cands : List Cand) (a b : List Ballot) (h : RepEq a b) :
    LinEq (stvInitState { ballots := a, cands := cands }).bs (stvInitState { ballots := b, cands := cands }).bs := by
  intro f
  have := h.lin (fun k => f k.1.flatten)
  unfold bsum at this
  unfold lsum stvInitState
  simp only [List.map_map, Function.comp_def]
  exact this

theorem totalWeight_nonneg (a : List Ballot) (hp : PosW a) : 0 ≤ totalWeight a := by
  unfold totalWeight
  apply rsum_nonneg
  intro x hx
  obtain ⟨b, hb, rfl⟩ := List.mem_map.mp hx
  exact le_of_lt (hp b hb)

theorem droop_threshold_pos (m : Nat) (N : Rat) (hN : 0 ≤ N) : 0 < threshold .droop m N := by
  unfold threshold
  have h1 : (1 : Rat) ≤ N / ((m : Rat) + 1) + 1 := by
    have : 0 ≤ N / ((m : Rat) + 1) := div_nonneg hN (by positivity)
    linarith
  have : (1 : Int) ≤ (N / ((m : Rat) + 1) + 1).floor := by
    rw [Rat.le_floor_iff]; exact_mod_cast h1
  show 0 < (N / ((m : Rat) + 1) + 1).floor
  omega

/-- **C08 (ballot representation, STV family, fractional transfer, Droop quota) in terms of `RepEq`.** -/
theorem C08_stv_rep (cfg : STVCfg) (hf : cfg.transfer = .fractional) (hq : cfg.quota = .droop)
    (cands : List Cand) (hcn : cands.Nodup) (a b : List Ballot) (h : RepEq a b) (hwf : RankedWF cands a)
    (ω : STVOracle) :
    RelResult (stvRun cfg { ballots := a, cands := cands } ω) (stvRun cfg { ballots := b, cands := cands } ω) := by
  have hwf' : RankedWF cands b := rankedWF_of_same h.same hwf
  refine C08_stv_representation_invariant_fractional cfg _ _ ω hf rfl hcn ?_ (linEq_of_repEq cands a b h)
    h.pos h.pos' (fun x hx => (hwf x hx).1) (fun x hx => (hwf x hx).2.1) (fun x hx => (hwf x hx).2.2.1)
    (fun x hx => (hwf' x hx).1) (fun x hx => (hwf' x hx).2.1) (fun x hx => (hwf' x hx).2.2.1)
  rw [hq]
  exact droop_threshold_pos _ _ (totalWeight_nonneg a h.pos)

/-! ### what `remove_cand` leaves of a well-formed ranked profile -/

theorem scrubRanking_singletons (e : List Cand) (r : Ranking) (h : ∀ s ∈ r, s.length = 1) :
    ∀ s ∈ scrubRanking e r, s.length = 1 := by
  intro s hs
  unfold scrubRanking at hs
  obtain ⟨hs1, hs2⟩ := List.mem_filter.mp hs
  obtain ⟨s0, hs0, rfl⟩ := List.mem_map.mp hs1
  have hl := h s0 hs0
  match s0, hl with
  | [x], _ =>
    by_cases hx : e.contains x = true
    · have : [x].filter (fun c => !e.contains c) = [] := by
        simp only [List.filter_cons, hx, Bool.not_true, Bool.false_eq_true, if_false, List.filter_nil]
      rw [this] at hs2; simp at hs2
    · have : [x].filter (fun c => !e.contains c) = [x] := by
        have hx' : e.contains x = false := by simpa using hx
        simp only [List.filter_cons, hx', Bool.not_false, if_true, List.filter_nil]
      rw [this]; rfl

theorem scrubRanking_mem (e : List Cand) (r : Ranking) (x : Cand) (hx : x ∈ (scrubRanking e r).flatten) :
    x ∈ r.flatten ∧ e.contains x = false := by
  unfold scrubRanking at hx
  obtain ⟨s, hs, hxs⟩ := List.mem_flatten.mp hx
  obtain ⟨hs1, _⟩ := List.mem_filter.mp hs
  obtain ⟨s0, hs0, rfl⟩ := List.mem_map.mp hs1
  obtain ⟨hx0, hp⟩ := List.mem_filter.mp hxs
  exact ⟨List.mem_flatten.mpr ⟨s0, hs0, hx0⟩, by simpa using hp⟩

theorem rankedWF_removeCand (cands e : List Cand) (a : List Ballot) (hp : PosW a) (hwf : RankedWF cands a) :
    RankedWF (cands.filter (fun c => !e.contains c)) (removeCandBallots e a true false) := by
  rw [removeCandBallots_eq]
  intro x hx
  -- the content of a condensed ballot is the content of a kept ballot, which is a scrubbed input ballot
  have hc : HasContent (kept e a) x.content := (hasContent_condense _ _).mp ⟨x, hx, rfl⟩
  obtain ⟨k, ⟨y, hy, hyk⟩, hex, hsc⟩ := (hasContent_kept e a hp x.content).mp hc
  have hy' := hwf y hy
  have hr : x.ranking = scrubRanking e y.ranking := by
    have := congrArg Prod.fst hsc; rw [← hyk] at this; exact this.symm
  have hs : x.scores = scrubScores e y.scores := by
    have := congrArg Prod.snd hsc; rw [← hyk] at this; exact this.symm
  have hs0 : x.scores = [] := by rw [hs, hy'.2.2.2]; rfl
  refine ⟨?_, ?_, ?_, hs0⟩
  · intro e0
    rw [← hyk] at hex
    unfold exhaustedC at hex
    simp only [Ballot.content] at hex
    rw [← hr, ← hs, e0, hs0] at hex
    simp at hex
  · rw [hr]; exact scrubRanking_singletons e y.ranking hy'.2.1
  · intro c hc
    rw [hr] at hc
    obtain ⟨h1, h2⟩ := scrubRanking_mem e y.ranking c hc
    exact List.mem_filter.mpr ⟨hy'.2.2.1 c h1, by rw [h2]; rfl⟩

/-- **C08 (ballot representation, Alaska: fractional transfer, Droop quota, every mode and tiebreak).** -/
theorem C08_alaska_rep (cands : List Cand) (hcn : cands.Nodup) (a b : List Ballot) (h : RepEq a b)
    (hwf : RankedWF cands a) (m1 m2 : Int) (cfg : STVCfg) (hf : cfg.transfer = .fractional) (hq : cfg.quota = .droop)
    (ω : STVOracle) :
    alaskaRun { ballots := a, cands := cands } m1 m2 cfg ω = alaskaRun { ballots := b, cands := cands } m1 m2 cfg ω := by
  unfold alaskaRun
  rw [rankingValid_rep cands a b h]
  split
  · rfl
  · split
    · rfl
    · simp only []
      have hfs := finalistStage_rep cands a b h m1.toNat cfg.tiebreak (ω.pri 1)
      cases hA : finalistStage { ballots := a, cands := cands } m1.toNat cfg.tiebreak (ω.pri 1) with
      | ok x =>
        cases hB : finalistStage { ballots := b, cands := cands } m1.toNat cfg.tiebreak (ω.pri 1) with
        | ok y =>
          obtain ⟨xs0, xs1, xp⟩ := x
          obtain ⟨ys0, ys1, yp⟩ := y
          have h1 := hfs.1
          rw [hA, hB] at h1
          simp only [Outcome.map_ok, Outcome.ok.injEq, Prod.mk.injEq] at h1
          obtain ⟨e0, e1, _⟩ := h1
          simp only [Outcome.bind_ok]
          -- the two finalists' profiles
          have hxa : xp = removeCand xs1.eliminated.flatten { ballots := a, cands := cands } := by
            unfold finalistStage at hA
            cases h0 : firstPlaceVotes { ballots := a, cands := cands } with
            | ok sc0 =>
              rw [h0] at hA; simp only [Outcome.bind_ok] at hA
              cases h1 : pluralityRun { ballots := a, cands := cands } m1.toNat cfg.tiebreak (ω.pri 1) with
              | ok pl =>
                rw [h1] at hA; simp only [Outcome.bind_ok] at hA
                match pl, hA with
                | [s0, s1], hA =>
                  simp only [] at hA
                  cases h2 : firstPlaceVotes (removeCand s1.remaining.flatten { ballots := a, cands := cands }) with
                  | ok sc1 =>
                    rw [h2] at hA
                    simp only [Outcome.bind_ok, Outcome.pure_eq, Outcome.ok.injEq, Prod.mk.injEq] at hA
                    obtain ⟨_, e1', e2'⟩ := hA
                    rw [← e1', ← e2']
                  | raised e => rw [h2] at hA; simp at hA
                  | oracleMismatch => rw [h2] at hA; simp at hA
                  | outOfFuel => rw [h2] at hA; simp at hA
              | raised e => rw [h1] at hA; simp at hA
              | oracleMismatch => rw [h1] at hA; simp at hA
              | outOfFuel => rw [h1] at hA; simp at hA
            | raised e => rw [h0] at hA; simp at hA
            | oracleMismatch => rw [h0] at hA; simp at hA
            | outOfFuel => rw [h0] at hA; simp at hA
          have hyb : yp = removeCand ys1.eliminated.flatten { ballots := b, cands := cands } := by
            unfold finalistStage at hB
            cases h0 : firstPlaceVotes { ballots := b, cands := cands } with
            | ok sc0 =>
              rw [h0] at hB; simp only [Outcome.bind_ok] at hB
              cases h1 : pluralityRun { ballots := b, cands := cands } m1.toNat cfg.tiebreak (ω.pri 1) with
              | ok pl =>
                rw [h1] at hB; simp only [Outcome.bind_ok] at hB
                match pl, hB with
                | [s0, s1], hB =>
                  simp only [] at hB
                  cases h2 : firstPlaceVotes (removeCand s1.remaining.flatten { ballots := b, cands := cands }) with
                  | ok sc1 =>
                    rw [h2] at hB
                    simp only [Outcome.bind_ok, Outcome.pure_eq, Outcome.ok.injEq, Prod.mk.injEq] at hB
                    obtain ⟨_, e1', e2'⟩ := hB
                    rw [← e1', ← e2']
                  | raised e => rw [h2] at hB; simp at hB
                  | oracleMismatch => rw [h2] at hB; simp at hB
                  | outOfFuel => rw [h2] at hB; simp at hB
              | raised e => rw [h1] at hB; simp at hB
              | oracleMismatch => rw [h1] at hB; simp at hB
              | outOfFuel => rw [h1] at hB; simp at hB
            | raised e => rw [h0] at hB; simp at hB
            | oracleMismatch => rw [h0] at hB; simp at hB
            | outOfFuel => rw [h0] at hB; simp at hB
          rw [← e1] at hyb
          set el := xs1.eliminated.flatten with hel
          have hrep : RepEq (removeCandBallots el a true false) (removeCandBallots el b true false) := h.removeCand el
          have hwf1 := rankedWF_removeCand cands el a h.pos hwf
          have hcn1 : (cands.filter (fun c => !el.contains c)).Nodup := hcn.filter _
          have hcfg : ({ cfg with m := m2.toNat } : STVCfg).transfer = .fractional := hf
          have hcq : ({ cfg with m := m2.toNat } : STVCfg).quota = .droop := hq
          have hrel := C08_stv_rep { cfg with m := m2.toNat } hcfg hcq _ hcn1 _ _ hrep hwf1
            { pri := fun r => ω.pri (r + 1), sample := fun r => ω.sample (r + 1) }
          have hxp : xp = { ballots := removeCandBallots el a true false, cands := cands.filter (fun c => !el.contains c) } := by
            rw [hxa]; rfl
          have hyp : yp = { ballots := removeCandBallots el b true false, cands := cands.filter (fun c => !el.contains c) } := by
            rw [hyb]; rfl
          rw [hxp, hyp, e0, e1]
          cases hsa : stvRun { cfg with m := m2.toNat }
              { ballots := removeCandBallots el a true false, cands := cands.filter (fun c => !el.contains c) }
              { pri := fun r => ω.pri (r + 1), sample := fun r => ω.sample (r + 1) } with
          | ok ra =>
            rw [hsa] at hrel
            cases hsb : stvRun { cfg with m := m2.toNat }
                { ballots := removeCandBallots el b true false, cands := cands.filter (fun c => !el.contains c) }
                { pri := fun r => ω.pri (r + 1), sample := fun r => ω.sample (r + 1) } with
            | ok rb =>
              rw [hsb] at hrel
              simp only [RelResult] at hrel
              simp only [Outcome.bind_ok, Outcome.pure_eq, hrel.2]
            | raised e => rw [hsb] at hrel; exact absurd hrel (by simp [RelResult])
            | oracleMismatch => rw [hsb] at hrel; exact absurd hrel (by simp [RelResult])
            | outOfFuel => rw [hsb] at hrel; exact absurd hrel (by simp [RelResult])
          | raised e =>
            rw [hsa] at hrel
            cases hsb : stvRun { cfg with m := m2.toNat }
                { ballots := removeCandBallots el b true false, cands := cands.filter (fun c => !el.contains c) }
                { pri := fun r => ω.pri (r + 1), sample := fun r => ω.sample (r + 1) } with
            | ok rb => rw [hsb] at hrel; exact absurd hrel (by simp [RelResult])
            | raised e' => rw [hsb] at hrel; simp only [RelResult] at hrel; rw [hrel]
            | oracleMismatch => rw [hsb] at hrel; exact absurd hrel (by simp [RelResult])
            | outOfFuel => rw [hsb] at hrel; exact absurd hrel (by simp [RelResult])
          | oracleMismatch =>
            rw [hsa] at hrel
            cases hsb : stvRun { cfg with m := m2.toNat }
                { ballots := removeCandBallots el b true false, cands := cands.filter (fun c => !el.contains c) }
                { pri := fun r => ω.pri (r + 1), sample := fun r => ω.sample (r + 1) } with
            | ok rb => rw [hsb] at hrel; exact absurd hrel (by simp [RelResult])
            | raised e' => rw [hsb] at hrel; exact absurd hrel (by simp [RelResult])
            | oracleMismatch => rfl
            | outOfFuel => rw [hsb] at hrel; exact absurd hrel (by simp [RelResult])
          | outOfFuel =>
            rw [hsa] at hrel
            cases hsb : stvRun { cfg with m := m2.toNat }
                { ballots := removeCandBallots el b true false, cands := cands.filter (fun c => !el.contains c) }
                { pri := fun r => ω.pri (r + 1), sample := fun r => ω.sample (r + 1) } with
            | ok rb => rw [hsb] at hrel; exact absurd hrel (by simp [RelResult])
            | raised e' => rw [hsb] at hrel; exact absurd hrel (by simp [RelResult])
            | oracleMismatch => rw [hsb] at hrel; exact absurd hrel (by simp [RelResult])
            | outOfFuel => rfl
        | raised e => have h1 := hfs.1; rw [hA, hB] at h1; cases h1
        | oracleMismatch => have h1 := hfs.1; rw [hA, hB] at h1; cases h1
        | outOfFuel => have h1 := hfs.1; rw [hA, hB] at h1; cases h1
      | raised e =>
        have h1 := hfs.1; rw [hA] at h1
        cases hB : finalistStage { ballots := b, cands := cands } m1.toNat cfg.tiebreak (ω.pri 1) with
        | ok y => rw [hB] at h1; cases h1
        | raised e' => rw [hB] at h1; simp only [Outcome.map_raised] at h1; injection h1 with h1; subst h1; rfl
        | oracleMismatch => rw [hB] at h1; cases h1
        | outOfFuel => rw [hB] at h1; cases h1
      | oracleMismatch =>
        have h1 := hfs.1; rw [hA] at h1
        cases hB : finalistStage { ballots := b, cands := cands } m1.toNat cfg.tiebreak (ω.pri 1) with
        | ok y => rw [hB] at h1; cases h1
        | raised e' => rw [hB] at h1; cases h1
        | oracleMismatch => rfl
        | outOfFuel => rw [hB] at h1; cases h1
      | outOfFuel =>
        have h1 := hfs.1; rw [hA] at h1
        cases hB : finalistStage { ballots := b, cands := cands } m1.toNat cfg.tiebreak (ω.pri 1) with
        | ok y => rw [hB] at h1; cases h1
        | raised e' => rw [hB] at h1; cases h1
        | oracleMismatch => rw [hB] at h1; cases h1
        | outOfFuel => rfl

end VK
