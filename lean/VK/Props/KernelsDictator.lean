/-
  VK.Props.KernelsDictator — BoostedRandomDictator's kernels regenerated from /repo's current source equal the
  model's (C17).
-/
import VK.Model.Generated.Dictator
import VK.Model.Rules
import Mathlib.Algebra.Order.Field.Rat
import Mathlib.Tactic.Ring

namespace VK

/-- the source's branch threshold of BoostedRandomDictator is the probability the model's law uses -/
theorem kernel_boosted_branch (n : Nat) : Generated.boostedBranch n = 1 / ((n : Rat) - 1) := by
  unfold Generated.boostedBranch
  first
    | rfl
    | ring
    | (simp; ring)


/-- the source's comparison `u <= 1/(c-1)` is the test of the model's `boostedPick` -/
theorem kernel_boosted_takes_squares (u : Rat) (n : Nat) :
    Generated.boostedTakesSquares u n = decide (u ≤ 1 / ((n : Rat) - 1)) := by
  unfold Generated.boostedTakesSquares
  first
    | rfl
    | simp

/-- the source's single-candidate test is `n = 1` (the model matches the candidate list against `[c]`) -/
theorem kernel_boosted_single (n : Nat) : Generated.boostedSingle n = decide (n = 1) := by
  unfold Generated.boostedSingle
  rw [Bool.eq_iff_iff]
  simp only [decide_eq_true_eq]
  constructor
  · intro h; exact_mod_cast h
  · intro h; exact_mod_cast h

end VK
